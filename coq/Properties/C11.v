(** C11 — resident cache entries never exceed the configured size.
    Only statements; every proof is [exact] of a lemma from Proofs/. *)
From Coq Require Import List Arith Bool NArith ZArith Lia.
From Pike Require Import Model.LRU Model.Dispatcher Proofs.LRUProofs Proofs.DispatcherProofs.
From Pike Require Proofs.LRUSpec.
Import ListNotations.

(** For every key type, every hash function, every configured size, every
    sequence of lookups and removals: the number of resident keys never exceeds
    the effective size (the configured size S when S >= 1). *)
Theorem C11_resident_bound :
  forall (K : Type) (keqb : K -> K -> bool),
    (forall a b, keqb a b = true <-> a = b) ->
  forall (hash : K -> N) (c : dconsts), consts_ok c ->
  forall (S : Z) (ops : list (@dop K)),
    (Z.of_nat (resident (drun keqb hash (new_dispatcher c S) ops)) <= eff_size c S)%Z.
Proof. intros K keqb Hk hash c Hc S ops. exact (resident_bound keqb Hk hash c S ops Hc). Qed.
Print Assumptions C11_resident_bound.

Theorem C11_effective_size : forall c S, (1 <= S)%Z -> eff_size c S = S.
Proof. intros c S H. unfold eff_size. destruct (Z.leb_spec S 0); [lia | reflexivity]. Qed.
Print Assumptions C11_effective_size.

(** When space is needed the least recently used key of the shard is the one
    dropped: a miss on a full shard removes exactly the back of the list ... *)
Theorem C11_full_shard_drops_back :
  forall (K V : Type) (keqb : K -> K -> bool), (forall a b, keqb a b = true <-> a = b) ->
  forall max k (v : V) l, 1 <= max -> find keqb k l = None -> length l = max ->
    add keqb max k v l = (k, v) :: removelast l.
Proof. intros K V keqb Hk. exact (add_full_drops_last keqb). Qed.
Print Assumptions C11_full_shard_drops_back.

(** ... and the list is ordered by last access (it is a sub-sequence of the
    independently defined recency order of the op history), so the back is the
    least recently used of the resident keys; no key is listed twice. *)
Theorem C11_shard_ordered_by_recency :
  forall (K V : Type) (keqb : K -> K -> bool), (forall a b, keqb a b = true <-> a = b) ->
  forall max (ops : list (@sop K V)),
    let l := fold_left (shard_step keqb max) ops [] in
    NoDup (keys l) /\ subseq (keys l) (fold_left (recency_step keqb) ops []).
Proof. intros K V keqb Hk. exact (shard_recency_order keqb Hk). Qed.
Print Assumptions C11_shard_ordered_by_recency.

(** Refinement to the simplest specification of an LRU with capacity [max]
    (0 = unlimited) — "touch k: put k in front, keep the first max; del k: drop
    k" —: over every history the shard's keys, in order, ARE the
    specification's list; so the key dropped by a full shard is exactly the
    least recently used one, and a lookup finds its key iff the specification
    lists it.  (This is the specification the recency monitor of
    Corr/C11Corr.v evaluates on the implementation's observations.) *)
Theorem C11_shard_refines_recency_spec :
  forall (K V : Type) (keqb : K -> K -> bool), (forall a b, keqb a b = true <-> a = b) ->
  forall max (ops : list (@sop K V)),
    keys (fold_left (shard_step keqb max) ops []) = fold_left (Pike.Proofs.LRUSpec.spec_step keqb max) ops [].
Proof. intros K V keqb Hk. exact (Pike.Proofs.LRUSpec.shard_refines_spec keqb Hk). Qed.
Print Assumptions C11_shard_refines_recency_spec.

Theorem C11_resident_iff_spec :
  forall (K V : Type) (keqb : K -> K -> bool), (forall a b, keqb a b = true <-> a = b) ->
  forall max (ops : list (@sop K V)) k,
    (exists v, find keqb k (fold_left (shard_step keqb max) ops []) = Some v)
    <-> In k (fold_left (Pike.Proofs.LRUSpec.spec_step keqb max) ops []).
Proof. intros K V keqb Hk. exact (Pike.Proofs.LRUSpec.resident_iff_spec keqb Hk). Qed.
Print Assumptions C11_resident_iff_spec.

(** A key that is not resident (never seen, dropped or removed) gets a fresh
    entry on next use (status unknown: fetched or reloaded from the store),
    while a resident key gets its existing entry. *)
Theorem C11_lookup_fresh_iff_not_resident :
  forall (K : Type) (keqb : K -> K -> bool), (forall a b, keqb a b = true <-> a = b) ->
  forall (hash : K -> N) d k, DInv hash d ->
    let '(id, hit, d') := get_http_cache keqb hash d k in
    In (id, k) (created d') /\
    (hit = true <-> In k (keys (nth (shard_index hash d k) (shards d) []))).
Proof. intros K keqb Hk hash d k I. exact (get_returns_own keqb Hk hash d k I). Qed.
Print Assumptions C11_lookup_fresh_iff_not_resident.

(** The arithmetic of the pinned commit (no floor of one slot per shard) is
    refuted: size 1, two keys — both stay resident. *)
Theorem C11_legacy_refuted :
  exists (S : Z) (ops : list (@dop N)),
    (1 <= S)%Z /\
    (Z.of_nat (resident (drun N.eqb (fun k => k) (new_dispatcher_legacy pike_dconsts S) ops)) > S)%Z.
Proof. exists 1%Z, [DGet 0%N; DGet 1%N]. split; [lia | vm_compute; reflexivity]. Qed.
Print Assumptions C11_legacy_refuted.

(** Non-vacuity: the constants of the source satisfy the side condition, and a
    size-9 cache with ten keys in one shard really evicts. *)
Example C11_consts_ok : consts_ok pike_dconsts.
Proof. unfold consts_ok; simpl; lia. Qed.

Example C11_nonvacuous :
  resident (drun N.eqb (fun _ => 0%N) (new_dispatcher pike_dconsts 9)
              (map (@DGet N) [1;2;3;4;5;6;7;8;9;10]%N)) = 1.
Proof. vm_compute. reflexivity. Qed.
