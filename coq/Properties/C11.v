(** C11 — resident cache entries never exceed the configured size.
    Only statements; every proof is [exact] of a lemma from Proofs/. *)
From Coq Require Import List Arith Bool NArith ZArith Lia.
From Pike Require Import Model.LRU Model.Dispatcher Proofs.LRUProofs Proofs.DispatcherProofs.
From Pike Require Proofs.LRUSpec.
From Pike Require Model.Sys Model.Multi Proofs.MultiProofs.
Import ListNotations.

(** For every key type, every hash function, every configured size, every
    sequence of lookups and removals: the number of resident keys never exceeds
    the effective size (the configured size S when S >= 1). *)
Theorem C11_resident_bound :
  forall (K : Type) (keqb : K -> K -> bool),
    (forall a b, keqb a b = true <-> a = b) ->
  forall (hash : K -> N) (c : dconsts), consts_ok c ->
  forall (S : Z) (ops : list (@dop K)),
    (Z.of_nat (resident (drun keqb hash (new_dispatcher c S) ops)) <= eff_size c S)%Z.
Proof. intros K keqb Hk hash c Hc S ops. exact (resident_bound keqb Hk hash c S ops Hc). Qed.
Print Assumptions C11_resident_bound.

Theorem C11_effective_size : forall c S, (1 <= S)%Z -> eff_size c S = S.
Proof. intros c S H. unfold eff_size. destruct (Z.leb_spec S 0); [lia | reflexivity]. Qed.
Print Assumptions C11_effective_size.

(** When space is needed the least recently used key of the shard is the one
    dropped: a miss on a full shard removes exactly the back of the list ... *)
Theorem C11_full_shard_drops_back :
  forall (K V : Type) (keqb : K -> K -> bool), (forall a b, keqb a b = true <-> a = b) ->
  forall max k (v : V) l, 1 <= max -> find keqb k l = None -> length l = max ->
    add keqb max k v l = (k, v) :: removelast l.
Proof. intros K V keqb Hk. exact (add_full_drops_last keqb). Qed.
Print Assumptions C11_full_shard_drops_back.

(** ... and the list is ordered by last access (it is a sub-sequence of the
    independently defined recency order of the op history), so the back is the
    least recently used of the resident keys; no key is listed twice. *)
Theorem C11_shard_ordered_by_recency :
  forall (K V : Type) (keqb : K -> K -> bool), (forall a b, keqb a b = true <-> a = b) ->
  forall max (ops : list (@sop K V)),
    let l := fold_left (shard_step keqb max) ops [] in
    NoDup (keys l) /\ subseq (keys l) (fold_left (recency_step keqb) ops []).
Proof. intros K V keqb Hk. exact (shard_recency_order keqb Hk). Qed.
Print Assumptions C11_shard_ordered_by_recency.

(** Refinement to the simplest specification of an LRU with capacity [max]
    (0 = unlimited) — "touch k: put k in front, keep the first max; del k: drop
    k" —: over every history the shard's keys, in order, ARE the
    specification's list; so the key dropped by a full shard is exactly the
    least recently used one, and a lookup finds its key iff the specification
    lists it.  (This is the specification the recency monitor of
    Corr/C11Corr.v evaluates on the implementation's observations.) *)
Theorem C11_shard_refines_recency_spec :
  forall (K V : Type) (keqb : K -> K -> bool), (forall a b, keqb a b = true <-> a = b) ->
  forall max (ops : list (@sop K V)),
    keys (fold_left (shard_step keqb max) ops []) = fold_left (Pike.Proofs.LRUSpec.spec_step keqb max) ops [].
Proof. intros K V keqb Hk. exact (Pike.Proofs.LRUSpec.shard_refines_spec keqb Hk). Qed.
Print Assumptions C11_shard_refines_recency_spec.

Theorem C11_resident_iff_spec :
  forall (K V : Type) (keqb : K -> K -> bool), (forall a b, keqb a b = true <-> a = b) ->
  forall max (ops : list (@sop K V)) k,
    (exists v, find keqb k (fold_left (shard_step keqb max) ops []) = Some v)
    <-> In k (fold_left (Pike.Proofs.LRUSpec.spec_step keqb max) ops []).
Proof. intros K V keqb Hk. exact (Pike.Proofs.LRUSpec.resident_iff_spec keqb Hk). Qed.
Print Assumptions C11_resident_iff_spec.

(** A key that is not resident (never seen, dropped or removed) gets a fresh
    entry on next use (status unknown: fetched or reloaded from the store),
    while a resident key gets its existing entry. *)
Theorem C11_lookup_fresh_iff_not_resident :
  forall (K : Type) (keqb : K -> K -> bool), (forall a b, keqb a b = true <-> a = b) ->
  forall (hash : K -> N) d k, DInv hash d ->
    let '(id, hit, d') := get_http_cache keqb hash d k in
    In (id, k) (created d') /\
    (hit = true <-> In k (keys (nth (shard_index hash d k) (shards d) []))).
Proof. intros K keqb Hk hash d k I. exact (get_returns_own keqb Hk hash d k I). Qed.
Print Assumptions C11_lookup_fresh_iff_not_resident.

(** The arithmetic of the pinned commit (no floor of one slot per shard) is
    refuted: size 1, two keys — both stay resident. *)
Theorem C11_legacy_refuted :
  exists (S : Z) (ops : list (@dop N)),
    (1 <= S)%Z /\
    (Z.of_nat (resident (drun N.eqb (fun k => k) (new_dispatcher_legacy pike_dconsts S) ops)) > S)%Z.
Proof. exists 1%Z, [DGet 0%N; DGet 1%N]. split; [lia | vm_compute; reflexivity]. Qed.
Print Assumptions C11_legacy_refuted.

(** Non-vacuity: the constants of the source satisfy the side condition, and a
    size-9 cache with ten keys in one shard really evicts. *)
Example C11_consts_ok : consts_ok pike_dconsts.
Proof. unfold consts_ok; simpl; lia. Qed.

Example C11_nonvacuous :
  resident (drun N.eqb (fun _ => 0%N) (new_dispatcher pike_dconsts 9)
              (map (@DGet N) [1;2;3;4;5;6;7;8;9;10]%N)) = 1.
Proof. vm_compute. reflexivity. Qed.

(** ** the bound for the cache as a whole (Model/Multi.v: the dispatcher
    composed with one protocol state per key).  In every reachable state, for
    every schedule of requests, completions, purges, restarts, clock steps and
    store faults over all keys: a key has a resident entry exactly when the
    dispatcher holds it ... *)
Theorem C11_entry_resident_iff_held :
  forall (K : Type) (keqb : K -> K -> bool), (forall a b, keqb a b = true <-> a = b) ->
  forall (hash : K -> N) (c : dconsts), consts_ok c ->
  forall S t0 h st0 ls m, (0 <= t0)%Z ->
    Pike.Model.Multi.mrun keqb hash (Pike.Model.Multi.minit (new_dispatcher c S) t0 h st0) ls = Some m ->
  forall k, Pike.Model.Multi.live keqb m k = Pike.Model.Multi.held keqb hash m k.
Proof.
  intros K keqb Hk hash c Hc S t0 h st0 ls m Ht H k.
  exact (Pike.Proofs.MultiProofs.mi_couple keqb hash m
           (Pike.Proofs.MultiProofs.minv_reachable keqb Hk hash _ _ t0 h st0 ls m (zone_count_pos c S Hc) Ht H) k).
Qed.
Print Assumptions C11_entry_resident_iff_held.

(** ... and any set of distinct keys that all have a resident entry has at most
    "effective size" members *)
Theorem C11_resident_entries_bounded :
  forall (K : Type) (keqb : K -> K -> bool), (forall a b, keqb a b = true <-> a = b) ->
  forall (hash : K -> N) (c : dconsts), consts_ok c ->
  forall S t0 h st0 ls m ks, (0 <= t0)%Z ->
    Pike.Model.Multi.mrun keqb hash (Pike.Model.Multi.minit (new_dispatcher c S) t0 h st0) ls = Some m ->
    NoDup ks -> (forall k, In k ks -> Pike.Model.Multi.live keqb m k = true) ->
    (Z.of_nat (length ks) <= eff_size c S)%Z.
Proof.
  intros K keqb Hk hash c Hc S t0 h st0 ls m ks Ht H ND Hl.
  exact (Pike.Proofs.MultiProofs.composed_bound keqb Hk hash c S t0 h st0 ls m ks Hc Ht H ND Hl).
Qed.
Print Assumptions C11_resident_entries_bounded.

(** non-vacuity: size 8 = 8 shards of one slot; two keys of one shard, the
    second lookup evicts the first key's entry, whose fetch is still in flight *)
Example C11_composed_eviction :
  let h := fun k : N => 0%N in
  let c := {| Pike.Model.Sys.ch_outcome := Pike.Model.Sys.OFail; Pike.Model.Sys.ch_read_ok := true; Pike.Model.Sys.ch_write_ok := true |} in
  option_map (fun m => (Pike.Model.Multi.live N.eqb m 1%N, Pike.Model.Multi.live N.eqb m 2%N,
                        Pike.Model.Multi.held N.eqb h m 1%N, Pike.Model.Multi.held N.eqb h m 2%N))
    (Pike.Model.Multi.mrun N.eqb h (Pike.Model.Multi.minit (new_dispatcher pike_dconsts 8) 1000 0 false)
       [Pike.Model.Multi.MArrive 1%N false; Pike.Model.Multi.MRun 1%N 0 c; Pike.Model.Multi.MRun 1%N 0 c;
        Pike.Model.Multi.MArrive 2%N false; Pike.Model.Multi.MRun 2%N 0 c])
  = Some (false, true, false, true).
Proof. vm_compute. reflexivity. Qed.
