(** C07 — hit-for-pass: uncacheable keys bypass cache and queueing until it lapses. *)
From Coq Require Import List Arith Bool ZArith Lia.
From Pike Require Import Model.Sys Proofs.ListAux Proofs.SysInv Proofs.SysStep Proofs.SysTheorems Proofs.SysFacts Corr.SysCorr.
Import ListNotations.

(** a fetch that ends without a storable response (uncacheable, max-age <= 0,
    error, timeout, nil response, panic) marks the entry hit-for-pass until
    now + period, where the period is the configured number of seconds, or the
    default when unset / non-positive *)
Theorem C07_marks :
  forall s i c e o x,
    nth_error (ts s) i = Some (PFetched e o) -> nth_error (gens s) e = Some x -> elock x = None ->
    cacheable o = None ->
    exists s', step s (Run i c) = Some s' /\
      nth_error (gens s') e = Some (mk_entry HitForPass [] (waitq x) (resp x) (created x) (now_s s + eff_hfp s) (Some i)) /\
      nth_error (ts s') i = Some (PSending e o).
Proof. exact hfp_marks. Qed.
Print Assumptions C07_marks.

Theorem C07_period :
  forall s, ((hfp s <= 0)%Z -> eff_hfp s = 300%Z) /\ ((0 < hfp s)%Z -> eff_hfp s = hfp s).
Proof. intros s. split; [apply eff_hfp_default | apply eff_hfp_configured]. Qed.
Print Assumptions C07_period.

(** during the period every request is forwarded at once, in a single step of
    its own: the entry is not modified (no queueing behind anybody), the
    request is labelled hitForPass and contacts the upstream itself ... *)
Theorem C07_pass_immediately :
  forall s i c e x,
    nth_error (ts s) i = Some (PGet e) -> nth_error (gens s) e = Some x -> elock x = None ->
    st x = HitForPass -> (now_s s <= expired x)%Z ->
    step s (Run i c) =
      Some (add_log (set_pc (set_entry s e x) i (PFetch e LHitForPass)) (EvStart i (Some e) LHitForPass)).
Proof. exact hfp_pass. Qed.
Print Assumptions C07_pass_immediately.

(** ... and gets its own upstream answer, never a cached one *)
Theorem C07_own_answer :
  forall s i c e, nth_error (ts s) i = Some (PFetch e LHitForPass) ->
    step s (Run i c) = Some (add_log (set_pc s i (PDone (Reply LHitForPass (rid_of (ch_outcome c)) 0)))
                                     (EvReply i (Reply LHitForPass (rid_of (ch_outcome c)) 0))).
Proof. exact hfp_own_answer. Qed.
Print Assumptions C07_own_answer.

(** when the period has ended the next request probes the key as the single
    fetcher (C01 applies from there; a cacheable answer makes the entry a hit) *)
Theorem C07_lapse :
  forall s i c e x,
    nth_error (ts s) i = Some (PGet e) -> nth_error (gens s) e = Some x -> elock x = None ->
    st x = HitForPass -> (0 < expired x)%Z -> (expired x < now_s s)%Z ->
    exists s', step s (Run i c) = Some s' /\ nth_error (ts s') i = Some (PFetch e LFetching) /\
      exists x', nth_error (gens s') e = Some x' /\ st x' = Fetching.
Proof. exact hfp_lapse. Qed.
Print Assumptions C07_lapse.

(** non-vacuity / independence: three requests in the upstream at the same
    time during the period; after it one request probes and the key becomes a hit *)
Example C07_three_independent_passes :
  let c := mkch (OUncacheable 1) true true in
  let k := mkch (OCacheable 60 2) true true in
  let ls1 := [Arrive false; Run 0 c; Run 0 c; Run 0 c; Run 0 c; Run 0 c;     (* fetch ends uncacheable *)
              Arrive false; Run 1 c; Run 1 c; Arrive false; Run 2 c; Run 2 c; Arrive false; Run 3 c; Run 3 c] in
  let ls2 := [Run 1 c; Run 2 c; Run 3 c; Tick 301000;
              Arrive false; Run 4 k; Run 4 k; Run 4 k; Run 4 k; Run 4 k;
              Arrive false; Run 5 k; Run 5 k; Run 5 k] in
  option_map (fun s => map obs_of (ts s)) (run (init 1000000 0 false false) ls1)
    = Some [TDone LFetching (Some 1) 0; TUpstream LHitForPass; TUpstream LHitForPass; TUpstream LHitForPass]
  /\ option_map (fun s => map obs_of (ts s)) (run (init 1000000 0 false false) (ls1 ++ ls2))
    = Some [TDone LFetching (Some 1) 0; TDone LHitForPass (Some 1) 0; TDone LHitForPass (Some 1) 0;
            TDone LHitForPass (Some 1) 0; TDone LFetching (Some 2) 0; TDone LHit (Some 2) 0].
Proof. vm_compute. split; reflexivity. Qed.
