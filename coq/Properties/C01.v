(** C01 — single flight: one upstream fetch per cold or expired cache key.
    All statements are over the per-key small-step model (Model/Sys.v) with the
    repaired Get: arbitrary label sequences = all schedules, all upstream
    outcomes, clock behaviour (expiry at any moment, also between a waiter's
    wake-up and its resumption), purges, evictions, restarts, store faults. *)
From Coq Require Import List Arith Bool ZArith Lia.
From Pike Require Import Model.Sys Proofs.ListAux Proofs.SysInv Proofs.SysStep Proofs.SysTheorems Corr.SysCorr Corr.WakeCorr.
From Coq Require Import NArith.
From Pike Require Proofs.Lockset Proofs.Atomic Proofs.SysWake.
From Pike Require Model.Dispatcher Model.Multi Proofs.DispatcherProofs Proofs.MultiProofs.
Import ListNotations.

(** In every reachable state, for every entry of the current process life: at
    most one request is in flight to the upstream as its fetcher, and one is
    exactly when the entry's status is "fetching". *)
Theorem C01_single_flight :
  forall t0 hfp0 st0 ls s, (0 <= t0)%Z -> run (init t0 hfp0 st0 false) ls = Some s ->
  forall e x, base s <= e -> nth_error (gens s) e = Some x ->
    count (owner_on e) (ts s) <= 1 /\ (count (owner_on e) (ts s) = 1 <-> st x = Fetching).
Proof.
  intros t0 h st0 ls s Ht H e x Hb Hx.
  exact (single_flight s e x (inv_reachable t0 h st0 ls s Ht H) Hb Hx).
Qed.
Print Assumptions C01_single_flight.

(** two fetching-labelled requests in flight are never on the same entry:
    a second concurrent fetch for the key needs a new entry, i.e. an eviction,
    purge or restart during the first (the property's proviso) *)
Theorem C01_concurrent_fetchers_need_new_entry :
  forall t0 hfp0 st0 ls s, (0 <= t0)%Z -> run (init t0 hfp0 st0 false) ls = Some s ->
  forall i j e, nth_error (ts s) i = Some (PFetch e LFetching) ->
                nth_error (ts s) j = Some (PFetch e LFetching) -> i = j.
Proof.
  intros t0 h st0 ls s Ht H i j e Hi Hj.
  exact (fetchers_distinct_entries s i j e (inv_reachable t0 h st0 ls s Ht H) Hi Hj).
Qed.
Print Assumptions C01_concurrent_fetchers_need_new_entry.

(** every other request that arrives meanwhile waits: it registers behind the
    fetch, contacts nobody, and is only moved on by the completer *)
Theorem C01_arrivals_wait :
  forall t0 hfp0 st0 ls s, (0 <= t0)%Z -> run (init t0 hfp0 st0 false) ls = Some s ->
  forall i c e x0 s', nth_error (ts s) i = Some (PGet e) -> nth_error (gens s) e = Some x0 ->
    st x0 = Fetching -> step s (Run i c) = Some s' ->
    nth_error (ts s') i = Some (PRegistered e) /\ log s' = log s /\
    exists x', nth_error (gens s') e = Some x' /\ st x' = Fetching /\ waitq x' = waitq x0 ++ [i].
Proof.
  intros t0 h st0 ls s Ht H i c e x0 s' Hi Hx F Hs.
  exact (arrivals_wait s i c e x0 s' (inv_reachable t0 h st0 ls s Ht H) Hi Hx F Hs).
Qed.
Print Assumptions C01_arrivals_wait.

(** The pinned commit's Get (status and response read without the lock after
    the wake-up) is refuted: on the choreographed schedule "entry expires and
    another request re-enters between wake-up and resumption" the woken waiter
    comes back labelled fetching next to the new fetcher. *)
Theorem C01_legacy_refuted :
  let c := {| wk_waiters := 1; wk_ttl := 1; wk_delay_ms := 2100; wk_second := true; wk_main2 := TOther;
              wk_after_resume := []; wk_after_second := [] |} in
  let '(m2, a1, _) := wk_model true c in
  m2 = TUpstream LFetching /\ a1 = [TUpstream LFetching].
Proof. exact legacy_double_fetch. Qed.
Print Assumptions C01_legacy_refuted.

(** non-vacuity: a burst of one fetcher + three waiters answered from one fetch *)
Example C01_burst :
  let c := mkch (OCacheable 5 1) true true in
  let ls := [Arrive false; Run 0 c; Run 0 c;
             Arrive false; Run 1 c; Run 1 c; Run 1 c;
             Arrive false; Run 2 c; Run 2 c; Run 2 c;
             Arrive false; Run 3 c; Run 3 c; Run 3 c;
             Run 0 c; Run 0 c; Run 0 c; Run 0 c; Run 0 c; Run 0 c;
             Run 1 c; Run 1 c; Run 2 c; Run 2 c; Run 3 c; Run 3 c] in
  option_map (fun s => (map obs_of (ts s), length (filter (fun ev => match ev with EvStart _ _ _ => true | _ => false end) (log s))))
             (run (init 1000000 0 false false) ls)
  = Some ([TDone LFetching (Some 1) 0; TDone LHit (Some 1) 0; TDone LHit (Some 1) 0; TDone LHit (Some 1) 0], 1).
Proof. vm_compute. reflexivity. Qed.

(** "Every other request ... waits for that fetch": a request parked on an
    entry stays parked under every step of every thread and of the environment
    except the send of the fetcher that is completing THAT entry (a crash kills
    it); it then re-enters get() on the same entry. *)
Theorem C01_waiter_released_only_by_its_fetcher : forall s l s' i e,
  step s l = Some s' ->
  nth_error (ts s) i = Some (PWait e) ->
  nth_error (ts s') i = Some (PWait e)
  \/ (l = Crash /\ nth_error (ts s') i = Some PDead)
  \/ (exists j c o, l = Run j c /\ nth_error (ts s) j = Some (PSending e o)
                    /\ nth_error (ts s') i = Some (Pike.Proofs.SysWake.woken_pc s e)).
Proof. exact Pike.Proofs.SysWake.waiter_released_only_by_its_fetcher. Qed.
Print Assumptions C01_waiter_released_only_by_its_fetcher.

(** ** atomicity of the dispatcher's lookup-or-create section (the [PLookup]
    step of Model/Sys.v is one step): discharged per run on the skeleton of
    GetHTTPCache regenerated from the source (PerRun/C01_inst.v) through this
    theorem — on every path the shard lock is taken at most once and never
    released before the function ends *)
Theorem C01_one_section_sound : forall m l t r,
  Atomic.one_section m l = true -> Atomic.path_list l t r -> Atomic.count (Atomic.is_acq m) t <= 1 /\ Atomic.count (Atomic.is_rel m) t = 0.
Proof. exact Atomic.one_section_sound. Qed.
Print Assumptions C01_one_section_sound.

(** ** the cache as a whole (Model/Multi.v): dispatcher + one protocol state
    per key, eviction derived from the LRU instead of being an arbitrary
    environment event.  In every reachable state of the composition, whatever
    the key type, hash function, configured size and schedule over all keys,
    every key satisfies the single-flight statement above. *)
Theorem C01_single_flight_every_key :
  forall (K : Type) (keqb : K -> K -> bool), (forall a b, keqb a b = true <-> a = b) ->
  forall (hash : K -> N) (c : Pike.Model.Dispatcher.dconsts), Pike.Proofs.DispatcherProofs.consts_ok c ->
  forall S t0 h st0 ls m, (0 <= t0)%Z ->
    Pike.Model.Multi.mrun keqb hash (Pike.Model.Multi.minit (Pike.Model.Dispatcher.new_dispatcher c S) t0 h st0) ls = Some m ->
  forall k e x, let s := Pike.Model.Multi.sys_of keqb m k in
    base s <= e -> nth_error (gens s) e = Some x ->
    count (owner_on e) (ts s) <= 1 /\ (count (owner_on e) (ts s) = 1 <-> st x = Fetching).
Proof.
  intros K keqb Hk hash c Hc S t0 h st0 ls m Ht H k e x s Hb Hx.
  pose proof (Pike.Proofs.MultiProofs.minv_reachable keqb Hk hash _ _ t0 h st0 ls m
                (Pike.Proofs.DispatcherProofs.zone_count_pos c S Hc) Ht H) as I.
  exact (single_flight s e x (Pike.Proofs.MultiProofs.kreach_inv _ _ _ (Pike.Proofs.MultiProofs.mi_reach keqb hash m I k)) Hb Hx).
Qed.
Print Assumptions C01_single_flight_every_key.

(** every key's component of a reachable composed state is a reachable state
    of the per-key protocol: all per-key theorems of C01, C02, C04, C07, C10,
    C18 transfer to the composition through this projection *)
Theorem C01_composition_projects :
  forall (K : Type) (keqb : K -> K -> bool), (forall a b, keqb a b = true <-> a = b) ->
  forall (hash : K -> N) z lim t0 h st0 ls m, 0 < z -> (0 <= t0)%Z ->
    Pike.Model.Multi.mrun keqb hash (Pike.Model.Multi.minit (Pike.Model.Dispatcher.mk_disp z lim) t0 h st0) ls = Some m ->
  forall k, exists t1 lk, (0 <= t1)%Z /\ run (init t1 h st0 false) lk = Some (Pike.Model.Multi.sys_of keqb m k).
Proof.
  intros K keqb Hk hash z lim t0 h st0 ls m Hz Ht H k.
  pose proof (Pike.Proofs.MultiProofs.minv_reachable keqb Hk hash z lim t0 h st0 ls m Hz Ht H) as I.
  pose proof (Pike.Proofs.MultiProofs.mrun_hfp_store keqb hash ls _ _ H) as [Eh Es]. simpl in Eh, Es.
  pose proof (Pike.Proofs.MultiProofs.mi_reach keqb hash m I k) as R. rewrite Eh, Es in R. exact R.
Qed.
Print Assumptions C01_composition_projects.
