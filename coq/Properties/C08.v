(** C08 — persisted entries survive eviction, restart and kill — never stale or corrupt.
    [Crash] may occur anywhere in the label sequence, i.e. between any two
    micro-steps of any request (before / after the in-memory install, before /
    after the store write, between writes).  The store keeps what the last
    successful write put there (badger's transaction atomicity: trusted). *)
From Coq Require Import List Arith Bool ZArith Lia.
From Pike Require Import Model.Sys Proofs.ListAux Proofs.SysInv Proofs.SysStep Proofs.SysTheorems Proofs.SysFacts Proofs.SysProv Corr.SysCorr.
Import ListNotations.

(** what the store holds is never stale or mixed: a valid hit record was
    produced by a cacheable completion with exactly that creation time and expiry *)
Theorem C08_store_holds_only_completed_fetches :
  forall t0 hfp0 ls s, (0 <= t0)%Z -> all_honest ls -> run (init t0 hfp0 true false) ls = Some s ->
  forall rc r, store s = SRec rc -> valid_record rc = true -> sr_st rc = Hit -> sr_resp rc = Some r ->
    SysProv.installed (log s) r (sr_created rc) (sr_expired rc).
Proof.
  intros t0 h ls s Ht Hh H rc r. destruct (prov_reachable t0 h true ls s Ht Hh H) as [_ P].
  exact (pv_store _ P rc r).
Qed.
Print Assumptions C08_store_holds_only_completed_fetches.

(** after any number of evictions, purges, graceful stops and kills: a hit
    serves a response installed by a cacheable completion (possibly of an
    earlier process life) with the original creation time — so Age continues
    from the original fetch — and only up to the original expiry; otherwise
    the request refetches (C04_refetch_after_expiry) *)
Theorem C08_restored_hit_is_original_and_fresh :
  forall t0 hfp0 ls s, (0 <= t0)%Z -> all_honest ls -> run (init t0 hfp0 true false) ls = Some s ->
  forall i c e x0 s' r,
    nth_error (ts s) i = Some (PGet e) -> nth_error (gens s) e = Some x0 ->
    step s (Run i c) = Some s' -> nth_error (ts s') i = Some (PHitAge e r) ->
    exists rr cr ttl x,
      r = Some rr /\ nth_error (gens s') e = Some x /\ created x = cr /\
      SysProv.installed (log s') rr cr (cr + ttl) /\ (0 < ttl)%Z /\ (now_s s <= cr + ttl)%Z.
Proof.
  intros t0 h ls s Ht Hh H i c e x0 s' r Hi Hx Hs Hp.
  destruct (prov_reachable t0 h true ls s Ht Hh H) as [I P].
  exact (hit_is_installed_and_fresh s i c e x0 s' r I P Hi Hx Hs Hp).
Qed.
Print Assumptions C08_restored_hit_is_original_and_fresh.

(** the process always comes back: a crash is always enabled and leaves a
    state satisfying the invariant in which every later request is served
    (progress holds again) *)
Theorem C08_restart_serves :
  forall t0 hfp0 ls s, (0 <= t0)%Z -> run (init t0 hfp0 true false) ls = Some s ->
    exists s', step s Crash = Some s' /\ Inv s' /\ cur s' = None /\ store s' = store s.
Proof.
  intros t0 h ls s Ht H. eexists. split; [reflexivity|].
  split; [eapply (inv_step s Crash); [eapply inv_reachable; eauto | reflexivity] | split; reflexivity].
Qed.
Print Assumptions C08_restart_serves.

(** non-vacuity: kill between the in-memory install and the store write loses
    the record (refetch after restart); kill after it keeps it, and the
    restored hit has the original age; hit-for-pass markers are restored alike *)
Example C08_kill_points :
  let c := mkch (OCacheable 60 1) true true in
  let fetch := [Arrive false; Run 0 c; Run 0 c; Run 0 c; Run 0 c] in   (* installed in memory, store not yet written *)
  let next := [Tick 5000; Arrive false; Run 1 c; Run 1 c; Run 1 c] in
  option_map (fun s => nth_error (map obs_of (ts s)) 1) (run (init 1000000 0 true false) (fetch ++ [Crash] ++ removelast next))
    = Some (Some (TUpstream LFetching))
  /\ option_map (fun s => nth_error (map obs_of (ts s)) 1) (run (init 1000000 0 true false) (fetch ++ [Run 0 c; Crash] ++ next))
    = Some (Some (TDone LHit (Some 1) 5)).
Proof. vm_compute. split; reflexivity. Qed.

Example C08_hit_for_pass_restored :
  let c := mkch (OUncacheable 1) true true in
  let ls := [Arrive false; Run 0 c; Run 0 c; Run 0 c; Run 0 c; Run 0 c; Crash;
             Tick 5000; Arrive false; Run 1 c; Run 1 c] in
  option_map (fun s => nth_error (map obs_of (ts s)) 1) (run (init 1000000 30 true false) ls)
  = Some (Some (TUpstream LHitForPass)).
Proof. vm_compute. reflexivity. Qed.

(** ** restart of the composed multi-key cache (Model/Multi.v): one crash for
    all keys; afterwards no key has a resident entry and every key's store
    record is exactly what it was -- so each key restarts from its record under
    the per-key statements above (which hold for every key of the composition,
    C01_composition_projects). *)
From Coq Require Import NArith.
From Pike Require Model.Multi Proofs.MultiProofs.
Theorem C08_restart_of_the_whole_cache :
  forall (K : Type) (keqb : K -> K -> bool), (forall a b, keqb a b = true <-> a = b) ->
  forall (hash : K -> N) m m', Pike.Model.Multi.mstep keqb hash m Pike.Model.Multi.MCrash = Some m' ->
  forall k, Pike.Model.Multi.live keqb m' k = false /\
            store (Pike.Model.Multi.sys_of keqb m' k) = store (Pike.Model.Multi.sys_of keqb m k).
Proof. intros K keqb Hk hash. exact (Pike.Proofs.MultiProofs.composed_crash keqb hash). Qed.
Print Assumptions C08_restart_of_the_whole_cache.
