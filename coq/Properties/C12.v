(** C12 — compression codecs are exact inverses for every input and level.
    PARTIAL by nature: DEFLATE, Brotli, Zstandard and Snappy are third-party
    code (no verified implementations are installed); what is proved is
    pike's own code around them — level handling, decoder dispatch, and the
    LZ4 block decoding with its destination-capacity rule — and the codecs are
    exercised against reference implementations by the harness. *)
From Coq Require Import List Arith Bool NArith ZArith Lia.
From Pike Require Import Base.Bytes Model.Compress Model.LZ4 Proofs.CompressProofs Proofs.LZ4Proofs.
Import ListNotations.

(** for every configured level (any unsigned value) the encoders are handed a legal level *)
Theorem C12_gzip_level_legal :
  forall v, let l := gzip_level_used (stored_level v) in l = (-1)%Z \/ (1 <= l <= 9)%Z.
Proof. exact gzip_level_legal. Qed.
Print Assumptions C12_gzip_level_legal.

Theorem C12_brotli_level_legal : forall v, (1 <= br_level_used (stored_level v) <= 11)%Z.
Proof. exact br_level_legal. Qed.
Print Assumptions C12_brotli_level_legal.

(** legal levels are used as configured; out-of-range ones fall back to the defaults *)
Theorem C12_levels_kept_or_default :
  forall v, (0 <= v < 2147483648)%Z ->
    ((1 <= v <= 9)%Z -> gzip_level_used (stored_level v) = v) /\
    ((1 <= v <= 11)%Z -> br_level_used (stored_level v) = v) /\
    (v = 0%Z \/ (9 < v)%Z -> gzip_level_used (stored_level v) = (-1)%Z) /\
    (v = 0%Z \/ (11 < v)%Z -> br_level_used (stored_level v) = 6%Z).
Proof.
  intros v H. destruct (out_of_range_defaults v H) as [A B].
  repeat split; [apply gzip_level_kept | apply br_level_kept | exact A | exact B].
Qed.
Print Assumptions C12_levels_kept_or_default.

(** the five documented encodings reach their decoders; identity passes; anything else is an error *)
Theorem C12_decoder_dispatch :
  forall enc,
    match dispatch enc with
    | DGzip => enc = e_gzip | DBr => enc = e_br | DLz4 => enc = e_lz4 | DSnappy => enc = e_snz | DZstd => enc = e_zst
    | DIdentity => enc = [] | DUnsupported => enc <> [] /\ enc <> e_gzip /\ enc <> e_br /\ enc <> e_lz4 /\ enc <> e_snz /\ enc <> e_zst
    end.
Proof. exact dispatch_total. Qed.
Print Assumptions C12_decoder_dispatch.

(** LZ4 blocks: the format cannot expand by more than 255x, decoding into a
    buffer never overruns it ... *)
Theorem C12_lz4_expansion_bound :
  forall cap s o, wf s -> lz4_decode cap s = LzOk o -> length o <= 255 * length s /\ length o <= cap.
Proof. exact lz4_expansion_bound. Qed.
Print Assumptions C12_lz4_expansion_bound.

(** ... and pike's decoder (repaired: retry with a larger buffer up to that
    bound) restores EVERY valid block, regardless of its compression ratio *)
Theorem C12_lz4_every_valid_block_restored :
  forall s o, wf s -> valid_block s o -> do_lz4_decode s = LzOk o.
Proof. exact do_lz4_decode_complete. Qed.
Print Assumptions C12_lz4_every_valid_block_restored.

(** the pinned commit (a single 10x buffer) is refuted: 8 bytes -> 785 bytes *)
Theorem C12_lz4_legacy_refuted :
  (exists o, valid_block high_ratio_block o /\ length o = 785) /\ do_lz4_decode_legacy high_ratio_block = LzShort.
Proof. exact legacy_lz4_refuted. Qed.
Print Assumptions C12_lz4_legacy_refuted.

(** malformed blocks: the decoder model is total and never reads or writes out of range by construction *)
Example C12_malformed_is_an_error :
  do_lz4_decode [240; 1; 2]%N = LzBad /\ do_lz4_decode [16; 97; 5; 0; 0]%N = LzBad.
Proof. vm_compute. split; reflexivity. Qed.
