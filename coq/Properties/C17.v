(** C17 — accepted configurations are closed under references and round-trip. *)
From Coq Require Import List Arith Bool NArith ZArith.
From Pike Require Import Base.Bytes Model.Config Proofs.ConfigProofs.
Import ListNotations.

(** A configuration is accepted only if all field rules hold, every location
    names an existing upstream (EVERY location, whatever its position), and
    every server names existing locations, an existing cache and — when set —
    an existing compress profile. *)
Theorem C17_validate_closed :
  forall c, validate c = VOk ->
    fields_ok c = true /\
    (forall l, In l (pc_locations c) -> exists u, In u (pc_upstreams c) /\ up_name u = lo_upstream l) /\
    (forall s, In s (pc_servers c) ->
       (forall n, In n (sv_locations s) -> exists l, In l (pc_locations c) /\ lo_name l = n) /\
       (exists ca, In ca (pc_caches c) /\ ca_name ca = sv_cache s) /\
       (sv_compress s = [] \/ exists cc, In cc (pc_compresses c) /\ cc_name cc = sv_compress s)).
Proof. exact validate_closed. Qed.
Print Assumptions C17_validate_closed.

(** Once applied — on top of ANY prior registry state, with duplicates in any
    section (last wins), repaired or pinned Update — every registered server
    resolves its cache dispatcher, every location it lists, and the upstream
    of every such location: no request fails for a missing entry. *)
Theorem C17_apply_resolves :
  forall legacy c r e, validate c = VOk -> In e (rg_servers (update legacy c r)) ->
    resolves (update legacy c r) (snd e) = true.
Proof. exact apply_resolves. Qed.
Print Assumptions C17_apply_resolves.

(** PARTIAL: "saving then reading returns the same configuration" is
    gopkg.in/yaml.v2's behaviour; it is sampled by the harness (Write -> Read
    -> compare) and not part of any theorem. *)

Example C17_nonvacuous :
  validate {| pc_admin_ok := true; pc_compresses := [];
              pc_caches := [{| ca_name := [99]%N; ca_size := 10; ca_hfp_ok := true; ca_store_ok := true |}];
              pc_upstreams := [{| up_name := [117]%N; up_fields_ok := true; up_servers := 1; up_policy := []; up_accept := []; up_backup_flags := [false] |}];
              pc_locations := [{| lo_name := [108]%N; lo_upstream := [117]%N; lo_fields_ok := true; lo_hosts := []; lo_prefixes := [] |};
                               {| lo_name := [109]%N; lo_upstream := [120]%N; lo_fields_ok := true; lo_hosts := []; lo_prefixes := [] |}];
              pc_servers := [] |} = VUpstream.
Proof. vm_compute. reflexivity. Qed.
