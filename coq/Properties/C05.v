(** C05 — bodies, status and headers are delivered unaltered for every encoding mix. *)
From Coq Require Import List Arith Bool NArith ZArith Lia.
From Pike Require Import Base.Bytes Model.MaxAge Model.Resp Proofs.RespProofs.
Import ListNotations.

Section C05.
  Variable gzip_enc br_enc : bytes -> bytes -> bytes.
  Variable gunzip br_dec : bytes -> option bytes.
  Variable other_dec : bytes -> bytes -> option bytes.
  Variable filter_match : option bytes -> bytes -> bool.
  (** third-party codec hypotheses (trusted base; exercised by the harness) *)
  Hypothesis gzip_roundtrip : forall n x, gunzip (gzip_enc n x) = Some x.
  Hypothesis br_roundtrip : forall n x, br_dec (br_enc n x) = Some x.
  Hypothesis gzip_nonempty : forall n x, gzip_enc n x <> [].
  Hypothesis br_nonempty : forall n x, br_enc n x <> [].

  (** the upstream's answer in any documented encoding (decoder succeeds on
      it) becomes a response all of whose variants decode to the original ... *)
  Theorem C05_upstream_response_consistent :
    forall status h encoding data orig,
      upstream_decode gunzip br_dec other_dec encoding data = Some orig -> (data <> [] \/ orig = []) ->
      exists r, new_response other_dec status h encoding data = Some r /\ consistent gunzip br_dec r orig /\
                r_status r = status /\ r_header r = clone_and_ignore h.
  Proof. exact (new_response_consistent gunzip br_dec other_dec). Qed.

  (** ... storing it (best-compression pre-compress) keeps that ... *)
  Theorem C05_store_preserves :
    forall r orig, consistent gunzip br_dec r orig ->
      consistent gunzip br_dec (cacheable_compress gzip_enc br_enc gunzip br_dec filter_match r) orig.
  Proof.
    exact (cacheable_compress_consistent gzip_enc br_enc gunzip br_dec filter_match
             gzip_roundtrip br_roundtrip gzip_nonempty).
  Qed.

  (** ... and serving any such response, for every Accept-Encoding, every
      min-length / filter / profile setting: the body decodes per the returned
      Content-Encoding to the original, the encoding is absent or one the
      client's header mentions, the status is the upstream's, Content-Encoding
      is exactly the chosen one, and every other header is what the context
      had plus the upstream's end-to-end headers. *)
  Theorem C05_serve_sound :
    forall ctx r orig accept, consistent gunzip br_dec r orig ->
      exists hs b e s,
        fill gzip_enc br_enc gunzip br_dec filter_match ctx r accept = Some (r_status r, hs, b, e, s) /\
        decode gunzip br_dec e b = Some orig /\
        (e = EId \/ (e = EBr /\ contains s_br accept = true) \/ (e = EGzip /\ contains s_gzip accept = true)) /\
        hvalues k_content_encoding hs = match e with EId => [] | _ => [enc_name e] end /\
        forall k, beqb k k_content_encoding = false -> hvalues k hs = hvalues k (ctx ++ r_header r).
  Proof. exact (fill_sound gzip_enc br_enc gunzip br_dec filter_match gzip_roundtrip br_roundtrip). Qed.
End C05.
Print Assumptions C05_upstream_response_consistent.
Print Assumptions C05_store_preserves.
Print Assumptions C05_serve_sound.

(** serving is a pure function of the stored response: the stored response is
    an input only (the tie to the code is the generated write-set of the serve
    path being empty, checked under C20) — non-vacuity of [consistent]: *)
Example C05_nonvacuous :
  consistent (fun _ => None) (fun _ => None)
    {| r_srv := []; r_min := 0; r_filter := None; r_header := []; r_status := 200;
       r_gzip := []; r_br := []; r_raw := [104;105]%N |} [104;105]%N.
Proof. constructor; simpl; congruence. Qed.
