(** C13 — content-encoding negotiation follows the documented decision table. *)
From Coq Require Import List Arith Bool NArith ZArith Lia.
From Pike Require Import Base.Bytes Model.MaxAge Model.Resp Proofs.RespProofs.
Import ListNotations.

Section C13.
  Variable gzip_enc br_enc : bytes -> bytes -> bytes.
  Variable gunzip br_dec : bytes -> option bytes.
  Variable filter_match : option bytes -> bytes -> bool.

  (** For every response whose stored variants decode (to [orig]) and every
      Accept-Encoding string: the encoding sent, and whether it comes from a
      stored variant or a fresh encoder call, is exactly the documented table
      — stored br if accepted, else stored gzip if accepted, else identity for
      bodies that are too small or of a filtered type, else br over gzip, else
      identity — as a function of (accepts br, accepts gzip, has br, has gzip,
      compressible) only. *)
  Theorem C13_negotiate_table :
    forall r orig accept, consistent gunzip br_dec r orig ->
      exists b, get_body gzip_enc br_enc gunzip br_dec filter_match r accept =
        Some (fst (spec_encoding (contains s_br accept) (contains s_gzip accept)
                     (negb (is_empty (r_br r))) (negb (is_empty (r_gzip r))) (spec_compressible filter_match r)),
              b,
              snd (spec_encoding (contains s_br accept) (contains s_gzip accept)
                     (negb (is_empty (r_br r))) (negb (is_empty (r_gzip r))) (spec_compressible filter_match r))).
  Proof. exact (negotiate_table gzip_enc br_enc gunzip br_dec filter_match). Qed.

  (** a client accepting neither always gets identity (the raw body) *)
  Theorem C13_neither_identity :
    forall r orig accept, consistent gunzip br_dec r orig ->
      contains s_br accept = false -> contains s_gzip accept = false ->
      get_body gzip_enc br_enc gunzip br_dec filter_match r accept = Some (EId, orig, SRaw).
  Proof. exact (neither_accepted_identity gzip_enc br_enc gunzip br_dec filter_match). Qed.

  (** "too small" is <= min on all three variants; "filtered" is the filter oracle on Content-Type *)
  Theorem C13_compressible_meaning :
    forall r, should_compress filter_match r = spec_compressible filter_match r.
  Proof. exact (should_compress_spec filter_match). Qed.

  (** codec hypotheses (trusted base) *)
  Hypothesis gzip_nonempty : forall n x, gzip_enc n x <> [].
  Hypothesis br_nonempty : forall n x, br_enc n x <> [].

  (** compressed once when stored, with the best-compression profile; not again per request *)
  Theorem C13_compress_once :
    forall r orig, consistent gunzip br_dec r orig -> single_variant r ->
      should_compress filter_match (with_srv r s_best) = true -> orig <> [] ->
      let r' := cacheable_compress gzip_enc br_enc gunzip br_dec filter_match r in
      r_gzip r' <> [] /\ r_br r' <> [] /\ r_raw r' = [] /\ r_srv r' = s_best /\
      (r_gzip r <> [] -> r_gzip r' = r_gzip r) /\ (r_br r <> [] -> r_br r' = r_br r) /\
      (r_gzip r = [] -> r_gzip r' = gzip_enc s_best orig) /\ (r_br r = [] -> r_br r' = br_enc s_best orig) /\
      forall accept, contains s_br accept = true \/ contains s_gzip accept = true ->
        exists e b s, get_body gzip_enc br_enc gunzip br_dec filter_match r' accept = Some (e, b, s) /\
                      (s = SStoredBr \/ s = SStoredGzip).
  Proof.
    exact (compress_once gzip_enc br_enc gunzip br_dec filter_match gzip_nonempty br_nonempty).
  Qed.
End C13.
Print Assumptions C13_negotiate_table.
Print Assumptions C13_neither_identity.
Print Assumptions C13_compressible_meaning.
Print Assumptions C13_compress_once.

(** for plain lists of codings, substring containment coincides with token
    membership on the standard tokens (finite check over the documented ones) *)
Example C13_substring_vs_tokens :
  map (fun a => (contains s_br a, contains s_gzip a))
      [[103;122;105;112]; [98;114]; [100;101;102;108;97;116;101]; [105;100;101;110;116;105;116;121];
       [122;115;116;100]; [99;111;109;112;114;101;115;115]; [42]; [120;45;103;122;105;112]]%N
  = [(false,true); (true,false); (false,false); (false,false); (false,false); (false,false); (false,false); (false,true)].
Proof. vm_compute. reflexivity. Qed.
