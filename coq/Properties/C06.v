(** C06 — cache keys isolate method, host and the full request URI. *)
From Coq Require Import List Arith Bool NArith ZArith Lia.
From Pike Require Import Base.Bytes Model.Key Model.LRU Model.Dispatcher
  Proofs.KeyProofs Proofs.LRUProofs Proofs.DispatcherProofs.
From Pike Require Model.Sys Model.Multi Proofs.MultiProofs.
Import ListNotations.

(** Keys are injective in (method, host, URI) whenever method and host contain
    no space (which net/http's request parsing guarantees): requests differing
    in any of the three never share a key; GET and HEAD differ in the method. *)
Theorem C06_key_injective :
  forall m h u m' h' u',
    space_free m = true -> space_free h = true -> space_free m' = true -> space_free h' = true ->
    get_key m h u = get_key m' h' u' -> m = m' /\ h = h' /\ u = u'.
Proof. exact key_injective. Qed.
Print Assumptions C06_key_injective.

(** the guard is necessary *)
Theorem C06_guard_needed :
  exists m h u m' h' u', (m, h, u) <> (m', h', u') /\ get_key m h u = get_key m' h' u'.
Proof. exact key_not_injective_with_spaces. Qed.
Print Assumptions C06_guard_needed.

(** Lookup is exact for every hash function (collisions included), every size
    and every history of lookups / removals / evictions: the entry returned for
    key k was created for exactly k, and entry identities are never shared. *)
Theorem C06_lookup_exact :
  forall (K : Type) (keqb : K -> K -> bool), (forall a b, keqb a b = true <-> a = b) ->
  forall (hash : K -> N) (c : dconsts), consts_ok c ->
  forall (S : Z) (ops : list (@dop K)) (k : K),
    let d := drun keqb hash (new_dispatcher c S) ops in
    let '(id, _, d') := get_http_cache keqb hash d k in
    In (id, k) (created d') /\ NoDup (map fst (created d')).
Proof.
  intros K keqb Hk hash c Hc S ops k. cbv zeta.
  assert (I0 : DInv hash (new_dispatcher (K:=K) c S)).
  { apply mk_disp_inv. apply zone_count_pos; auto. }
  destruct (drun_inv keqb Hk hash ops _ I0) as (I & _ & _).
  pose proof (get_returns_own keqb Hk hash _ k I) as H1.
  pose proof (get_inv keqb Hk hash _ k I) as I'.
  destruct (get_http_cache keqb hash (drun keqb hash (new_dispatcher c S) ops) k) as [[id hit] d'].
  split; [apply H1 | apply (di_fun hash d' I')].
Qed.
Print Assumptions C06_lookup_exact.

(** In the composed cache (Model/Multi.v) a request, purge or store fault
    addressed to key [k] leaves the protocol state of every other key untouched
    -- status, response, waiters, store record, log -- except that a LOOKUP of
    [k] may evict another key of the same shard, which for that key is exactly
    the environment step [Evict] (its entry stops being the resident one;
    requests already holding it keep it). *)
Theorem C06_other_keys_untouched :
  forall (K : Type) (keqb : K -> K -> bool), (forall a b, keqb a b = true <-> a = b) ->
  forall (hash : K -> N) m k l m' k2,
    (l = Pike.Model.Multi.MArrive k false \/ l = Pike.Model.Multi.MArrive k true \/
     (exists i c, l = Pike.Model.Multi.MRun k i c) \/ (exists ok, l = Pike.Model.Multi.MPurge k ok) \/
     (exists sc, l = Pike.Model.Multi.MCorrupt k sc)) ->
    Pike.Model.Multi.mstep keqb hash m l = Some m' -> k2 <> k ->
    Pike.Model.Multi.sys_of keqb m' k2 = Pike.Model.Multi.sys_of keqb m k2 \/
    ((exists i c, l = Pike.Model.Multi.MRun k i c /\ Pike.Model.Multi.at_lookup (Pike.Model.Multi.sys_of keqb m k) i = true) /\
     Pike.Model.Multi.sys_of keqb m' k2 = Pike.Model.Sys.set_cur (Pike.Model.Multi.sys_of keqb m k2) None).
Proof. intros K keqb Hk hash. exact (Pike.Proofs.MultiProofs.other_keys_frame keqb Hk hash). Qed.
Print Assumptions C06_other_keys_untouched.

Example C06_nonvacuous :
  get_key [71;69;84]%N [97]%N [47;120]%N <> get_key [72;69;65;68]%N [97]%N [47;120]%N.
Proof. discriminate. Qed.
