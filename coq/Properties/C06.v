(** C06 — cache keys isolate method, host and the full request URI. *)
From Coq Require Import List Arith Bool NArith ZArith Lia.
From Pike Require Import Base.Bytes Model.Key Model.LRU Model.Dispatcher
  Proofs.KeyProofs Proofs.LRUProofs Proofs.DispatcherProofs.
Import ListNotations.

(** Keys are injective in (method, host, URI) whenever method and host contain
    no space (which net/http's request parsing guarantees): requests differing
    in any of the three never share a key; GET and HEAD differ in the method. *)
Theorem C06_key_injective :
  forall m h u m' h' u',
    space_free m = true -> space_free h = true -> space_free m' = true -> space_free h' = true ->
    get_key m h u = get_key m' h' u' -> m = m' /\ h = h' /\ u = u'.
Proof. exact key_injective. Qed.
Print Assumptions C06_key_injective.

(** the guard is necessary *)
Theorem C06_guard_needed :
  exists m h u m' h' u', (m, h, u) <> (m', h', u') /\ get_key m h u = get_key m' h' u'.
Proof. exact key_not_injective_with_spaces. Qed.
Print Assumptions C06_guard_needed.

(** Lookup is exact for every hash function (collisions included), every size
    and every history of lookups / removals / evictions: the entry returned for
    key k was created for exactly k, and entry identities are never shared. *)
Theorem C06_lookup_exact :
  forall (K : Type) (keqb : K -> K -> bool), (forall a b, keqb a b = true <-> a = b) ->
  forall (hash : K -> N) (c : dconsts), consts_ok c ->
  forall (S : Z) (ops : list (@dop K)) (k : K),
    let d := drun keqb hash (new_dispatcher c S) ops in
    let '(id, _, d') := get_http_cache keqb hash d k in
    In (id, k) (created d') /\ NoDup (map fst (created d')).
Proof.
  intros K keqb Hk hash c Hc S ops k. cbv zeta.
  assert (I0 : DInv hash (new_dispatcher (K:=K) c S)).
  { apply mk_disp_inv. apply zone_count_pos; auto. }
  destruct (drun_inv keqb Hk hash ops _ I0) as (I & _ & _).
  pose proof (get_returns_own keqb Hk hash _ k I) as H1.
  pose proof (get_inv keqb Hk hash _ k I) as I'.
  destruct (get_http_cache keqb hash (drun keqb hash (new_dispatcher c S) ops) k) as [[id hit] d'].
  split; [apply H1 | apply (di_fun hash d' I')].
Qed.
Print Assumptions C06_lookup_exact.

Example C06_nonvacuous :
  get_key [71;69;84]%N [97]%N [47;120]%N <> get_key [72;69;65;68]%N [97]%N [47;120]%N.
Proof. discriminate. Qed.
