(** C02 — every coalesced request completes: no lost wake-up, no stuck key. *)
From Coq Require Import List Arith Bool ZArith Lia.
From Pike Require Import Model.Sys Proofs.ListAux Proofs.SysInv Proofs.SysStep Proofs.SysTheorems Corr.SysCorr.
From Pike Require Proofs.Lockset Proofs.Atomic.
From Coq Require Import NArith.
From Pike Require Model.Dispatcher Model.Multi Proofs.DispatcherProofs Proofs.MultiProofs.
Import ListNotations.

(** Progress: in every reachable state in which some request is unfinished,
    some thread step is enabled — whatever the fetch outcomes were (cacheable,
    uncacheable, error / timeout / nil response / panic: [OFail]), with purges,
    evictions and store faults anywhere.  (Upstream exchanges are steps of the
    environment that are always enabled: the proxy's timeout turns a silent
    upstream into a 504.) *)
Theorem C02_no_deadlock :
  forall t0 hfp0 st0 ls s, (0 <= t0)%Z -> run (init t0 hfp0 st0 false) ls = Some s ->
    (exists j p, nth_error (ts s) j = Some p /\ finished p = false) ->
    exists i c s', step s (Run i c) = Some s'.
Proof.
  intros t0 h st0 ls s Ht H Hex. exact (no_deadlock s (inv_reachable t0 h st0 ls s Ht H) Hex).
Qed.
Print Assumptions C02_no_deadlock.

(** Termination: every thread step strictly decreases a well-founded measure,
    whatever the environment chooses; clock ticks, purges, evictions, store
    corruption and crashes never increase it.  Hence without new arrivals
    every schedule reaches a state where all requests are finished: nobody
    blocks forever, no wake-up is lost. *)
Theorem C02_thread_steps_decrease :
  forall s i c s', step s (Run i c) = Some s' -> mu_lt s' s.
Proof. exact run_decreases. Qed.
Print Assumptions C02_thread_steps_decrease.

Theorem C02_measure_well_founded : well_founded mu_lt.
Proof. exact mu_lt_wf. Qed.
Print Assumptions C02_measure_well_founded.

Theorem C02_environment_never_increases :
  forall s l s', step s l = Some s' ->
    match l with
    | Run _ _ | Arrive _ => True
    | _ => muA s' <= muA s /\ (muA s' = muA s -> muB s' <= muB s)
    end.
Proof. exact env_labels_measure. Qed.
Print Assumptions C02_environment_never_increases.

(** When everybody is finished nothing is left behind: no entry is fetching,
    no waiter is queued, no lock is held — the next request is served normally. *)
Theorem C02_final_clean :
  forall t0 hfp0 st0 ls s, (0 <= t0)%Z -> run (init t0 hfp0 st0 false) ls = Some s ->
    (forall j p, nth_error (ts s) j = Some p -> finished p = true) ->
    forall e x, base s <= e -> nth_error (gens s) e = Some x ->
      st x <> Fetching /\ waitq x = [] /\ sendq x = [] /\ elock x = None.
Proof.
  intros t0 h st0 ls s Ht H Hall e x Hb Hx.
  exact (final_clean s e x (inv_reachable t0 h st0 ls s Ht H) Hall Hb Hx).
Qed.
Print Assumptions C02_final_clean.

(** non-vacuity: fetcher + 3 waiters (one only registered, not yet waiting,
    when the fetch fails), failure outcome, then a purge; everybody completes
    and the woken requests went to the upstream themselves (hit-for-pass) *)
Example C02_failed_fetch_releases_everyone :
  let c := mkch OFail true true in
  let ls := [Arrive false; Run 0 c; Run 0 c;
             Arrive false; Run 1 c; Run 1 c; Run 1 c;
             Arrive false; Run 2 c; Run 2 c; Run 2 c;
             Arrive false; Run 3 c; Run 3 c;              (* registered only *)
             Run 0 c; Run 0 c;                            (* fetch fails; completer takes the lock *)
             Run 0 c; Run 0 c;                            (* wakes 1 and 2 *)
             Run 3 c;                                     (* 3 starts waiting *)
             Run 0 c; Run 0 c;                            (* wakes 3; unlock *)
             Purge true;
             Run 1 c; Run 1 c; Run 2 c; Run 2 c; Run 3 c; Run 3 c] in
  option_map (fun s => map obs_of (ts s)) (run (init 1000000 2 false false) ls)
  = Some [TDone LFetching None 0; TDone LHitForPass None 0; TDone LHitForPass None 0; TDone LHitForPass None 0].
Proof. vm_compute. reflexivity. Qed.

(** ** the completion of a fetch (install, wake every waiter by a blocking
    send, persist) is one critical section of the entry lock: discharged per
    run on the skeletons of Cacheable and HitForPass (PerRun/C02_inst.v) *)
Theorem C02_one_section_sound : forall m l t r,
  Atomic.one_section m l = true -> Atomic.path_list l t r -> Atomic.count (Atomic.is_acq m) t <= 1 /\ Atomic.count (Atomic.is_rel m) t = 0.
Proof. exact Atomic.one_section_sound. Qed.
Print Assumptions C02_one_section_sound.

(** ** the cache as a whole (Model/Multi.v): in every reachable state of the
    composed multi-key cache, while any request of any key is unfinished some
    request can take a step -- no schedule over all keys, with evictions caused
    by other keys' lookups, strands a request.  (Per key, every thread step
    decreases the well-founded measure above; the composition runs the same
    per-key steps.) *)
Theorem C02_progress_every_key :
  forall (K : Type) (keqb : K -> K -> bool), (forall a b, keqb a b = true <-> a = b) ->
  forall (hash : K -> N) z lim t0 h st0 ls m, 0 < z -> (0 <= t0)%Z ->
    Pike.Model.Multi.mrun keqb hash (Pike.Model.Multi.minit (Pike.Model.Dispatcher.mk_disp z lim) t0 h st0) ls = Some m ->
    (exists k j p, nth_error (ts (Pike.Model.Multi.sys_of keqb m k)) j = Some p /\ finished p = false) ->
    exists k i c m', Pike.Model.Multi.mstep keqb hash m (Pike.Model.Multi.MRun k i c) = Some m'.
Proof.
  intros K keqb Hk hash z lim t0 h st0 ls m Hz Ht H Hex.
  exact (Pike.Proofs.MultiProofs.composed_progress keqb Hk hash m
           (Pike.Proofs.MultiProofs.minv_reachable keqb Hk hash z lim t0 h st0 ls m Hz Ht H) Hex).
Qed.
Print Assumptions C02_progress_every_key.
