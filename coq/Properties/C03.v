(** C03 — only responses the origin marked shareable are ever stored.
    (Storage decision as a function of method and upstream headers; the
    system-level parts — delivery to the fetching request only, exactly-once
    forwarding, truthful label — are in Properties/C03Sys.v.) *)
From Coq Require Import List Arith Bool NArith ZArith Lia.
From Pike Require Import Base.Bytes Model.MaxAge Model.MaxAgeSpec Proofs.MaxAgeProofs.
Import ListNotations.

(** For every method and every header set: if the middleware stores the
    response with lifetime T then the request was GET or HEAD, there is no
    Set-Cookie line, no Cache-Control token (over all lines, comma-separated,
    trimmed, ASCII case-insensitive) is named no-cache / no-store / private,
    T > 0, and T = n - max(0, Age) where n is the (saturated) value of the
    first s-maxage=<digits> token, or else of the first max-age=<digits> token. *)
Theorem C03_only_shareable :
  forall (m : bytes) (h : headers) (T : Z),
    store_decision m h = Some T -> spec_shareable m h T = true.
Proof. exact store_sound. Qed.
Print Assumptions C03_only_shareable.

Theorem C03_lifetime_bounded :
  forall m h T, store_decision m h = Some T ->
    exists n, spec_lifetime h = Some n /\ (0 < T <= n)%Z /\ (n <= max_i64)%Z.
Proof. exact store_lifetime_bounded. Qed.
Print Assumptions C03_lifetime_bounded.

(** Status codes are not an input of the decision at all (by type), and any
    header other than Set-Cookie, Cache-Control and Age (Expires, Pragma,
    Last-Modified, ...) can be added or removed without changing it. *)
Theorem C03_other_headers_irrelevant :
  forall m k' v h1 h2,
    beqb k' k_set_cookie = false -> beqb k' k_cache_control = false -> beqb k' k_age = false ->
    store_decision m (h1 ++ (k', v) :: h2) = store_decision m (h1 ++ h2).
Proof. exact store_decision_frame. Qed.
Print Assumptions C03_other_headers_irrelevant.

Theorem C03_non_get_head_never_stored :
  forall m h, request_is_pass m = true -> store_decision m h = None.
Proof. exact pass_never_stores. Qed.
Print Assumptions C03_non_get_head_never_stored.

(** The pinned commit's getCacheMaxAge is refuted on four inputs (D2a-d):
    each is stored although the token-level reading forbids it. *)
Definition legacy_store (m : bytes) (h : headers) : option Z :=
  if request_is_pass m then None
  else let t := cache_max_age_legacy h in if (0 <? t)%Z then Some t else None.

Definition cc (v : bytes) : header := (k_cache_control, v).

(* "Private, max-age=60" *)
Definition w_private : headers := [cc [80;114;105;118;97;116;101;44;32;109;97;120;45;97;103;101;61;54;48]%N].
(* Set-Cookie: "" ; Set-Cookie: "a=b" ; "max-age=60" *)
Definition w_cookie : headers :=
  [(k_set_cookie, []); (k_set_cookie, [97;61;98]%N); cc [109;97;120;45;97;103;101;61;54;48]%N].
(* "x-max-age=60" *)
Definition w_unanchored : headers := [cc [120;45;109;97;120;45;97;103;101;61;54;48]%N].
(* "public" with Age: -5 *)
Definition w_negative_age : headers := [cc [112;117;98;108;105;99]%N; (k_age, [45;53]%N)].

Theorem C03_legacy_refuted :
  Forall (fun h => exists T, legacy_store m_get h = Some T /\ spec_shareable m_get h T = false)
         [w_private; w_cookie; w_unanchored; w_negative_age].
Proof.
  repeat constructor.
  - exists 60%Z. vm_compute. auto.
  - exists 60%Z. vm_compute. auto.
  - exists 60%Z. vm_compute. auto.
  - exists 5%Z. vm_compute. auto.
Qed.
Print Assumptions C03_legacy_refuted.

(** the repaired model rejects all four *)
Example C03_witnesses_rejected :
  map (store_decision m_get) [w_private; w_cookie; w_unanchored; w_negative_age] = [None; None; None; None].
Proof. vm_compute. reflexivity. Qed.

(** Non-vacuity: something is stored. "public, s-maxage=30, max-age=60" with Age: 10 -> 20 *)
Example C03_nonvacuous :
  store_decision m_head
    [cc [112;117;98;108;105;99;44;32;115;45;109;97;120;97;103;101;61;51;48;44;32;109;97;120;45;97;103;101;61;54;48]%N;
     (k_age, [49;48]%N)] = Some 20%Z.
Proof. vm_compute. reflexivity. Qed.

(** ** System level (entry-protocol model, Model/Sys.v) *)
From Pike Require Import Model.Sys Proofs.SysLabel.

(** The cache-status label is truthful, in every execution (any schedule,
    outcome, fault, purge, restart; repaired or not): a request answered as a
    hit never contacted the upstream; every other completed request — fetching,
    hit-for-pass, and every non-GET/HEAD request (passed) — contacted it
    exactly once. *)
Theorem C03_label_truthful :
  forall t0 hfp0 st0 lg ls s i l r a,
    run (init t0 hfp0 st0 lg) ls = Some s -> nth_error (ts s) i = Some (PDone (Reply l r a)) ->
    starts i (log s) = match l with LHit => 0 | _ => 1 end.
Proof. exact label_truthful. Qed.
Print Assumptions C03_label_truthful.

(** a response that does not qualify is delivered only to the request that
    fetched it: the completion marks the entry hit-for-pass and leaves the
    stored response untouched (Properties/C07.v, C07_marks), and a hit only
    ever serves a response installed by a cacheable completion
    (Properties/C04.v, C04_hit_is_installed_and_fresh). *)
