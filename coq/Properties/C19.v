(** C19 — traffic goes only to healthy upstream servers, backups last. *)
From Coq Require Import List Arith Bool NArith ZArith Lia.
From Pike Require Import Model.Upstream Proofs.UpstreamProofs.
Import ListNotations.

(** For every policy (first, random — any value of the random source —,
    round robin, least connections), every status vector and every
    primary/backup mix: the chosen server's health checks currently pass, and
    it is a backup only while no primary is healthy. *)
Theorem C19_only_healthy_backups_last :
  forall p rnd st i, fst (next p rnd st) = Some i ->
    exists s, nth_error (servers st) i = Some s /\ is_healthy s = true /\
      (u_backup s = true -> forall j t, nth_error (servers st) j = Some t -> is_healthy t = true -> u_backup t = true).
Proof. exact next_healthy. Qed.
Print Assumptions C19_only_healthy_backups_last.

(** no server is chosen (the client gets the 5xx error at once, nothing is
    contacted) exactly when no server is healthy *)
Theorem C19_none_iff_none_healthy :
  forall p rnd st, fst (next p rnd st) = None <->
    forall j t, nth_error (servers st) j = Some t -> is_healthy t = false.
Proof. exact next_none_iff. Qed.
Print Assumptions C19_none_iff_none_healthy.

(** round robin: the j-th of k successive picks (no uint32 wrap inside the
    window) takes position (c + 1 + j) mod n of the available list ... *)
Theorem C19_round_robin_positions :
  forall st k, (0 <= rr st)%Z -> (rr st + Z.of_nat k < two32)%Z ->
    rr_picks st k = map (fun j => pick_index (servers st) (rr st + 1 + Z.of_nat j)) (seq 0 k).
Proof. exact rr_pick_positions. Qed.
Print Assumptions C19_round_robin_positions.

(** ... and over ANY k consecutive counter values every two positions are
    chosen equally often up to one *)
Theorem C19_round_robin_even :
  forall n a k r1 r2, (0 < n)%Z -> (0 <= r1 < n)%Z -> (0 <= r2 < n)%Z ->
    (Z.abs (cnt n a k r1 - cnt n a k r2) <= 1)%Z.
Proof. exact round_robin_even. Qed.
Print Assumptions C19_round_robin_even.

(** a check round decides from its own pings alone (sick iff at least
    max-fail of them failed), whatever the previous status: traffic resumes
    by itself after the first passing round *)
Theorem C19_health_rule :
  forall max_fail fails cur, cur <> UIgnored ->
    check_rule max_fail fails cur = (if Nat.leb max_fail fails then USick else UHealthy).
Proof. exact check_rule_spec. Qed.
Print Assumptions C19_health_rule.

(** non-vacuity: two primaries + one backup; round robin alternates the
    primaries; with both sick the backup takes over; with all sick nobody *)
Example C19_nonvacuous :
  let mk b s := {| u_backup := b; u_status := s; u_value := 0 |} in
  rr_picks {| servers := [mk false UHealthy; mk false UHealthy; mk true UHealthy]; rr := 0 |} 4
    = [Some 1; Some 0; Some 1; Some 0]
  /\ fst (next PFirst 0 {| servers := [mk false USick; mk false USick; mk true UHealthy]; rr := 0 |}) = Some 2
  /\ fst (next PLeastConn 0 {| servers := [mk false USick; mk false UUnknown; mk true USick]; rr := 0 |}) = None.
Proof. vm_compute. auto. Qed.
