(** C04 — a stored response is never served past its freshness lifetime. *)
From Coq Require Import List Arith Bool ZArith Lia.
From Pike Require Import Model.Sys Proofs.ListAux Proofs.SysInv Proofs.SysStep Proofs.SysTheorems Proofs.SysFacts Proofs.SysProv Corr.SysCorr.
Import ListNotations.

(** In every reachable state (any schedule, clock, purges, evictions,
    restarts, store loss — the store is not forged, [all_honest]): whenever a
    request is answered as a hit, the response was installed by a cacheable
    completion at some second cr with lifetime ttl > 0 (possibly in an
    earlier process life, via the store), cr is the entry's creation time, and
    the deciding second is <= cr + ttl: fewer than ttl + 1 seconds have passed. *)
Theorem C04_hit_is_installed_and_fresh :
  forall t0 hfp0 st0 ls s, (0 <= t0)%Z -> all_honest ls -> run (init t0 hfp0 st0 false) ls = Some s ->
  forall i c e x0 s' r,
    nth_error (ts s) i = Some (PGet e) -> nth_error (gens s) e = Some x0 ->
    step s (Run i c) = Some s' -> nth_error (ts s') i = Some (PHitAge e r) ->
    exists rr cr ttl x,
      r = Some rr /\ nth_error (gens s') e = Some x /\ created x = cr /\
      SysProv.installed (log s') rr cr (cr + ttl) /\ (0 < ttl)%Z /\ (now_s s <= cr + ttl)%Z.
Proof.
  intros t0 h st0 ls s Ht Hh H i c e x0 s' r Hi Hx Hs Hp.
  destruct (prov_reachable t0 h st0 ls s Ht Hh H) as [I P].
  exact (hit_is_installed_and_fresh s i c e x0 s' r I P Hi Hx Hs Hp).
Qed.
Print Assumptions C04_hit_is_installed_and_fresh.

(** hits never extend the lifetime: deciding a hit leaves creation and expiry untouched *)
Theorem C04_hits_do_not_extend :
  forall s i c e x0 s' r, Inv s -> nth_error (ts s) i = Some (PGet e) -> nth_error (gens s) e = Some x0 ->
    step s (Run i c) = Some s' -> nth_error (ts s') i = Some (PHitAge e r) ->
    exists x, nth_error (gens s') e = Some x /\ st x = Hit /\ resp x = r /\ r <> None /\
              (now_s s <= expired x)%Z /\ (0 < expired x)%Z /\
              (st x0 = Hit -> created x = created x0 /\ expired x = expired x0).
Proof. exact hit_only_fresh. Qed.
Print Assumptions C04_hits_do_not_extend.

(** the first request after the expiry second goes back to the upstream as the fetcher *)
Theorem C04_refetch_after_expiry :
  forall s i c e x, nth_error (ts s) i = Some (PGet e) -> nth_error (gens s) e = Some x -> elock x = None ->
    st x = Hit -> (0 < expired x)%Z -> (expired x < now_s s)%Z ->
    exists s', step s (Run i c) = Some s' /\ nth_error (ts s') i = Some (PFetch e LFetching).
Proof. exact refetch_after_expiry. Qed.
Print Assumptions C04_refetch_after_expiry.

(** Age = whole seconds since the entry's creation time, read when Age() runs.
    If the entry was not re-created between the hit decision and this step,
    that is the time since the served response was obtained: 0 <= Age <= ttl
    follows from C04_hit_is_installed_and_fresh when the clock has not passed
    cr + ttl. *)
Theorem C04_age_value :
  forall s i c e r x, nth_error (ts s) i = Some (PHitAge e r) -> nth_error (gens s) e = Some x ->
    step s (Run i c) = Some (add_log (set_pc s i (PDone (Reply LHit r (now_s s - created x))))
                                     (EvReply i (Reply LHit r (now_s s - created x)))).
Proof. exact age_step. Qed.
Print Assumptions C04_age_value.

(** PARTIAL (DESIGN.md D9): Get() and Age() are two lock acquisitions.  A
    request descheduled between them for longer than the remaining lifetime,
    while another request refetches, reports the Age of the NEWER response
    next to the older body.  The model exhibits it; the real code cannot be
    driven into it from outside the package. *)
Example C04_age_cross_epoch_exhibited :
  let c := mkch (OCacheable 2 1) true true in
  let k := mkch (OCacheable 60 2) true true in
  let ls := [Arrive false; Run 0 c; Run 0 c; Run 0 c; Run 0 c; Run 0 c;   (* r1 installed at second 1000, ttl 2 *)
             Arrive false; Run 1 c; Run 1 c;                                (* request 1 decides: hit r1 ... *)
             Tick 10000;                                                    (* ... and is descheduled for 10 s *)
             Arrive false; Run 2 k; Run 2 k; Run 2 k; Run 2 k; Run 2 k;     (* request 2 refetches: r2 at second 1010 *)
             Run 1 c] in                                                    (* request 1 resumes: Age() *)
  option_map (fun s => nth_error (map obs_of (ts s)) 1) (run (init 1000000 0 false false) ls)
  = Some (Some (TDone LHit (Some 1) 0)).      (* body r1 (obtained 10 s ago) with Age 0 *)
Proof. vm_compute. reflexivity. Qed.

(** non-vacuity: served at the expiry second, refetched one second later *)
Example C04_boundary :
  let c := mkch (OCacheable 2 1) true true in
  let ls := [Arrive false; Run 0 c; Run 0 c; Run 0 c; Run 0 c; Run 0 c;
             Tick 2000; Arrive false; Run 1 c; Run 1 c; Run 1 c;
             Tick 1000; Arrive false; Run 2 c; Run 2 c] in
  option_map (fun s => map obs_of (ts s)) (run (init 1000000 0 false false) ls)
  = Some [TDone LFetching (Some 1) 0; TDone LHit (Some 1) 2; TUpstream LFetching].
Proof. vm_compute. reflexivity. Qed.

(** ** one clock: in the composed multi-key cache (Model/Multi.v) every key's
    protocol state reads the same clock, whatever the schedule -- lifetimes and
    ages of different keys are measured against one time line. *)
From Coq Require Import NArith.
From Pike Require Model.Dispatcher Model.Multi Proofs.MultiProofs.
Theorem C04_one_clock_for_all_keys :
  forall (K : Type) (keqb : K -> K -> bool), (forall a b, keqb a b = true <-> a = b) ->
  forall (hash : K -> N) d t0 h st0 ls m,
    Pike.Model.Multi.mrun keqb hash (Pike.Model.Multi.minit d t0 h st0) ls = Some m ->
  forall k, now (Pike.Model.Multi.sys_of keqb m k) = Pike.Model.Multi.m_now m.
Proof. intros K keqb Hk hash. exact (Pike.Proofs.MultiProofs.clock_shared keqb Hk hash). Qed.
Print Assumptions C04_one_clock_for_all_keys.
