(** C14 — routing picks a matching location of the best specificity class. *)
From Coq Require Import List Arith Bool NArith ZArith Lia Sorted Permutation.
From Pike Require Import Base.Bytes Model.Location Proofs.LocationProofs.
Import ListNotations.

(** For every configured location list, every order [sorted] that sort.Slice
    may leave it in (any permutation ordered by priority — instability is
    inside the quantifier), every host, URI and server location list: the
    location returned is a configured one, is listed by the server, matches
    host and URI, and no eligible location has a strictly better class. *)
Theorem C14_best_matching_location :
  forall c locs sorted host url names l,
    sorted_perm c locs sorted ->
    get_from sorted host url names = Some l ->
    In l locs /\ eligible names host url l = true /\
    forall l', In l' locs -> eligible names host url l' = true -> (priority c l <= priority c l')%Z.
Proof. exact get_best. Qed.
Print Assumptions C14_best_matching_location.

(** ... and no location is returned exactly when none is eligible (the proxy
    middleware then answers 503 without touching any upstream). *)
Theorem C14_none_iff_no_match :
  forall c locs sorted host url names,
    sorted_perm c locs sorted ->
    (get_from sorted host url names = None <->
     forall l, In l locs -> eligible names host url l = false).
Proof. exact get_none. Qed.
Print Assumptions C14_none_iff_no_match.

(** eligibility is the property's wording *)
Theorem C14_eligible_meaning :
  forall names host url l,
    eligible names host url l = true <->
    In (l_name l) names /\
    (l_hosts l = [] \/ In host (l_hosts l)) /\
    (l_prefixes l = [] \/ exists p, In p (l_prefixes l) /\ is_prefix p url = true).
Proof. exact eligible_spec. Qed.
Print Assumptions C14_eligible_meaning.

(** priority order = documented class order (prefix+host, prefix, host, none)
    for all constants with 0 < host-weight < prefix-weight *)
Theorem C14_class_order :
  forall c a b, pconsts_ok c ->
    ((priority c a <= priority c b)%Z <-> (loc_class a <= loc_class b)%N).
Proof. exact class_order. Qed.
Print Assumptions C14_class_order.

(** non-vacuity: sorted permutations exist for every list *)
Theorem C14_sort_exists : forall c l, sorted_perm c l (sort_locs c l).
Proof. exact sort_locs_ok. Qed.
Print Assumptions C14_sort_exists.

Example C14_nonvacuous :
  let a := {| l_name := [97]%N; l_hosts := []; l_prefixes := []; l_tag := 0 |} in
  let b := {| l_name := [98]%N; l_hosts := [[104]%N]; l_prefixes := [[47;97]%N]; l_tag := 1 |} in
  option_map l_tag (locations_get pike_pconsts [a; b] [104]%N [47;97;47;120]%N [[97]%N; [98]%N]) = Some 1%N.
Proof. vm_compute. reflexivity. Qed.
