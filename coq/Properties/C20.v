(** C20 — concurrent requests, purges and reloads never corrupt shared state. *)
From Coq Require Import List String Bool Arith ZArith.
From Pike Require Import Proofs.Lockset Model.LockPolicy.
From Pike Require Import Model.Sys Proofs.ListAux Proofs.SysInv Proofs.SysStep Proofs.SysTheorems Proofs.SysProv.
Import ListNotations.

(** Soundness of the lock-discipline analysis: if the analysis accepts a
    function skeleton from a given set of held locks, then on EVERY path
    through it (any branch choices, any number of loop iterations) every read
    of a protected field happens with its mutex held, every write with the
    mutex held exclusively, and every internal call that needs a mutex happens
    with it held.  (Instantiated per run with the skeletons regenerated from
    the source: PerRun/C20_inst.v.) *)
Theorem C20_lockset_sound :
  forall pol h l r t o, check pol h l = Some r -> exec_list h l t o -> safe pol t.
Proof. exact check_safe. Qed.
Print Assumptions C20_lockset_sound.

Theorem C20_checked_functions_are_guarded :
  forall pol (fs : list (held * list Lockset.event)),
    forallb (fun p => ok (check pol (fst p) (snd p))) fs = true ->
    forall h sk, In (h, sk) fs -> forall t o, exec_list h sk t o -> safe pol t.
Proof.
  intros pol fs H h sk Hin t o E. rewrite forallb_forall in H. specialize (H _ Hin). simpl in H.
  destruct (check pol h sk) as [r|] eqn:C; [|discriminate]. eapply check_safe; eauto.
Qed.
Print Assumptions C20_checked_functions_are_guarded.

(** the write set is a sound over-approximation: a function whose skeleton has
    no write to "resp.*" does not alter the stored response *)
Theorem C20_write_set_sound :
  forall obj l f, no_writes_to obj l = true -> In f (writes_of l) -> starts_with obj f = false.
Proof. exact no_writes_sound. Qed.
Print Assumptions C20_write_set_sound.

(** With critical sections atomic (above), every interleaving of requests,
    purges, evictions, restarts and store faults is an execution of
    Model/Sys.v; in all of them shared state stays well-formed (the invariant)
    and a hit only serves a response that a fetch for this key installed. *)
Theorem C20_state_well_formed_in_every_schedule :
  forall t0 hfp0 st0 ls s, (0 <= t0)%Z -> all_honest ls -> run (init t0 hfp0 st0 false) ls = Some s ->
    Inv s /\ Prov s.
Proof. exact prov_reachable. Qed.
Print Assumptions C20_state_well_formed_in_every_schedule.

(** the analysis rejects the pinned commit's Get (status and response read
    after the channel receive without the lock) *)
Example C20_legacy_get_rejected :
  check pol_cache []
    [Lock "hc.mu"; Call "hc.get"; Unlock "hc.mu";
     If [Recv; Read "hc.status"; Read "hc.response"] []; Return]%string = None.
Proof. vm_compute. reflexivity. Qed.

(** non-vacuity: the repaired shape is accepted, and some path reads a protected field under the lock *)
Example C20_repaired_get_accepted :
  ok (check pol_cache [] [Loop [Lock "hc.mu"; Call "hc.get"; Unlock "hc.mu"; If [Return] []; Recv]]%string) = true
  /\ ok (check pol_cache [] [RLock "hc.mu"; DeferRUnlock "hc.mu"; Read "hc.status"; Return]%string) = true.
Proof. vm_compute. split; reflexivity. Qed.
