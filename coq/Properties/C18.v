(** C18 — purge removes the entry everywhere and touches nothing else. *)
From Coq Require Import List Arith Bool NArith ZArith Lia.
From Pike Require Import Model.Sys Proofs.SysInv Proofs.SysStep Proofs.SysTheorems Proofs.SysFacts Corr.SysCorr.
From Pike Require Proofs.Lockset Proofs.Atomic.
From Pike Require Model.LRU Model.Dispatcher Proofs.DispatcherProofs.
From Pike Require Model.Multi Proofs.MultiProofs.
Import ListNotations.

(** after a purge the key is not resident and (when the store's delete
    succeeds) not persisted; requests, entries and waiters are not touched *)
Theorem C18_purge_effective :
  forall s ok, exists s', step s (Purge ok) = Some s' /\ cur s' = None /\ ts s' = ts s /\ gens s' = gens s /\
    (has_store s = true -> ok = true -> store s' = SNone).
Proof. exact purge_effective. Qed.
Print Assumptions C18_purge_effective.

(** the next request gets a brand-new entry ... *)
Theorem C18_next_request_new_entry :
  forall s i c, cur s = None -> nth_error (ts s) i = Some PLookup ->
    exists s', step s (Run i c) = Some s' /\ nth_error (ts s') i = Some (PGet (length (gens s))) /\
      nth_error (gens s') (length (gens s)) = Some fresh_entry /\ store s' = store s.
Proof. exact lookup_after_purge. Qed.
Print Assumptions C18_next_request_new_entry.

(** ... and, nothing being persisted, goes to the upstream as the fetcher *)
Theorem C18_next_request_fetches :
  forall s i c e, legacy s = false -> nth_error (ts s) i = Some (PGet e) ->
    nth_error (gens s) e = Some fresh_entry -> (has_store s = false \/ store s = SNone) ->
    exists s', step s (Run i c) = Some s' /\ nth_error (ts s') i = Some (PFetch e LFetching) /\
               log s' = EvStart i (Some e) LFetching :: log s.
Proof. exact fresh_entry_fetches. Qed.
Print Assumptions C18_next_request_fetches.

(** a purge of an absent key is a no-op *)
Theorem C18_absent_noop :
  forall s ok, cur s = None -> (has_store s = false \/ store s = SNone) -> step s (Purge ok) = Some s.
Proof. exact purge_noop. Qed.
Print Assumptions C18_absent_noop.

(** a purge racing an in-flight fetch neither blocks nor strands anybody: it is
    always enabled, it leaves the termination measure of C02 unchanged, and
    progress (C02_no_deadlock) holds in the state after it *)
Theorem C18_purge_never_strands :
  forall t0 hfp0 st0 ls s ok, (0 <= t0)%Z -> run (init t0 hfp0 st0 false) ls = Some s ->
    exists s', step s (Purge ok) = Some s' /\ muA s' = muA s /\ muB s' = muB s /\
      ((exists j p, nth_error (ts s') j = Some p /\ finished p = false) ->
       exists i c s'', step s' (Run i c) = Some s'').
Proof.
  intros t0 h st0 ls s ok Ht H.
  destruct (purge_effective s ok) as (s' & Hs & Hc & Hts & Hg & _).
  exists s'. split; [exact Hs|].
  split; [unfold muA; rewrite Hts; reflexivity|].
  split; [unfold muB; rewrite Hts, Hg; reflexivity|].
  apply no_deadlock. eapply inv_step; [eapply inv_reachable; eauto | exact Hs].
Qed.
Print Assumptions C18_purge_never_strands.

(** other keys keep their entries: removing key k from the dispatcher leaves
    every other key's lookup result unchanged (any hash, any shard layout) *)
Theorem C18_other_keys_untouched :
  forall (K : Type) (keqb : K -> K -> bool), (forall a b, keqb a b = true <-> a = b) ->
  forall (hash : K -> N) (d : @Dispatcher.disp K) (k k' : K), k' <> k ->
    LRU.find keqb k' (nth (Dispatcher.shard_index hash d k') (Dispatcher.shards (Dispatcher.remove_http_cache keqb hash d k)) [])
    = LRU.find keqb k' (nth (Dispatcher.shard_index hash d k') (Dispatcher.shards d) []).
Proof. intros K keqb Hk hash d k k' Hne. exact (DispatcherProofs.remove_frame keqb Hk hash d k k' Hne). Qed.
Print Assumptions C18_other_keys_untouched.

(** non-vacuity: hit, purge, next request refetches *)
Example C18_purge_then_refetch :
  let c := mkch (OCacheable 60 1) true true in
  let ls := [Arrive false; Run 0 c; Run 0 c; Run 0 c; Run 0 c; Run 0 c;
             Arrive false; Run 1 c; Run 1 c; Run 1 c;
             Purge true;
             Arrive false; Run 2 c; Run 2 c] in
  option_map (fun s => (map obs_of (ts s), sobs_of (store s))) (run (init 1000000 0 true false) ls)
  = Some ([TDone LFetching (Some 1) 0; TDone LHit (Some 1) 0; TUpstream LFetching], SoNone).
Proof. vm_compute. reflexivity. Qed.

(** ** a purge (remove from the shard, delete the persisted copy) is one
    critical section of the shard lock: discharged per run on the skeleton of
    RemoveHTTPCache (PerRun/C18_inst.v) *)
Theorem C18_one_section_sound : forall m l t r,
  Atomic.one_section m l = true -> Atomic.path_list l t r -> Atomic.count (Atomic.is_acq m) t <= 1 /\ Atomic.count (Atomic.is_rel m) t = 0.
Proof. exact Atomic.one_section_sound. Qed.
Print Assumptions C18_one_section_sound.

(** ** purge in the composed multi-key cache (Model/Multi.v): in every
    reachable state, after a purge of key k the key has no resident entry --
    neither in its own protocol state nor in the dispatcher -- its store record
    is gone when a store is configured and the delete succeeded, and (frame)
    no other key's protocol state changed at all. *)
Theorem C18_purge_in_the_composed_cache :
  forall (K : Type) (keqb : K -> K -> bool), (forall a b, keqb a b = true <-> a = b) ->
  forall (hash : K -> N) z lim t0 h st0 ls m k ok m', 0 < z -> (0 <= t0)%Z ->
    Pike.Model.Multi.mrun keqb hash (Pike.Model.Multi.minit (Pike.Model.Dispatcher.mk_disp z lim) t0 h st0) ls = Some m ->
    Pike.Model.Multi.mstep keqb hash m (Pike.Model.Multi.MPurge k ok) = Some m' ->
    (Pike.Model.Multi.live keqb m' k = false /\ Pike.Model.Multi.held keqb hash m' k = false /\
     (Pike.Model.Multi.m_store m = true -> ok = true -> has_store (Pike.Model.Multi.sys_of keqb m k) = true ->
      store (Pike.Model.Multi.sys_of keqb m' k) = SNone)) /\
    (forall k2, k2 <> k -> Pike.Model.Multi.sys_of keqb m' k2 = Pike.Model.Multi.sys_of keqb m k2).
Proof.
  intros K keqb Hk hash z lim t0 h st0 ls m k ok m' Hz Ht H Hs.
  pose proof (Pike.Proofs.MultiProofs.minv_reachable keqb Hk hash z lim t0 h st0 ls m Hz Ht H) as I.
  split; [exact (Pike.Proofs.MultiProofs.composed_purge keqb Hk hash m k ok m' I Hs)|].
  intros k2 Hne.
  destruct (Pike.Proofs.MultiProofs.other_keys_frame keqb Hk hash m k (Pike.Model.Multi.MPurge k ok) m' k2
              (or_intror (or_intror (or_intror (or_introl (ex_intro _ ok eq_refl))))) Hs Hne) as [E|[(i & c & Hl & _) _]];
    [exact E | discriminate Hl].
Qed.
Print Assumptions C18_purge_in_the_composed_cache.
