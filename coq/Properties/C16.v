(** C16 — live reconfiguration equals a fresh start and disturbs nothing unchanged. *)
From Coq Require Import List Arith Bool NArith ZArith.
From Pike Require Import Base.Bytes Model.Config Proofs.ConfigProofs Proofs.ReconfProofs.
Import ListNotations.

(** After ANY history of configuration updates, applying configuration c
    leaves registries that are observably equal to those of a process that was
    freshly started with c: same locations, same upstream options, the same
    set of caches, the same bindings / thresholds / filter for every server
    address, the same compression levels behind every profile name the configuration can reach
    (its own profiles and the built-in bestCompression).  (What a
    surviving cache keeps — its size, hit-for-pass period, store and entries —
    is the documented restart-only part.) *)
Theorem C16_live_equals_fresh :
  forall c r1 r2, obs_eq c (update false c r1) (update false c r2).
Proof. exact live_equals_fresh. Qed.
Print Assumptions C16_live_equals_fresh.

Theorem C16_history_irrelevant :
  forall cs c, obs_eq c (update false c (fold_left (fun r x => update false x r) cs boot)) (update false c boot).
Proof. exact history_irrelevant. Qed.
Print Assumptions C16_history_irrelevant.

(** While an update is applied (order compress -> caches -> upstreams ->
    locations -> servers, pinned to main.update per run), at EVERY
    intermediate step a server whose own section and the locations it uses
    are unchanged still resolves its cache, locations and upstreams. *)
Theorem C16_unchanged_keeps_serving :
  forall c0 c1 r s, validate c0 = VOk -> validate c1 = VOk ->
    In s (pc_servers c0) -> In s (pc_servers c1) ->
    (forall l, In l (pc_locations c0) -> In (lo_name l) (sv_locations s) -> In l (pc_locations c1)) ->
    forall ri, In ri (update_steps false c1 (update false c0 r)) -> serves ri s = true.
Proof. exact unchanged_keeps_serving. Qed.
Print Assumptions C16_unchanged_keeps_serving.

(** cached entries of surviving caches are retained: the dispatcher is the same object *)
Theorem C16_surviving_caches_retained :
  forall cs r n g, assoc (rg_caches r) n = Some g -> In n (map ca_name cs) ->
    assoc (rg_caches (caches_reset cs r)) n = Some g.
Proof. exact caches_retained. Qed.
Print Assumptions C16_surviving_caches_retained.

(** removed servers are dropped from the registry (their listeners are closed) *)
Theorem C16_removed_servers_stop :
  forall c r ad, existsb (fun s => beqb ad (sv_addr s)) (pc_servers c) = false ->
    assoc (rg_servers (update false c r)) ad = None.
Proof. exact removed_servers_stop. Qed.
Print Assumptions C16_removed_servers_stop.

(** the pinned commit is refuted twice (D10) *)
Theorem C16_legacy_refuted :
  assoc (rg_servers (update true (cfg_a []) (update true (cfg_a []) boot))) [58;56;48]%N
    <> assoc (rg_servers (update true (cfg_a []) boot)) [58;56;48]%N
  /\ (let over := {| cc_name := s_best_name; cc_gzip := Some 1%Z; cc_br := Some 1%Z |} in
      compress_get (update true (cfg_a []) (update true (cfg_a [over]) boot)) s_best_name
        <> compress_get (update true (cfg_a []) boot) s_best_name).
Proof. split; [exact legacy_update_min_length_refuted | exact legacy_compress_never_deleted_refuted]. Qed.
Print Assumptions C16_legacy_refuted.
