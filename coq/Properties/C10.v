(** C10 — store failures degrade to memory-only caching, never to client errors.
    In the model every store call's result is an environment choice: reads may
    fail ([ch_read_ok = false]), writes may fail ([ch_write_ok = false]),
    deletes may fail ([Purge false]), and the stored record may at any moment
    be lost, truncated / undecodable ([SJunk]) or replaced by arbitrary
    decodable fields ([Corrupt (SRec r)], e.g. status word 1, expiry 0, nil
    response) — delays are schedule positions.  The theorems of C01 and C02
    quantify over ALL label sequences and ALL choices, so they hold verbatim
    under every fault sequence; they are re-stated here for that reading. *)
From Coq Require Import List Arith Bool ZArith Lia.
From Pike Require Import Model.Sys Proofs.ListAux Proofs.SysInv Proofs.SysStep Proofs.SysTheorems Proofs.SysFacts Corr.SysCorr.
Import ListNotations.

(** whatever the store does: single flight, progress, and nobody left behind *)
Theorem C10_faults_harmless :
  forall t0 hfp0 ls s, (0 <= t0)%Z -> run (init t0 hfp0 true false) ls = Some s ->
    (forall e x, base s <= e -> nth_error (gens s) e = Some x -> count (owner_on e) (ts s) <= 1) /\
    ((exists j p, nth_error (ts s) j = Some p /\ finished p = false) -> exists i c s', step s (Run i c) = Some s') /\
    ((forall j p, nth_error (ts s) j = Some p -> finished p = true) ->
     forall e x, base s <= e -> nth_error (gens s) e = Some x ->
       st x <> Fetching /\ waitq x = [] /\ sendq x = [] /\ elock x = None).
Proof.
  intros t0 h ls s Ht H. pose proof (inv_reachable t0 h true ls s Ht H) as I.
  split; [intros e x Hb Hx; apply (single_flight s e x I Hb Hx)|].
  split; [apply no_deadlock; exact I | intros Hall e x Hb Hx; apply (final_clean s e x I Hall Hb Hx)].
Qed.
Print Assumptions C10_faults_harmless.

(** a hit always carries a response and a real expiry: no "immortal" entry and
    no hit without a body can arise from any record the store returns *)
Theorem C10_no_immortal_or_empty_hit :
  forall t0 hfp0 ls s, (0 <= t0)%Z -> run (init t0 hfp0 true false) ls = Some s ->
  forall e x, base s <= e -> nth_error (gens s) e = Some x ->
    (st x = Hit -> resp x <> None) /\ (st x = Hit \/ st x = HitForPass -> (0 < expired x)%Z) /\
    (st x = Unknown \/ st x = Fetching -> expired x = 0%Z).
Proof.
  intros t0 h ls s Ht H e x Hb Hx.
  pose proof (inv_entries _ (inv_reachable t0 h true ls s Ht H) e x Hb Hx) as IE.
  split; [apply (i_hit_resp _ _ _ IE) | split; [apply (i_exp_pos _ _ _ IE) | apply (i_exp0 _ _ _ IE)]].
Qed.
Print Assumptions C10_no_immortal_or_empty_hit.

(** a bad record is a miss: a read error, a missing record, undecodable bytes
    and a decodable but invalid record all leave the entry exactly as it was *)
Theorem C10_bad_record_is_miss :
  forall s rd x, legacy s = false ->
    (rd = false \/ has_store s = false \/
     match store s with SNone => True | SJunk _ _ => True | SRec r => valid_record r = false end) ->
    load s rd x = x.
Proof. exact bad_record_is_miss. Qed.
Print Assumptions C10_bad_record_is_miss.

(** responses cached in memory keep being served: an entry that is not
    Unknown never consults the store *)
Theorem C10_memory_needs_no_store :
  forall s i c c' e x0 cont,
    nth_error (ts s) i = Some (PGet e) -> nth_error (gens s) e = Some x0 -> st x0 <> Unknown ->
    ch_outcome c = ch_outcome c' -> ch_write_ok c = ch_write_ok c' ->
    option_map ts (step (set_store s cont) (Run i c')) = option_map ts (step s (Run i c)) /\
    option_map gens (step (set_store s cont) (Run i c')) = option_map gens (step s (Run i c)).
Proof. exact memory_needs_no_store. Qed.
Print Assumptions C10_memory_needs_no_store.

(** The pinned commit's initFromStore (FromBytes mutates the entry field by
    field and its error is ignored) is refuted: a truncated record turns the
    key into an immortal hit without a response — every later request gets an
    error served "from cache", here 1000 s later. *)
Theorem C10_legacy_refuted :
  let c := mkch OFail true true in
  let ls := [Corrupt (SJunk Hit true); Arrive false; Run 0 c; Run 0 c; Run 0 c;
             Tick 1000000; Arrive false; Run 1 c; Run 1 c; Run 1 c] in
  option_map (fun s => map obs_of (ts s)) (run (init 1000000 0 true true) ls)
  = Some [TDone LHit None 1000; TDone LHit None 2000].
Proof. vm_compute. reflexivity. Qed.
Print Assumptions C10_legacy_refuted.

(** the repaired model treats the same history as misses *)
Example C10_repaired_same_history :
  let c := mkch OFail true true in
  let ls := [Corrupt (SJunk Hit true); Arrive false; Run 0 c; Run 0 c] in
  option_map (fun s => map obs_of (ts s)) (run (init 1000000 0 true false) ls) = Some [TUpstream LFetching].
Proof. vm_compute. reflexivity. Qed.
