(** C09 — the persistence format round-trips exactly and rejects garbage safely. *)
From Coq Require Import List Arith Bool NArith ZArith Lia.
From Pike Require Import Base.Bytes Model.MaxAge Model.Resp Model.Codec Proofs.CodecProofs Proofs.CodecBound.
Import ListNotations.

Section C09.
  (** encoding/json on http.Header and regexp.Compile are oracles *)
  Variable hdr_enc : option headers -> bytes.
  Variable hdr_dec : bytes -> option headers -> option (option headers).
  Variable regex_ok : bytes -> bool.

  (** Every well-formed response (all lengths and numbers fit their 32-bit
      fields; the filter is a non-empty source that compiles; the header map
      survives encoding/json) decodes to exactly itself. *)
  Theorem C09_response_roundtrip :
    forall r, presp_wf hdr_enc hdr_dec regex_ok r ->
      decode_resp hdr_dec regex_ok empty_presp (encode_resp hdr_enc r) = (r, true).
  Proof. exact (resp_roundtrip hdr_enc hdr_dec regex_ok). Qed.

  (** Every well-formed entry in any state, decoded into any receiver, gives
      the same status, timestamps and response (a nil response comes back as
      the empty response). *)
  Theorem C09_entry_roundtrip :
    forall e0 e, pentry_wf hdr_enc hdr_dec regex_ok e ->
      exists e', decode_entry hdr_dec regex_ok e0 (encode_entry hdr_enc e) = (e', true) /\
        pe_status e' = pe_status e /\ pe_created e' = pe_created e /\ pe_expired e' = pe_expired e /\
        resp_equiv (pe_resp e) (pe_resp e').
  Proof. exact (entry_roundtrip hdr_enc hdr_dec regex_ok). Qed.

  (** Every truncated record is reported as an error — whatever the JSON and
      regexp libraries answer on the fragments. *)
  Theorem C09_truncation_detected :
    forall e0 e n,
      match pe_resp e with Some r => small (encode_resp hdr_enc r) | None => True end ->
      (n < length (encode_entry hdr_enc e))%nat ->
      snd (decode_entry hdr_dec regex_ok e0 (firstn n (encode_entry hdr_enc e))) = false.
  Proof. exact (truncation_detected hdr_enc hdr_dec regex_ok). Qed.

  (** Allocation clause: for EVERY byte string (valid, truncated, bit-flipped,
      arbitrary) the byte fields of the decoded response — compress-profile
      name, filter source and the three body variants — are slices of the
      input and together never longer than it; the entry decoder installs
      either such a response or keeps the receiver's. *)
  Theorem C09_decoded_response_within_input : forall data,
    (body_bytes (fst (decode_resp hdr_dec regex_ok empty_presp data)) <= length data)%nat.
  Proof. exact (decode_resp_bounded hdr_dec regex_ok). Qed.

  Theorem C09_decoded_entry_within_input : forall e data,
    match pe_resp (fst (decode_entry hdr_dec regex_ok e data)) with
    | Some r => (body_bytes r <= length data)%nat \/ Some r = pe_resp e
    | None => True
    end.
  Proof. exact (decode_entry_bounded hdr_dec regex_ok). Qed.
End C09.
Print Assumptions C09_decoded_response_within_input.
Print Assumptions C09_decoded_entry_within_input.
Print Assumptions C09_response_roundtrip.
Print Assumptions C09_entry_roundtrip.
Print Assumptions C09_truncation_detected.

(** decoding is a total function on every byte string (definitional: the model
    has no failing or diverging case), with byte fields cut out of the input *)
Example C09_garbage_is_an_error :
  snd (decode_entry (fun _ _ => None) (fun _ => false) fresh_entry [0;0;0;3;255;255;255;255;1;2;3]%N) = false.
Proof. vm_compute. reflexivity. Qed.

(** non-vacuity: a hit entry with all three body variants is well-formed for
    an identity JSON oracle on this header set *)
Example C09_nonvacuous :
  let h := Some [([65]%N, [66]%N)] in
  let enc := fun (x : option headers) => match x with Some _ => [123;125]%N | None => [110]%N end in
  let dec := fun (b : bytes) (_ : option headers) => if beqb b [123;125]%N then Some h else Some None in
  pentry_wf enc dec (fun _ => true)
    {| pe_status := 3;
       pe_resp := Some {| p_srv := [98]%N; p_min := 1024; p_filter := Some [106]%N; p_header := h;
                          p_status := 200; p_gzip := [1;2]%N; p_br := [3]%N; p_raw := [4;5;6]%N |};
       pe_created := 1600000000; pe_expired := 1600000060 |}.
Proof.
  cbv zeta. constructor; simpl; try (unfold two32, min_i64, max_i64; lia).
  split.
  - constructor; simpl; unfold small, two32; simpl; try lia; repeat split; try lia; try discriminate; auto.
  - unfold small, two32. vm_compute. reflexivity.
Qed.
