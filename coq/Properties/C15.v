(** C15 — requests and responses cross the proxy with only the configured changes. *)
From Coq Require Import List Arith Bool NArith ZArith.
From Pike Require Import Base.Bytes Model.MaxAge Model.Resp Model.Proxy Proofs.ProxyProofs Model.Rewrite Proofs.RewriteProofs.
From Pike Require Import Model.Responder Proofs.ResponderProofs.
Import ListNotations.

Section C15.
  Variable rewrite : bytes -> bytes.   (* the location's path rewriter: user regular expressions (oracle) *)

  (** the upstream receives the client's method and body unchanged, the path
      as rewritten by the location, and the client's query string verbatim
      followed by the location's added parameters *)
  Theorem C15_method_body_path_query :
    forall fetching l acc rq,
      let u := upstream_request rewrite fetching l acc rq in
      rq_method u = rq_method rq /\ rq_body u = rq_body rq /\ rq_path u = rewrite (rq_path rq) /\
      rq_query u = add_query (rq_query rq) (pl_query l) /\ is_prefix (rq_query rq) (rq_query u) = true \/
      (rq_method (upstream_request rewrite fetching l acc rq) = rq_method rq /\ pl_query l <> [] /\ rq_query rq = []).
  Proof. exact (method_body_path_query rewrite). Qed.

  (** every header other than the conditional / range ones and Accept-Encoding
      reaches the upstream unchanged, followed by the location's additions *)
  Theorem C15_other_headers_unchanged :
    forall fetching l acc rq k, is_withheld k = false -> beqb k k_accept_encoding = false ->
      hvalues k (rq_headers (upstream_request rewrite fetching l acc rq))
      = hvalues k (rq_headers rq) ++ hvalues k (pl_req_headers l).
  Proof. exact (other_headers_unchanged rewrite). Qed.

  (** Accept-Encoding is replaced exactly when the upstream configures one *)
  Theorem C15_accept_encoding :
    forall fetching l rq,
      (forall acc, acc <> [] -> hvalues k_accept_encoding (rq_headers (upstream_request rewrite fetching l acc rq)) = [acc]) /\
      (hvalues k_accept_encoding (rq_headers (upstream_request rewrite fetching l [] rq))
         = hvalues k_accept_encoding (rq_headers rq) ++ hvalues k_accept_encoding (pl_req_headers l)).
  Proof. exact (accept_encoding_rule rewrite). Qed.

  (** on a cold (fetching) request the client's conditional and range headers
      are withheld from the upstream, so that a full response is obtained ... *)
  Theorem C15_cold_fetch_withholds_conditionals :
    forall l acc rq k, is_withheld k = true -> hvalues k (pl_req_headers l) = [] ->
      hvalues k (rq_headers (upstream_request rewrite true l acc rq)) = [].
  Proof. exact (fetching_withholds rewrite). Qed.

  (** ... on hit-for-pass and passed requests they go through untouched ... *)
  Theorem C15_other_labels_pass_conditionals :
    forall l acc rq k, is_withheld k = true ->
      hvalues k (rq_headers (upstream_request rewrite false l acc rq)) = hvalues k (rq_headers rq) ++ hvalues k (pl_req_headers l).
  Proof. exact (non_fetching_passes_conditionals rewrite). Qed.

  (** ... and afterwards the client's own request carries them again: its 304
      is decided on its own validators *)
  Theorem C15_client_request_restored :
    forall l acc rq k, beqb k k_accept_encoding = false ->
      hvalues k (rq_headers (client_after l acc rq)) = hvalues k (rq_headers rq) ++ hvalues k (pl_req_headers l).
  Proof. exact client_restored. Qed.

  (** the client receives the upstream's headers plus the location's response
      headers (framing headers aside, C05) *)
  Theorem C15_response_headers :
    forall l up_resp k, existsb (beqb k) ignore_headers = false ->
      hvalues k (proxy_response_headers l up_resp) = hvalues k up_resp ++ hvalues k (pl_resp_headers l).
  Proof. exact response_headers. Qed.

  (** a 304 / 206 / 412 provoked by one client's headers is never offered for
      storage, for every origin that answers so only to requests carrying the
      corresponding header; requests that are not fetching never store *)
  Theorem C15_never_store_partial :
    forall origin l acc rq up_resp T,
      conforming origin -> (forall k, is_withheld k = true -> hvalues k (pl_req_headers l) = []) ->
      offered_lifetime true l up_resp = Some T ->
      let st := origin (upstream_request rewrite true l acc rq) in
      st <> 304%Z /\ st <> 206%Z /\ st <> 412%Z.
  Proof. exact (never_store_partial rewrite). Qed.

  Theorem C15_only_fetching_offers : forall l up_resp, offered_lifetime false l up_resp = None.
  Proof. exact non_fetching_never_offers. Qed.
End C15.
Print Assumptions C15_method_body_path_query.
Print Assumptions C15_other_headers_unchanged.
Print Assumptions C15_accept_encoding.
Print Assumptions C15_cold_fetch_withholds_conditionals.
Print Assumptions C15_other_labels_pass_conditionals.
Print Assumptions C15_client_request_restored.
Print Assumptions C15_response_headers.
Print Assumptions C15_never_store_partial.
Print Assumptions C15_only_fetching_offers.

(** non-vacuity: Range on a cold request is withheld, a custom header passes, an added header follows *)
Example C15_nonvacuous :
  let rq := {| rq_method := [71;69;84]%N; rq_path := [47]%N; rq_query := [120;61;49]%N;
               rq_headers := [(k_range, [98]%N); ([88;45;65]%N, [49]%N)]; rq_body := [] |} in
  let l := {| pl_req_headers := [([88;45;66]%N, [50]%N)]; pl_resp_headers := []; pl_query := [97;61;49]%N |} in
  let u := upstream_request (fun p => p) true l [] rq in
  rq_headers u = [([88;45;65]%N, [49]%N); ([88;45;66]%N, [50]%N)] /\ rq_query u = [120;61;49;38;97;61;49]%N.
Proof. vm_compute. split; reflexivity. Qed.

(** ** the configured path rewrite (rules "pattern:target" of the documented
    forms: literal path bytes and [*] wildcards; [$1]..[$9] in the target) *)

(** a path that no rule matches reaches the upstream unchanged *)
Theorem C15_rewrite_unmatched : forall rules path,
  Forall (fun r => find_match (r_items r) path = None) rules -> rewrite_path rules path = path.
Proof. exact rewrite_unmatched. Qed.
Print Assumptions C15_rewrite_unmatched.

(** whenever the path contains an instance of the pattern (any prefix, any
    groups without blanks, any rest) the rule fires, and its result is the
    target instantiated with groups that really occur in the path in order *)
Theorem C15_rewrite_matched : forall r path pre caps rest,
  length caps = stars (r_items r) -> Forall group_ok caps ->
  path = pre ++ render (r_items r) caps ++ rest ->
  exists caps' pre' rest',
    apply_rule r path = expand caps' (r_value r) /\
    length caps' = stars (r_items r) /\ Forall group_ok caps' /\
    path = pre' ++ render (r_items r) caps' ++ rest'.
Proof. exact apply_rule_matched. Qed.
Print Assumptions C15_rewrite_matched.

(** [$d] (1 <= d <= 9, d not beyond the number of groups) stands for group d
    whatever follows it; every other byte of the target is copied *)
Theorem C15_rewrite_token : forall caps d rest,
  (49 <= d)%N -> (d <= 57)%N -> (N.to_nat (d - 48) <= length caps)%nat ->
  expand caps (36%N :: d :: rest) = nth (N.to_nat (d - 49)) caps [] ++ expand caps rest.
Proof. exact expand_token. Qed.
Print Assumptions C15_rewrite_token.

Theorem C15_rewrite_target_without_tokens : forall caps v,
  (forall c, In c v -> c <> 36%N) -> expand caps v = v.
Proof. exact expand_plain. Qed.
Print Assumptions C15_rewrite_target_without_tokens.

Theorem C15_rewrite_pattern_without_wildcard : forall r path,
  stars (r_items r) = 0%nat -> find_match (r_items r) path <> None -> apply_rule r path = r_value r.
Proof. exact apply_rule_literal. Qed.
Print Assumptions C15_rewrite_pattern_without_wildcard.

(** the two models composed: with the location's rules inside the modelled
    class the path the upstream receives is [rewrite_path rules (client path)];
    a client path no rule matches reaches the upstream unchanged *)
Theorem C15_upstream_path_is_rewritten_path : forall rules fetching l acc rq,
  rq_path (upstream_request (rewrite_path rules) fetching l acc rq) = rewrite_path rules (rq_path rq).
Proof. intros. reflexivity. Qed.

Theorem C15_unmatched_path_reaches_upstream_unchanged : forall rules fetching l acc rq,
  Forall (fun r => find_match (r_items r) (rq_path rq) = None) rules ->
  rq_path (upstream_request (rewrite_path rules) fetching l acc rq) = rq_path rq.
Proof. intros rules fetching l acc rq H. cbn. apply rewrite_unmatched. exact H. Qed.
Print Assumptions C15_upstream_path_is_rewritten_path.
Print Assumptions C15_unmatched_path_reaches_upstream_unchanged.

(** non-vacuity: "/files/*/thumb:/thumbs/$1_small" on "/files/abc/thumb" gives "/thumbs/abc_small" *)
Example C15_rewrite_nonvacuous :
  let s := fun (l : list nat) => map N.of_nat l in
  match parse_rules [s [47;102;105;108;101;115;47;42;47;116;104;117;109;98;58;47;116;104;117;109;98;115;47;36;49;95;115;109;97;108;108]] with
  | Some rs => rewrite_path rs (s [47;102;105;108;101;115;47;97;98;99;47;116;104;117;109;98])
               = s [47;116;104;117;109;98;115;47;97;98;99;95;115;109;97;108;108]
  | None => False
  end.
Proof. vm_compute. reflexivity. Qed.

(** ** the responder (server/responder.go): what it adds to the filled response *)

(** every header other than Age and X-Status reaches the client exactly as filled *)
Theorem C15_responder_keeps_other_headers : forall filled age label k,
  beqb k_age k = false -> beqb k_x_status k = false ->
  hvalues k (responder_headers filled age label) = hvalues k filled.
Proof. exact responder_keeps_other_headers. Qed.
Print Assumptions C15_responder_keeps_other_headers.

(** when pike measured no age (fetched, passed, stored this second) the
    origin's own Age header, if any, reaches the client untouched *)
Theorem C15_responder_keeps_origin_age : forall filled label,
  hvalues k_age (responder_headers filled None label) = hvalues k_age filled.
Proof. exact responder_keeps_origin_age. Qed.
Print Assumptions C15_responder_keeps_origin_age.

(** when pike measured an age, that is the one Age value the client sees *)
Theorem C15_responder_sets_measured_age : forall filled a label,
  hvalues k_age (responder_headers filled (Some a) label) = [a].
Proof. exact responder_sets_measured_age. Qed.
Print Assumptions C15_responder_sets_measured_age.

Theorem C15_responder_sets_status : forall filled age label,
  hvalues k_x_status (responder_headers filled age label) = [label].
Proof. exact responder_sets_status. Qed.
Print Assumptions C15_responder_sets_status.
