From Coq Require Import List Arith Bool NArith ZArith Lia.
From Pike Require Import Base.Bytes.
Import ListNotations.

(** [sub w s]: [w] occurs as a contiguous substring of [s]. *)
Definition sub (w s : bytes) : Prop := exists a b, s = a ++ w ++ b.

Lemma sub_refl s : sub s s.
Proof. exists [], []. rewrite app_nil_r. reflexivity. Qed.

Lemma sub_trans a b c : sub a b -> sub b c -> sub a c.
Proof.
  intros (x & y & ->) (u & v & ->). exists (u ++ x), (y ++ v).
  repeat rewrite <- app_assoc. reflexivity.
Qed.

Lemma sub_cons w c s : sub w s -> sub w (c :: s).
Proof. intros (a & b & ->). exists (c :: a), b. reflexivity. Qed.

Lemma sub_app_l w a s : sub w s -> sub w (a ++ s).
Proof. intros (x & y & ->). exists (a ++ x), y. rewrite app_assoc. reflexivity. Qed.

Lemma sub_app_r w s b : sub w s -> sub w (s ++ b).
Proof. intros (x & y & ->). exists x, (y ++ b). repeat rewrite <- app_assoc. reflexivity. Qed.

Lemma ltrim_sub s : sub (ltrim s) s.
Proof.
  induction s as [|c r IH]; simpl; [apply sub_refl|].
  destruct (is_ws c); [apply sub_cons; exact IH | apply sub_refl].
Qed.

Lemma sub_rev w s : sub w s -> sub (rev w) (rev s).
Proof.
  intros (a & b & ->). exists (rev b), (rev a). repeat rewrite rev_app_distr.
  rewrite app_assoc. reflexivity.
Qed.

Lemma take_while_prefix f s : exists b, s = take_while f s ++ b.
Proof.
  induction s as [|c r [b IH]]; simpl; [exists []; reflexivity|].
  destruct (f c); [exists b; simpl; f_equal; exact IH | exists (c :: r); reflexivity].
Qed.

Lemma take_while_sub f s : sub (take_while f s) s.
Proof. destruct (take_while_prefix f s) as [b H]. exists [], b. exact H. Qed.

Lemma take_while_all f s : forallb f (take_while f s) = true.
Proof. induction s as [|c r IH]; simpl; auto. destruct (f c) eqn:E; simpl; auto. rewrite E; auto. Qed.

(** ** split_on / join *)
Lemma split_on_nonempty sep s : split_on sep s <> [].
Proof.
  induction s as [|c r IH]; simpl; [discriminate|].
  destruct (N.eqb c sep); [discriminate|]. destruct (split_on sep r); [contradiction | discriminate].
Qed.

Lemma join_cons sep x l : l <> [] -> join sep (x :: l) = x ++ sep ++ join sep l.
Proof. destruct l; [contradiction | reflexivity]. Qed.

Lemma join_split sep s : join [sep] (split_on sep s) = s.
Proof.
  induction s as [|c r IH]; simpl; [reflexivity|].
  destruct (N.eqb_spec c sep) as [->|Hne].
  - rewrite join_cons by apply split_on_nonempty. simpl. f_equal. exact IH.
  - destruct (split_on sep r) as [|h t] eqn:E; [exfalso; eapply split_on_nonempty; eauto|].
    destruct t as [|h2 t2]; simpl in *; f_equal; exact IH.
Qed.

Lemma In_join_sub sep tok l : In tok l -> sub tok (join sep l).
Proof.
  induction l as [|x r IH]; simpl; [contradiction|].
  intros [->|H].
  - destruct r; [apply sub_refl | exists [], (sep ++ join sep (b :: r)); reflexivity].
  - destruct r as [|y r']; [contradiction|].
    apply sub_app_l. apply sub_app_l. apply IH. exact H.
Qed.

Lemma split_on_sub sep s tok : In tok (split_on sep s) -> sub tok s.
Proof. intros H. rewrite <- (join_split sep s) at 1. apply In_join_sub. exact H. Qed.

Lemma split_on_app sep a b :
  split_on sep (a ++ sep :: b) = split_on sep a ++ split_on sep b.
Proof.
  induction a as [|c a IH]; simpl.
  - rewrite N.eqb_refl. reflexivity.
  - destruct (N.eqb c sep); [rewrite IH; reflexivity|].
    rewrite IH. destruct (split_on sep a) as [|h t] eqn:E; [exfalso; eapply split_on_nonempty; eauto|].
    reflexivity.
Qed.

Lemma split_join sep (l : list bytes) : l <> [] ->
  split_on sep (join [sep] l) = flat_map (split_on sep) l.
Proof.
  induction l as [|x r IH]; [contradiction|]. intros _.
  destruct r as [|y r'].
  - simpl. rewrite app_nil_r. reflexivity.
  - rewrite join_cons by discriminate. cbn [app]. rewrite split_on_app.
    cbn [flat_map]. f_equal. apply IH. discriminate.
Qed.

(** ** contains / exists_suffix *)
Lemma exists_suffix_app f a s : f s = true -> exists_suffix f (a ++ s) = true.
Proof.
  intros H. induction a as [|c a IH]; simpl.
  - destruct s; simpl; rewrite H; reflexivity.
  - rewrite IH. apply orb_true_r.
Qed.

Lemma exists_suffix_elim f s : exists_suffix f s = true -> exists a t, s = a ++ t /\ f t = true.
Proof.
  induction s as [|c r IH]; simpl.
  - rewrite orb_false_r. intros H. exists [], []. auto.
  - intros H. apply orb_prop in H. destruct H as [H|H].
    + exists [], (c :: r). auto.
    + destruct (IH H) as (a & t & -> & Ht). exists (c :: a), t. auto.
Qed.

(** ** numbers *)
Lemma digits_val_acc ds : forall acc, (0 <= acc)%Z -> forallb is_digit ds = true ->
  (0 <= fold_left (fun a d => a * 10 + (Z.of_N d - 48)) ds acc)%Z.
Proof.
  induction ds as [|d r IH]; simpl; intros acc Ha H; [exact Ha|].
  apply andb_prop in H. destruct H as [Hd Hr]. apply IH; [|exact Hr].
  unfold is_digit in Hd. apply andb_prop in Hd. destruct Hd as [H1 H2].
  apply N.leb_le in H1. lia.
Qed.

Lemma digits_val_nonneg ds : forallb is_digit ds = true -> (0 <= digits_val ds)%Z.
Proof. apply digits_val_acc. lia. Qed.

Lemma wrap64_id z : (min_i64 <= z <= max_i64)%Z -> wrap64 z = z.
Proof.
  unfold wrap64, min_i64, max_i64, two63. intros H.
  rewrite Z.mod_small by lia. lia.
Qed.

Lemma wrap64_range z : (min_i64 <= wrap64 z <= max_i64)%Z.
Proof.
  unfold wrap64, min_i64, max_i64, two63.
  pose proof (Z.mod_pos_bound (z + 9223372036854775808) (2 * 9223372036854775808) ltac:(lia)). lia.
Qed.
