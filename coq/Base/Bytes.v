(** Byte strings as [list N] and the small string functions the models need. *)
From Coq Require Import List Arith Bool NArith ZArith Lia.
Import ListNotations.

Definition byte := N.
Definition bytes := list N.

Fixpoint beqb (a b : bytes) : bool :=
  match a, b with
  | [], [] => true
  | x :: a', y :: b' => N.eqb x y && beqb a' b'
  | _, _ => false
  end.

Lemma beqb_spec a b : beqb a b = true <-> a = b.
Proof.
  revert b; induction a as [|x a IH]; intros [|y b]; simpl; split; try discriminate; auto.
  - intros H. apply andb_prop in H. destruct H as [H1 H2]. apply N.eqb_eq in H1. apply IH in H2. subst; auto.
  - intros H. inversion H; subst. rewrite N.eqb_refl. simpl. apply IH; auto.
Qed.

Lemma beqb_refl a : beqb a a = true.
Proof. apply beqb_spec; reflexivity. Qed.

(** ASCII helpers *)
Definition is_upper (b : N) : bool := (65 <=? b)%N && (b <=? 90)%N.
Definition lower (b : N) : N := if is_upper b then (b + 32)%N else b.
Definition lower_s (s : bytes) : bytes := map lower s.
Definition is_digit (b : N) : bool := (48 <=? b)%N && (b <=? 57)%N.
(** Go regexp [\s] = [\t\n\f\r ] *)
Definition is_ws (b : N) : bool :=
  N.eqb b 9 || N.eqb b 10 || N.eqb b 12 || N.eqb b 13 || N.eqb b 32.

Fixpoint ltrim (s : bytes) : bytes :=
  match s with
  | c :: r => if is_ws c then ltrim r else s
  | [] => []
  end.

(** strings.Split(s, sep) for a one-byte separator: never returns []. *)
Fixpoint split_on (sep : N) (s : bytes) : list bytes :=
  match s with
  | [] => [[]]
  | c :: r =>
      if N.eqb c sep then [] :: split_on sep r
      else match split_on sep r with
           | h :: t => (c :: h) :: t
           | [] => [[c]]
           end
  end.

Fixpoint join (sep : bytes) (l : list bytes) : bytes :=
  match l with
  | [] => []
  | [x] => x
  | x :: r => x ++ sep ++ join sep r
  end.

Fixpoint take_while (f : N -> bool) (s : bytes) : bytes :=
  match s with
  | c :: r => if f c then c :: take_while f r else []
  | [] => []
  end.

Fixpoint drop_while (f : N -> bool) (s : bytes) : bytes :=
  match s with
  | c :: r => if f c then drop_while f r else s
  | [] => []
  end.

Fixpoint is_prefix (p s : bytes) : bool :=
  match p, s with
  | [], _ => true
  | x :: p', y :: s' => N.eqb x y && is_prefix p' s'
  | _, [] => false
  end.

Fixpoint strip_prefix (p s : bytes) : option bytes :=
  match p, s with
  | [], _ => Some s
  | x :: p', y :: s' => if N.eqb x y then strip_prefix p' s' else None
  | _, [] => None
  end.

(** does [f] hold at some suffix (i.e. some start position) of [s]? *)
Fixpoint exists_suffix (f : bytes -> bool) (s : bytes) : bool :=
  f s || match s with [] => false | _ :: r => exists_suffix f r end.

Definition contains (p s : bytes) : bool := exists_suffix (is_prefix p) s.

Fixpoint first_some {A B} (f : A -> option B) (l : list A) : option B :=
  match l with
  | [] => None
  | x :: r => match f x with Some y => Some y | None => first_some f r end
  end.

(** decimal value of a digit string (unbounded) *)
Definition digits_val (ds : bytes) : Z :=
  fold_left (fun acc d => (acc * 10 + (Z.of_N d - 48))%Z) ds 0%Z.

(** 64-bit two's complement wrap (Go int arithmetic on amd64) *)
Definition two63 : Z := 9223372036854775808.
Definition max_i64 : Z := 9223372036854775807.
Definition min_i64 : Z := (-9223372036854775808)%Z.
Definition wrap64 (z : Z) : Z := ((z + two63) mod (2 * two63) - two63)%Z.

(** strconv.Atoi with the error ignored, as at both call sites in
    server/proxy.go: syntax error -> 0, out of range -> saturated. *)
Definition atoi (s : bytes) : Z :=
  match s with
  | [] => 0%Z
  | c :: r =>
      let neg := N.eqb c 45 in
      let body := if N.eqb c 45 || N.eqb c 43 then r else s in
      match body with
      | [] => 0%Z
      | _ => if forallb is_digit body then
               let v := digits_val body in
               if neg then Z.max (- v) min_i64 else Z.min v max_i64
             else 0%Z
      end
  end.
