(** Single-critical-section analysis over the regenerated function skeletons
    (same event language as Proofs/Lockset.v).

    [one_section m evs = true] implies: on every path through [evs] (any
    branch choices, any number of loop iterations) the mutex [m] is acquired
    at most once and never released before the function ends (a deferred
    unlock runs at function exit).  Together with the lockset analysis (every
    call that needs [m] happens with [m] held) this is the atomicity that
    Model/Sys.v assumes for the dispatcher's lookup-or-create and purge
    sections and for the completion of a fetch. *)
From Coq Require Import List String Bool Arith Lia.
From Pike Require Import Proofs.Lockset.
Import ListNotations.
Local Open Scope list_scope.

(** linearised paths: the lock operations on the mutexes, in order *)
Inductive lop := Acq (m : string) | Rel (m : string).

Inductive path_ev : event -> list lop -> bool -> Prop :=   (* bool: did the path return? *)
| p_lock m : path_ev (Lock m) [Acq m] false
| p_rlock m : path_ev (RLock m) [Acq m] false
| p_unlock m : path_ev (Unlock m) [Rel m] false
| p_runlock m : path_ev (RUnlock m) [Rel m] false
| p_dunlock m : path_ev (DeferUnlock m) [] false
| p_drunlock m : path_ev (DeferRUnlock m) [] false
| p_send : path_ev Send [] false
| p_recv : path_ev Recv [] false
| p_read f : path_ev (Read f) [] false
| p_write f : path_ev (Write f) [] false
| p_call f : path_ev (Call f) [] false
| p_return : path_ev Return [] true
| p_if_then a b t r : path_list a t r -> path_ev (If a b) t r
| p_if_else a b t r : path_list b t r -> path_ev (If a b) t r
| p_loop_zero b : path_ev (Loop b) [] false
| p_loop_ret b t : path_list b t true -> path_ev (Loop b) t true
| p_loop_more b t1 t2 r : path_list b t1 false -> path_ev (Loop b) t2 r -> path_ev (Loop b) (t1 ++ t2) r
| p_block b t r : path_list b t r -> path_ev (Block b) t false
| p_defer b t r : path_list b t r -> path_ev (Defer b) t false
| p_go b t r : path_list b t r -> path_ev (Go b) t false
with path_list : list event -> list lop -> bool -> Prop :=
| pl_nil : path_list [] [] false
| pl_ret e r t : path_ev e t true -> path_list (e :: r) t true
| pl_cons e r t1 t2 o : path_ev e t1 false -> path_list r t2 o -> path_list (e :: r) (t1 ++ t2) o.

Scheme path_ev_ind2 := Induction for path_ev Sort Prop
  with path_list_ind2 := Induction for path_list Sort Prop.
Combined Scheme path_mutind from path_ev_ind2, path_list_ind2.

Definition is_acq (m : string) (o : lop) : bool := match o with Acq m' => String.eqb m m' | _ => false end.
Definition is_rel (m : string) (o : lop) : bool := match o with Rel m' => String.eqb m m' | _ => false end.
Definition count (f : lop -> bool) (t : list lop) : nat := List.length (filter f t).

Lemma count_app f a b : count f (a ++ b) = count f a + count f b.
Proof. unfold count. rewrite filter_app, app_length. reflexivity. Qed.

(** ** the checker: an upper bound on acquisitions per path (2 = "more than one"), no release at all *)
Section ListBound.
  Variable bound_ev : event -> nat.
  Fixpoint bound_list (l : list event) : nat :=
    match l with [] => 0 | e :: r => bound_ev e + bound_list r end.
End ListBound.

Fixpoint acq_bound (m : string) (e : event) {struct e} : nat :=
  match e with
  | Lock m' | RLock m' => if String.eqb m m' then 1 else 0
  | If a b => Nat.max (bound_list (acq_bound m) a) (bound_list (acq_bound m) b)
  | Loop b => if Nat.eqb (bound_list (acq_bound m) b) 0 then 0 else 2
  | Block b | Defer b | Go b => bound_list (acq_bound m) b
  | _ => 0
  end.

Fixpoint rel_free (m : string) (e : event) {struct e} : bool :=
  match e with
  | Unlock m' | RUnlock m' => negb (String.eqb m m')
  | If a b => forallb (rel_free m) a && forallb (rel_free m) b
  | Loop b | Block b | Defer b | Go b => forallb (rel_free m) b
  | _ => true
  end.

Definition one_section (m : string) (l : list event) : bool :=
  (bound_list (acq_bound m) l <=? 1) && forallb (rel_free m) l.

Theorem bounds_sound m :
  (forall e t r, path_ev e t r ->
     (acq_bound m e <= 1 -> count (is_acq m) t <= acq_bound m e) /\ (rel_free m e = true -> count (is_rel m) t = 0)) /\
  (forall l t r, path_list l t r ->
     (bound_list (acq_bound m) l <= 1 -> count (is_acq m) t <= bound_list (acq_bound m) l) /\
     (forallb (rel_free m) l = true -> count (is_rel m) t = 0)).
Proof.
  apply path_mutind; intros; cbn [acq_bound rel_free bound_list forallb] in *;
    try (split; [intros; cbn; lia | intros; reflexivity]).
  - (* Lock *) split; [intros _; cbn; destruct (String.eqb m m0); cbn; lia | intros; reflexivity].
  - (* RLock *) split; [intros _; cbn; destruct (String.eqb m m0); cbn; lia | intros; reflexivity].
  - (* Unlock *) split; [intros; cbn; lia|]. intros H. cbn. apply negb_true_iff in H. rewrite H. reflexivity.
  - (* RUnlock *) split; [intros; cbn; lia|]. intros H. cbn. apply negb_true_iff in H. rewrite H. reflexivity.
  - (* if-then *) destruct H as [A R]. split; [intros; lia|]. intros H. apply andb_prop in H. apply R. tauto.
  - (* if-else *) destruct H as [A R]. split; [intros; lia|]. intros H. apply andb_prop in H. apply R. tauto.
  - (* loop ret *) destruct H as [A R]. split; [|exact R].
    destruct (Nat.eqb (bound_list (acq_bound m) b) 0) eqn:E; intros Hb; [|lia].
    apply Nat.eqb_eq in E. lia.
  - (* loop more *) destruct H as [A1 R1]. destruct H0 as [A2 R2]. rewrite !count_app. split.
    + destruct (Nat.eqb (bound_list (acq_bound m) b) 0) eqn:E; intros Hb; [|lia].
      apply Nat.eqb_eq in E. lia.
    + intros H. rewrite (R1 H), (R2 H). reflexivity.
  - (* block *) destruct H as [A R]. split; [intros; lia | exact R].
  - (* defer *) destruct H as [A R]. split; [intros; lia | exact R].
  - (* go *) destruct H as [A R]. split; [intros; lia | exact R].
  - (* cons ret *) destruct H as [A R]. split; [intros; lia|]. intros H. apply andb_prop in H. apply R. tauto.
  - (* cons *) destruct H as [A1 R1]. destruct H0 as [A2 R2]. rewrite !count_app. split; [intros; lia|].
    intros H. apply andb_prop in H. destruct H as [H1 H2]. rewrite (R1 H1), (R2 H2). reflexivity.
Qed.

(** the statement used per run *)
Corollary one_section_sound m l t r :
  one_section m l = true -> path_list l t r -> count (is_acq m) t <= 1 /\ count (is_rel m) t = 0.
Proof.
  unfold one_section. intros H P. apply andb_prop in H. destruct H as [Hb Hr]. apply Nat.leb_le in Hb.
  destruct (proj2 (bounds_sound m) l t r P) as [A R]. split; [specialize (A Hb); lia | exact (R Hr)].
Qed.

(** syntactic occurrence tests used next to it (which calls / channel operations a function contains) *)
Fixpoint has_loop_send (e : event) : bool :=
  match e with
  | Loop b => existsb (fun x => match x with Send => true | _ => false end) b || existsb has_loop_send b
  | If a b => existsb has_loop_send a || existsb has_loop_send b
  | Block b => existsb has_loop_send b
  | _ => false
  end.
Definition wakes_by_blocking_send (l : list event) : bool := existsb has_loop_send l.
Definition calls (f : string) (l : list event) : bool := existsb (String.eqb f) (calls_of l).

(** calls in source order; a call made from a deferred closure is prefixed "defer:" *)
Fixpoint flat (e : event) : list string :=
  match e with
  | Call f => [f]
  | If a b => flat_map flat a ++ flat_map flat b
  | Loop b | Block b | Go b => flat_map flat b
  | Defer b => map (String.append "defer:") (flat_map flat b)
  | _ => []
  end.
Definition flat_all (l : list event) : list string := flat_map flat l.

Fixpoint index_of (x : string) (l : list string) (k : nat) : option nat :=
  match l with
  | [] => None
  | y :: r => if String.eqb x y then Some k else index_of x r (S k)
  end.
Fixpoint last_index_of (x : string) (l : list string) (k : nat) (acc : option nat) : option nat :=
  match l with
  | [] => acc
  | y :: r => last_index_of x r (S k) (if String.eqb x y then Some k else acc)
  end.
(** the first occurrence of [a] precedes the last occurrence of [b] *)
Definition registered_before (a b : string) (l : list string) : bool :=
  match index_of a l 0, last_index_of b l 0 None with
  | Some i, Some j => Nat.ltb i j
  | _, _ => false
  end.
