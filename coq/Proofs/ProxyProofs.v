From Coq Require Import List Arith Bool NArith ZArith Lia.
From Pike Require Import Base.Bytes Base.BytesProofs Model.MaxAge Model.Resp Proofs.RespProofs Model.Proxy.
Import ListNotations.

Section ProxyProofs.
  Variable rewrite : bytes -> bytes.
  Notation upstream_request := (upstream_request rewrite).

  Lemma hvalues_filter_keep (p : bytes -> bool) k (h : headers) : p k = false ->
    hvalues k (filter (fun kv => negb (p (fst kv))) h) = hvalues k h.
  Proof.
    intros Hk. unfold hvalues. induction h as [|[a v] r IH]; cbn [filter fst map]; [reflexivity|].
    destruct (p a) eqn:W; cbn [negb filter fst map].
    - destruct (beqb a k) eqn:E; [apply beqb_spec in E; subst; congruence | exact IH].
    - destruct (beqb a k); cbn [map snd]; rewrite IH; reflexivity.
  Qed.

  Lemma hvalues_filter_withheld k (h : headers) : is_withheld k = false ->
    hvalues k (filter (fun kv => negb (is_withheld (fst kv))) h) = hvalues k h.
  Proof. apply (hvalues_filter_keep is_withheld). Qed.

  Lemma hvalues_filter_withheld_nil k (h : headers) : is_withheld k = true ->
    hvalues k (filter (fun kv => negb (is_withheld (fst kv))) h) = [].
  Proof.
    intros Hk. unfold hvalues. induction h as [|[a v] r IH]; simpl; [reflexivity|].
    destruct (is_withheld a) eqn:W; simpl; [exact IH|].
    destruct (beqb a k) eqn:E; [apply beqb_spec in E; subst; congruence | exact IH].
  Qed.

  Lemma hvalues_hset_other k k0 v h : beqb k k0 = false -> hvalues k (hset k0 v h) = hvalues k h.
  Proof.
    intros H. unfold hset. rewrite hvalues_app, hvalues_hdel_other by exact H.
    unfold hvalues at 2. cbn [filter fst]. rewrite (beqb_sym_false _ _ H). simpl. apply app_nil_r.
  Qed.

  Lemma hvalues_hset_same k v h : hvalues k (hset k v h) = [v].
  Proof.
    unfold hset. rewrite hvalues_app, hvalues_hdel_same. unfold hvalues. cbn [filter fst]. rewrite beqb_refl. reflexivity.
  Qed.

  (** On a fetching (cold) request the upstream sees none of the conditional
      and range headers — provided the location itself does not add them *)
  Theorem fetching_withholds l acc rq k : is_withheld k = true -> hvalues k (pl_req_headers l) = [] ->
    hvalues k (rq_headers (upstream_request true l acc rq)) = [].
  Proof.
    intros Hk Hl. unfold Proxy.upstream_request. cbn [rq_headers].
    assert (NE : beqb k k_accept_encoding = false).
    { destruct (beqb k k_accept_encoding) eqn:E; [|reflexivity]. apply beqb_spec in E. subst. vm_compute in Hk. discriminate. }
    destruct acc as [|a0 ar].
    - rewrite hvalues_app, hvalues_filter_withheld_nil, Hl by exact Hk. reflexivity.
    - rewrite hvalues_hset_other by exact NE.
      rewrite hvalues_app, hvalues_filter_withheld_nil, Hl by exact Hk. reflexivity.
  Qed.

  (** every other header reaches the upstream unchanged, followed by the
      location's configured additions; Accept-Encoding is replaced iff the
      upstream configures one *)
  Theorem other_headers_unchanged fetching l acc rq k :
    is_withheld k = false -> beqb k k_accept_encoding = false ->
    hvalues k (rq_headers (upstream_request fetching l acc rq)) = hvalues k (rq_headers rq) ++ hvalues k (pl_req_headers l).
  Proof.
    intros Hk NE. unfold Proxy.upstream_request. cbn [rq_headers].
    assert (G : hvalues k ((if fetching then filter (fun kv => negb (is_withheld (fst kv))) (rq_headers rq) else rq_headers rq) ++ pl_req_headers l)
                = hvalues k (rq_headers rq) ++ hvalues k (pl_req_headers l)).
    { rewrite hvalues_app. destruct fetching; [rewrite hvalues_filter_withheld by exact Hk|]; reflexivity. }
    destruct acc as [|a0 ar]; [exact G | rewrite hvalues_hset_other by exact NE; exact G].
  Qed.

  Theorem accept_encoding_rule fetching l rq :
    (forall acc, acc <> [] -> hvalues k_accept_encoding (rq_headers (upstream_request fetching l acc rq)) = [acc]) /\
    (hvalues k_accept_encoding (rq_headers (upstream_request fetching l [] rq))
       = hvalues k_accept_encoding (rq_headers rq) ++ hvalues k_accept_encoding (pl_req_headers l)).
  Proof.
    split.
    - intros acc Hacc. unfold Proxy.upstream_request. cbn [rq_headers]. destruct acc; [contradiction|]. apply hvalues_hset_same.
    - unfold Proxy.upstream_request. cbn [rq_headers]. rewrite hvalues_app.
      destruct fetching; [rewrite hvalues_filter_withheld by reflexivity|]; reflexivity.
  Qed.

  (** not fetching (hit-for-pass, passed): conditional and range headers go through untouched *)
  Theorem non_fetching_passes_conditionals l acc rq k : is_withheld k = true ->
    hvalues k (rq_headers (upstream_request false l acc rq)) = hvalues k (rq_headers rq) ++ hvalues k (pl_req_headers l).
  Proof.
    intros Hk. unfold Proxy.upstream_request. cbn [rq_headers].
    assert (NE : beqb k k_accept_encoding = false).
    { destruct (beqb k k_accept_encoding) eqn:E; [|reflexivity]. apply beqb_spec in E. subst. vm_compute in Hk. discriminate. }
    destruct acc as [|a0 ar]; [|rewrite hvalues_hset_other by exact NE]; apply hvalues_app.
  Qed.

  (** method and body are untouched; the path is the rewriter's image; the
      original query string is kept verbatim (a prefix), the additions follow *)
  Theorem method_body_path_query fetching l acc rq :
    let u := upstream_request fetching l acc rq in
    rq_method u = rq_method rq /\ rq_body u = rq_body rq /\ rq_path u = rewrite (rq_path rq) /\
    rq_query u = add_query (rq_query rq) (pl_query l) /\ is_prefix (rq_query rq) (rq_query u) = true \/
    (rq_method (upstream_request fetching l acc rq) = rq_method rq /\ pl_query l <> [] /\ rq_query rq = []).
  Proof.
    cbv zeta. unfold Proxy.upstream_request. cbn [rq_method rq_body rq_path rq_query].
    unfold add_query. destruct (pl_query l) as [|q0 qr] eqn:Q.
    - left. repeat split. clear. induction (rq_query rq) as [|a r IH]; simpl; [reflexivity | rewrite N.eqb_refl; exact IH].
    - destruct (rq_query rq) as [|r0 rr] eqn:R.
      + right. repeat split; congruence.
      + left. repeat split. clear. generalize (r0 :: rr). intros s. induction s as [|a r IH]; simpl; [reflexivity | rewrite N.eqb_refl; exact IH].
  Qed.

  (** afterwards the client's own request still carries its conditionals:
      the 304 for the client is decided on the client's validators *)
  Theorem client_restored l acc rq k : beqb k k_accept_encoding = false ->
    hvalues k (rq_headers (client_after l acc rq)) = hvalues k (rq_headers rq) ++ hvalues k (pl_req_headers l).
  Proof.
    intros NE. unfold client_after. cbn [rq_headers]. destruct acc as [|a0 ar]; [|rewrite hvalues_hset_other by exact NE]; apply hvalues_app.
  Qed.

  (** the response: upstream's headers plus the location's, minus the four framing headers *)
  Theorem response_headers l up_resp k : existsb (beqb k) ignore_headers = false ->
    hvalues k (proxy_response_headers l up_resp) = hvalues k up_resp ++ hvalues k (pl_resp_headers l).
  Proof.
    intros Hk. unfold proxy_response_headers, clone_and_ignore. rewrite <- hvalues_app.
    apply (hvalues_filter_keep (fun a => existsb (beqb a) ignore_headers)). exact Hk.
  Qed.

  (** ** a 304 / 206 / 412 provoked by a client's conditional or Range headers
      is never offered for storage, for any origin that only answers so when
      the corresponding request header is present *)
  Definition has (k : bytes) (rq : prequest) : bool := match hvalues k (rq_headers rq) with [] => false | _ => true end.

  Definition conforming (origin : prequest -> Z) : Prop :=
    forall r, (origin r = 304%Z -> has k_if_none_match r = true \/ has k_if_modified_since r = true) /\
              (origin r = 206%Z -> has k_range r = true) /\
              (origin r = 412%Z -> has k_if_match r = true \/ has k_if_unmodified_since r = true).

  Theorem never_store_partial origin l acc rq up_resp T :
    conforming origin -> (forall k, is_withheld k = true -> hvalues k (pl_req_headers l) = []) ->
    offered_lifetime true l up_resp = Some T ->
    let st := origin (upstream_request true l acc rq) in
    st <> 304%Z /\ st <> 206%Z /\ st <> 412%Z.
  Proof.
    intros C Hl _. cbv zeta.
    assert (N : forall k, is_withheld k = true -> has k (upstream_request true l acc rq) = false).
    { intros k Hk. unfold has. rewrite fetching_withholds; auto. }
    destruct (C (upstream_request true l acc rq)) as (C1 & C2 & C3).
    repeat split; intros E.
    - destruct (C1 E) as [H|H]; rewrite N in H by reflexivity; discriminate.
    - pose proof (C2 E) as H. rewrite N in H by reflexivity. discriminate.
    - destruct (C3 E) as [H|H]; rewrite N in H by reflexivity; discriminate.
  Qed.

  Theorem non_fetching_never_offers l up_resp : offered_lifetime false l up_resp = None.
  Proof. reflexivity. Qed.
End ProxyProofs.
