From Coq Require Import List Arith Bool NArith ZArith Lia.
From Pike Require Import Base.Bytes Base.BytesProofs Model.MaxAge Model.MaxAgeSpec.
Import ListNotations.

(** ** (?i) literal matching *)
Lemma strip_fold_lower w : forall rest, strip_fold (lower_s w) (w ++ rest) = Some rest.
Proof.
  induction w as [|c w IH]; intros rest; simpl; [reflexivity|].
  rewrite N.eqb_refl. apply IH.
Qed.

Lemma has_fold_of_sub p w s : lower_s w = p -> sub w s -> has_fold p s = true.
Proof.
  intros <- (a & b & ->). unfold has_fold. apply exists_suffix_app.
  rewrite strip_fold_lower. reflexivity.
Qed.

(** a token whose (trimmed, lower-cased) name is [p] contains a substring that
    lower-cases to [p] *)
Lemma lower_s_rev w : lower_s (rev w) = rev (lower_s w).
Proof. unfold lower_s. rewrite map_rev. reflexivity. Qed.

Lemma token_name_sub tok : exists w, lower_s w = token_name tok /\ sub w tok.
Proof.
  unfold token_name, rtrim.
  set (pre := take_while (fun b => negb (N.eqb b 61)) tok).
  exists (rev (ltrim (rev (ltrim pre)))). split; [reflexivity|].
  eapply sub_trans; [|apply (take_while_sub (fun b => negb (N.eqb b 61)) tok)]. fold pre.
  eapply sub_trans; [|apply (ltrim_sub pre)].
  rewrite <- (rev_involutive (ltrim pre)) at 2. apply sub_rev. apply ltrim_sub.
Qed.

Lemma forbidden_token_caught (h : headers) tok :
  In tok (cc_tokens h) -> forbidden_name (token_name tok) = true ->
  forbidden_re (join [44%N] (hvalues k_cache_control h)) = true.
Proof.
  intros Hin Hf. unfold cc_tokens in Hin. apply in_flat_map in Hin.
  destruct Hin as (line & Hline & Htok).
  destruct (token_name_sub tok) as (w & Hw & Hsub).
  assert (S : sub w (join [44%N] (hvalues k_cache_control h))).
  { eapply sub_trans; [exact Hsub|]. eapply sub_trans; [apply (split_on_sub 44); exact Htok|].
    apply In_join_sub. exact Hline. }
  unfold forbidden_name in Hf. unfold forbidden_re.
  apply orb_prop in Hf. destruct Hf as [Hf|Hf]; [apply orb_prop in Hf; destruct Hf as [Hf|Hf]|];
    apply beqb_spec in Hf; rewrite Hf in Hw.
  - rewrite (has_fold_of_sub _ _ _ Hw S). reflexivity.
  - rewrite (has_fold_of_sub _ _ _ Hw S). rewrite orb_true_r. reflexivity.
  - rewrite (has_fold_of_sub _ _ _ Hw S). rewrite !orb_true_r. reflexivity.
Qed.

(** ** lifetimes *)
Lemma first_some_map {A B C} (f : A -> option B) (g : B -> C) l :
  first_some (fun x => match f x with Some y => Some (g y) | None => None end) l =
  match first_some f l with Some y => Some (g y) | None => None end.
Proof. induction l as [|x r IH]; simpl; auto. destruct (f x); auto. Qed.

Lemma lifetime_digits_tokens name (h : headers) :
  hvalues k_cache_control h <> [] ->
  lifetime_digits name (join [44%N] (hvalues k_cache_control h)) =
  first_some (directive_digits name) (cc_tokens h).
Proof. intros H. unfold lifetime_digits, cc_tokens. rewrite split_join by exact H. reflexivity. Qed.

Lemma directive_digits_are_digits name tok ds :
  directive_digits name tok = Some ds -> forallb is_digit ds = true.
Proof.
  unfold directive_digits. destruct (strip_fold name (ltrim tok)) as [rest|]; [|discriminate].
  destruct (take_while is_digit rest) eqn:E; [discriminate|]. intros H; inversion H; subst.
  rewrite <- E. apply take_while_all.
Qed.

Lemma first_some_In {A B} (f : A -> option B) l y :
  first_some f l = Some y -> exists x, In x l /\ f x = Some y.
Proof.
  induction l as [|x r IH]; simpl; [discriminate|].
  destruct (f x) eqn:E.
  - intros H; inversion H; subst. eauto.
  - intros H. destruct (IH H) as (x' & H1 & H2). eauto.
Qed.

Lemma sat_digits_range ds : forallb is_digit ds = true -> (0 <= sat_digits ds <= max_i64)%Z.
Proof. intros H. pose proof (digits_val_nonneg ds H). unfold sat_digits, max_i64 in *. lia. Qed.

Lemma spec_lifetime_range h n : spec_lifetime h = Some n -> (0 <= n <= max_i64)%Z.
Proof.
  unfold spec_lifetime, lifetime_of. intros H.
  assert (G : forall name, first_some (fun tok => match directive_digits name tok with
              | Some ds => Some (sat_digits ds) | None => None end) (cc_tokens h) = Some n ->
              (0 <= n <= max_i64)%Z).
  { intros name Hn. rewrite first_some_map in Hn.
    destruct (first_some (directive_digits name) (cc_tokens h)) as [ds|] eqn:E; [|discriminate].
    inversion Hn; subst. apply first_some_In in E. destruct E as (tok & _ & Ht).
    apply sat_digits_range. eapply directive_digits_are_digits; eauto. }
  destruct (first_some _ (cc_tokens h)) eqn:E1.
  - inversion H; subst. eapply G; eauto.
  - eapply G; eauto.
Qed.

(** the model's lifetime (before Age) is the token-level one *)
Lemma model_lifetime_spec (h : headers) :
  hvalues k_cache_control h <> [] ->
  let cc := join [44%N] (hvalues k_cache_control h) in
  match lifetime_digits s_smaxage_eq cc with
  | Some ds => Some (sat_digits ds)
  | None => match lifetime_digits s_maxage_eq cc with
            | Some ds => Some (sat_digits ds)
            | None => None
            end
  end = spec_lifetime h.
Proof.
  intros Hne. cbv zeta. rewrite !lifetime_digits_tokens by exact Hne.
  unfold spec_lifetime, lifetime_of. rewrite !first_some_map.
  destruct (first_some (directive_digits s_smaxage_eq) (cc_tokens h)); [reflexivity|].
  destruct (first_some (directive_digits s_maxage_eq) (cc_tokens h)); reflexivity.
Qed.

Lemma join_nil_values (l : list bytes) : join [44%N] l <> [] -> l <> [].
Proof. destruct l; simpl; congruence. Qed.

(** ** Main soundness theorem: whatever the model stores, the origin marked
    shareable (token-level reading), with exactly the stated lifetime. *)
Theorem store_sound m h T : store_decision m h = Some T -> spec_shareable m h T = true.
Proof.
  unfold store_decision, spec_shareable.
  destruct (request_is_pass m) eqn:Hp; [discriminate|].
  destruct (0 <? cache_max_age h)%Z eqn:Hpos; [|discriminate].
  intros H; inversion H; subst T; clear H.
  (* method *)
  assert (Hm : beqb m m_get || beqb m m_head = true).
  { unfold request_is_pass in Hp. destruct (beqb m m_get); simpl in *; auto.
    destruct (beqb m m_head); simpl in *; auto. }
  rewrite Hm. cbn [andb].
  unfold cache_max_age in *.
  destruct (hvalues k_set_cookie h) eqn:Hsc; [|simpl in Hpos; discriminate].
  cbn [andb].
  set (cc := join [44%N] (hvalues k_cache_control h)) in *.
  destruct cc as [|c0 cc'] eqn:Hcc; [simpl in Hpos; discriminate|].
  assert (Hne : hvalues k_cache_control h <> []).
  { apply join_nil_values. fold cc. rewrite Hcc. discriminate. } 
  rewrite <- Hcc in *.
  destruct (forbidden_re cc) eqn:Hf; [simpl in Hpos; discriminate|].
  (* forbidden tokens *)
  assert (Hnone : existsb (fun tok => forbidden_name (token_name tok)) (cc_tokens h) = false).
  { destruct (existsb _ (cc_tokens h)) eqn:E; [|reflexivity].
    apply existsb_exists in E. destruct E as (tok & Hin & Hfn).
    pose proof (forbidden_token_caught h tok Hin Hfn) as Hc. fold cc in Hc. congruence. }
  rewrite Hnone. cbn [negb andb]. rewrite Hpos. cbn [andb].
  (* lifetime *)
  pose proof (model_lifetime_spec h Hne) as Hl. cbv zeta in Hl. fold cc in Hl.
  set (n0 := match lifetime_digits s_smaxage_eq cc with
             | Some ds => sat_digits ds
             | None => match lifetime_digits s_maxage_eq cc with
                       | Some ds => sat_digits ds | None => 0%Z end end) in *.
  assert (Hage : spec_age h = Z.max 0 (atoi (hget k_age h))).
  { unfold spec_age, hget. destruct (hvalues k_age h); reflexivity. }
  destruct (spec_lifetime h) as [n|] eqn:Hs.
  - assert (Hn : n0 = n).
    { unfold n0. destruct (lifetime_digits s_smaxage_eq cc); [inversion Hl; reflexivity|].
      destruct (lifetime_digits s_maxage_eq cc); inversion Hl; reflexivity. }
    rewrite Hn in *. rewrite Hage. apply Z.eqb_eq.
    destruct (Z.ltb_spec 0 (atoi (hget k_age h))); lia.
  - assert (Hn : n0 = 0%Z).
    { unfold n0. destruct (lifetime_digits s_smaxage_eq cc); [discriminate|].
      destruct (lifetime_digits s_maxage_eq cc); [discriminate | reflexivity]. }
    rewrite Hn in Hpos. exfalso.
    destruct (Z.ltb_spec 0 (atoi (hget k_age h))); apply Z.ltb_lt in Hpos; lia.
Qed.

(** the lifetime never exceeds what the directive says, and is within int64 *)
Theorem store_lifetime_bounded m h T : store_decision m h = Some T ->
  exists n, spec_lifetime h = Some n /\ (0 < T <= n)%Z /\ (n <= max_i64)%Z.
Proof.
  intros H. apply store_sound in H. unfold spec_shareable in H.
  repeat (apply andb_prop in H; destruct H as [H ?]).
  destruct (spec_lifetime h) as [n|] eqn:Hs; [|discriminate].
  exists n. pose proof (spec_lifetime_range h n Hs).
  match goal with H : (T =? _)%Z = true |- _ => apply Z.eqb_eq in H end.
  match goal with H : (0 <? T)%Z = true |- _ => apply Z.ltb_lt in H end.
  assert (0 <= spec_age h)%Z by (unfold spec_age; destruct (hvalues k_age h); lia).
  repeat split; lia.
Qed.

(** ** Frame: status codes never enter (by type); headers other than the
    three named ones can be added or removed freely. *)
Lemma hvalues_frame k k' v h1 h2 : beqb k' k = false ->
  hvalues k (h1 ++ (k', v) :: h2) = hvalues k (h1 ++ h2).
Proof.
  intros H. unfold hvalues. rewrite !filter_app. simpl. rewrite H. reflexivity.
Qed.

Theorem store_decision_frame m k' v h1 h2 :
  beqb k' k_set_cookie = false -> beqb k' k_cache_control = false -> beqb k' k_age = false ->
  store_decision m (h1 ++ (k', v) :: h2) = store_decision m (h1 ++ h2).
Proof.
  intros H1 H2 H3. unfold store_decision, cache_max_age, hget.
  rewrite !(hvalues_frame _ k' v h1 h2) by assumption. reflexivity.
Qed.

(** non-GET/HEAD requests never store *)
Theorem pass_never_stores m h : request_is_pass m = true -> store_decision m h = None.
Proof. intros H. unfold store_decision. rewrite H. reflexivity. Qed.
