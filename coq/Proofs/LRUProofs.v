From Coq Require Import List Arith Bool NArith Lia.
From Pike Require Import Model.LRU.
Import ListNotations.

Section LRUProofs.
  Context {K V : Type}.
  Variable keqb : K -> K -> bool.
  Hypothesis keqb_spec : forall a b, keqb a b = true <-> a = b.

  Notation lru := (@lru K V).
  Notation find := (find keqb).
  Notation remove := (remove keqb).
  Notation get := (get keqb).
  Notation add := (add keqb).

  Lemma keqb_refl k : keqb k k = true.
  Proof. apply keqb_spec; reflexivity. Qed.

  Lemma keqb_false a b : keqb a b = false <-> a <> b.
  Proof.
    split; intros H.
    - intros E. apply keqb_spec in E. congruence.
    - destruct (keqb a b) eqn:E; [apply keqb_spec in E; contradiction | reflexivity].
  Qed.

  Lemma find_In k (l : lru) v : find k l = Some v -> In (k, v) l.
  Proof.
    induction l as [|[k' v'] r IH]; simpl; [discriminate|].
    destruct (keqb k k') eqn:E.
    - apply keqb_spec in E. subst. intros H; inversion H; auto.
    - intros H; right; auto.
  Qed.

  Lemma find_None_keys k (l : lru) : find k l = None <-> ~ In k (keys l).
  Proof.
    induction l as [|[k' v'] r IH]; simpl.
    - split; auto.
    - destruct (keqb k k') eqn:E.
      + apply keqb_spec in E. subst. split; [discriminate | intros H; exfalso; apply H; auto].
      + apply keqb_false in E. rewrite IH. split.
        * intros H [H1|H1]; [congruence | auto].
        * intros H H1; apply H; auto.
  Qed.

  Lemma find_Some_keys k (l : lru) : (exists v, find k l = Some v) <-> In k (keys l).
  Proof.
    destruct (find k l) eqn:E.
    - split; [intros _ | intros _; eauto].
      apply find_In in E. apply (in_map fst) in E. exact E.
    - split; [intros [v Hv]; discriminate |].
      intros H. apply find_None_keys in E. contradiction.
  Qed.

  Lemma length_remove k (l : lru) :
    length (remove k l) = length l - (if find k l then 1 else 0).
  Proof.
    induction l as [|[k' v'] r IH]; simpl; [reflexivity|].
    destruct (keqb k k'); simpl; [lia|].
    rewrite IH. destruct (find k r) eqn:E; [|lia].
    destruct r; [discriminate | simpl; lia].
  Qed.

  Lemma keys_remove_incl k (l : lru) x : In x (keys (remove k l)) -> In x (keys l).
  Proof.
    induction l as [|[k' v'] r IH]; simpl; auto.
    destruct (keqb k k'); simpl; intuition.
  Qed.

  Lemma keys_remove_not k (l : lru) : NoDup (keys l) -> ~ In k (keys (remove k l)).
  Proof.
    induction l as [|[k' v'] r IH]; simpl; auto.
    intros ND. inversion ND as [|? ? Hn ND']; subst.
    destruct (keqb k k') eqn:E.
    - apply keqb_spec in E; subst; auto.
    - apply keqb_false in E. simpl. intros [H|H]; [congruence | apply IH; auto].
  Qed.

  Lemma keys_remove_other k (l : lru) x : x <> k -> In x (keys l) -> In x (keys (remove k l)).
  Proof.
    intros Hx. induction l as [|[k' v'] r IH]; simpl; auto.
    destruct (keqb k k') eqn:E.
    - apply keqb_spec in E; subst. intros [H|H]; [congruence | auto].
    - simpl. intuition.
  Qed.

  Lemma NoDup_remove k (l : lru) : NoDup (keys l) -> NoDup (keys (remove k l)).
  Proof.
    induction l as [|[k' v'] r IH]; simpl; auto.
    intros ND. inversion ND as [|? ? Hn ND']; subst.
    destruct (keqb k k'); simpl; auto.
    constructor; auto. intros H. apply Hn. eapply keys_remove_incl; eauto.
  Qed.

  (** remove preserves relative order: it is a sub-sequence. *)
  Inductive subseq {A} : list A -> list A -> Prop :=
  | sub_nil : forall l, subseq [] l
  | sub_keep : forall x a b, subseq a b -> subseq (x :: a) (x :: b)
  | sub_skip : forall x a b, subseq a b -> subseq a (x :: b).

  Lemma subseq_refl {A} (l : list A) : subseq l l.
  Proof. induction l; constructor; auto. Qed.

  Lemma remove_subseq k (l : lru) : subseq (remove k l) l.
  Proof.
    induction l as [|[k' v'] r IH]; simpl; [constructor|].
    destruct (keqb k k'); [apply sub_skip, subseq_refl | apply sub_keep, IH].
  Qed.

  (** ** Get *)
  Lemma get_length k (l : lru) : length (snd (get k l)) = length l.
  Proof.
    unfold get. destruct (find k l) eqn:E; simpl; [|reflexivity].
    rewrite length_remove, E.
    destruct l; [discriminate | simpl; lia].
  Qed.

  Lemma get_NoDup k (l : lru) : NoDup (keys l) -> NoDup (keys (snd (get k l))).
  Proof.
    unfold get. destruct (find k l) eqn:E; simpl; auto.
    intros ND. constructor; [apply keys_remove_not; auto | apply NoDup_remove; auto].
  Qed.

  Lemma get_keys_same k (l : lru) x : In x (keys (snd (get k l))) <-> In x (keys l).
  Proof.
    unfold get. destruct (find k l) eqn:E; simpl; [|tauto].
    split.
    - intros [H|H]; [subst; apply find_Some_keys; eauto | eapply keys_remove_incl; eauto].
    - intros H. destruct (keqb x k) eqn:Ex.
      + apply keqb_spec in Ex; auto.
      + apply keqb_false in Ex. right. apply keys_remove_other; auto.
  Qed.

  Lemma get_hit_iff k (l : lru) : (exists v, fst (get k l) = Some v) <-> In k (keys l).
  Proof.
    unfold get. rewrite <- find_Some_keys. destruct (find k l); simpl; split; eauto.
  Qed.

  (** ** Add *)
  Lemma length_removelast {A} (l : list A) : length (removelast l) = length l - 1.
  Proof.
    induction l as [|a r IH]; [reflexivity|].
    destruct r; [reflexivity|]. cbn [removelast length] in *. rewrite IH. lia.
  Qed.

  Lemma add_length_le max k v (l : lru) :
    1 <= max -> length l <= max -> length (add max k v l) <= max.
  Proof.
    intros Hm Hl. unfold add. destruct (find k l) eqn:E.
    - simpl. rewrite length_remove, E. destruct l; [discriminate | simpl in *; lia].
    - destruct (Nat.eqb_spec max 0); [lia|]. cbn [negb andb].
      destruct (Nat.ltb_spec max (length ((k, v) :: l))).
      + rewrite length_removelast. simpl in *. lia.
      + assumption.
  Qed.

  (** On a miss in a full shard, exactly the least recently used element (the
      back of the list) is dropped and the new key goes to the front. *)
  Lemma add_full_drops_last max k v (l : lru) :
    1 <= max -> find k l = None -> length l = max ->
    add max k v l = (k, v) :: removelast l.
  Proof.
    intros Hm E Hl. unfold add. rewrite E.
    destruct (Nat.eqb_spec max 0); [lia|]. cbn [negb andb].
    destruct (Nat.ltb_spec max (length ((k, v) :: l))) as [_|H]; [|simpl in H; lia].
    destruct l; [simpl in Hl; lia | reflexivity].
  Qed.

  Lemma add_room_keeps_all max k v (l : lru) :
    find k l = None -> (max = 0 \/ length l < max) -> add max k v l = (k, v) :: l.
  Proof.
    intros E H. unfold add. rewrite E.
    destruct (Nat.eqb_spec max 0); [reflexivity|]. cbn [negb andb].
    destruct (Nat.ltb_spec max (length ((k, v) :: l))) as [H1|_]; [simpl in H1; lia | reflexivity].
  Qed.

  Lemma removelast_incl {A} (l : list A) x : In x (removelast l) -> In x l.
  Proof.
    induction l as [|a r IH]; simpl; auto.
    destruct r; simpl in *; intuition.
  Qed.

  Lemma keys_removelast (l : lru) : keys (removelast l) = removelast (keys l).
  Proof.
    induction l as [|a r IH]; [reflexivity|].
    destruct r; [reflexivity|]. cbn [removelast keys map] in *. f_equal. exact IH.
  Qed.

  Lemma NoDup_removelast {A} (l : list A) : NoDup l -> NoDup (removelast l).
  Proof.
    induction l as [|a r IH]; simpl; auto.
    intros ND. inversion ND; subst. destruct r; [constructor|].
    constructor; [|auto]. intros H. apply removelast_incl in H. auto.
  Qed.

  Lemma add_NoDup max k v (l : lru) : NoDup (keys l) -> NoDup (keys (add max k v l)).
  Proof.
    intros ND. unfold add. destruct (find k l) eqn:E.
    - simpl. constructor; [apply keys_remove_not; auto | apply NoDup_remove; auto].
    - assert (ND' : NoDup (keys ((k, v) :: l))).
      { simpl. constructor; auto. apply find_None_keys; auto. }
      destruct (negb (Nat.eqb max 0) && Nat.ltb max (length ((k, v) :: l))); auto.
      rewrite keys_removelast. apply NoDup_removelast; auto.
  Qed.

  Lemma add_In_new max k v (l : lru) : 1 <= max \/ max = 0 -> In (k, v) (add max k v l).
  Proof.
    intros Hm. unfold add. destruct (find k l); [left; reflexivity|].
    destruct (negb (Nat.eqb max 0) && Nat.ltb max (length ((k, v) :: l))) eqn:E; [|left; reflexivity].
    destruct l; simpl.
    - apply andb_prop in E. destruct E as [E1 E2]. apply Nat.ltb_lt in E2. simpl in E2.
      destruct Hm; [lia|]. subst. discriminate.
    - left; reflexivity.
  Qed.

  Lemma add_In_old max k v (l : lru) x : In x (add max k v l) -> x = (k, v) \/ In x l.
  Proof.
    unfold add. destruct (find k l).
    - intros [H|H]; [auto|]. right.
      clear -H. induction l as [|[k' v'] r IH]; simpl in *; auto.
      destruct (keqb k k'); simpl in *; intuition.
    - destruct (negb (Nat.eqb max 0) && Nat.ltb max (length ((k, v) :: l))).
      + intros H. apply removelast_incl in H. simpl in H. intuition.
      + simpl; intuition.
  Qed.

  Lemma remove_In (k : K) (l : lru) x : In x (remove k l) -> In x l.
  Proof.
    induction l as [|[k' v'] r IH]; simpl; auto.
    destruct (keqb k k'); simpl; intuition.
  Qed.

  Lemma get_In k (l : lru) x : In x (snd (get k l)) -> In x l.
  Proof.
    unfold get. destruct (find k l) eqn:E; simpl; auto.
    intros [H|H]; [subst; apply find_In; auto | eapply remove_In; eauto].
  Qed.

  Lemma remove_length_le k (l : lru) : length (remove k l) <= length l.
  Proof. rewrite length_remove. lia. Qed.

  (** ** Recency order: the shard list is ordered by last access, so the back
      of the list — the element [add] drops — is the least recently used of
      the resident keys. *)
  Inductive sop := SAcc (k : K) (v : V) | SDel (k : K).

  Definition shard_step (max : nat) (l : lru) (o : sop) : lru :=
    match o with
    | SAcc k v => match get k l with (Some _, l') => l' | (None, _) => add max k v l end
    | SDel k => remove k l
    end.

  Definition other (k : K) (x : K) : bool := negb (keqb x k).

  (** independent specification: keys ever accessed and not removed since,
      most recent access first *)
  Definition recency_step (r : list K) (o : sop) : list K :=
    match o with
    | SAcc k _ => k :: filter (other k) r
    | SDel k => filter (other k) r
    end.

  Lemma subseq_filter {A} (f : A -> bool) a b : subseq a b -> subseq (filter f a) (filter f b).
  Proof.
    induction 1; simpl.
    - constructor.
    - destruct (f x); [apply sub_keep|]; auto.
    - destruct (f x); [apply sub_skip|]; auto.
  Qed.

  Lemma subseq_removelast {A} (l : list A) : subseq (removelast l) l.
  Proof.
    induction l as [|a r IH]; [constructor|].
    destruct r; [constructor | apply sub_keep; exact IH].
  Qed.

  Lemma subseq_trans {A} (a b c : list A) : subseq a b -> subseq b c -> subseq a c.
  Proof.
    intros H1 H2. revert a H1. induction H2; intros a0 H1.
    - inversion H1; subst. constructor.
    - inversion H1; subst; [constructor | apply sub_keep; auto | apply sub_skip; auto].
    - apply sub_skip; auto.
  Qed.

  Lemma keys_remove_filter k (l : lru) : NoDup (keys l) ->
    keys (remove k l) = filter (other k) (keys l).
  Proof.
    induction l as [|[k' v'] r IH]; simpl; auto.
    intros ND. inversion ND as [|? ? Hn ND']; subst. unfold other at 1.
    destruct (keqb k k') eqn:E.
    - apply keqb_spec in E; subst. rewrite keqb_refl. simpl.
      clear IH ND ND'. induction r as [|[k2 v2] r IH]; simpl; auto.
      unfold other at 1. destruct (keqb k2 k') eqn:E2.
      + apply keqb_spec in E2; subst. exfalso; apply Hn; simpl; auto.
      + simpl. f_equal. apply IH. intros H; apply Hn; simpl; auto.
    - assert (keqb k' k = false) as ->.
      { apply keqb_false. apply keqb_false in E. congruence. }
      simpl. f_equal. auto.
  Qed.

  Lemma filter_other_id k (l : list K) : ~ In k l -> filter (other k) l = l.
  Proof.
    induction l as [|a r IH]; simpl; auto. intros H.
    unfold other at 1. assert (keqb a k = false) as ->.
    { apply keqb_false. intros ->. apply H; auto. }
    simpl. f_equal. apply IH. intros H1; apply H; auto.
  Qed.

  Lemma shard_step_NoDup max l o : NoDup (keys l) -> NoDup (keys (shard_step max l o)).
  Proof.
    intros ND. destruct o as [k v|k]; simpl.
    - destruct (get k l) as [[?|] l'] eqn:G.
      + replace l' with (snd (get k l)) by (rewrite G; reflexivity). apply get_NoDup; auto.
      + apply add_NoDup; auto.
    - apply NoDup_remove; auto.
  Qed.

  Lemma shard_step_recency max l r o :
    NoDup (keys l) -> subseq (keys l) r ->
    subseq (keys (shard_step max l o)) (recency_step r o).
  Proof.
    intros ND S. destruct o as [k v|k]; simpl.
    - unfold get, add. destruct (find k l) eqn:F.
      + simpl. apply sub_keep. rewrite keys_remove_filter by auto. apply subseq_filter; auto.
      + assert (Hk : ~ In k (keys l)) by (apply find_None_keys; auto).
        assert (S' : subseq (keys ((k, v) :: l)) (k :: filter (other k) r)).
        { simpl. apply sub_keep. rewrite <- (filter_other_id k (keys l)) by auto.
          apply subseq_filter; auto. }
        destruct (negb (Nat.eqb max 0) && Nat.ltb max (length ((k, v) :: l))); auto.
        rewrite keys_removelast. eapply subseq_trans; [apply subseq_removelast | exact S'].
    - rewrite keys_remove_filter by auto. apply subseq_filter; auto.
  Qed.

  Theorem shard_recency_order max ops :
    let l := fold_left (shard_step max) ops [] in
    NoDup (keys l) /\ subseq (keys l) (fold_left recency_step ops []).
  Proof.
    cbv zeta.
    assert (G : forall l r, NoDup (keys l) -> subseq (keys l) r ->
              NoDup (keys (fold_left (shard_step max) ops l)) /\
              subseq (keys (fold_left (shard_step max) ops l)) (fold_left recency_step ops r)).
    { induction ops as [|o ops' IH]; intros l r ND S; simpl; auto.
      apply IH; [apply shard_step_NoDup; auto | apply shard_step_recency; auto]. }
    apply G; constructor.
  Qed.
End LRUProofs.
