(** C01 ("every other request waits for that fetch"): in the model a request
    parked on an entry's channel stays parked until the fetcher of THAT entry,
    holding the entry lock in its completion, sends to it — no other step of
    any thread or of the environment moves it (a crash kills it). *)
From Coq Require Import List Arith Bool ZArith Lia.
From Pike Require Import Model.Sys Proofs.ListAux.
Import ListNotations.

Lemma ts_set_entry s e x : ts (set_entry s e x) = ts s. Proof. reflexivity. Qed.
Lemma ts_add_log s ev : ts (add_log s ev) = ts s. Proof. reflexivity. Qed.
Lemma ts_set_store s c : ts (set_store s c) = ts s. Proof. reflexivity. Qed.
Lemma ts_set_cur s c : ts (set_cur s c) = ts s. Proof. reflexivity. Qed.
Lemma ts_set_pc s i p : ts (set_pc s i p) = upd i p (ts s). Proof. reflexivity. Qed.

Definition woken_pc (s : state) (e : eid) : pc := if legacy s then PWoken e else PGet e.

Theorem waiter_released_only_by_its_fetcher s l s' i e :
  step s l = Some s' ->
  nth_error (ts s) i = Some (PWait e) ->
  nth_error (ts s') i = Some (PWait e)
  \/ (l = Crash /\ nth_error (ts s') i = Some PDead)
  \/ (exists j c o, l = Run j c /\ nth_error (ts s) j = Some (PSending e o)
                    /\ nth_error (ts s') i = Some (woken_pc s e)).
Proof.
  intros H Hi. destruct l as [pass|d|j c|ok| | |cc]; cbn [step] in H.
  - (* Arrive *) left. injection H as <-.
    assert (Hlt : i < length (ts s)) by (eapply nth_error_lt; eauto).
    destruct pass; cbn [ts add_log]; rewrite nth_error_app_old by exact Hlt; exact Hi.
  - (* Tick *) destruct (0 <=? d)%Z; [|discriminate]. injection H as <-. left. exact Hi.
  - (* Run *)
    destruct (nth_error (ts s) j) as [p|] eqn:Hj; [|discriminate].
    destruct (Nat.eq_dec i j) as [->|Hne].
    { rewrite Hi in Hj. injection Hj as <-. discriminate. }
    assert (Other : forall s0 q, ts s0 = ts s -> nth_error (ts (set_pc s0 j q)) i = Some (PWait e)).
    { intros s0 q E. rewrite ts_set_pc, E, nth_error_upd_other by (intro; apply Hne; auto). exact Hi. }
    destruct p.
    all: try discriminate.
    all: repeat match type of H with
         | context [match ?x with _ => _ end] => destruct x eqn:?
         | context [if ?x then _ else _] => destruct x eqn:?
         end; try discriminate.
    all: try (injection H as <-; left;
              repeat first [rewrite ts_add_log | rewrite ts_set_store | rewrite ts_set_entry];
              try (apply Other; reflexivity);
              try (rewrite ts_set_pc; repeat first [rewrite ts_add_log | rewrite ts_set_store | rewrite ts_set_entry];
                   rewrite nth_error_upd_other by (intro; apply Hne; auto); exact Hi); fail).
    (* the two send steps (legacy / repaired wake-up target) *)
    all: injection H as <-; rewrite ts_set_pc, ts_set_entry;
      apply Nat.eqb_eq in Heqb; subst e2;
      (destruct (Nat.eq_dec i t) as [->|Hit];
       [ right; right; rewrite Hi in Heqo1; injection Heqo1 as ->;
         exists j, c, o; repeat split; [exact Hj|];
         rewrite nth_error_upd_same by (eapply nth_error_lt; eauto);
         unfold woken_pc; rewrite Heqb0; reflexivity
       | left; rewrite nth_error_upd_other by (intro; apply Hit; auto); exact Hi ]).
  - (* Purge *) injection H as <-. left. destruct (has_store s && ok); exact Hi.
  - (* Evict *) injection H as <-. left. exact Hi.
  - (* Crash *) injection H as <-. right; left. split; [reflexivity|].
    cbn [ts]. rewrite nth_error_map, Hi. reflexivity.
  - (* Corrupt *) destruct (has_store s); [|discriminate]. injection H as <-. left. exact Hi.
Qed.

