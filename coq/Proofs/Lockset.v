(** A small verified lockset / write-set analysis over the function skeletons
    that harness/cmd/skeleton regenerates from the Go sources on every run
    (ordered lock operations, field reads/writes, calls, control structure).

    [check pol st evs = Some _] implies: on every path through [evs] (any
    branch choices, any number of loop iterations), every read of a protected
    field happens with its mutex held (read or write mode), every write with
    the mutex held in write mode, and every call that requires a mutex happens
    with it held in the required mode.  Closures (deferred, go, callbacks) are
    analysed as running with no lock held. *)
From Coq Require Import List String Bool Arith.
Import ListNotations.
Local Open Scope list_scope.

Inductive event :=
| Lock (m : string) | Unlock (m : string) | RLock (m : string) | RUnlock (m : string)
| DeferUnlock (m : string) | DeferRUnlock (m : string)
| Send | Recv
| Read (f : string) | Write (f : string) | Call (f : string)
| Return
| If (a b : list event) | Loop (b : list event)
| Block (b : list event) | Defer (b : list event) | Go (b : list event).

Inductive mode := MR | MW.
Definition held := list (string * mode).

Record policy := {
  protects : list (string * string);          (* field -> mutex *)
  requires : list (string * (string * mode))  (* callee -> mutex held in at least this mode *)
}.

Definition holds (h : held) (m : string) (need : mode) : bool :=
  existsb (fun e => String.eqb (fst e) m && match need, snd e with MW, MR => false | _, _ => true end) h.

Fixpoint release (h : held) (m : string) : held :=
  match h with
  | [] => []
  | (m', md) :: r => if String.eqb m' m then r else (m', md) :: release r m
  end.

Definition lookup {A} (l : list (string * A)) (k : string) : option A :=
  match find (fun e => String.eqb (fst e) k) l with Some e => Some (snd e) | None => None end.

Inductive access := ARead (f : string) | AWrite (f : string) | ACall (f : string).

Definition access_ok (pol : policy) (h : held) (a : access) : bool :=
  match a with
  | ARead f => match lookup (protects pol) f with Some m => holds h m MR | None => true end
  | AWrite f => match lookup (protects pol) f with Some m => holds h m MW | None => true end
  | ACall g => match lookup (requires pol) g with Some (m, md) => holds h m md | None => true end
  end.

Fixpoint held_eqb (a b : held) : bool :=
  match a, b with
  | [], [] => true
  | (m, md) :: a', (m', md') :: b' =>
      String.eqb m m' && match md, md' with MR, MR | MW, MW => true | _, _ => false end && held_eqb a' b'
  | _, _ => false
  end.

Lemma held_eqb_eq a b : held_eqb a b = true -> a = b.
Proof.
  revert b; induction a as [|[m md] a IH]; intros [|[m' md'] b]; simpl; try discriminate; auto.
  intros H. apply andb_prop in H. destruct H as [H H3]. apply andb_prop in H. destruct H as [H1 H2].
  apply String.eqb_eq in H1. subst. destruct md, md'; try discriminate. f_equal. auto. f_equal; auto.
Qed.

(** result of analysing a block: [None] = rejected; [Some None] = every path
    returned; [Some (Some h)] = control may fall through, holding [h] *)
Definition result := option (option held).

Section Check.
  Variable pol : policy.

  Section ListCheck.
    Variable check_ev : held -> event -> result.
    Fixpoint check_list (h : held) (l : list event) : result :=
      match l with
      | [] => Some (Some h)
      | e :: r =>
          match check_ev h e with
          | None => None
          | Some None => Some None
          | Some (Some h') => check_list h' r
          end
      end.
  End ListCheck.

  Fixpoint check_ev (h : held) (e : event) {struct e} : result :=
    match e with
    | Lock m => if holds h m MR then None else Some (Some ((m, MW) :: h))
    | RLock m => if holds h m MR then None else Some (Some ((m, MR) :: h))
    | Unlock m => if holds h m MW then Some (Some (release h m)) else None
    | RUnlock m => if holds h m MR then Some (Some (release h m)) else None
    | DeferUnlock m => if holds h m MW then Some (Some h) else None
    | DeferRUnlock m => if holds h m MR then Some (Some h) else None
    | Send | Recv => Some (Some h)
    | Read f => if access_ok pol h (ARead f) then Some (Some h) else None
    | Write f => if access_ok pol h (AWrite f) then Some (Some h) else None
    | Call g => if access_ok pol h (ACall g) then Some (Some h) else None
    | Return => Some None
    | If a b =>
        match check_list check_ev h a, check_list check_ev h b with
        | Some (Some ha), Some (Some hb) => if held_eqb ha hb then Some (Some ha) else None
        | Some None, Some r => Some r
        | Some r, Some None => Some r
        | _, _ => None
        end
    | Loop b =>
        match check_list check_ev h b with
        | Some (Some hb) => if held_eqb hb h then Some (Some h) else None
        | Some None => Some (Some h)      (* the body always returns: zero iterations fall through *)
        | None => None
        end
    | Block b | Defer b | Go b =>
        match check_list check_ev [] b with
        | Some _ => Some (Some h)
        | None => None
        end
    end.

  Definition check (h : held) (l : list event) : result := check_list check_ev h l.

  (** ** path semantics: the accesses a path performs, with the locks held at each *)
  Definition trace := list (access * held).

  Inductive exec_ev : held -> event -> trace -> option held -> Prop :=
  | x_lock h m : exec_ev h (Lock m) [] (Some ((m, MW) :: h))
  | x_rlock h m : exec_ev h (RLock m) [] (Some ((m, MR) :: h))
  | x_unlock h m : exec_ev h (Unlock m) [] (Some (release h m))
  | x_runlock h m : exec_ev h (RUnlock m) [] (Some (release h m))
  | x_dunlock h m : exec_ev h (DeferUnlock m) [] (Some h)
  | x_drunlock h m : exec_ev h (DeferRUnlock m) [] (Some h)
  | x_send h : exec_ev h Send [] (Some h)
  | x_recv h : exec_ev h Recv [] (Some h)
  | x_read h f : exec_ev h (Read f) [(ARead f, h)] (Some h)
  | x_write h f : exec_ev h (Write f) [(AWrite f, h)] (Some h)
  | x_call h g : exec_ev h (Call g) [(ACall g, h)] (Some h)
  | x_return h : exec_ev h Return [] None
  | x_if_then h a b t o : exec_list h a t o -> exec_ev h (If a b) t o
  | x_if_else h a b t o : exec_list h b t o -> exec_ev h (If a b) t o
  | x_loop_zero h b : exec_ev h (Loop b) [] (Some h)
  | x_loop_ret h b t : exec_list h b t None -> exec_ev h (Loop b) t None
  | x_loop_more h b t1 h1 t2 o : exec_list h b t1 (Some h1) -> exec_ev h1 (Loop b) t2 o -> exec_ev h (Loop b) (t1 ++ t2) o
  | x_block h b t o : exec_list [] b t o -> exec_ev h (Block b) t (Some h)
  | x_defer h b t o : exec_list [] b t o -> exec_ev h (Defer b) t (Some h)
  | x_go h b t o : exec_list [] b t o -> exec_ev h (Go b) t (Some h)
  with exec_list : held -> list event -> trace -> option held -> Prop :=
  | xl_nil h : exec_list h [] [] (Some h)
  | xl_ret h e r t : exec_ev h e t None -> exec_list h (e :: r) t None
  | xl_cons h e r t1 h1 t2 o : exec_ev h e t1 (Some h1) -> exec_list h1 r t2 o -> exec_list h (e :: r) (t1 ++ t2) o.

  Scheme exec_ev_ind2 := Induction for exec_ev Sort Prop
    with exec_list_ind2 := Induction for exec_list Sort Prop.
  Combined Scheme exec_mutind from exec_ev_ind2, exec_list_ind2.

  Definition safe (t : trace) : Prop := Forall (fun ah => access_ok pol (snd ah) (fst ah) = true) t.

  Lemma safe_app a b : safe a -> safe b -> safe (a ++ b).
  Proof. unfold safe. intros. apply Forall_app. auto. Qed.

  Definition agrees (r : option held) (o : option held) : Prop :=
    match o with
    | None => True                 (* this path returned *)
    | Some h => r = Some h         (* this path falls through: the analysis predicted its locks *)
    end.

  Theorem check_sound :
    (forall h e t o, exec_ev h e t o -> forall r, check_ev h e = Some r -> safe t /\ agrees r o) /\
    (forall h l t o, exec_list h l t o -> forall r, check_list check_ev h l = Some r -> safe t /\ agrees r o).
  Proof.
    apply exec_mutind; intros; cbn [check_ev check_list] in *.
    - destruct (holds h m MR); inversion H; subst. split; [constructor | reflexivity].
    - destruct (holds h m MR); inversion H; subst. split; [constructor | reflexivity].
    - destruct (holds h m MW); inversion H; subst. split; [constructor | reflexivity].
    - destruct (holds h m MR); inversion H; subst. split; [constructor | reflexivity].
    - destruct (holds h m MW); inversion H; subst. split; [constructor | reflexivity].
    - destruct (holds h m MR); inversion H; subst. split; [constructor | reflexivity].
    - inversion H; subst. split; [constructor | reflexivity].
    - inversion H; subst. split; [constructor | reflexivity].
    - destruct (access_ok pol h (ARead f)) eqn:E; inversion H; subst.
      split; [constructor; [exact E | constructor] | reflexivity].
    - destruct (access_ok pol h (AWrite f)) eqn:E; inversion H; subst.
      split; [constructor; [exact E | constructor] | reflexivity].
    - destruct (access_ok pol h (ACall g)) eqn:E; inversion H; subst.
      split; [constructor; [exact E | constructor] | reflexivity].
    - inversion H; subst. split; [constructor | exact I].
    - (* if-then *)
      destruct (check_list check_ev h a) as [ra|] eqn:Ea; [|discriminate].
      destruct (H ra eq_refl) as [S A]. split; [exact S|].
      destruct (check_list check_ev h b) as [rb|] eqn:Eb; [|destruct ra; discriminate].
      destruct o as [ho|]; [|exact I]. simpl in A. subst ra.
      destruct rb as [hb|]; [|inversion H0; reflexivity].
      destruct (held_eqb ho hb); inversion H0; reflexivity.
    - (* if-else *)
      destruct (check_list check_ev h b) as [rb|] eqn:Eb.
      2:{ destruct (check_list check_ev h a) as [[?|]|]; discriminate. }
      destruct (H rb eq_refl) as [S A]. split; [exact S|].
      destruct (check_list check_ev h a) as [ra|] eqn:Ea; [|discriminate].
      destruct o as [ho|]; [|exact I]. simpl in A. subst rb.
      destruct ra as [ha|]; [|inversion H0; reflexivity].
      destruct (held_eqb ha ho) eqn:E; inversion H0. apply held_eqb_eq in E. subst. reflexivity.
    - (* loop, zero iterations *)
      split; [constructor|].
      destruct (check_list check_ev h b) as [[hb|]|]; try discriminate.
      + destruct (held_eqb hb h); inversion H; reflexivity.
      + inversion H; reflexivity.
    - (* loop, body returns *)
      destruct (check_list check_ev h b) as [rb|] eqn:Eb; [|discriminate].
      destruct (H rb eq_refl) as [S _]. split; [exact S | exact I].
    - (* loop, one more iteration *)
      destruct (check_list check_ev h b) as [rb|] eqn:Eb; [|discriminate].
      destruct (H rb eq_refl) as [S1 A1]. simpl in A1. subst rb.
      destruct (held_eqb h1 h) eqn:E; [|discriminate]. apply held_eqb_eq in E. subst h1.
      inversion H1; subst r.
      assert (R : check_ev h (Loop b) = Some (Some h)).
      { simpl. rewrite Eb. assert (held_eqb h h = true) as ->; [|reflexivity].
        clear. induction h as [|[m md] r IH]; simpl; auto. rewrite String.eqb_refl, IH. destruct md; reflexivity. }
      destruct (H0 _ R) as [S2 A2]. split; [apply safe_app; assumption | exact A2].
    - destruct (check_list check_ev [] b) as [rb|] eqn:Eb; [|discriminate]. inversion H0; subst.
      destruct (H rb eq_refl) as [S _]. split; [exact S | reflexivity].
    - destruct (check_list check_ev [] b) as [rb|] eqn:Eb; [|discriminate]. inversion H0; subst.
      destruct (H rb eq_refl) as [S _]. split; [exact S | reflexivity].
    - destruct (check_list check_ev [] b) as [rb|] eqn:Eb; [|discriminate]. inversion H0; subst.
      destruct (H rb eq_refl) as [S _]. split; [exact S | reflexivity].
    - inversion H; subst. split; [constructor | reflexivity].
    - destruct (check_ev h e) as [re|] eqn:Ee; [|discriminate].
      destruct (H re eq_refl) as [S _]. split; [exact S | exact I].
    - destruct (check_ev h e) as [re|] eqn:Ee; [|discriminate].
      destruct (H re eq_refl) as [S1 A1]. simpl in A1. subst re.
      destruct (H0 r0 H1) as [S2 A2]. split; [apply safe_app; assumption | exact A2].
  Qed.

  Corollary check_safe h l r t o : check h l = Some r -> exec_list h l t o -> safe t.
  Proof. intros C E. exact (proj1 (proj2 check_sound h l t o E r C)). Qed.
End Check.

(** ** write sets (serve path is read-only) *)
Fixpoint writes_ev (e : event) : list string :=
  match e with
  | Write f => [f]
  | If a b => flat_map writes_ev a ++ flat_map writes_ev b
  | Loop b | Block b | Defer b | Go b => flat_map writes_ev b
  | _ => []
  end.
Definition writes_of (l : list event) : list string := flat_map writes_ev l.

Fixpoint calls_ev (e : event) : list string :=
  match e with
  | Call f => [f]
  | If a b => flat_map calls_ev a ++ flat_map calls_ev b
  | Loop b | Block b | Defer b | Go b => flat_map calls_ev b
  | _ => []
  end.
Definition calls_of (l : list event) : list string := flat_map calls_ev l.

Definition starts_with (p s : string) : bool := String.prefix p s.

(** no write to a field of the object named [obj] ("resp.") *)
Definition no_writes_to (obj : string) (l : list event) : bool :=
  forallb (fun f => negb (starts_with obj f)) (writes_of l).

Lemma no_writes_sound obj l f : no_writes_to obj l = true -> In f (writes_of l) -> starts_with obj f = false.
Proof.
  unfold no_writes_to. rewrite forallb_forall. intros H Hin. specialize (H f Hin).
  apply negb_true_iff in H. exact H.
Qed.
