From Coq Require Import List Arith Bool NArith ZArith Lia.
From Pike Require Import Base.Bytes Model.LZ4.
Import ListNotations.

(** byte strings: every element below 256 *)
Definition wf (s : bytes) : Prop := Forall (fun b => (b < 256)%N) s.

Lemma wf_tail b s : wf (b :: s) -> (b < 256)%N /\ wf s.
Proof. intros H. inversion H; auto. Qed.

Lemma wf_skipn n s : wf s -> wf (skipn n s).
Proof. revert s; induction n as [|n IH]; intros s H; simpl; auto. destruct s; auto. apply IH. inversion H; auto. Qed.

Lemma ext_len_spec fuel : forall s acc n r, wf s -> ext_len fuel s acc = Some (n, r) ->
  length r < length s /\ n + 255 * length r <= acc + 255 * length s /\ wf r /\ acc <= n.
Proof.
  induction fuel as [|f IH]; intros s acc n r W H; simpl in H; [discriminate|].
  destruct s as [|b t]; [discriminate|]. destruct (wf_tail _ _ W) as [Hb Wt].
  destruct (N.eqb_spec b 255).
  - apply IH in H; [|exact Wt]. destruct H as (H1 & H2 & H3 & H4). cbn [length].
    repeat split; auto; lia.
  - assert (N.to_nat b <= 255) by lia. inversion H; subst. cbn [length]. repeat split; auto; lia.
Qed.

Lemma copy_match_length n off out : length (copy_match n off out) = length out + n.
Proof. revert out; induction n as [|n IH]; intros out; simpl; [lia|]. rewrite IH, app_length. simpl. lia. Qed.

Lemma nibbles tok : (tok < 256)%N -> N.to_nat (N.shiftr tok 4) <= 15 /\ N.to_nat (N.land tok 15) <= 15.
Proof.
  intros H. split.
  - rewrite N.shiftr_div_pow2. change (2 ^ 4)%N with 16%N.
    assert (tok / 16 < 16)%N by (apply N.div_lt_upper_bound; lia). lia.
  - assert (E : N.land tok 15 = (tok mod 2 ^ 4)%N) by (apply (N.land_ones tok 4)).
    rewrite E. change (2 ^ 4)%N with 16%N. pose proof (N.mod_lt tok 16 ltac:(lia)). lia.
Qed.

(** ** the format's expansion bound: the output grows by at most 255 bytes per input byte *)
Theorem lz4_go_bound fuel : forall cap s out o, wf s ->
  lz4_go fuel cap s out = LzOk o -> length o <= length out + 255 * length s /\ length o <= Nat.max cap (length out).
Proof.
  induction fuel as [|f IH]; intros cap s out o W H; [simpl in H; discriminate|].
  destruct s as [|tok r]; cbn [lz4_go] in H; [inversion H; subst; split; [cbn [length]; lia | apply Nat.le_max_r]|].
  destruct (wf_tail _ _ W) as [Ht Wr]. destruct (nibbles tok Ht) as [Nl Nm].
  set (lit0 := N.to_nat (N.shiftr tok 4)) in *. set (ml0 := N.to_nat (N.land tok 15)) in *.
  destruct (if Nat.eqb lit0 15 then ext_len (length r) r 15 else Some (lit0, r)) as [[lit r1]|] eqn:E1; [|discriminate].
  assert (L1 : length r1 <= length r /\ lit + 255 * length r1 <= 15 + 255 * length r /\ wf r1).
  { destruct (Nat.eqb lit0 15).
    - apply ext_len_spec in E1; [|exact Wr]. destruct E1 as (A1 & A2 & A3 & A4). repeat split; auto; lia.
    - inversion E1; subst. repeat split; auto; lia. }
  destruct L1 as (La & Lb & Wr1).
  destruct (Nat.ltb_spec (length r1) lit); [discriminate|].
  destruct (Nat.ltb_spec cap (length out + lit)); [discriminate|].
  remember (skipn lit r1) as r2 eqn:Er2.
  assert (Lr2 : length r2 = length r1 - lit) by (subst r2; apply skipn_length).
  assert (Wr2 : wf r2) by (subst r2; apply wf_skipn; exact Wr1).
  assert (Lo1 : length (out ++ firstn lit r1) = length out + lit) by (rewrite app_length, firstn_length; lia).
  destruct r2 as [|o1 [|o2 r3]].
  - inversion H; subst o. rewrite Lo1. simpl in *. lia.
  - discriminate.
  - destruct (wf_tail _ _ Wr2) as [_ W2]. destruct (wf_tail _ _ W2) as [_ Wr3].
    destruct (if Nat.eqb ml0 15 then ext_len (length r3) r3 15 else Some (ml0, r3)) as [[ml r4]|] eqn:E2; [|discriminate].
    assert (L2 : length r4 <= length r3 /\ ml + 255 * length r4 <= 15 + 255 * length r3 /\ wf r4).
    { destruct (Nat.eqb ml0 15).
      - apply ext_len_spec in E2; [|exact Wr3]. destruct E2 as (A1 & A2 & A3 & A4). repeat split; auto; lia.
      - inversion E2; subst. repeat split; auto; lia. }
    destruct L2 as (Lc & Ld & Wr4).
    destruct (Nat.eqb (N.to_nat o1 + 256 * N.to_nat o2) 0 || Nat.ltb (length (out ++ firstn lit r1)) (N.to_nat o1 + 256 * N.to_nat o2)); [discriminate|].
    destruct (Nat.ltb_spec cap (length (out ++ firstn lit r1) + (ml + 4))); [discriminate|].
    apply IH in H; [|exact Wr4]. rewrite copy_match_length, Lo1 in H. rewrite Lo1 in *. simpl in *. lia.
Qed.

Theorem lz4_expansion_bound cap s o : wf s -> lz4_decode cap s = LzOk o ->
  length o <= 255 * length s /\ length o <= cap.
Proof.
  intros W H. unfold lz4_decode in H. destruct s as [|b t]; [inversion H; subst; simpl; lia|].
  apply lz4_go_bound in H; [|exact W]. simpl in *. lia.
Qed.

(** ** capacity only matters through "too small" *)
Lemma lz4_go_cap_up fuel : forall cap1 cap2 s out o,
  lz4_go fuel cap1 s out = LzOk o -> length o <= cap2 -> length out <= length o ->
  lz4_go fuel cap2 s out = LzOk o.
Proof.
  induction fuel as [|f IH]; intros cap1 cap2 s out o H Hc Ho; [simpl in H; discriminate|].
  destruct s as [|tok r]; cbn [lz4_go] in *; [exact H|].
  destruct (if Nat.eqb _ 15 then ext_len (length r) r 15 else Some (_, r)) as [[lit r1]|]; [|discriminate].
  destruct (Nat.ltb_spec (length r1) lit); [discriminate|].
  destruct (Nat.ltb_spec cap1 (length out + lit)); [discriminate|].
  assert (Lo1 : length (out ++ firstn lit r1) = length out + lit) by (rewrite app_length, firstn_length; lia).
  destruct (skipn lit r1) as [|o1 [|o2 r3]] eqn:Es.
  - inversion H; subst o. destruct (Nat.ltb_spec cap2 (length out + lit)); [|reflexivity]. lia.
  - discriminate.
  - destruct (if Nat.eqb _ 15 then ext_len (length r3) r3 15 else Some (_, r3)) as [[ml r4]|]; [|discriminate].
    destruct (Nat.eqb _ 0 || Nat.ltb _ _); [discriminate|].
    destruct (Nat.ltb_spec cap1 (length (out ++ firstn lit r1) + (ml + 4))); [discriminate|].
    assert (Grow : length (copy_match (ml + 4) (N.to_nat o1 + 256 * N.to_nat o2) (out ++ firstn lit r1)) <= length o).
    { (* the output only grows *)
      clear -H. revert H. generalize (copy_match (ml + 4) (N.to_nat o1 + 256 * N.to_nat o2) (out ++ firstn lit r1)).
      intros b H. revert cap1 r4 b o H. induction f as [|f IHf]; intros cap1 r4 b o H; [simpl in H; discriminate|].
      destruct r4 as [|tok' r']; cbn [lz4_go] in H; [inversion H; lia|].
      destruct (if Nat.eqb _ 15 then ext_len (length r') r' 15 else Some (_, r')) as [[lit' r1']|]; [|discriminate].
      destruct (Nat.ltb (length r1') lit'); [discriminate|]. destruct (Nat.ltb cap1 (length b + lit')); [discriminate|].
      destruct (skipn lit' r1') as [|p1 [|p2 r3']].
      - inversion H; subst. rewrite app_length. lia.
      - discriminate.
      - destruct (if Nat.eqb _ 15 then ext_len (length r3') r3' 15 else Some (_, r3')) as [[ml' r4']|]; [|discriminate].
        destruct (Nat.eqb _ 0 || Nat.ltb _ _); [discriminate|]. destruct (Nat.ltb cap1 _); [discriminate|].
        apply IHf in H. rewrite copy_match_length, app_length in H. lia. }
    rewrite copy_match_length in Grow.
    destruct (Nat.ltb_spec cap2 (length out + lit)); [lia|].
    destruct (Nat.ltb_spec cap2 (length (out ++ firstn lit r1) + (ml + 4))); [lia|].
    eapply IH; eauto. rewrite copy_match_length. lia.
Qed.

Lemma lz4_go_cap_down fuel : forall cap1 cap2 s out o,
  lz4_go fuel cap2 s out = LzOk o -> cap1 <= cap2 ->
  lz4_go fuel cap1 s out = LzOk o \/ lz4_go fuel cap1 s out = LzShort.
Proof.
  induction fuel as [|f IH]; intros cap1 cap2 s out o H Hc; [simpl in H; discriminate|].
  destruct s as [|tok r]; cbn [lz4_go] in *; [left; exact H|].
  destruct (if Nat.eqb _ 15 then ext_len (length r) r 15 else Some (_, r)) as [[lit r1]|]; [|discriminate].
  destruct (Nat.ltb (length r1) lit); [discriminate|].
  destruct (Nat.ltb cap2 (length out + lit)); [discriminate|].
  destruct (Nat.ltb cap1 (length out + lit)); [right; reflexivity|].
  destruct (skipn lit r1) as [|o1 [|o2 r3]]; [left; exact H | discriminate |].
  destruct (if Nat.eqb _ 15 then ext_len (length r3) r3 15 else Some (_, r3)) as [[ml r4]|]; [|discriminate].
  destruct (Nat.eqb _ 0 || Nat.ltb _ _); [discriminate|].
  destruct (Nat.ltb cap2 _); [discriminate|]. destruct (Nat.ltb cap1 _); [right; reflexivity|].
  eapply IH; eauto.
Qed.

(** a block is valid if it decodes given enough room *)
Definition valid_block (s o : bytes) : Prop := exists cap, lz4_decode cap s = LzOk o.

Lemma lz4_decode_cap_up cap1 cap2 s o : lz4_decode cap1 s = LzOk o -> length o <= cap2 -> lz4_decode cap2 s = LzOk o.
Proof.
  unfold lz4_decode. destruct s; [auto|]. intros H Hc. eapply lz4_go_cap_up; eauto. simpl; lia.
Qed.
Lemma lz4_decode_cap_down cap1 cap2 s o : lz4_decode cap2 s = LzOk o -> cap1 <= cap2 ->
  lz4_decode cap1 s = LzOk o \/ lz4_decode cap1 s = LzShort.
Proof. unfold lz4_decode. destruct s; [auto|]. intros H Hc. eapply lz4_go_cap_down; eauto. Qed.

(** ** C12: the repaired doLZ4Decode restores EVERY valid block, whatever its ratio *)
Theorem do_lz4_decode_complete s o : wf s -> valid_block s o -> do_lz4_decode s = LzOk o.
Proof.
  intros W (cap & H). destruct (lz4_expansion_bound cap s o W H) as [Hb _].
  set (L := length s) in *. set (M := 255 * L) in *.
  assert (HM : lz4_decode M s = LzOk o) by (eapply lz4_decode_cap_up; eauto).
  assert (Step : forall c, c <= M -> lz4_decode c s = LzOk o \/ lz4_decode c s = LzShort)
    by (intros c Hc; eapply lz4_decode_cap_down; eauto).
  unfold do_lz4_decode. fold L M.
  (* attempts at 10L, 40L, 160L, 255L *)
  destruct (Nat.eq_dec L 0) as [L0|L0].
  { unfold L in L0. destruct s; [|simpl in L0; lia]. simpl. inversion H. reflexivity. }
  cbn [lz4_retry].
  destruct (Step (10 * L) ltac:(unfold M; lia)) as [->| ->]; [reflexivity|].
  destruct (Nat.leb_spec M (10 * L)); [unfold M in *; lia|].
  replace (Nat.min (4 * (10 * L)) M) with (40 * L) by (unfold M; lia).
  destruct (Step (40 * L) ltac:(unfold M; lia)) as [->| ->]; [reflexivity|].
  destruct (Nat.leb_spec M (40 * L)); [unfold M in *; lia|].
  replace (Nat.min (4 * (40 * L)) M) with (160 * L) by (unfold M; lia).
  destruct (Step (160 * L) ltac:(unfold M; lia)) as [->| ->]; [reflexivity|].
  destruct (Nat.leb_spec M (160 * L)); [unfold M in *; lia|].
  replace (Nat.min (4 * (160 * L)) M) with M by (unfold M; lia).
  rewrite HM. reflexivity.
Qed.

(** the pinned commit (one attempt at 10x) is refuted: 8 input bytes, 785 output bytes *)
Definition high_ratio_block : bytes := [31; 97; 1; 0; 255; 255; 255; 0]%N.
Lemma legacy_lz4_refuted :
  (exists o, valid_block high_ratio_block o /\ length o = 785) /\ do_lz4_decode_legacy high_ratio_block = LzShort.
Proof.
  split; [|vm_compute; reflexivity].
  eexists. split; [exists 1000; vm_compute; reflexivity | vm_compute; reflexivity].
Qed.
