(** C16: live reconfiguration equals a fresh start (repaired Update / compress.Reset). *)
From Coq Require Import List Arith Bool NArith ZArith Lia.
From Pike Require Import Base.Bytes Model.Config Proofs.ConfigProofs.
Import ListNotations.

Definition is_some {A} (o : option A) : bool := match o with Some _ => true | None => false end.

(** what requests can observe of the registries: routing data, upstream
    options, which caches exist, every server's bindings and thresholds, and
    the compression levels behind every profile name *)
Record obs_eq (c : pike_cfg) (a b : regs) : Prop := {
  oe_locs : rg_locs a = rg_locs b;
  oe_ups : rg_ups a = rg_ups b;
  oe_caches : forall n, is_some (assoc (rg_caches a) n) = is_some (assoc (rg_caches b) n);
  oe_servers : forall ad, assoc (rg_servers a) ad = assoc (rg_servers b) ad;
  oe_compress : forall n, In n (map cc_name (pc_compresses c)) \/ n = s_best_name -> compress_get a n = compress_get b n
}.

(** compression levels are compared on the profile names a configuration can
    reach: its own profiles and the built-in bestCompression (profiles of
    earlier configurations are never deleted but no server of an accepted
    configuration can name them) *)
Definition reachable_profile (c : pike_cfg) (n : bytes) : Prop :=
  In n (map cc_name (pc_compresses c)) \/ n = s_best_name.

Lemma caches_reset_others cs r :
  rg_compress (caches_reset cs r) = rg_compress r /\ rg_ups (caches_reset cs r) = rg_ups r /\
  rg_locs (caches_reset cs r) = rg_locs r /\ rg_servers (caches_reset cs r) = rg_servers r.
Proof. unfold caches_reset. destruct (add_caches _ _ _). simpl. auto. Qed.

Lemma update_server_fixed s : update_server false s = new_server s.
Proof. reflexivity. Qed.

Lemma assoc_app_none {A} (l : list (bytes * A)) k k' v : assoc l k = None ->
  assoc (l ++ [(k', v)]) k = if beqb k k' then Some v else None.
Proof. induction l as [|[a b] r IH]; simpl; [auto|]. destruct (beqb k a); [discriminate | exact IH]. Qed.

Lemma assoc_app_some {A} (l : list (bytes * A)) k v' x : assoc l k = Some v' -> assoc (l ++ x) k = Some v'.
Proof. induction l as [|[a b] r IH]; simpl; [discriminate|]. destruct (beqb k a); auto. Qed.

Lemma assoc_replace {A} (l : list (bytes * A)) k k' (v : A) :
  assoc (map (fun e => if beqb (fst e) k' then (fst e, v) else e) l) k =
  match assoc l k with
  | Some old => if beqb k k' then Some v else Some old
  | None => None
  end.
Proof.
  induction l as [|[a b] r IH]; simpl; [reflexivity|].
  destruct (beqb a k') eqn:E1; simpl.
  - apply beqb_spec in E1. subst a. destruct (beqb k k') eqn:E2; [reflexivity | exact IH].
  - destruct (beqb k a) eqn:E2.
    + apply beqb_spec in E2. subst a. rewrite E1. reflexivity.
    + exact IH.
Qed.

Lemma servers_apply_assoc ss : forall cur ad,
  assoc (servers_apply false ss cur) ad =
  fold_left (fun acc s => if beqb ad (sv_addr s) then Some (new_server s) else acc) ss (assoc cur ad).
Proof.
  induction ss as [|s r IH]; intros cur ad; simpl; [reflexivity|].
  rewrite IH. f_equal.
  destruct (assoc cur (sv_addr s)) as [old|] eqn:E.
  - rewrite assoc_replace. destruct (beqb ad (sv_addr s)) eqn:B.
    + apply beqb_spec in B. subst ad. rewrite E. reflexivity.
    + destruct (assoc cur ad); reflexivity.
  - destruct (beqb ad (sv_addr s)) eqn:B.
    + apply beqb_spec in B. subst ad. rewrite assoc_app_none by exact E. rewrite beqb_refl. reflexivity.
    + destruct (assoc cur ad) eqn:E2.
      * apply assoc_app_some. exact E2.
      * rewrite assoc_app_none by exact E2. rewrite B. reflexivity.
Qed.

Lemma fold_overwrites ss ad : forall a b,
  existsb (fun s => beqb ad (sv_addr s)) ss = true ->
  fold_left (fun acc s => if beqb ad (sv_addr s) then Some (new_server s) else acc) ss a =
  fold_left (fun acc s => if beqb ad (sv_addr s) then Some (new_server s) else acc) ss b.
Proof.
  induction ss as [|s r IH]; intros a b H; simpl in *; [discriminate|].
  destruct (beqb ad (sv_addr s)) eqn:B; [reflexivity|]. simpl in H. apply IH. exact H.
Qed.

Lemma fold_none ss ad : forall a,
  existsb (fun s => beqb ad (sv_addr s)) ss = false ->
  fold_left (fun acc s => if beqb ad (sv_addr s) then Some (new_server s) else acc) ss a = a.
Proof.
  induction ss as [|s r IH]; intros a H; simpl in *; [reflexivity|].
  apply orb_false_iff in H. destruct H as [H1 H2]. rewrite H1. apply IH. exact H2.
Qed.

Lemma kept_assoc_none ss (cur : list (bytes * server_state)) ad :
  existsb (fun s => beqb ad (sv_addr s)) ss = false ->
  assoc (filter (fun e => existsb (beqb (fst e)) (map sv_addr ss)) cur) ad = None.
Proof.
  intros H. induction cur as [|[k v] t IH]; simpl; [reflexivity|].
  destruct (existsb (beqb k) (map sv_addr ss)) eqn:E; [|exact IH]. simpl.
  destruct (beqb ad k) eqn:B; [|exact IH]. apply beqb_spec in B. subst k. exfalso.
  apply existsb_exists in E. destruct E as (x & Hx & Ex). apply in_map_iff in Hx. destruct Hx as (s & <- & Hs).
  assert (existsb (fun s => beqb ad (sv_addr s)) ss = true) by (apply existsb_exists; exists s; auto). congruence.
Qed.

(** the servers registry after a reset is a function of the configuration alone *)
Lemma servers_reset_assoc ss r1 r2 ad :
  assoc (rg_servers (servers_reset false ss r1)) ad = assoc (rg_servers (servers_reset false ss r2)) ad.
Proof.
  unfold servers_reset. simpl. rewrite !servers_apply_assoc.
  destruct (existsb (fun s => beqb ad (sv_addr s)) ss) eqn:E.
  - apply fold_overwrites. exact E.
  - rewrite !fold_none by exact E. rewrite !kept_assoc_none by exact E. reflexivity.
Qed.

(** ** C16 headline: after ANY history of configurations, applying [c] gives
    the same observable registries as applying [c] to a freshly booted process *)
Lemma assoc_app_in {A} (l x : list (bytes * A)) k : In k (map fst l) -> assoc (l ++ x) k = assoc l k.
Proof.
  intros H. apply assoc_some_iff in H. destruct H as (v & Hv). rewrite Hv. apply assoc_app_some. exact Hv.
Qed.
Lemma assoc_app_notin {A} (l x : list (bytes * A)) k : ~ In k (map fst l) -> assoc (l ++ x) k = assoc x k.
Proof.
  intros H. induction l as [|[a b] r IH]; simpl; [reflexivity|].
  destruct (beqb k a) eqn:E; [apply beqb_spec in E; subst; exfalso; apply H; left; reflexivity|].
  apply IH. intros H1. apply H. right. exact H1.
Qed.

Theorem live_equals_fresh c r1 r2 : obs_eq c (update false c r1) (update false c r2).
Proof.
  unfold update, update_steps. cbn [last].
  constructor; simpl.
  - reflexivity.
  - reflexivity.
  - intros n. 
    assert (G : forall r, is_some (assoc (rg_caches (caches_reset (pc_caches c) r)) n) =
                          existsb (beqb n) (map ca_name (pc_caches c))).
    { intros r. destruct (assoc (rg_caches (caches_reset (pc_caches c) r)) n) eqn:E; simpl.
      - symmetry. apply existsb_exists. exists n. split; [|apply beqb_refl].
        apply caches_reset_names with (r := r). apply assoc_some_iff. eauto.
      - symmetry. apply not_true_iff_false. intros H. apply existsb_exists in H. destruct H as (x & Hx & Ex).
        apply beqb_spec in Ex. subst x. apply (caches_reset_names _ r) in Hx. apply assoc_some_iff in Hx.
        destruct Hx as (v & Hv). congruence. }
    rewrite !G. reflexivity.
  - intros ad. apply servers_reset_assoc.
  - intros n Hn. unfold compress_get. simpl.
    rewrite !(proj1 (caches_reset_others _ _)). simpl.
    set (newer := rev (map (fun x => (cc_name x, levels_of x)) (pc_compresses c))).
    destruct (in_dec (list_eq_dec N.eq_dec) n (map fst newer)) as [Hin|Hnin].
    + rewrite !(assoc_app_in newer _ n Hin). reflexivity.
    + rewrite !(assoc_app_notin newer _ n Hnin).
      destruct Hn as [Hn|Hn].
      * exfalso. apply Hnin. unfold newer. rewrite map_rev, map_map. simpl. apply -> in_rev. exact Hn.
      * subst n. reflexivity.
Qed.

Corollary history_irrelevant cs c :
  obs_eq c (update false c (fold_left (fun r x => update false x r) cs boot)) (update false c boot).
Proof. apply live_equals_fresh. Qed.

(** servers that are no longer configured are gone (their listeners are closed) *)
Theorem removed_servers_stop c r ad :
  existsb (fun s => beqb ad (sv_addr s)) (pc_servers c) = false ->
  assoc (rg_servers (update false c r)) ad = None.
Proof.
  intros H. unfold update, update_steps. cbn [last]. unfold servers_reset. simpl.
  rewrite servers_apply_assoc, fold_none by exact H. apply kept_assoc_none. exact H.
Qed.

(** ** while an update is applied, a server whose own configuration and the
    locations it uses are unchanged resolves everything at every intermediate step *)
Definition serves (r : regs) (s : server_cfg) : bool := resolves r (new_server s).

Theorem unchanged_keeps_serving c0 c1 r s :
  validate c0 = VOk -> validate c1 = VOk ->
  In s (pc_servers c0) -> In s (pc_servers c1) ->
  (forall l, In l (pc_locations c0) -> In (lo_name l) (sv_locations s) -> In l (pc_locations c1)) ->
  forall ri, In ri (update_steps false c1 (update false c0 r)) -> serves ri s = true.
Proof.
  intros V0 V1 S0 S1 Keep ri Hri.
  destruct (validate_closed c0 V0) as (_ & VU0 & VS0). destruct (validate_closed c1 V1) as (_ & VU1 & VS1).
  destruct (VS0 s S0) as (VL0 & (ca0 & Hca0 & Eca0) & _). destruct (VS1 s S1) as (VL1 & (ca1 & Hca1 & Eca1) & _).
  remember (update false c0 r) as r0 eqn:Hr0.
  assert (R0locs : rg_locs r0 = pc_locations c0) by (subst r0; reflexivity).
  assert (R0ups : rg_ups r0 = rev (pc_upstreams c0)) by (subst r0; reflexivity).
  assert (R0cache : exists g, assoc (rg_caches r0) (sv_cache s) = Some g).
  { apply assoc_some_iff. subst r0. unfold update, update_steps. cbn [last]. simpl.
    apply caches_reset_names. rewrite <- Eca0. apply in_map. exact Hca0. }
  clear Hr0.
  assert (C1cache : forall rr, exists g, assoc (rg_caches (caches_reset (pc_caches c1) rr)) (sv_cache s) = Some g).
  { intros rr. apply assoc_some_iff. apply caches_reset_names. rewrite <- Eca1. apply in_map. exact Hca1. }
  (* pieces of the resolution check *)
  assert (Locs0 : forallb (fun n => existsb (fun l => beqb (lo_name l) n) (pc_locations c0)) (sv_locations s) = true).
  { apply forallb_forall. intros n Hn. destruct (VL0 n Hn) as (l & Hl & El). apply existsb_exists. exists l. split; [exact Hl | apply beqb_spec; exact El]. }
  assert (Locs1 : forallb (fun n => existsb (fun l => beqb (lo_name l) n) (pc_locations c1)) (sv_locations s) = true).
  { apply forallb_forall. intros n Hn. destruct (VL1 n Hn) as (l & Hl & El). apply existsb_exists. exists l. split; [exact Hl | apply beqb_spec; exact El]. }
  assert (Ups : forall cl cu, (cl = c0 \/ cl = c1) ->
            (forall l, In l (pc_locations cl) -> In (lo_name l) (sv_locations s) ->
                       exists u, In u (pc_upstreams cu) /\ up_name u = lo_upstream l) ->
            forallb (fun l => negb (existsb (beqb (lo_name l)) (sv_locations s))
                              || existsb (fun u => beqb (up_name u) (lo_upstream l)) (rev (pc_upstreams cu))) (pc_locations cl) = true).
  { intros cl cu _ H. apply forallb_forall. intros l Hl.
    destruct (existsb (beqb (lo_name l)) (sv_locations s)) eqn:E; simpl; [|reflexivity].
    apply existsb_exists in E. destruct E as (n & Hn & En). apply beqb_spec in En. subst n.
    destruct (H l Hl Hn) as (u & Hu & Eu). apply existsb_exists. exists u. split; [apply in_rev in Hu; exact Hu | apply beqb_spec; exact Eu]. }
  assert (U00 : forall l, In l (pc_locations c0) -> In (lo_name l) (sv_locations s) -> exists u, In u (pc_upstreams c0) /\ up_name u = lo_upstream l) by (intros l Hl _; apply VU0; exact Hl).
  assert (U01 : forall l, In l (pc_locations c0) -> In (lo_name l) (sv_locations s) -> exists u, In u (pc_upstreams c1) /\ up_name u = lo_upstream l) by (intros l Hl Hn; apply VU1; apply Keep; assumption).
  assert (U11 : forall l, In l (pc_locations c1) -> In (lo_name l) (sv_locations s) -> exists u, In u (pc_upstreams c1) /\ up_name u = lo_upstream l) by (intros l Hl _; apply VU1; exact Hl).
  unfold update_steps in Hri. cbn [In] in Hri.
  unfold serves, resolves. cbn [new_server ss_cache ss_locations].
  set (rc := compress_reset false (pc_compresses c1) r0) in *.
  pose proof (caches_reset_others (pc_caches c1) rc) as (_ & Ou & Ol & _).
  assert (RCl : rg_locs rc = pc_locations c0) by (unfold rc; simpl; exact R0locs).
  assert (RCu : rg_ups rc = rev (pc_upstreams c0)) by (unfold rc; simpl; exact R0ups).
  destruct (C1cache rc) as (g1 & G1). destruct R0cache as (g0 & G0).
  destruct Hri as [<-|[<-|[<-|[<-|[<-|[]]]]]]; cbn [rg_caches rg_locs rg_ups compress_reset ups_reset locs_reset servers_reset].
  - (* after compress.Reset *)
    fold rc. replace (rg_caches rc) with (rg_caches r0) by reflexivity.
    rewrite G0, RCl, RCu, Locs0, (Ups c0 c0 (or_introl eq_refl) U00). reflexivity.
  - rewrite G1, Ol, Ou, RCl, RCu, Locs0, (Ups c0 c0 (or_introl eq_refl) U00). reflexivity.
  - rewrite G1, Ol, RCl, Locs0, (Ups c0 c1 (or_introl eq_refl) U01). reflexivity.
  - rewrite G1, Locs1, (Ups c1 c1 (or_intror eq_refl) U11). reflexivity.
  - rewrite G1, Locs1, (Ups c1 c1 (or_intror eq_refl) U11). reflexivity.
Qed.

(** ** the pinned commit is refuted *)
Definition srv_a (minlen : Z) : server_cfg :=
  {| sv_addr := [58;56;48]%N; sv_fields_ok := true; sv_locations := [[108]%N]; sv_cache := [99]%N;
     sv_compress := []; sv_min_length := minlen; sv_filter := None |}.
Definition cfg_a (profiles : list compress_cfg) : pike_cfg :=
  {| pc_admin_ok := true; pc_compresses := profiles;
     pc_caches := [{| ca_name := [99]%N; ca_size := 10; ca_hfp_ok := true; ca_store_ok := true |}];
     pc_upstreams := [{| up_name := [117]%N; up_fields_ok := true; up_servers := 1; up_policy := []; up_accept := []; up_backup_flags := [false] |}];
     pc_locations := [{| lo_name := [108]%N; lo_upstream := [117]%N; lo_fields_ok := true; lo_hosts := []; lo_prefixes := [] |}];
     pc_servers := [srv_a 0] |}.

(** D10a: an unset min length is 0 after a live update but 1024 after a fresh start *)
Lemma legacy_update_min_length_refuted :
  assoc (rg_servers (update true (cfg_a []) (update true (cfg_a []) boot))) [58;56;48]%N
  <> assoc (rg_servers (update true (cfg_a []) boot)) [58;56;48]%N.
Proof. vm_compute. discriminate. Qed.

(** D10b: an overridden bestCompression outlives its removal from the configuration *)
Lemma legacy_compress_never_deleted_refuted :
  let over := {| cc_name := s_best_name; cc_gzip := Some 1%Z; cc_br := Some 1%Z |} in
  compress_get (update true (cfg_a []) (update true (cfg_a [over]) boot)) s_best_name
  <> compress_get (update true (cfg_a []) boot) s_best_name.
Proof. vm_compute. discriminate. Qed.
