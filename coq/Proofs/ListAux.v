(** List lemmas used by the Sys proofs: update-at-index, counting. *)
From Coq Require Import List Arith Bool Lia.
From Pike Require Import Model.Sys.
Import ListNotations.

Section Aux.
  Context {A : Type}.

  Lemma upd_length i (x : A) l : length (upd i x l) = length l.
  Proof. revert i; induction l as [|a r IH]; intros [|i]; simpl; auto. Qed.

  Lemma nth_error_upd_same i (x : A) l : i < length l -> nth_error (upd i x l) i = Some x.
  Proof. revert i; induction l as [|a r IH]; intros [|i] H; simpl in *; try lia; auto. apply IH; lia. Qed.

  Lemma nth_error_upd_other i j (x : A) l : i <> j -> nth_error (upd i x l) j = nth_error l j.
  Proof. revert i j; induction l as [|a r IH]; intros [|i] [|j] H; simpl; auto; congruence. Qed.

  Lemma nth_error_upd i j (x : A) l :
    nth_error (upd i x l) j = if Nat.eqb i j then (if Nat.ltb i (length l) then Some x else None) else nth_error l j.
  Proof.
    destruct (Nat.eqb_spec i j) as [->|H].
    - destruct (Nat.ltb_spec j (length l)).
      + apply nth_error_upd_same; auto.
      + apply nth_error_None. rewrite upd_length. lia.
    - apply nth_error_upd_other; auto.
  Qed.

  Lemma nth_error_lt i (l : list A) x : nth_error l i = Some x -> i < length l.
  Proof. intros H. apply nth_error_Some. congruence. Qed.

  Definition count (f : A -> bool) (l : list A) : nat := length (filter f l).

  Lemma count_cons f a l : count f (a :: l) = (if f a then 1 else 0) + count f l.
  Proof. unfold count. simpl. destruct (f a); reflexivity. Qed.

  Lemma count_app f a b : count f (a ++ b) = count f a + count f b.
  Proof. unfold count. rewrite filter_app, app_length. reflexivity. Qed.

  (** the counting lemma: replacing element i *)
  Lemma count_upd f i (v old : A) l : nth_error l i = Some old ->
    count f (upd i v l) + (if f old then 1 else 0) = count f l + (if f v then 1 else 0).
  Proof.
    revert i; induction l as [|a r IH]; intros [|i] H; simpl in *; try discriminate.
    - inversion H; subst. rewrite !count_cons. lia.
    - rewrite !count_cons. specialize (IH i H). lia.
  Qed.

  Lemma count_upd_same f i (v old : A) l : nth_error l i = Some old -> f v = f old ->
    count f (upd i v l) = count f l.
  Proof. intros H E. pose proof (count_upd f i v old l H). rewrite E in *. destruct (f old); lia. Qed.

  Lemma count_pos_exists f l : 0 < count f l -> exists i x, nth_error l i = Some x /\ f x = true.
  Proof.
    induction l as [|a r IH]; [unfold count; simpl; lia|].
    rewrite count_cons. destruct (f a) eqn:E.
    - intros _. exists 0, a. auto.
    - intros H. destruct (IH H) as (i & x & H1 & H2). exists (S i), x. auto.
  Qed.

  Lemma count_zero_all f l : count f l = 0 -> forall i x, nth_error l i = Some x -> f x = false.
  Proof.
    induction l as [|a r IH]; intros H [|i] x Hn; simpl in *; try discriminate.
    - inversion Hn; subst. rewrite count_cons in H. destruct (f x); [lia | reflexivity].
    - rewrite count_cons in H. apply (IH ltac:(lia) i x Hn).
  Qed.

  Lemma count_le_one_unique f l : count f l <= 1 ->
    forall i j x y, nth_error l i = Some x -> nth_error l j = Some y -> f x = true -> f y = true -> i = j.
  Proof.
    induction l as [|a r IH]; intros H [|i] [|j] x y Hi Hj Fx Fy; simpl in *; try discriminate; auto.
    - inversion Hi; subst. rewrite count_cons, Fx in H.
      assert (Z0 : count f r = 0) by lia. rewrite (count_zero_all f r Z0 j y Hj) in Fy. discriminate.
    - inversion Hj; subst. rewrite count_cons, Fy in H.
      assert (Z0 : count f r = 0) by lia. rewrite (count_zero_all f r Z0 i x Hi) in Fx. discriminate.
    - f_equal. rewrite count_cons in H. eapply IH; eauto. lia.
  Qed.

  Lemma nth_error_app_last (l : list A) x : nth_error (l ++ [x]) (length l) = Some x.
  Proof. rewrite nth_error_app2 by lia. rewrite Nat.sub_diag. reflexivity. Qed.

  Lemma nth_error_app_old (l : list A) x i : i < length l -> nth_error (l ++ [x]) i = nth_error l i.
  Proof. intros H. apply nth_error_app1. exact H. Qed.
End Aux.
