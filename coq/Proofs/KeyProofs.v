From Coq Require Import List Arith Bool NArith Lia.
From Pike Require Import Base.Bytes Model.Key.
Import ListNotations.

Lemma split_first_space a a' r r' :
  space_free a = true -> space_free a' = true ->
  a ++ sp :: r = a' ++ sp :: r' -> a = a' /\ r = r'.
Proof.
  revert a'. induction a as [|x a IH]; intros [|y a'] Ha Ha' E; simpl in *.
  - inversion E; auto.
  - inversion E; subst. apply andb_prop in Ha'. destruct Ha' as [H _]. rewrite N.eqb_refl in H. discriminate.
  - inversion E; subst. apply andb_prop in Ha. destruct Ha as [H _]. rewrite N.eqb_refl in H. discriminate.
  - inversion E; subst. apply andb_prop in Ha. apply andb_prop in Ha'.
    destruct Ha as [_ Ha]. destruct Ha' as [_ Ha'].
    destruct (IH a' Ha Ha' H1) as [-> ->]. auto.
Qed.

Theorem key_injective m h u m' h' u' :
  space_free m = true -> space_free h = true -> space_free m' = true -> space_free h' = true ->
  get_key m h u = get_key m' h' u' -> m = m' /\ h = h' /\ u = u'.
Proof.
  unfold get_key. simpl. intros Hm Hh Hm' Hh' E.
  destruct (split_first_space _ _ _ _ Hm Hm' E) as [-> E2].
  destruct (split_first_space _ _ _ _ Hh Hh' E2) as [-> ->]. auto.
Qed.

(** without the space-freeness guard the statement is false: the guard is
    what net/http's request-line and Host parsing provide *)
Lemma key_not_injective_with_spaces :
  exists m h u m' h' u', (m, h, u) <> (m', h', u') /\ get_key m h u = get_key m' h' u'.
Proof.
  exists [71]%N, [97;32;98]%N, [47]%N, [71]%N, [97]%N, [98;32;47]%N.
  split; [discriminate | reflexivity].
Qed.
