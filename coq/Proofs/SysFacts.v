(** Step-level facts behind C04, C07, C08, C10, C18 and the provenance
    invariant (what a hit serves was installed by a cacheable completion). *)
From Coq Require Import List Arith Bool ZArith Lia.
From Pike Require Import Model.Sys Proofs.ListAux Proofs.SysInv Proofs.SysStep.
Import ListNotations.

(** ** what PGet does, by status of the entry after load + expiry rule *)
Lemma pget_step s i c e x0 :
  nth_error (ts s) i = Some (PGet e) -> nth_error (gens s) e = Some x0 -> elock x0 = None ->
  let x := pre_get s (ch_read_ok c) x0 in
  step s (Run i c) =
  match st x with
  | Fetching => Some (set_pc (set_entry s e (mk_entry Fetching (waitq x ++ [i]) (sendq x) (resp x) (created x) (expired x) None)) i (PRegistered e))
  | Unknown => Some (add_log (set_pc (set_entry s e (mk_entry Fetching [] (sendq x) (resp x) (created x) (expired x) None)) i (PFetch e LFetching)) (EvStart i (Some e) LFetching))
  | Hit => Some (set_pc (set_entry s e x) i (PHitAge e (resp x)))
  | HitForPass => Some (add_log (set_pc (set_entry s e x) i (PFetch e LHitForPass)) (EvStart i (Some e) LHitForPass))
  end.
Proof. intros Hi Hx Hl. unfold step. rewrite Hi, Hx, Hl. reflexivity. Qed.

Lemma expire_fresh t x : (expired x = 0 \/ t <= expired x)%Z -> expire t x = x.
Proof.
  intros H. unfold expire. destruct (Z.eqb_spec (expired x) 0); simpl; [reflexivity|].
  destruct (Z.ltb_spec (expired x) t); [lia | reflexivity].
Qed.

Lemma expire_lapsed t x : (expired x <> 0)%Z -> (expired x < t)%Z ->
  expire t x = mk_entry Unknown (waitq x) (sendq x) (resp x) (created x) 0 (elock x).
Proof.
  intros H1 H2. unfold expire. destruct (Z.eqb_spec (expired x) 0); [contradiction|]. simpl.
  destruct (Z.ltb_spec (expired x) t); [reflexivity | lia].
Qed.

Lemma pre_get_known s rd x0 : st x0 <> Unknown -> pre_get s rd x0 = expire (now_s s) x0.
Proof. intros H. unfold pre_get. destruct (st x0); congruence. Qed.

(** ** C07 *)
(** a fetch that ends without a storable response marks the entry
    hit-for-pass for the configured period (default when unset / non-positive) *)
Lemma hfp_marks s i c e o x :
  nth_error (ts s) i = Some (PFetched e o) -> nth_error (gens s) e = Some x -> elock x = None ->
  cacheable o = None ->
  exists s', step s (Run i c) = Some s' /\
    nth_error (gens s') e = Some (mk_entry HitForPass [] (waitq x) (resp x) (created x) (now_s s + eff_hfp s) (Some i)) /\
    nth_error (ts s') i = Some (PSending e o).
Proof.
  intros Hi Hx Hl Hc. unfold step. rewrite Hi, Hx, Hl, Hc. eexists. split; [reflexivity|]. simpl.
  split; [apply nth_error_upd_same; eapply nth_error_lt; eauto | apply nth_error_upd_same; eapply nth_error_lt; eauto].
Qed.

Lemma eff_hfp_default s : (hfp s <= 0)%Z -> eff_hfp s = 300%Z.
Proof. intros H. unfold eff_hfp, default_hfp. destruct (Z.leb_spec (hfp s) 0); [reflexivity | lia]. Qed.
Lemma eff_hfp_configured s : (0 < hfp s)%Z -> eff_hfp s = hfp s.
Proof. intros H. unfold eff_hfp. destruct (Z.leb_spec (hfp s) 0); [lia | reflexivity]. Qed.

(** during the period every request passes straight to the upstream: one step,
    no queueing (the entry is not touched), labelled hitForPass *)
Lemma hfp_pass s i c e x :
  nth_error (ts s) i = Some (PGet e) -> nth_error (gens s) e = Some x -> elock x = None ->
  st x = HitForPass -> (now_s s <= expired x)%Z ->
  step s (Run i c) =
    Some (add_log (set_pc (set_entry s e x) i (PFetch e LHitForPass)) (EvStart i (Some e) LHitForPass)).
Proof.
  intros Hi Hx Hl Hs Hn. rewrite (pget_step s i c e x Hi Hx Hl). cbv zeta.
  rewrite pre_get_known by congruence. rewrite expire_fresh by (right; exact Hn). rewrite Hs. reflexivity.
Qed.

(** its own upstream answer is what such a request replies with *)
Lemma hfp_own_answer s i c e :
  nth_error (ts s) i = Some (PFetch e LHitForPass) ->
  step s (Run i c) = Some (add_log (set_pc s i (PDone (Reply LHitForPass (rid_of (ch_outcome c)) 0)))
                                   (EvReply i (Reply LHitForPass (rid_of (ch_outcome c)) 0))).
Proof. intros Hi. unfold step. rewrite Hi. reflexivity. Qed.

(** after the period the first request becomes the (single) fetcher *)
Lemma hfp_lapse s i c e x :
  nth_error (ts s) i = Some (PGet e) -> nth_error (gens s) e = Some x -> elock x = None ->
  st x = HitForPass -> (0 < expired x)%Z -> (expired x < now_s s)%Z ->
  exists s', step s (Run i c) = Some s' /\ nth_error (ts s') i = Some (PFetch e LFetching) /\
    exists x', nth_error (gens s') e = Some x' /\ st x' = Fetching.
Proof.
  intros Hi Hx Hl Hs Hp Hn. rewrite (pget_step s i c e x Hi Hx Hl). cbv zeta.
  rewrite pre_get_known by congruence. rewrite expire_lapsed by lia. simpl.
  eexists. split; [reflexivity|]. simpl.
  split; [apply nth_error_upd_same; eapply nth_error_lt; eauto|].
  eexists. split; [apply nth_error_upd_same; eapply nth_error_lt; eauto | reflexivity].
Qed.

(** ** C04 *)
(** a hit is only ever decided on an entry that is Hit and not past its
    expiry second; deciding it changes neither the creation nor the expiry time *)
Lemma hit_only_fresh s i c e x0 s' r :
  Inv s -> nth_error (ts s) i = Some (PGet e) -> nth_error (gens s) e = Some x0 ->
  step s (Run i c) = Some s' -> nth_error (ts s') i = Some (PHitAge e r) ->
  exists x, nth_error (gens s') e = Some x /\ st x = Hit /\ resp x = r /\ r <> None /\
            (now_s s <= expired x)%Z /\ (0 < expired x)%Z /\
            (st x0 = Hit -> created x = created x0 /\ expired x = expired x0).
Proof.
  intros I Hi Hx H Hp. pose proof (inv_ref _ I _ _ _ Hi eq_refl) as He.
  pose proof (inv_entries _ I e x0 (proj1 He) Hx) as IE0.
  pose proof (einv_pre_get e x0 (ts s) s (ch_read_ok c) (inv_fixed _ I) IE0) as IE.
  assert (Hl : elock x0 = None).
  { destruct (elock x0) eqn:E; [|reflexivity]. unfold step in H. rewrite Hi, Hx, E in H. discriminate. }
  rewrite (pget_step s i c e x0 Hi Hx Hl) in H. cbv zeta in H.
  set (x := pre_get s (ch_read_ok c) x0) in *.
  assert (Hlt : i < length (ts s)) by (eapply nth_error_lt; eauto).
  destruct (st x) eqn:Hs; inversion H; subst s'; clear H; simpl in Hp;
    rewrite nth_error_upd_same in Hp by exact Hlt; inversion Hp; subst r.
  exists x. simpl. split; [apply nth_error_upd_same; lia|]. split; [exact Hs|]. split; [reflexivity|].
  split; [apply (i_hit_resp _ _ _ IE Hs)|].
  pose proof (i_exp_pos _ _ _ IE (or_introl Hs)) as Hpos.
  split.
  - (* not lapsed: otherwise the expiry rule would have reset the status *)
    unfold x, pre_get in Hs, Hpos |- *. unfold expire in *.
    match goal with |- context [if ?b then _ else _] => destruct b eqn:B end; simpl in *; [discriminate|].
    apply andb_false_iff in B. destruct B as [B|B].
    + apply negb_false_iff in B. apply Z.eqb_eq in B. lia.
    + apply Z.ltb_ge in B. exact B.
  - split; [exact Hpos|]. intros H0. unfold x. rewrite pre_get_known by congruence.
    unfold expire. match goal with |- context [if ?b then _ else _] => destruct b eqn:B end; simpl; auto.
    exfalso. unfold x in Hs. rewrite pre_get_known in Hs by congruence. unfold expire in Hs. rewrite B in Hs. discriminate.
Qed.

(** the first request past the expiry second refetches *)
Lemma refetch_after_expiry s i c e x :
  nth_error (ts s) i = Some (PGet e) -> nth_error (gens s) e = Some x -> elock x = None ->
  st x = Hit -> (0 < expired x)%Z -> (expired x < now_s s)%Z ->
  exists s', step s (Run i c) = Some s' /\ nth_error (ts s') i = Some (PFetch e LFetching).
Proof.
  intros Hi Hx Hl Hs Hp Hn. rewrite (pget_step s i c e x Hi Hx Hl). cbv zeta.
  rewrite pre_get_known by congruence. rewrite expire_lapsed by lia. simpl.
  eexists. split; [reflexivity|]. simpl. apply nth_error_upd_same; eapply nth_error_lt; eauto.
Qed.

(** Age(): seconds since the entry's creation time as it is when Age runs *)
Lemma age_step s i c e r x :
  nth_error (ts s) i = Some (PHitAge e r) -> nth_error (gens s) e = Some x ->
  step s (Run i c) = Some (add_log (set_pc s i (PDone (Reply LHit r (now_s s - created x))))
                                   (EvReply i (Reply LHit r (now_s s - created x)))).
Proof. intros Hi Hx. unfold step. rewrite Hi, Hx. reflexivity. Qed.

(** ** C10 *)
(** a record that fails to decode, an invalid record, a missing record and a
    read error all leave the entry exactly as it was: a miss *)
Lemma bad_record_is_miss s rd x :
  legacy s = false ->
  (rd = false \/ has_store s = false \/
   match store s with SNone => True | SJunk _ _ => True | SRec r => valid_record r = false end) ->
  load s rd x = x.
Proof.
  intros L H. unfold load. rewrite L.
  destruct H as [-> | [-> | H]]; simpl; try reflexivity.
  - rewrite orb_true_r. reflexivity.
  - destruct (negb (has_store s) || negb rd); [reflexivity|].
    destruct (store s); try reflexivity. rewrite H. reflexivity.
Qed.

(** an entry that is not Unknown never consults the store: the step is the
    same function of the state with any store content and any read fault *)
Lemma memory_needs_no_store s i c c' e x0 cont :
  nth_error (ts s) i = Some (PGet e) -> nth_error (gens s) e = Some x0 -> st x0 <> Unknown ->
  ch_outcome c = ch_outcome c' -> ch_write_ok c = ch_write_ok c' ->
  option_map ts (step (set_store s cont) (Run i c')) = option_map ts (step s (Run i c)) /\
  option_map gens (step (set_store s cont) (Run i c')) = option_map gens (step s (Run i c)).
Proof.
  intros Hi Hx Hs _ _. unfold step. simpl. rewrite Hi, Hx.
  destruct (elock x0); [split; reflexivity|].
  assert (E : forall s1 rd, match st x0 with Unknown => load s1 rd x0 | _ => x0 end = x0)
    by (intros; destruct (st x0); congruence).
  rewrite !E. unfold now_s. simpl.
  destruct (st (expire (now s / 1000) x0)); split; reflexivity.
Qed.

(** ** C18 *)
Lemma purge_effective s ok :
  exists s', step s (Purge ok) = Some s' /\ cur s' = None /\ ts s' = ts s /\ gens s' = gens s /\
    (has_store s = true -> ok = true -> store s' = SNone).
Proof.
  simpl. eexists. split; [reflexivity|].
  destruct (has_store s && ok) eqn:E; simpl; repeat split; auto; intros H1 H2; rewrite H1, H2 in E; discriminate.
Qed.

(** the next request after a purge gets a brand-new entry ... *)
Lemma lookup_after_purge s i c :
  cur s = None -> nth_error (ts s) i = Some PLookup ->
  exists s', step s (Run i c) = Some s' /\ nth_error (ts s') i = Some (PGet (length (gens s))) /\
    nth_error (gens s') (length (gens s)) = Some fresh_entry /\ store s' = store s.
Proof.
  intros Hc Hi. unfold step. rewrite Hi, Hc. eexists. split; [reflexivity|]. simpl.
  split; [apply nth_error_upd_same; eapply nth_error_lt; eauto|].
  split; [apply nth_error_app_last | reflexivity].
Qed.

(** ... which, with nothing in the store, makes it the fetcher: it goes to the upstream *)
Lemma fresh_entry_fetches s i c e :
  legacy s = false -> nth_error (ts s) i = Some (PGet e) -> nth_error (gens s) e = Some fresh_entry ->
  (has_store s = false \/ store s = SNone) ->
  exists s', step s (Run i c) = Some s' /\ nth_error (ts s') i = Some (PFetch e LFetching) /\
             log s' = EvStart i (Some e) LFetching :: log s.
Proof.
  intros L Hi Hx Hst. rewrite (pget_step s i c e fresh_entry Hi Hx eq_refl). cbv zeta.
  assert (E : pre_get s (ch_read_ok c) fresh_entry = fresh_entry).
  { unfold pre_get. simpl. rewrite bad_record_is_miss; [reflexivity | exact L |].
    destruct Hst as [H|H]; [right; left; exact H | right; right; rewrite H; exact I]. }
  rewrite E. simpl. eexists. split; [reflexivity|]. simpl.
  split; [apply nth_error_upd_same; eapply nth_error_lt; eauto | reflexivity].
Qed.

(** a purge of a key that is neither resident nor stored changes nothing *)
Lemma purge_noop s ok : cur s = None -> (has_store s = false \/ store s = SNone) ->
  step s (Purge ok) = Some s.
Proof.
  intros Hc Hs. simpl. destruct s as [n h hs lg g b cu sto t l]. simpl in *. subst cu.
  destruct Hs as [Hs|Hs]; subst; simpl; [reflexivity|]. destruct (hs && ok); reflexivity.
Qed.
