From Coq Require Import List Arith Bool NArith ZArith Lia.
From Pike Require Import Base.Bytes Model.MaxAge Model.Resp Model.Codec.
Import ListNotations.

Local Open Scope Z_scope.

(** ** big-endian integers *)
Lemma be_val_snoc l b : be_val (l ++ [b]) = be_val l * 256 + Z.of_N b.
Proof. unfold be_val. rewrite fold_left_app. reflexivity. Qed.

Lemma be_bytes_length k v : length (be_bytes k v) = k.
Proof. revert v; induction k as [|k IH]; intros v; simpl; [reflexivity|]. rewrite app_length, IH. simpl. lia. Qed.

Lemma be_val_be_bytes k : forall v, 0 <= v < 256 ^ Z.of_nat k -> be_val (be_bytes k v) = v.
Proof.
  induction k as [|k IH]; intros v Hv.
  - simpl in *. unfold be_val. simpl. lia.
  - cbn [be_bytes]. rewrite be_val_snoc.
    rewrite Nat2Z.inj_succ, Z.pow_succ_r in Hv by lia.
    rewrite IH.
    + rewrite Z2N.id by (apply Z.mod_pos_bound; lia).
      pose proof (Z.div_mod v 256 ltac:(lia)). lia.
    + split; [apply Z.div_pos; lia | apply Z.div_lt_upper_bound; lia].
Qed.

Lemma firstn_app_exact {A} (a b : list A) : firstn (length a) (a ++ b) = a.
Proof. rewrite firstn_app, Nat.sub_diag, firstn_all. simpl. apply app_nil_r. Qed.
Lemma skipn_app_exact {A} (a b : list A) : skipn (length a) (a ++ b) = b.
Proof. rewrite skipn_app, Nat.sub_diag, skipn_all. reflexivity. Qed.

Lemma firstn_app_len {A} k (a b : list A) : length a = k -> firstn k (a ++ b) = a.
Proof. intros <-. apply firstn_app_exact. Qed.
Lemma skipn_app_len {A} k (a b : list A) : length a = k -> skipn k (a ++ b) = b.
Proof. intros <-. apply skipn_app_exact. Qed.

Lemma read_u32_u32 v rest : read_u32 (u32 v ++ rest) = Some (v mod two32, rest).
Proof.
  unfold read_u32, u32.
  assert (L : length (be_bytes 4 (v mod two32)) = 4%nat) by apply be_bytes_length.
  rewrite app_length, L. simpl Nat.ltb.
  rewrite (firstn_app_len 4 _ _ L), (skipn_app_len 4 _ _ L).
  rewrite be_val_be_bytes; [reflexivity|]. apply Z.mod_pos_bound. reflexivity.
Qed.

Lemma read_i64_u64 v rest : min_i64 <= v <= max_i64 -> read_i64 (u64 v ++ rest) = Some (v, rest).
Proof.
  intros Hv. unfold read_i64, u64.
  assert (L : length (be_bytes 8 (v mod two64)) = 8%nat) by apply be_bytes_length.
  rewrite app_length, L. simpl Nat.ltb.
  rewrite (firstn_app_len 8 _ _ L), (skipn_app_len 8 _ _ L).
  rewrite be_val_be_bytes by (apply Z.mod_pos_bound; reflexivity).
  assert (E : (if v mod two64 <? two63 then v mod two64 else v mod two64 - two64) = v).
  { unfold min_i64, max_i64, two64, two63 in *.
    destruct (Z_lt_le_dec v 0).
    - assert (M : v mod 18446744073709551616 = v + 18446744073709551616).
      { symmetry. apply Z.mod_unique with (q := -1); lia. }
      rewrite M. destruct (Z.ltb_spec (v + 18446744073709551616) 9223372036854775808); lia.
    - rewrite Z.mod_small by lia. destruct (Z.ltb_spec v 9223372036854775808); lia. }
  rewrite E. reflexivity.
Qed.

Lemma next_exact (a rest : bytes) : next (Z.of_nat (length a)) (a ++ rest) = (a, rest).
Proof.
  unfold next. rewrite app_length, Z.min_l by lia.
  rewrite Nat2Z.id, firstn_app_exact, skipn_app_exact. reflexivity.
Qed.

Lemma next_all (a : bytes) : next (Z.of_nat (length a)) a = (a, []).
Proof. unfold next. rewrite Z.min_id, Nat2Z.id, firstn_all, skipn_all. reflexivity. Qed.

Lemma u32_length v : length (u32 v) = 4%nat.
Proof. apply be_bytes_length. Qed.
Lemma u64_length v : length (u64 v) = 8%nat.
Proof. apply be_bytes_length. Qed.

Section CodecProofs.
  Variable hdr_enc : option headers -> bytes.
  Variable hdr_dec : bytes -> option headers -> option (option headers).
  Variable regex_ok : bytes -> bool.

  Notation encode_resp := (encode_resp hdr_enc).
  Notation decode_resp := (decode_resp hdr_dec regex_ok).
  Notation encode_entry := (encode_entry hdr_enc).
  Notation decode_entry := (decode_entry hdr_dec regex_ok).

  Definition small (b : bytes) : Prop := Z.of_nat (length b) < two32.

  (** well-formedness of a response for the round trip: every length and
      number fits the 32-bit fields; a filter is a non-empty source that
      compiles; the header map survives encoding/json *)
  Record presp_wf (r : presp) : Prop := {
    wf_srv : small (p_srv r);
    wf_min : 0 <= p_min r < two32;
    wf_filter : match p_filter r with Some f => f <> [] /\ regex_ok f = true /\ small f | None => True end;
    wf_hdr : hdr_dec (hdr_enc (p_header r)) None = Some (p_header r) /\ small (hdr_enc (p_header r));
    wf_status : 0 <= p_status r < two32;
    wf_gzip : small (p_gzip r); wf_br : small (p_br r); wf_raw : small (p_raw r)
  }.

  Lemma blen32_read (a rest : bytes) : small a ->
    read_u32 (blen32 a ++ rest) = Some (Z.of_nat (length a), rest).
  Proof.
    intros H. unfold blen32. rewrite read_u32_u32. rewrite Z.mod_small; [reflexivity|].
    unfold small in H. lia.
  Qed.

  Lemma with_u32_blen {A} (a rest : bytes) (fail : A) k : small a ->
    with_u32 (blen32 a ++ rest) fail k = k (Z.of_nat (length a)) rest.
  Proof. intros H. unfold with_u32. rewrite blen32_read by exact H. reflexivity. Qed.

  Lemma with_u32_val {A} v rest (fail : A) k : 0 <= v < two32 ->
    with_u32 (u32 v ++ rest) fail k = k v rest.
  Proof. intros H. unfold with_u32. rewrite read_u32_u32, Z.mod_small by exact H. reflexivity. Qed.

  Lemma encode_resp_nonempty r : encode_resp r <> [].
  Proof.
    unfold Codec.encode_resp, blen32, u32. cbn [be_bytes].
    intros H. apply (f_equal (@length N)) in H. repeat rewrite app_length in H. simpl in H. lia.
  Qed.

  Theorem resp_roundtrip r : presp_wf r -> decode_resp empty_presp (encode_resp r) = (r, true).
  Proof.
    intros W. unfold Codec.decode_resp.
    destruct (encode_resp r) eqn:E; [exfalso; eapply encode_resp_nonempty; eauto|]. rewrite <- E. clear E.
    unfold Codec.encode_resp.
    repeat rewrite <- app_assoc.
    rewrite with_u32_blen by apply W. rewrite next_exact. cbn [fst snd].
    rewrite with_u32_val by apply W.
    pose proof (wf_filter _ W) as Wf.
    set (f := match p_filter r with Some s => s | None => [] end).
    assert (Hsf : small f).
    { unfold f. destruct (p_filter r); [apply Wf | unfold small; simpl; reflexivity]. }
    rewrite with_u32_blen by exact Hsf. rewrite next_exact. cbn [fst snd].
    assert (Hf : (match f with [] => Some (p_filter (set_min (set_srv empty_presp (p_srv r)) (p_min r)))
                  | _ => if regex_ok f then Some (Some f) else None end) = Some (p_filter r)).
    { unfold f. destruct (p_filter r) as [s|]; [|reflexivity].
      destruct Wf as (H1 & H2 & _). destruct s; [contradiction|]. rewrite H2. reflexivity. }
    rewrite Hf.
    destruct (wf_hdr _ W) as [Hh Hhs].
    rewrite with_u32_blen by exact Hhs. rewrite next_exact. cbn [fst snd].
    cbn [p_header set_filter set_min set_srv empty_presp]. rewrite Hh.
    rewrite with_u32_val by apply W.
    rewrite with_u32_blen by apply W. rewrite next_exact. cbn [fst snd].
    rewrite with_u32_blen by apply W. rewrite next_exact. cbn [fst snd].
    rewrite with_u32_blen by apply W. rewrite next_all. cbn [fst snd].
    destruct r; reflexivity.
  Qed.

  (** entries: a nil response comes back as an empty one *)
  Definition resp_equiv (a b : option presp) : Prop :=
    match a, b with
    | Some x, Some y => x = y
    | None, Some y => y = empty_presp
    | _, _ => False
    end.

  Record pentry_wf (e : pentry) : Prop := {
    ewf_status : 0 <= pe_status e < two32;
    ewf_resp : match pe_resp e with Some r => presp_wf r /\ small (encode_resp r) | None => True end;
    ewf_created : min_i64 <= pe_created e <= max_i64;
    ewf_expired : min_i64 <= pe_expired e <= max_i64
  }.

  Theorem entry_roundtrip e0 e : pentry_wf e ->
    exists e', decode_entry e0 (encode_entry e) = (e', true) /\
      pe_status e' = pe_status e /\ pe_created e' = pe_created e /\ pe_expired e' = pe_expired e /\
      resp_equiv (pe_resp e) (pe_resp e').
  Proof.
    intros W. unfold Codec.decode_entry, Codec.encode_entry.
    repeat rewrite <- app_assoc.
    rewrite with_u32_val by apply W.
    set (rb := match pe_resp e with Some r => encode_resp r | None => [] end).
    assert (Hs : small rb).
    { unfold rb. pose proof (ewf_resp _ W) as H. destruct (pe_resp e); [apply H | unfold small; simpl; reflexivity]. }
    rewrite with_u32_blen by exact Hs. rewrite next_exact. cbn [fst snd].
    assert (Hd : exists r', decode_resp empty_presp rb = (r', true) /\ resp_equiv (pe_resp e) (Some r')).
    { unfold rb. pose proof (ewf_resp _ W) as H. destruct (pe_resp e) as [r|].
      - exists r. split; [apply resp_roundtrip; apply H | reflexivity].
      - exists empty_presp. split; reflexivity. }
    destruct Hd as (r' & Hd & Heq). rewrite Hd.
    rewrite read_i64_u64 by apply W.
    rewrite <- (app_nil_r (u64 (pe_expired e))).
    rewrite read_i64_u64 by apply W.
    eexists. split; [reflexivity|]. cbn. auto.
  Qed.

  (** ** every truncated record is an error — for every JSON / regexp oracle *)
  Lemma read_u32_short s : (length s < 4)%nat -> read_u32 s = None.
  Proof. intros H. unfold read_u32. apply Nat.ltb_lt in H. rewrite H. reflexivity. Qed.
  Lemma read_i64_short s : (length s < 8)%nat -> read_i64 s = None.
  Proof. intros H. unfold read_i64. apply Nat.ltb_lt in H. rewrite H. reflexivity. Qed.
  Lemma read_i64_rest s v r : read_i64 s = Some (v, r) -> length r = (length s - 8)%nat.
  Proof.
    unfold read_i64. destruct (Nat.ltb (length s) 8); [discriminate|].
    intros H. assert (Hr : skipn 8 s = r) by congruence. rewrite <- Hr. apply skipn_length.
  Qed.

  Theorem truncation_detected e0 e n :
    match pe_resp e with Some r => small (encode_resp r) | None => True end ->
    (n < length (encode_entry e))%nat ->
    snd (decode_entry e0 (firstn n (encode_entry e))) = false.
  Proof.
    intros Hs Hn. unfold Codec.encode_entry in *.
    set (rb := match pe_resp e with Some r => encode_resp r | None => [] end) in *.
    assert (Hsm : small rb) by (unfold rb; destruct (pe_resp e); [exact Hs | unfold small; simpl; reflexivity]).
    set (tl := rb ++ u64 (pe_created e) ++ u64 (pe_expired e)) in *.
    assert (Ltl : length tl = (length rb + 16)%nat).
    { unfold tl. rewrite !app_length, !u64_length. lia. }
    rewrite !app_length, u32_length in Hn. unfold blen32 in Hn. rewrite u32_length in Hn. fold tl in Hn.
    unfold Codec.decode_entry, with_u32.
    destruct (le_lt_dec 4 n) as [H4|H4].
    2:{ rewrite read_u32_short; [reflexivity|]. rewrite firstn_length. lia. }
    (* status word readable *)
    rewrite firstn_app, u32_length.
    replace (firstn n (u32 (pe_status e))) with (u32 (pe_status e)) by (symmetry; apply firstn_all2; rewrite u32_length; lia).
    rewrite read_u32_u32.
    destruct (le_lt_dec 8 n) as [H8|H8].
    2:{ rewrite read_u32_short; [reflexivity|]. rewrite firstn_length, app_length. unfold blen32. rewrite u32_length. lia. }
    rewrite firstn_app. unfold blen32 at 1 2. rewrite u32_length.
    replace (firstn (n - 4) (u32 (Z.of_nat (length rb)))) with (u32 (Z.of_nat (length rb)))
      by (symmetry; apply firstn_all2; rewrite u32_length; lia).
    rewrite read_u32_u32. rewrite Z.mod_small by (unfold small in Hsm; lia).
    set (t := firstn (n - 4 - 4) tl).
    assert (Lt : length t = (n - 8)%nat).
    { unfold t. rewrite firstn_length. lia. }
    unfold next. cbn [fst snd].
    set (k := Z.to_nat (Z.min (Z.of_nat (length rb)) (Z.of_nat (length t)))).
    assert (Hk : k = Nat.min (length rb) (length t)) by (unfold k; lia).
    destruct (decode_resp empty_presp (firstn k t)) as [r' [|]]; [|reflexivity].
    assert (Lr : (length (skipn k t) < 16)%nat).
    { rewrite skipn_length. lia. }
    destruct (read_i64 (skipn k t)) as [[c s1]|] eqn:R1; [|reflexivity].
    apply read_i64_rest in R1.
    rewrite read_i64_short; [reflexivity|]. lia.
  Qed.
End CodecProofs.
