(** C09, allocation clause: whatever bytes are decoded (valid, truncated,
    bit-flipped, arbitrary), the byte fields of the decoded response are
    slices of the input — together never longer than the input — and the
    entry decoder consumes the record once.  (The header map is produced by
    the JSON oracle from a slice of the input.) *)
From Coq Require Import List Arith Bool NArith ZArith Lia.
From Pike Require Import Base.Bytes Model.MaxAge Model.Codec.
Import ListNotations.

Lemma next_len n s : (length (fst (next n s)) + length (snd (next n s)) = length s)%nat.
Proof.
  unfold next. cbn [fst snd].
  rewrite firstn_length, skipn_length.
  assert (Z.to_nat (Z.min n (Z.of_nat (length s))) <= length s)%nat by lia. lia.
Qed.

Lemma read_u32_len s v s' : read_u32 s = Some (v, s') -> (length s' + 4 = length s)%nat.
Proof.
  unfold read_u32. destruct (Nat.ltb (length s) 4) eqn:E; [discriminate|].
  apply Nat.ltb_ge in E. intros H. assert (s' = skipn 4 s) as -> by congruence. rewrite skipn_length. lia.
Qed.

Section Bound.
  Variable hdr_enc : option headers -> bytes.
  Variable hdr_dec : bytes -> option headers -> option (option headers).
  Variable regex_ok : bytes -> bool.

  Definition flen (f : option bytes) : nat := match f with Some b => length b | None => 0%nat end.
  Definition body_bytes (r : presp) : nat :=
    (length (p_srv r) + flen (p_filter r) + length (p_gzip r) + length (p_br r) + length (p_raw r))%nat.

  Ltac fin := unfold body_bytes, flen; cbn [fst p_srv p_filter p_gzip p_br p_raw set_raw set_br set_gzip set_status set_header set_filter set_min set_srv empty_presp Datatypes.length]; lia.

  Theorem decode_resp_bounded data :
    (body_bytes (fst (decode_resp hdr_dec regex_ok empty_presp data)) <= length data)%nat.
  Proof.
    unfold decode_resp. destruct data as [|b0 data0]; [cbn; lia|]. cbv beta iota.
    remember (b0 :: data0) as data eqn:Ed. clear Ed b0 data0.
    unfold with_u32.
    destruct (read_u32 data) as [[n1 s1]|] eqn:E1; [|fin]. pose proof (read_u32_len _ _ _ E1) as L1.
    pose proof (next_len n1 s1) as N1.
    destruct (read_u32 (snd (next n1 s1))) as [[mn s2]|] eqn:E2; [|fin]. pose proof (read_u32_len _ _ _ E2) as L2.
    destruct (read_u32 s2) as [[n3 s3]|] eqn:E3; [|fin]. pose proof (read_u32_len _ _ _ E3) as L3.
    pose proof (next_len n3 s3) as N3.
    cbn [p_filter set_min set_srv empty_presp].
    destruct (fst (next n3 s3)) as [|f0 fr] eqn:EF.
    - (* empty filter field: the receiver's filter (none) is kept *)
      destruct (read_u32 (snd (next n3 s3))) as [[n4 s4]|] eqn:E4; [|fin]. pose proof (read_u32_len _ _ _ E4) as L4.
      pose proof (next_len n4 s4) as N4.
      destruct (hdr_dec (fst (next n4 s4)) _) as [h|]; [|fin].
      destruct (read_u32 (snd (next n4 s4))) as [[sc s5]|] eqn:E5; [|fin]. pose proof (read_u32_len _ _ _ E5) as L5.
      destruct (read_u32 s5) as [[n6 s6]|] eqn:E6; [|fin]. pose proof (read_u32_len _ _ _ E6) as L6.
      pose proof (next_len n6 s6) as N6.
      destruct (read_u32 (snd (next n6 s6))) as [[n7 s7]|] eqn:E7; [|fin]. pose proof (read_u32_len _ _ _ E7) as L7.
      pose proof (next_len n7 s7) as N7.
      destruct (read_u32 (snd (next n7 s7))) as [[n8 s8]|] eqn:E8; [|fin]. pose proof (read_u32_len _ _ _ E8) as L8.
      pose proof (next_len n8 s8) as N8.
      fin.
    - destruct (regex_ok (f0 :: fr)); [|fin].
      assert (LF : length (f0 :: fr) = length (fst (next n3 s3))) by (rewrite EF; reflexivity).
      destruct (read_u32 (snd (next n3 s3))) as [[n4 s4]|] eqn:E4; [|cbn [Datatypes.length] in LF, N3; fin]. pose proof (read_u32_len _ _ _ E4) as L4.
      pose proof (next_len n4 s4) as N4.
      destruct (hdr_dec (fst (next n4 s4)) _) as [h|]; [|cbn [Datatypes.length] in LF, N3; fin].
      destruct (read_u32 (snd (next n4 s4))) as [[sc s5]|] eqn:E5; [|cbn [Datatypes.length] in LF, N3; fin]. pose proof (read_u32_len _ _ _ E5) as L5.
      destruct (read_u32 s5) as [[n6 s6]|] eqn:E6; [|cbn [Datatypes.length] in LF, N3; fin]. pose proof (read_u32_len _ _ _ E6) as L6.
      pose proof (next_len n6 s6) as N6.
      destruct (read_u32 (snd (next n6 s6))) as [[n7 s7]|] eqn:E7; [|cbn [Datatypes.length] in LF, N3; fin]. pose proof (read_u32_len _ _ _ E7) as L7.
      pose proof (next_len n7 s7) as N7.
      destruct (read_u32 (snd (next n7 s7))) as [[n8 s8]|] eqn:E8; [|cbn [Datatypes.length] in LF, N3; fin]. pose proof (read_u32_len _ _ _ E8) as L8.
      pose proof (next_len n8 s8) as N8.
      cbn [Datatypes.length] in LF, N3. fin.
  Qed.

  (** the entry decoder: the response it installs (if any) was decoded from a
      slice of the record *)
  Theorem decode_entry_bounded e data :
    match pe_resp (fst (decode_entry hdr_dec regex_ok e data)) with
    | Some r => (body_bytes r <= length data)%nat \/ Some r = pe_resp e
    | None => True
    end.
  Proof.
    unfold decode_entry, with_u32.
    destruct (read_u32 data) as [[st s1]|] eqn:E1.
    2:{ cbn [fst]. destruct (pe_resp e); [right; reflexivity | exact I]. }
    pose proof (read_u32_len _ _ _ E1) as L1.
    destruct (read_u32 s1) as [[n s2]|] eqn:E2.
    2:{ cbn [fst mk_pe pe_resp]. destruct (pe_resp e); [right; reflexivity | exact I]. }
    pose proof (read_u32_len _ _ _ E2) as L2.
    pose proof (next_len n s2) as N2.
    pose proof (decode_resp_bounded (fst (next n s2))) as B.
    destruct (decode_resp hdr_dec regex_ok empty_presp (fst (next n s2))) as [r ok] eqn:ED.
    cbn [fst] in B.
    destruct ok.
    2:{ cbn [fst mk_pe pe_resp]. destruct (pe_resp e); [right; reflexivity | exact I]. }
    assert (Hb : (body_bytes r <= length data)%nat) by lia.
    cbn [mk_pe pe_status pe_resp pe_created pe_expired].
    destruct (read_i64 (snd (next n s2))) as [[c s3]|]; [|cbn [fst mk_pe pe_resp]; left; exact Hb].
    cbn [mk_pe pe_status pe_resp pe_created pe_expired].
    destruct (read_i64 s3) as [[x s4]|]; cbn [fst mk_pe pe_resp]; left; exact Hb.
  Qed.
End Bound.
