From Coq Require Import List Arith Bool NArith ZArith Lia Sorted Permutation.
From Pike Require Import Base.Bytes Model.Location.
Import ListNotations.

Definition ple (c : pconsts) (a b : loc) : Prop := (priority c a <= priority c b)%Z.

(** what sort.Slice guarantees: a permutation, ordered by the comparison *)
Definition sorted_perm (c : pconsts) (locs sorted : list loc) : Prop :=
  Permutation locs sorted /\ StronglySorted (ple c) sorted.

Lemma find_split {A} (f : A -> bool) l x : find f l = Some x ->
  exists l1 l2, l = l1 ++ x :: l2 /\ f x = true /\ forall y, In y l1 -> f y = false.
Proof.
  induction l as [|a r IH]; simpl; [discriminate|].
  destruct (f a) eqn:E.
  - intros H; inversion H; subst. exists [], r. repeat split; auto. intros y [].
  - intros H. destruct (IH H) as (l1 & l2 & -> & Hx & Hb).
    exists (a :: l1), l2. repeat split; auto. intros y [<-|Hy]; auto.
Qed.

Lemma find_none {A} (f : A -> bool) l : find f l = None <-> forall y, In y l -> f y = false.
Proof.
  induction l as [|a r IH]; simpl.
  - split; auto. intros _ y [].
  - destruct (f a) eqn:E.
    + split; [discriminate|]. intros H. rewrite (H a) in E by auto. discriminate.
    + rewrite IH. split; intros H y; [intros [<-|Hy]; auto | intros Hy; apply H; auto].
Qed.

Lemma strongly_sorted_app_right {A} (R : A -> A -> Prop) l1 x l2 :
  StronglySorted R (l1 ++ x :: l2) -> forall y, In y l2 -> R x y.
Proof.
  induction l1 as [|a l1 IH]; simpl; intros H.
  - inversion H; subst. rewrite Forall_forall in *. auto.
  - inversion H; subst. auto.
Qed.

Theorem get_best c locs sorted host url names l :
  sorted_perm c locs sorted ->
  get_from sorted host url names = Some l ->
  In l locs /\ eligible names host url l = true /\
  forall l', In l' locs -> eligible names host url l' = true -> ple c l l'.
Proof.
  intros [Hp Hs] Hg. unfold get_from in Hg.
  destruct (find_split _ _ _ Hg) as (l1 & l2 & E & Hl & Hb). subst sorted.
  split; [|split; [exact Hl|]].
  - eapply Permutation_in; [apply Permutation_sym; exact Hp|]. apply in_or_app. right. left. reflexivity.
  - intros l' Hin He. apply (Permutation_in _ Hp) in Hin. apply in_app_or in Hin.
    destruct Hin as [Hin|[<-|Hin]].
    + rewrite (Hb _ Hin) in He. discriminate.
    + unfold ple. lia.
    + eapply strongly_sorted_app_right; eauto.
Qed.

Theorem get_none c locs sorted host url names :
  sorted_perm c locs sorted ->
  (get_from sorted host url names = None <->
   forall l, In l locs -> eligible names host url l = false).
Proof.
  intros [Hp Hs]. unfold get_from. rewrite find_none. split; intros H l Hin; apply H.
  - eapply Permutation_in; eauto.
  - eapply Permutation_in; [apply Permutation_sym|]; eauto.
Qed.

(** eligibility unpacked: the location is one the server lists, its host list
    (if any) contains the host, its prefix list (if any) has a prefix of the URI *)
Lemma eligible_spec names host url l :
  eligible names host url l = true <->
  In (l_name l) names /\
  (l_hosts l = [] \/ In host (l_hosts l)) /\
  (l_prefixes l = [] \/ exists p, In p (l_prefixes l) /\ is_prefix p url = true).
Proof.
  unfold eligible, lmatch. rewrite !andb_true_iff, !orb_true_iff, !existsb_exists.
  split.
  - intros ((n & Hn & En) & Hh & Hpf). apply beqb_spec in En. subst n. split; [exact Hn|]. split.
    + destruct Hh as [Hh|(x & Hx & Ex)]; [left; destruct (l_hosts l); [reflexivity|discriminate]|].
      apply beqb_spec in Ex. subst. right; exact Hx.
    + destruct Hpf as [Hpf|(p & Hp & Ep)]; [left; destruct (l_prefixes l); [reflexivity|discriminate]|].
      right; eauto.
  - intros (Hn & Hh & Hpf). split; [exists (l_name l); split; [exact Hn | apply beqb_refl]|]. split.
    + destruct Hh as [->|Hh]; [left; reflexivity | right; exists host; split; [exact Hh | apply beqb_refl]].
    + destruct Hpf as [->|(p & Hp & Ep)]; [left; reflexivity | right; eauto].
Qed.

(** specificity classes are ordered as documented, for any constants with
    0 < dh < dp *)
Definition pconsts_ok (c : pconsts) : Prop := (0 < p_host c < p_prefix c)%Z.

Lemma class_order c a b : pconsts_ok c ->
  ((priority c a <= priority c b)%Z <-> (loc_class a <= loc_class b)%N).
Proof.
  unfold pconsts_ok, priority, loc_class. intros H.
  destruct (nonempty (l_prefixes a)), (nonempty (l_hosts a)),
           (nonempty (l_prefixes b)), (nonempty (l_hosts b)); split; intros; lia.
Qed.

(** the insertion sort is one admissible outcome of sort.Slice *)
Lemma insert_by_perm c x l : Permutation (x :: l) (insert_by c x l).
Proof.
  induction l as [|y r IH]; simpl; [apply Permutation_refl|].
  destruct (priority c y <=? priority c x)%Z; [|apply Permutation_refl].
  eapply Permutation_trans; [apply perm_swap|]. apply perm_skip. exact IH.
Qed.

Lemma insert_by_sorted c x l : StronglySorted (ple c) l -> StronglySorted (ple c) (insert_by c x l).
Proof.
  induction 1 as [|y r Hr IH Hy]; simpl; [constructor; constructor|].
  destruct (Z.leb_spec (priority c y) (priority c x)).
  - constructor; [exact IH|]. rewrite Forall_forall in *. intros z Hz.
    apply (Permutation_in _ (Permutation_sym (insert_by_perm c x r))) in Hz.
    destruct Hz as [<-|Hz]; [exact H | auto].
  - constructor; [constructor; auto|]. constructor; [unfold ple; lia|].
    rewrite Forall_forall in *. intros z Hz. specialize (Hy z Hz). unfold ple in *. lia.
Qed.

Lemma sort_locs_ok c l : sorted_perm c l (sort_locs c l).
Proof.
  unfold sort_locs. split.
  - eapply Permutation_trans; [apply Permutation_rev|].
    induction (rev l) as [|x r IH]; simpl; [constructor|].
    eapply Permutation_trans; [apply perm_skip; exact IH | apply insert_by_perm].
  - induction (rev l) as [|x r IH]; simpl; [constructor | apply insert_by_sorted; exact IH].
Qed.
