(** C03 (system level): the cache-status label is truthful — a request
    answered as a hit never contacted the upstream; every other completed
    request contacted it exactly once (non-GET/HEAD included). *)
From Coq Require Import List Arith Bool ZArith Lia.
From Pike Require Import Model.Sys Proofs.ListAux.
Import ListNotations.

Definition is_start_of (i : tid) (ev : event) : bool :=
  match ev with EvStart t _ _ => Nat.eqb t i | _ => false end.
Definition starts (i : tid) (lg : list event) : nat := count (is_start_of i) lg.

Definition expected (p : pc) : option nat :=
  match p with
  | PFetch _ _ | PFetched _ _ | PSending _ _ | PPassFetch => Some 1
  | PDone (Reply LHit _ _) => Some 0
  | PDone _ => Some 1
  | PDead => None
  | _ => Some 0
  end.

Definition odd_fetch (p : pc) : bool :=
  match p with PFetch _ LHit | PFetch _ LPassed => true | _ => false end.

Record LInv (s : state) : Prop := {
  l_count : forall i p n, nth_error (ts s) i = Some p -> expected p = Some n -> starts i (log s) = n;
  l_bound : forall t e l, In (EvStart t e l) (log s) -> t < length (ts s);
  l_odd : forall i p, nth_error (ts s) i = Some p -> odd_fetch p = false
}.

Lemma starts_cons i ev lg : starts i (ev :: lg) = (if is_start_of i ev then 1 else 0) + starts i lg.
Proof. apply count_cons. Qed.

Lemma starts_zero_beyond s i : (forall t e l, In (EvStart t e l) (log s) -> t < length (ts s)) ->
  length (ts s) <= i -> starts i (log s) = 0.
Proof.
  intros B H. unfold starts. destruct (count (is_start_of i) (log s)) eqn:E; [reflexivity|].
  destruct (count_pos_exists _ _ ltac:(rewrite E; lia)) as (k & ev & Hk & Hs).
  destruct ev; simpl in Hs; try discriminate. apply Nat.eqb_eq in Hs. subst t.
  apply nth_error_In in Hk. apply B in Hk. lia.
Qed.

(** a step of thread [i] that replaces its pc and possibly logs one event *)
Lemma linv_thread s s' i p p' (evs : list event) :
  LInv s -> nth_error (ts s) i = Some p -> ts s' = upd i p' (ts s) -> log s' = evs ++ log s ->
  (forall ev, In ev evs -> match ev with EvStart t _ _ => t = i | _ => True end) ->
  odd_fetch p' = false ->
  (forall n', expected p' = Some n' -> exists n, expected p = Some n /\ n' = n + count (is_start_of i) evs) ->
  LInv s'.
Proof.
  intros [L1 L2 L3] Hi Ets Elog Hev Hodd Hexp. constructor; rewrite ?Ets, ?Elog.
  - unfold starts in *. intros j q n Hj Hq. rewrite nth_error_upd in Hj. rewrite count_app.
    destruct (Nat.eqb_spec i j) as [->|Hne].
    + destruct (Nat.ltb j (length (ts s))); [|discriminate]. inversion Hj; subst q.
      destruct (Hexp n Hq) as (n0 & E0 & ->). rewrite (L1 j p n0 Hi E0). lia.
    + assert (Z : count (is_start_of j) evs = 0).
      { destruct (count (is_start_of j) evs) eqn:E; [reflexivity|].
        destruct (count_pos_exists _ _ ltac:(rewrite E; lia)) as (k & ev & Hk & Hs).
        apply nth_error_In in Hk. specialize (Hev ev Hk). destruct ev; simpl in Hs; try discriminate.
        apply Nat.eqb_eq in Hs. congruence. }
      rewrite Z. simpl. eapply L1; eauto.
  - intros t e l Hin. rewrite upd_length. apply in_app_or in Hin. destruct Hin as [Hin|Hin]; [|eauto].
    specialize (Hev _ Hin). simpl in Hev. subst t. eapply nth_error_lt; eauto.
  - intros j q Hj. rewrite nth_error_upd in Hj. destruct (Nat.eqb_spec i j) as [->|Hne].
    + destruct (Nat.ltb j (length (ts s))); [|discriminate]. inversion Hj; subst; auto.
    + eauto.
Qed.

Lemma linv_same s s' : LInv s -> ts s' = ts s -> log s' = log s -> LInv s'.
Proof. intros [L1 L2 L3] E1 E2. constructor; rewrite ?E1, ?E2; auto. Qed.

Ltac lt_thread Hi p' evs :=
  match type of Hi with nth_error (ts ?s) ?i = Some ?p =>
    eapply (linv_thread s _ i p p' evs); [eassumption | exact Hi | reflexivity | reflexivity
      | simpl; intros ev Hev; repeat (destruct Hev as [<-|Hev]; [try reflexivity; exact I|]); try contradiction
      | reflexivity
      | simpl; intros n' Hn'; inversion Hn'; subst; eexists; split; [reflexivity|]; unfold count; simpl; rewrite ?Nat.eqb_refl; reflexivity ]
  end.

Theorem linv_step s l s' : LInv s -> step s l = Some s' -> LInv s'.
Proof.
  intros L H. destruct l as [pass|d|i c|ok| | |cc].
  - (* Arrive *)
    simpl in H. inversion H; subst s'; clear H. destruct L as [L1 L2 L3].
    assert (Z : starts (length (ts s)) (log s) = 0) by (apply starts_zero_beyond; auto).
    destruct pass; constructor; simpl.
    + intros j q n Hj Hq. rewrite starts_cons. simpl.
      destruct (Nat.lt_ge_cases j (length (ts s))) as [Hl|Hl].
      * rewrite nth_error_app1 in Hj by exact Hl.
        assert (Nat.eqb (length (ts s)) j = false) as -> by (apply Nat.eqb_neq; lia). simpl. eauto.
      * rewrite nth_error_app2 in Hj by exact Hl. destruct (j - length (ts s)) as [|k] eqn:Ek; simpl in Hj.
        -- inversion Hj; subst q. simpl in Hq. inversion Hq; subst n. assert (j = length (ts s)) by lia. subst j.
           rewrite Nat.eqb_refl, Z. reflexivity.
        -- destruct k; discriminate.
    + intros t e l [Hin|Hin]; rewrite app_length; simpl; [inversion Hin; subst; lia | apply L2 in Hin; lia].
    + intros j q Hj. destruct (Nat.lt_ge_cases j (length (ts s))) as [Hl|Hl].
      * rewrite nth_error_app1 in Hj by exact Hl. eauto.
      * rewrite nth_error_app2 in Hj by exact Hl. destruct (j - length (ts s)) as [|k]; simpl in Hj; [inversion Hj; reflexivity | destruct k; discriminate].
    + intros j q n Hj Hq. destruct (Nat.lt_ge_cases j (length (ts s))) as [Hl|Hl].
      * rewrite nth_error_app1 in Hj by exact Hl. eauto.
      * rewrite nth_error_app2 in Hj by exact Hl. destruct (j - length (ts s)) as [|k] eqn:Ek; simpl in Hj.
        -- inversion Hj; subst q. simpl in Hq. inversion Hq; subst n. assert (j = length (ts s)) by lia. subst j. exact Z.
        -- destruct k; discriminate.
    + intros t e l Hin. rewrite app_length. simpl. apply L2 in Hin. lia.
    + intros j q Hj. destruct (Nat.lt_ge_cases j (length (ts s))) as [Hl|Hl].
      * rewrite nth_error_app1 in Hj by exact Hl. eauto.
      * rewrite nth_error_app2 in Hj by exact Hl. destruct (j - length (ts s)) as [|k]; simpl in Hj; [inversion Hj; reflexivity | destruct k; discriminate].
  - simpl in H. destruct (0 <=? d)%Z; inversion H; subst s'. eapply linv_same; eauto.
  - (* Run *)
    unfold step in H. destruct (nth_error (ts s) i) as [p|] eqn:Hi; [|discriminate].
    destruct p.
    + destruct (cur s).
      * inversion H; subst s'. lt_thread Hi (PGet e) (@nil event).
      * inversion H; subst s'. lt_thread Hi (PGet (length (gens s))) (@nil event).
    + destruct (nth_error (gens s) e) as [x0|]; [|discriminate]. destruct (elock x0); [discriminate|].
      match type of H with context [st ?x] => destruct (st x) end; inversion H; subst s'; clear H.
      * lt_thread Hi (PFetch e LFetching) [EvStart i (Some e) LFetching].
      * lt_thread Hi (PRegistered e) (@nil event).
      * lt_thread Hi (PFetch e LHitForPass) [EvStart i (Some e) LHitForPass].
      * match goal with |- LInv (set_pc _ _ (PHitAge e ?r)) => lt_thread Hi (PHitAge e r) (@nil event) end.
    + inversion H; subst s'. lt_thread Hi (PWait e) (@nil event).
    + discriminate.
    + destruct (nth_error (gens s) e) as [x|]; [|discriminate].
      destruct (st x); inversion H; subst s'; clear H.
      * lt_thread Hi (PFetch e LFetching) [EvStart i (Some e) LFetching].
      * lt_thread Hi (PFetch e LFetching) [EvStart i (Some e) LFetching].
      * lt_thread Hi (PFetch e LHitForPass) [EvStart i (Some e) LHitForPass].
      * lt_thread Hi (PHitAge e (resp x)) (@nil event).
    + destruct (nth_error (gens s) e) as [x|]; [|discriminate]. inversion H; subst s'; clear H.
      lt_thread Hi (PDone (Reply LHit r (now_s s - created x))) [EvReply i (Reply LHit r (now_s s - created x))].
    + pose proof (l_odd _ L _ _ Hi) as Hodd.
      destruct l; simpl in Hodd; try discriminate; inversion H; subst s'; clear H.
      * lt_thread Hi (PFetched e (ch_outcome c)) (@nil event).
      * lt_thread Hi (PDone (Reply LHitForPass (rid_of (ch_outcome c)) 0)) [EvReply i (Reply LHitForPass (rid_of (ch_outcome c)) 0)].
    + destruct (nth_error (gens s) e) as [x|]; [|discriminate]. destruct (elock x); [discriminate|].
      inversion H; subst s'; clear H.
      lt_thread Hi (PSending e o) [EvInstall i e o (now_s s)].
    + destruct (nth_error (gens s) e) as [x|]; [|discriminate].
      destruct (sendq x) as [|w rest].
      * destruct (has_store s && ch_write_ok c); inversion H; subst s'; clear H;
          lt_thread Hi (PDone (Reply LFetching (rid_of o) 0)) [EvReply i (Reply LFetching (rid_of o) 0)].
      * destruct (nth_error (ts s) w) as [pw|] eqn:Hw; [|discriminate]. destruct pw; try discriminate.
        destruct (Nat.eqb e0 e); [|discriminate]. inversion H; subst s'; clear H.
        destruct (legacy s).
        -- lt_thread Hw (PWoken e) (@nil event).
        -- lt_thread Hw (PGet e) (@nil event).
    + inversion H; subst s'; clear H.
      lt_thread Hi (PDone (Reply LPassed (rid_of (ch_outcome c)) 0)) [EvReply i (Reply LPassed (rid_of (ch_outcome c)) 0)].
    + discriminate.
    + discriminate.
  - simpl in H. inversion H; subst s'. destruct (has_store s && ok); eapply linv_same; eauto.
  - simpl in H. inversion H; subst s'. eapply linv_same; eauto.
  - (* Crash *)
    simpl in H. inversion H; subst s'; clear H. destruct L as [L1 L2 L3]. constructor; simpl.
    + intros j q n Hj Hq. rewrite nth_error_map in Hj. destruct (nth_error (ts s) j) as [p|] eqn:Hp; [|discriminate].
      simpl in Hj. inversion Hj; subst q. destruct (is_done p) eqn:D; [eauto | discriminate].
    + intros t e l Hin. rewrite map_length. eauto.
    + intros j q Hj. rewrite nth_error_map in Hj. destruct (nth_error (ts s) j) as [p|] eqn:Hp; [|discriminate].
      simpl in Hj. inversion Hj; subst q. destruct (is_done p) eqn:D; [eauto | reflexivity].
  - simpl in H. destruct (has_store s); inversion H; subst s'. eapply linv_same; eauto.
Qed.

Lemma linv_init t0 h st0 lg : LInv (init t0 h st0 lg).
Proof. constructor; simpl; [intros i p n H; destruct i; discriminate | intros t e l [] | intros i p H; destruct i; discriminate]. Qed.

Lemma linv_run ls : forall s0 s, LInv s0 -> run s0 ls = Some s -> LInv s.
Proof.
  induction ls as [|x rr IH]; simpl; intros s0 s L0 H0.
  - inversion H0; subst; exact L0.
  - destruct (step s0 x) eqn:E; [|discriminate]. eapply IH; [eapply linv_step; eauto | exact H0].
Qed.

Theorem label_truthful t0 h st0 lg ls s i l r a :
  run (init t0 h st0 lg) ls = Some s -> nth_error (ts s) i = Some (PDone (Reply l r a)) ->
  starts i (log s) = match l with LHit => 0 | _ => 1 end.
Proof.
  intros H Hi.
  pose proof (linv_run ls _ _ (linv_init t0 h st0 lg) H) as L.
  apply (l_count _ L i _ _ Hi). destruct l; reflexivity.
Qed.
