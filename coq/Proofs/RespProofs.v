From Coq Require Import List Arith Bool NArith ZArith Lia.
From Pike Require Import Base.Bytes Model.MaxAge Model.Resp.
Import ListNotations.

Lemma beqb_sym_false a b : beqb a b = false -> beqb b a = false.
Proof.
  intros H. destruct (beqb b a) eqn:E; auto. apply beqb_spec in E. subst. rewrite beqb_refl in H. discriminate.
Qed.

Lemma hvalues_hdel_same k l : hvalues k (hdel k l) = [].
Proof.
  unfold hvalues, hdel. induction l as [|[k' v] l IH]; simpl; auto.
  destruct (beqb k' k) eqn:E; simpl; auto. rewrite E. exact IH.
Qed.

Lemma hvalues_hdel_other k k0 l : beqb k k0 = false -> hvalues k (hdel k0 l) = hvalues k l.
Proof.
  intros Hk. unfold hvalues, hdel. induction l as [|[k' v] l IH]; simpl; auto.
  destruct (beqb k' k0) eqn:E; simpl.
  - apply beqb_spec in E. subst k'. rewrite (beqb_sym_false _ _ Hk). exact IH.
  - destruct (beqb k' k); simpl; rewrite IH; reflexivity.
Qed.

Lemma hvalues_app k a b : hvalues k (a ++ b) = hvalues k a ++ hvalues k b.
Proof. unfold hvalues. rewrite filter_app, map_app. reflexivity. Qed.

Section RespProofs.
  Variable gzip_enc br_enc : bytes -> bytes -> bytes.
  Variable gunzip br_dec : bytes -> option bytes.
  Variable other_dec : bytes -> bytes -> option bytes.
  Variable filter_match : option bytes -> bytes -> bool.

  (** hypotheses about the third-party codecs (trusted base, exercised by the
      harness): decoder after encoder is the identity; encoders never produce
      an empty stream *)
  Hypothesis gzip_roundtrip : forall n x, gunzip (gzip_enc n x) = Some x.
  Hypothesis br_roundtrip : forall n x, br_dec (br_enc n x) = Some x.
  Hypothesis gzip_nonempty : forall n x, gzip_enc n x <> [].
  Hypothesis br_nonempty : forall n x, br_enc n x <> [].

  Notation compress := (compress gzip_enc br_enc gunzip br_dec filter_match).
  Notation get_body := (get_body gzip_enc br_enc gunzip br_dec filter_match).
  Notation get_raw_body := (get_raw_body gunzip br_dec).
  Notation should_compress := (should_compress filter_match).
  Notation decode := (decode gunzip br_dec).
  Notation new_response := (new_response other_dec).
  Notation fill := (fill gzip_enc br_enc gunzip br_dec filter_match).
  Notation cacheable_compress := (cacheable_compress gzip_enc br_enc gunzip br_dec filter_match).

  Lemma is_empty_true b : is_empty b = true <-> b = [].
  Proof. destruct b; simpl; split; congruence. Qed.
  Lemma is_empty_false b : is_empty b = false <-> b <> [].
  Proof. destruct b; simpl; split; congruence. Qed.

  (** every stored variant decodes to the same original body *)
  Record consistent (r : resp) (orig : bytes) : Prop := {
    c_raw : r_raw r <> [] -> r_raw r = orig;
    c_gzip : r_gzip r <> [] -> gunzip (r_gzip r) = Some orig;
    c_br : r_br r <> [] -> br_dec (r_br r) = Some orig;
    c_none : r_raw r = [] -> r_gzip r = [] -> r_br r = [] -> orig = []
  }.

  Lemma get_raw_consistent r orig : consistent r orig -> get_raw_body r = Some orig.
  Proof.
    intros C. unfold Resp.get_raw_body.
    destruct (is_empty (r_raw r)) eqn:E1; simpl.
    - apply is_empty_true in E1. destruct (is_empty (r_gzip r)) eqn:E2; simpl.
      + apply is_empty_true in E2. destruct (is_empty (r_br r)) eqn:E3; simpl.
        * apply is_empty_true in E3. f_equal. symmetry. apply (c_none _ _ C); auto.
        * apply is_empty_false in E3. apply (c_br _ _ C); auto.
      + apply is_empty_false in E2. apply (c_gzip _ _ C); auto.
    - apply is_empty_false in E1. f_equal. apply (c_raw _ _ C); auto.
  Qed.

  Lemma with_srv_consistent r s orig : consistent r orig -> consistent (with_srv r s) orig.
  Proof. intros [H1 H2 H3 H4]. constructor; simpl; auto. Qed.

  Lemma compress_consistent r orig : consistent r orig -> consistent (fst (compress r)) orig.
  Proof.
    intros C. unfold Resp.compress.
    destruct (should_compress r); simpl; [|exact C].
    destruct (negb (is_empty (r_gzip r)) && negb (is_empty (r_br r))); simpl; [exact C|].
    rewrite (get_raw_consistent r orig C).
    destruct (is_empty orig) eqn:Eo; simpl; [exact C|].
    constructor; simpl.
    - intros H; contradiction.
    - intros _. destruct (is_empty (r_gzip r)) eqn:E; [apply gzip_roundtrip|].
      apply is_empty_false in E. apply (c_gzip _ _ C); auto.
    - intros _. destruct (is_empty (r_br r)) eqn:E; [apply br_roundtrip|].
      apply is_empty_false in E. apply (c_br _ _ C); auto.
    - intros _ Hg. exfalso. destruct (is_empty (r_gzip r)) eqn:E.
      + eapply gzip_nonempty; eauto.
      + apply is_empty_false in E. contradiction.
  Qed.

  Lemma cacheable_compress_consistent r orig :
    consistent r orig -> consistent (cacheable_compress r) orig.
  Proof. intros C. apply compress_consistent. apply with_srv_consistent. exact C. Qed.

  (** C05 core: whatever is negotiated decodes to the original body, and the
      encoding is identity or one the client's Accept-Encoding mentions *)
  Theorem get_body_sound r orig accept : consistent r orig ->
    exists e b s, get_body r accept = Some (e, b, s) /\ decode e b = Some orig /\
      (e = EId \/ (e = EBr /\ contains s_br accept = true) \/ (e = EGzip /\ contains s_gzip accept = true)).
  Proof.
    intros C. unfold Resp.get_body.
    assert (Hbr : r_br r <> [] -> br_dec (r_br r) = Some orig) by apply (c_br _ _ C).
    assert (Hgz : r_gzip r <> [] -> gunzip (r_gzip r) = Some orig) by apply (c_gzip _ _ C).
    rewrite (get_raw_consistent r orig C).
    destruct (contains s_br accept) eqn:Abr; simpl;
      destruct (is_empty (r_br r)) eqn:Eb; simpl;
      try (apply is_empty_false in Eb);
      destruct (contains s_gzip accept) eqn:Ag; simpl;
      destruct (is_empty (r_gzip r)) eqn:Eg; simpl;
      try (apply is_empty_false in Eg);
      destruct (should_compress r); simpl;
      do 3 eexists; (split; [reflexivity|]); simpl; auto 6.
  Qed.

  (** the upstream's body in a documented encoding becomes a consistent response *)
  Definition upstream_decode (encoding data : bytes) : option bytes :=
    if beqb encoding s_gzip then gunzip data
    else if beqb encoding s_br then br_dec data
    else if is_empty encoding then Some data
    else other_dec encoding data.

  Theorem new_response_consistent status h encoding data orig :
    upstream_decode encoding data = Some orig -> (data <> [] \/ orig = []) ->
    exists r, new_response status h encoding data = Some r /\ consistent r orig /\
              r_status r = status /\ r_header r = clone_and_ignore h.
  Proof.
    unfold upstream_decode, Resp.new_response. intros Hd Hne.
    destruct (beqb encoding s_gzip).
    - eexists; split; [reflexivity|]. split; [|auto]. constructor; simpl; try congruence; auto.
      intros _ H _. destruct Hne; congruence.
    - destruct (beqb encoding s_br).
      + eexists; split; [reflexivity|]. split; [|auto]. constructor; simpl; try congruence; auto.
        intros _ _ H. destruct Hne; congruence.
      + destruct (is_empty encoding).
        * inversion Hd; subst. eexists; split; [reflexivity|]. split; [|auto].
          constructor; simpl; try congruence; auto.
        * rewrite Hd. eexists; split; [reflexivity|]. split; [|auto].
          constructor; simpl; try congruence; auto.
  Qed.

  (** Fill: status and headers *)
  Theorem fill_sound ctx r orig accept : consistent r orig ->
    exists hs b e s, fill ctx r accept = Some (r_status r, hs, b, e, s) /\
      decode e b = Some orig /\
      (e = EId \/ (e = EBr /\ contains s_br accept = true) \/ (e = EGzip /\ contains s_gzip accept = true)) /\
      hvalues k_content_encoding hs = match e with EId => [] | _ => [enc_name e] end /\
      forall k, beqb k k_content_encoding = false -> hvalues k hs = hvalues k (ctx ++ r_header r).
  Proof.
    intros C. destruct (get_body_sound r orig accept C) as (e & b & s & Hg & Hd & He).
    unfold Resp.fill. rewrite Hg.
    set (merged := hdel k_content_encoding (ctx ++ r_header r)).
    assert (Hm : hvalues k_content_encoding merged = []) by apply hvalues_hdel_same.
    assert (Hk : forall k, beqb k k_content_encoding = false ->
                 hvalues k merged = hvalues k (ctx ++ r_header r)).
    { intros k Hk. apply hvalues_hdel_other. exact Hk. }
    eexists _, b, e, s. split; [reflexivity|]. split; [exact Hd|]. split; [exact He|].
    destruct e; simpl.
    - split; [exact Hm | exact Hk].
    - split.
      + rewrite hvalues_app, Hm. reflexivity.
      + intros k Hkk. rewrite hvalues_app, (Hk k Hkk).
        assert (E : forall v, hvalues k [(k_content_encoding, v)] = []).
        { intros v. unfold hvalues. cbn [filter fst]. rewrite (beqb_sym_false _ _ Hkk). reflexivity. }
        rewrite E. apply app_nil_r.
    - split.
      + rewrite hvalues_app, Hm. reflexivity.
      + intros k Hkk. rewrite hvalues_app, (Hk k Hkk).
        assert (E : forall v, hvalues k [(k_content_encoding, v)] = []).
        { intros v. unfold hvalues. cbn [filter fst]. rewrite (beqb_sym_false _ _ Hkk). reflexivity. }
        rewrite E. apply app_nil_r.
  Qed.

  (** ** C13: the decision table *)
  Definition spec_encoding (accept_br accept_gzip has_br has_gzip compressible : bool) : enc * source :=
    if accept_br && has_br then (EBr, SStoredBr)
    else if accept_gzip && has_gzip then (EGzip, SStoredGzip)
    else if negb compressible then (EId, SRaw)
    else if accept_br then (EBr, SFreshBr)
    else if accept_gzip then (EGzip, SFreshGzip)
    else (EId, SRaw).

  (** compressible = some variant longer than the minimum length AND the
      content type passes the filter *)
  Definition spec_compressible (r : resp) : bool :=
    ((r_min r <? blen (r_raw r))%Z || (r_min r <? blen (r_gzip r))%Z || (r_min r <? blen (r_br r))%Z)
    && filter_match (r_filter r) (hget k_content_type (r_header r)).

  Lemma should_compress_spec r : should_compress r = spec_compressible r.
  Proof.
    unfold Resp.should_compress, spec_compressible.
    destruct (Z.leb_spec (blen (r_raw r)) (r_min r)), (Z.leb_spec (blen (r_gzip r)) (r_min r)),
             (Z.leb_spec (blen (r_br r)) (r_min r)); simpl;
    repeat match goal with |- context [(?a <? ?b)%Z] => destruct (Z.ltb_spec a b); try lia end; simpl; auto.
  Qed.

  Theorem negotiate_table r orig accept : consistent r orig ->
    exists b, get_body r accept =
      Some (fst (spec_encoding (contains s_br accept) (contains s_gzip accept)
                   (negb (is_empty (r_br r))) (negb (is_empty (r_gzip r))) (spec_compressible r)),
            b,
            snd (spec_encoding (contains s_br accept) (contains s_gzip accept)
                   (negb (is_empty (r_br r))) (negb (is_empty (r_gzip r))) (spec_compressible r))).
  Proof.
    intros C. unfold Resp.get_body, spec_encoding. rewrite (get_raw_consistent r orig C).
    rewrite should_compress_spec.
    destruct (contains s_br accept), (negb (is_empty (r_br r))); simpl; eauto;
    destruct (contains s_gzip accept), (negb (is_empty (r_gzip r))); simpl; eauto;
    destruct (spec_compressible r); simpl; eauto.
  Qed.

  Theorem neither_accepted_identity r orig accept : consistent r orig ->
    contains s_br accept = false -> contains s_gzip accept = false ->
    get_body r accept = Some (EId, orig, SRaw).
  Proof.
    intros C H1 H2. unfold Resp.get_body. rewrite H1, H2. simpl.
    rewrite (get_raw_consistent r orig C). destruct (should_compress r); reflexivity.
  Qed.

  (** compressed once when stored: a response as produced by NewHTTPResponse
      (a single body variant) that is compressible under the best-compression
      profile has, once stored, both compressed variants and no raw body; the
      variant the upstream sent is kept, the other is produced by exactly one
      encoder call; later negotiation for a client that accepts br or gzip
      serves a stored variant (no encoder call) *)
  Definition single_variant (r : resp) : Prop :=
    (r_gzip r = [] /\ r_br r = []) \/ (r_raw r = [] /\ r_br r = []) \/ (r_raw r = [] /\ r_gzip r = []).

  Theorem compress_once r orig : consistent r orig -> single_variant r ->
    should_compress (with_srv r s_best) = true -> orig <> [] ->
    let r' := cacheable_compress r in
    r_gzip r' <> [] /\ r_br r' <> [] /\ r_raw r' = [] /\ r_srv r' = s_best /\
    (r_gzip r <> [] -> r_gzip r' = r_gzip r) /\ (r_br r <> [] -> r_br r' = r_br r) /\
    (r_gzip r = [] -> r_gzip r' = gzip_enc s_best orig) /\ (r_br r = [] -> r_br r' = br_enc s_best orig) /\
    forall accept, contains s_br accept = true \/ contains s_gzip accept = true ->
      exists e b s, get_body r' accept = Some (e, b, s) /\ (s = SStoredBr \/ s = SStoredGzip).
  Proof.
    intros C SV Hs Ho. cbv zeta.
    pose proof (with_srv_consistent r s_best orig C) as C'.
    assert (Both : negb (is_empty (r_gzip r)) && negb (is_empty (r_br r)) = false).
    { destruct SV as [[-> _]|[[_ ->]|[_ ->]]]; simpl; auto. apply andb_false_r. }
    assert (Eo : is_empty orig = false) by (apply is_empty_false; exact Ho).
    assert (Hc : cacheable_compress r =
                 with_bodies (with_srv r s_best)
                   (if is_empty (r_gzip r) then gzip_enc s_best orig else r_gzip r)
                   (if is_empty (r_br r) then br_enc s_best orig else r_br r) []).
    { unfold Resp.cacheable_compress, Resp.compress. rewrite Hs.
      cbn [negb r_gzip r_br with_srv]. rewrite Both.
      rewrite (get_raw_consistent _ orig C'). rewrite Eo. reflexivity. }
    rewrite Hc. cbn [with_bodies with_srv r_gzip r_br r_raw r_srv].
    assert (G : (if is_empty (r_gzip r) then gzip_enc s_best orig else r_gzip r) <> []).
    { destruct (is_empty (r_gzip r)) eqn:E; [apply gzip_nonempty | apply is_empty_false; exact E]. }
    assert (B : (if is_empty (r_br r) then br_enc s_best orig else r_br r) <> []).
    { destruct (is_empty (r_br r)) eqn:E; [apply br_nonempty | apply is_empty_false; exact E]. }
    repeat split; auto.
    - intros H. apply is_empty_false in H. rewrite H. reflexivity.
    - intros H. apply is_empty_false in H. rewrite H. reflexivity.
    - intros H. apply is_empty_true in H. rewrite H. reflexivity.
    - intros H. apply is_empty_true in H. rewrite H. reflexivity.
    - intros accept Hacc. unfold Resp.get_body. cbn [with_bodies with_srv r_gzip r_br r_raw r_srv].
      apply is_empty_false in G, B. rewrite G, B. simpl.
      destruct (contains s_br accept); simpl; [eauto 8|].
      destruct Hacc as [Hacc|Hacc]; [discriminate|]. rewrite Hacc. simpl. eauto 8.
  Qed.
End RespProofs.
