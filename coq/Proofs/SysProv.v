(** Provenance: whatever a hit serves was installed by a cacheable completion
    (C04, C08, C20), and the cache-status label is truthful (C03). *)
From Coq Require Import List Arith Bool ZArith Lia.
From Pike Require Import Model.Sys Proofs.ListAux Proofs.SysInv Proofs.SysStep Proofs.SysFacts.
Import ListNotations.

Definition installed (lg : list event) (r : rid) (c x : Z) : Prop :=
  exists t e ttl, In (EvInstall t e (OCacheable ttl r) c) lg /\ (0 < ttl)%Z /\ x = (c + ttl)%Z.

Lemma installed_mono lg ev r c x : installed lg r c x -> installed (ev :: lg) r c x.
Proof. intros (t & e & ttl & H & H1 & H2). exists t, e, ttl. split; [right; exact H | auto]. Qed.

Record Prov (s : state) : Prop := {
  pv_entries : forall e x r, nth_error (gens s) e = Some x -> st x = Hit -> resp x = Some r ->
                 installed (log s) r (created x) (expired x);
  pv_store : forall rc r, store s = SRec rc -> valid_record rc = true -> sr_st rc = Hit -> sr_resp rc = Some r ->
                 installed (log s) r (sr_created rc) (sr_expired rc)
}.

(** the environment may lose or garble the record at any time, but it does not
    forge well-formed hit records *)
Definition honest (l : label) : Prop :=
  match l with
  | Corrupt (SRec rc) => valid_record rc = false \/ sr_st rc <> Hit
  | _ => True
  end.

Lemma prov_init t0 h st0 lg : Prov (init t0 h st0 lg).
Proof. constructor; simpl; [intros e x r H; destruct e; discriminate | discriminate]. Qed.

Lemma prov_same s s' : Prov s -> gens s' = gens s -> store s' = store s ->
  (log s' = log s \/ exists ev, log s' = ev :: log s) -> Prov s'.
Proof.
  intros [P1 P2] Eg Es El. constructor; rewrite ?Eg, ?Es.
  - intros e x r H1 H2 H3. destruct El as [-> | [ev ->]]; [|apply installed_mono]; eauto.
  - intros rc r H1 H2 H3 H4. destruct El as [-> | [ev ->]]; [|apply installed_mono]; eauto.
Qed.

Lemma prov_set_entry s s' e X : Prov s -> e < length (gens s) ->
  gens s' = upd e X (gens s) -> store s' = store s ->
  (log s' = log s \/ exists ev, log s' = ev :: log s) ->
  (forall r, st X = Hit -> resp X = Some r -> installed (log s) r (created X) (expired X)) ->
  Prov s'.
Proof.
  intros [P1 P2] He Eg Es El HX. constructor; rewrite ?Eg, ?Es.
  - intros e' x r Hx A B. rewrite nth_error_upd in Hx. destruct (Nat.eqb_spec e e') as [->|Hne].
    + apply Nat.ltb_lt in He. rewrite He in Hx. inversion Hx; subst x.
      destruct El as [-> | [ev ->]]; [|apply installed_mono]; eauto.
    + destruct El as [-> | [ev ->]]; [|apply installed_mono]; eauto.
  - intros rc r H1 H2 H3 H4. destruct El as [-> | [ev ->]]; [|apply installed_mono]; eauto.
Qed.

Lemma load_prov s rd x0 r : legacy s = false -> Prov s ->
  (st x0 = Hit -> resp x0 = Some r -> installed (log s) r (created x0) (expired x0)) ->
  st (load s rd x0) = Hit -> resp (load s rd x0) = Some r ->
  installed (log s) r (created (load s rd x0)) (expired (load s rd x0)).
Proof.
  intros L P H0. unfold load. rewrite L.
  destruct (negb (has_store s) || negb rd); [exact H0|].
  destruct (store s) as [|rc|a b] eqn:Es; try exact H0. simpl.
  destruct (valid_record rc) eqn:V; [|exact H0]. simpl. intros H1 H2. eapply (pv_store _ P); eauto.
Qed.

Lemma pre_get_prov s rd x0 r : legacy s = false -> Prov s ->
  (st x0 = Hit -> resp x0 = Some r -> installed (log s) r (created x0) (expired x0)) ->
  st (pre_get s rd x0) = Hit -> resp (pre_get s rd x0) = Some r ->
  installed (log s) r (created (pre_get s rd x0)) (expired (pre_get s rd x0)).
Proof.
  intros L P H0. unfold pre_get.
  set (x1 := match st x0 with Unknown => load s rd x0 | _ => x0 end).
  assert (H1 : st x1 = Hit -> resp x1 = Some r -> installed (log s) r (created x1) (expired x1)).
  { unfold x1. destruct (st x0) eqn:E.
    - apply load_prov; auto. intros A. congruence.
    - intros A; congruence.
    - intros A; congruence.
    - intros _. apply H0. reflexivity. }
  unfold expire. destruct (negb (expired x1 =? 0)%Z && (expired x1 <? now_s s)%Z); simpl; [discriminate | exact H1].
Qed.

Theorem prov_step s l s' : Inv s -> Prov s -> honest l -> step s l = Some s' -> Prov s'.
Proof.
  intros I P Hh H. pose proof (inv_fixed _ I) as Lf.
  destruct l as [pass|d|i c|ok| | |cc].
  - simpl in H. inversion H; subst s'. destruct pass; eapply prov_same; eauto; simpl; eauto.
  - simpl in H. destruct (0 <=? d)%Z; inversion H; subst s'. eapply prov_same; eauto.
  - unfold step in H. destruct (nth_error (ts s) i) as [p|] eqn:Hi; [|discriminate].
    destruct p.
    + destruct (cur s).
      * inversion H; subst s'. eapply prov_same; eauto.
      * inversion H; subst s'. destruct P as [P1 P2]. constructor; simpl; auto.
        intros e x r Hx. destruct (Nat.lt_ge_cases e (length (gens s))) as [Hl|Hl].
        -- rewrite nth_error_app1 in Hx by exact Hl. eauto.
        -- rewrite nth_error_app2 in Hx by exact Hl. destruct (e - length (gens s)) as [|k]; simpl in Hx.
           ++ inversion Hx; subst. discriminate.
           ++ destruct k; discriminate.
    + destruct (nth_error (gens s) e) as [x0|] eqn:Hx0; [|discriminate].
      destruct (elock x0); [discriminate|].
      fold (pre_get s (ch_read_ok c) x0) in H.
      pose proof (fun r => pre_get_prov s (ch_read_ok c) x0 r Lf P (pv_entries _ P e x0 r Hx0)) as PG.
      assert (He : e < length (gens s)) by (eapply nth_error_lt; eauto).
      destruct (st (pre_get s (ch_read_ok c) x0)) eqn:Hs; inversion H; subst s'; clear H.
      * eapply (prov_set_entry s _ e); eauto; simpl; eauto; intros r A; discriminate.
      * eapply (prov_set_entry s _ e); eauto; simpl; eauto; intros r A; discriminate.
      * eapply (prov_set_entry s _ e); eauto; simpl; eauto. intros r A. congruence.
      * eapply (prov_set_entry s _ e); eauto; simpl; eauto; try (intros r A; apply PG; reflexivity).
    + inversion H; subst s'. eapply prov_same; eauto.
    + discriminate.
    + exfalso. eapply (inv_nowoken _ I); eauto.
    + destruct (nth_error (gens s) e); [|discriminate]. inversion H; subst s'. eapply prov_same; eauto; simpl; eauto.
    + destruct l; inversion H; subst s'; eapply prov_same; eauto; simpl; eauto.
    + destruct (nth_error (gens s) e) as [x|] eqn:Hx; [|discriminate].
      destruct (elock x); [discriminate|]. inversion H; subst s'; clear H.
      assert (He : e < length (gens s)) by (eapply nth_error_lt; eauto).
      destruct P as [P1 P2]. constructor; simpl.
      * intros e' x' r Hx'. rewrite nth_error_upd in Hx'. destruct (Nat.eqb_spec e e') as [->|Hne].
        -- apply Nat.ltb_lt in He. rewrite He in Hx'. inversion Hx'; subst x'; clear Hx'.
           destruct (cacheable o) as [[ttl r0]|] eqn:Hc; simpl; [|discriminate].
           intros _ Hr. inversion Hr; subst r0.
           unfold cacheable in Hc. destruct o as [ttl' r'| |]; try discriminate.
           destruct (Z.ltb_spec 0 ttl'); inversion Hc; subst.
           exists i, e', ttl. split; [left; reflexivity | split; [lia | reflexivity]].
        -- intros A B. apply installed_mono. eauto.
      * intros rc r A B C D. apply installed_mono. eauto.
    + destruct (nth_error (gens s) e) as [x|] eqn:Hx; [|discriminate].
      assert (He : e < length (gens s)) by (eapply nth_error_lt; eauto).
      destruct (sendq x) as [|w rest].
      * destruct P as [P1 P2].
        assert (G : forall e' x' r, nth_error (upd e (mk_entry (st x) (waitq x) [] (resp x) (created x) (expired x) None) (gens s)) e' = Some x' ->
                     st x' = Hit -> resp x' = Some r -> installed (log s) r (created x') (expired x')).
        { intros e' x' r Hx'. rewrite nth_error_upd in Hx'. destruct (Nat.eqb_spec e e') as [->|Hne].
          - apply Nat.ltb_lt in He. rewrite He in Hx'. inversion Hx'; subst x'. simpl. eauto.
          - eauto. }
        destruct (has_store s && ch_write_ok c); inversion H; subst s'; clear H; constructor; simpl.
        -- intros e' x' r A B C. apply installed_mono. eapply G; eauto.
        -- intros rc r A B C D. inversion A; subst rc. simpl in *. apply installed_mono. eauto.
        -- intros e' x' r A B C. apply installed_mono. eapply G; eauto.
        -- intros rc r A B C D. apply installed_mono. eauto.
      * destruct (nth_error (ts s) w) as [pw|]; [|discriminate]. destruct pw; try discriminate.
        destruct (Nat.eqb e0 e); [|discriminate]. inversion H; subst s'; clear H.
        destruct P as [P1 P2]. constructor; simpl; auto.
        intros e' x' r Hx'. rewrite nth_error_upd in Hx'. destruct (Nat.eqb_spec e e') as [->|Hne].
        -- apply Nat.ltb_lt in He. rewrite He in Hx'. inversion Hx'; subst x'. simpl. eauto.
        -- eauto.
    + inversion H; subst s'. eapply prov_same; eauto; simpl; eauto.
    + discriminate.
    + discriminate.
  - simpl in H. inversion H; subst s'. destruct P as [P1 P2].
    destruct (has_store s && ok); constructor; simpl; auto; discriminate.
  - simpl in H. inversion H; subst s'. eapply prov_same; eauto.
  - simpl in H. inversion H; subst s'. eapply prov_same; eauto.
  - simpl in H. destruct (has_store s); inversion H; subst s'. destruct P as [P1 P2].
    constructor; simpl; auto. intros rc r A B C D. subst cc. simpl in Hh. destruct Hh; congruence.
Qed.

Fixpoint all_honest (ls : list label) : Prop :=
  match ls with [] => True | l :: r => honest l /\ all_honest r end.

Theorem prov_reachable t0 h st0 ls s :
  (0 <= t0)%Z -> all_honest ls -> run (init t0 h st0 false) ls = Some s -> Inv s /\ Prov s.
Proof.
  intros Ht. assert (G : forall s0, Inv s0 -> Prov s0 -> all_honest ls -> run s0 ls = Some s -> Inv s /\ Prov s).
  { induction ls as [|l r IH]; simpl; intros s0 I0 P0 Hh H.
    - inversion H; subst; auto.
    - destruct (step s0 l) eqn:E; [|discriminate]. destruct Hh as [H1 H2].
      eapply IH; [eapply inv_step; eauto | eapply prov_step; eauto | exact H2 | exact H]. }
  intros Hh H. eapply G; eauto; [apply inv_init; exact Ht | apply prov_init].
Qed.

(** C04 / C08 headline: a hit serves a response that a cacheable completion
    installed at second c with lifetime ttl, and only while now <= c + ttl —
    across evictions, purges and restarts on the same store *)
Theorem hit_is_installed_and_fresh s i c e x0 s' r :
  Inv s -> Prov s -> nth_error (ts s) i = Some (PGet e) -> nth_error (gens s) e = Some x0 ->
  step s (Run i c) = Some s' -> nth_error (ts s') i = Some (PHitAge e r) ->
  exists rr cr ttl x,
    r = Some rr /\ nth_error (gens s') e = Some x /\ created x = cr /\
    installed (log s') rr cr (cr + ttl) /\ (0 < ttl)%Z /\ (now_s s <= cr + ttl)%Z.
Proof.
  intros I P Hi Hx H Hp.
  destruct (hit_only_fresh s i c e x0 s' r I Hi Hx H Hp) as (x & Hx' & Hs & Hr & Hn & Hf & Hpos & _).
  destruct r as [rr|]; [|congruence].
  assert (P' : Prov s') by (eapply prov_step; eauto; exact Logic.I).
  pose proof (pv_entries _ P' e x rr Hx' Hs Hr) as Inst.
  destruct Inst as (t & e1 & ttl & Hin & Hpt & Hex).
  exists rr, (created x), ttl, x. repeat split; auto.
  - exists t, e1, ttl. auto.
  - lia.
Qed.
