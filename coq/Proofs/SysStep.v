(** [Inv] is inductive: preserved by every label. *)
From Coq Require Import List Arith Bool ZArith Lia.
From Pike Require Import Model.Sys Proofs.ListAux Proofs.SysInv.
Import ListNotations.

Ltac roles := intros ?e; simpl; repeat split; reflexivity.

Lemma neutral_simple e p :
  match p with PLookup | PGet _ | PHitAge _ _ | PDone _ | PDead | PPassFetch | PWoken _ | PFetch _ LHitForPass
             | PFetch _ LHit | PFetch _ LPassed => True | _ => False end ->
  neutral e p.
Proof. destruct p; try contradiction; try destruct l; try contradiction; intros _; repeat split; reflexivity. Qed.

Lemma inv_arrive s pass s' : Inv s -> step s (Arrive pass) = Some s' -> Inv s'.
Proof.
  intros I H. simpl in H. inversion H; subst s'; clear H.
  set (p := if pass then PPassFetch else PLookup).
  assert (Hn : forall e, neutral e p) by (intros e; unfold p; destruct pass; repeat split; reflexivity).
  assert (Hr : eref p = None) by (unfold p; destruct pass; reflexivity).
  destruct I as [F N B C R W E].
  assert (G : Inv {| now := now s; hfp := hfp s; has_store := has_store s; legacy := legacy s;
                     gens := gens s; base := base s; cur := cur s; store := store s;
                     ts := ts s ++ [p]; log := log s |}).
  { constructor; simpl; auto.
    - intros i q e Hi He. destruct (Nat.lt_ge_cases i (length (ts s))) as [Hl|Hl].
      + rewrite nth_error_app1 in Hi by exact Hl. eauto.
      + rewrite nth_error_app2 in Hi by exact Hl. destruct (i - length (ts s)) as [|k]; simpl in Hi.
        * inversion Hi; subst. congruence.
        * destruct k; discriminate.
    - intros i e Hi. destruct (Nat.lt_ge_cases i (length (ts s))) as [Hl|Hl].
      + rewrite nth_error_app1 in Hi by exact Hl. eapply W; eauto.
      + rewrite nth_error_app2 in Hi by exact Hl. destruct (i - length (ts s)) as [|k]; simpl in Hi.
        * inversion Hi. unfold p in *. destruct pass; discriminate.
        * destruct k; discriminate.
    - intros e x Hb Hx. apply einv_append; auto. }
  destruct pass; [|exact G]. destruct G. constructor; simpl in *; auto.
Qed.

Lemma inv_simple s s' :
  Inv s -> ts s' = ts s -> gens s' = gens s -> base s' = base s -> legacy s' = legacy s ->
  (0 <= now s')%Z -> (forall e, cur s' = Some e -> cur s = Some e) -> Inv s'.
Proof.
  intros [F N B C R W E] E1 E2 E3 E4 E5 E6. constructor; rewrite ?E1, ?E2, ?E3, ?E4; auto.
Qed.

Lemma inv_crash s s' : Inv s -> step s Crash = Some s' -> Inv s'.
Proof.
  intros [F N B C R W E] H. simpl in H. inversion H; subst s'; clear H.
  constructor; simpl; auto.
  - discriminate.
  - intros i p e Hi He. rewrite nth_error_map in Hi. destruct (nth_error (ts s) i) as [q|]; [|discriminate].
    simpl in Hi. inversion Hi; subst. destruct q; simpl in He; discriminate.
  - intros i e Hi. rewrite nth_error_map in Hi. destruct (nth_error (ts s) i) as [q|]; [|discriminate].
    simpl in Hi. inversion Hi. destruct q; simpl in *; discriminate.
  - intros e x Hb Hx. apply nth_error_lt in Hx. lia.
Qed.

Theorem inv_step s l s' : Inv s -> step s l = Some s' -> Inv s'.
Proof.
  intros I H. destruct l as [pass|d|i c|ok| | |cc].
  - eapply inv_arrive; eauto.
  - simpl in H. destruct (Z.leb_spec 0 d); [|discriminate]. inversion H; subst s'.
    eapply inv_simple; eauto; simpl; auto. pose proof (inv_now _ I). lia.
  - (* Run *)
    unfold step in H. destruct (nth_error (ts s) i) as [p|] eqn:Hi; [|discriminate].
    pose proof (inv_fixed _ I) as Lf.
    destruct p.
    + (* PLookup *)
      destruct (cur s) as [e|] eqn:Hc.
      * inversion H; subst s'; clear H.
        eapply (inv_thread_only s _ i PLookup (PGet e)); eauto; try reflexivity; try discriminate.
        -- intros e'; repeat split; reflexivity.
        -- intros e' He'. simpl in He'. inversion He'; subst. apply (inv_cur _ I). exact Hc.
      * inversion H; subst s'; clear H.
        destruct I as [F N B C R W E].
        constructor; simpl; auto.
        -- rewrite app_length. simpl. lia.
        -- intros e He. inversion He; subst. rewrite app_length. simpl. lia.
        -- intros j p e Hj He. rewrite nth_error_upd in Hj. rewrite app_length. simpl.
           destruct (Nat.eqb_spec i j) as [->|Hne].
           ++ destruct (Nat.ltb j (length (ts s))); try discriminate. inversion Hj; subst.
              simpl in He. inversion He; subst. lia.
           ++ specialize (R _ _ _ Hj He). lia.
        -- intros j e Hj. rewrite nth_error_upd in Hj. destruct (Nat.eqb_spec i j) as [->|Hne].
           ++ destruct (Nat.ltb j (length (ts s))); discriminate.
           ++ eapply W; eauto.
        -- intros e x Hb Hx. destruct (Nat.eq_dec e (length (gens s))) as [->|Hne].
           ++ rewrite nth_error_app_last in Hx. inversion Hx; subst.
              eapply einv_neutral with (p := PLookup);
                [| exact Hi | repeat split; reflexivity | repeat split; reflexivity].
              apply einv_fresh. intros j q Hj Hq. specialize (R _ _ _ Hj Hq). lia.
           ++ assert (e < length (gens s)).
              { apply nth_error_lt in Hx. rewrite app_length in Hx. simpl in Hx. lia. }
              rewrite nth_error_app1 in Hx by assumption.
              eapply einv_neutral with (p := PLookup); [eapply E; eauto | exact Hi | |]; repeat split; reflexivity.
    + (* PGet e *)
      destruct (nth_error (gens s) e) as [x0|] eqn:Hx0; [|discriminate].
      destruct (elock x0) eqn:Hlk; [discriminate|].
      pose proof (inv_ref _ I _ _ _ Hi eq_refl) as He.
      pose proof (inv_entries _ I e x0 (proj1 He) Hx0) as IE0.
      pose proof (einv_pre_get e x0 (ts s) s (ch_read_ok c) Lf IE0) as IE.
      fold (pre_get s (ch_read_ok c) x0) in H.
      set (x := pre_get s (ch_read_ok c) x0) in *.
      assert (Hlx : elock x = None) by (unfold x; rewrite pre_get_lock; exact Hlk).
      destruct (st x) eqn:Hst; inversion H; subst s'; clear H.
      * (* Unknown -> Fetching *)
        eapply (inv_update s _ i (PGet e) (PFetch e LFetching) e); eauto; try reflexivity; try discriminate.
        -- simpl. intros e' E'. congruence.
        -- simpl. intros e' E'. congruence.
        -- apply einv_become_fetcher with (p := PGet e); auto. repeat split; reflexivity.
      * (* Fetching -> register *)
        eapply (inv_update s _ i (PGet e) (PRegistered e) e); eauto; try reflexivity; try discriminate.
        -- simpl. intros e' E'. congruence.
        -- simpl. intros e' E'. congruence.
        -- apply einv_register with (p := PGet e); auto. repeat split; reflexivity.
      * (* HitForPass *)
        eapply (inv_update s _ i (PGet e) (PFetch e LHitForPass) e x); eauto; try reflexivity; try discriminate.
        -- simpl. intros e' E'. congruence.
        -- simpl. intros e' E'. congruence.
        -- eapply einv_neutral; eauto; repeat split; reflexivity.
      * (* Hit *)
        eapply (inv_update s _ i (PGet e) (PHitAge e (resp x)) e x); eauto; try reflexivity; try discriminate.
        -- simpl. intros e' E'. congruence.
        -- simpl. intros e' E'. congruence.
        -- eapply einv_neutral; eauto; repeat split; reflexivity.
    + (* PRegistered -> PWait *)
      inversion H; subst s'; clear H.
      eapply (inv_thread_only s _ i (PRegistered e) (PWait e)); eauto; try reflexivity; try discriminate.
      * intros e'; repeat split; reflexivity.
      * intros e' He'. simpl in He'. inversion He'; subst. eapply (inv_ref _ I); eauto; reflexivity.
    + discriminate.
    + exfalso. eapply (inv_nowoken _ I); eauto.
    + (* PHitAge *)
      destruct (nth_error (gens s) e) as [x|]; [|discriminate]. inversion H; subst s'; clear H.
      eapply (inv_thread_only s _ i (PHitAge e r) (PDone _)); eauto; try reflexivity; try discriminate.
      * intros e'; repeat split; reflexivity.
    + (* PFetch *)
      destruct l; inversion H; subst s'; clear H.
      * eapply (inv_thread_only s _ i (PFetch e LFetching) (PFetched e (ch_outcome c))); eauto; try reflexivity; try discriminate.
        -- intros e'; repeat split; reflexivity.
        -- intros e' He'. simpl in He'. inversion He'; subst. eapply (inv_ref _ I); eauto; reflexivity.
      * eapply (inv_thread_only s _ i (PFetch e LHitForPass) (PDone _)); eauto; try reflexivity; try discriminate.
        intros e'; repeat split; reflexivity.
      * eapply (inv_thread_only s _ i (PFetch e LHit) (PDone _)); eauto; try reflexivity; try discriminate.
        intros e'; repeat split; reflexivity.
      * eapply (inv_thread_only s _ i (PFetch e LPassed) (PDone _)); eauto; try reflexivity; try discriminate.
        intros e'; repeat split; reflexivity.
    + (* PFetched *)
      destruct (nth_error (gens s) e) as [x|] eqn:Hx; [|discriminate].
      destruct (elock x) eqn:Hlk; [discriminate|].
      pose proof (inv_ref _ I _ _ _ Hi eq_refl) as He.
      pose proof (inv_entries _ I e x (proj1 He) Hx) as IE.
      pose proof (now_s_nonneg s (inv_now _ I)) as Hn.
      pose proof (eff_hfp_pos s) as Hh.
      inversion H; subst s'; clear H.
      eapply (inv_update s _ i (PFetched e _) (PSending e _) e); eauto; try reflexivity; try discriminate.
      * simpl. intros e' E'. congruence.
      * simpl. intros e' E'. congruence.
      * destruct (cacheable o) as [[ttl r]|] eqn:Hc.
        -- assert (0 < ttl)%Z.
           { unfold cacheable in Hc. destruct o; try discriminate. destruct (Z.ltb_spec 0 ttl0); inversion Hc; subst; lia. }
           eapply einv_complete; eauto; simpl; auto; try lia. intros _; discriminate.
        -- eapply einv_complete; eauto; simpl; auto; try lia. intros; discriminate.
    + (* PSending *)
      destruct (nth_error (gens s) e) as [x|] eqn:Hx; [|discriminate].
      pose proof (inv_ref _ I _ _ _ Hi eq_refl) as He.
      pose proof (inv_entries _ I e x (proj1 He) Hx) as IE.
      destruct (sendq x) as [|w rest] eqn:Hq.
      * (* unlock *)
        assert (G : forall st1 lg1, Inv {| now := now s; hfp := hfp s; has_store := has_store s; legacy := legacy s;
                      gens := upd e (mk_entry (st x) (waitq x) [] (resp x) (created x) (expired x) None) (gens s);
                      base := base s; cur := cur s; store := st1;
                      ts := upd i (PDone (Reply LFetching (rid_of o) 0)) (ts s); log := lg1 |}).
        { intros st1 lg1.
          eapply (inv_update s _ i (PSending e o) (PDone _) e); eauto; try reflexivity; try discriminate.
          - simpl. intros e' E'. congruence.
          - eapply einv_unlock; eauto. repeat split; reflexivity. }
        destruct (has_store s && ch_write_ok c); inversion H; subst s'; apply G.
      * destruct (nth_error (ts s) w) as [pw|] eqn:Hw; [|discriminate].
        destruct pw; try discriminate.
        destruct (Nat.eqb_spec e0 e) as [->|]; [|discriminate].
        rewrite Lf in H. inversion H; subst s'; clear H.
        eapply (inv_update s _ w (PWait e) (PGet e) e); eauto; try reflexivity; try discriminate.
        -- simpl. intros e' E'. congruence.
        -- simpl. intros e' E'. congruence.
        -- eapply einv_send; eauto.
    + (* PPassFetch *)
      inversion H; subst s'; clear H.
      eapply (inv_thread_only s _ i PPassFetch (PDone _)); eauto; try reflexivity; try discriminate.
      intros e'; repeat split; reflexivity.
    + discriminate.
    + discriminate.
  - (* Purge *)
    simpl in H. inversion H; subst s'. destruct (has_store s && ok);
      eapply inv_simple; eauto; simpl; auto; try apply (inv_now _ I); discriminate.
  - simpl in H. inversion H; subst s'. eapply inv_simple; eauto; simpl; auto; try apply (inv_now _ I); discriminate.
  - eapply inv_crash; eauto.
  - simpl in H. destruct (has_store s); [|discriminate]. inversion H; subst s'.
    eapply inv_simple; eauto; simpl; auto. apply (inv_now _ I).
Qed.

(** every reachable state of the repaired system satisfies the invariant *)
Theorem inv_reachable t0 h st0 ls s :
  (0 <= t0)%Z -> run (init t0 h st0 false) ls = Some s -> Inv s.
Proof.
  intros Ht. assert (G : forall s0, Inv s0 -> run s0 ls = Some s -> Inv s).
  { induction ls as [|l r IH]; simpl; intros s0 I0 H.
    - inversion H; subst; exact I0.
    - destruct (step s0 l) eqn:E; [|discriminate]. eapply IH; [eapply inv_step; eauto | exact H]. }
  apply G. apply inv_init. exact Ht.
Qed.
