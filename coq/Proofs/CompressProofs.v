From Coq Require Import List Arith Bool NArith ZArith Lia.
From Pike Require Import Base.Bytes Model.Compress.
Import ListNotations.
Local Open Scope Z_scope.

(** whatever value is configured (any uint, however large: it is truncated to
    int32), the gzip writer gets -1 or a level in 1..9, the brotli writer a
    level in 1..11; legal configured values are used as they are *)
Theorem gzip_level_legal v : let l := gzip_level_used (stored_level v) in l = -1 \/ 1 <= l <= 9.
Proof.
  cbv zeta. unfold gzip_level_used.
  destruct (Z.leb_spec (stored_level v) 0); simpl; [left; reflexivity|].
  destruct (Z.ltb_spec 9 (stored_level v)); [left; reflexivity | right; lia].
Qed.

Theorem br_level_legal v : 1 <= br_level_used (stored_level v) <= 11.
Proof.
  unfold br_level_used.
  destruct (Z.leb_spec (stored_level v) 0); simpl; [lia|].
  destruct (Z.ltb_spec 11 (stored_level v)); lia.
Qed.

Lemma stored_small v : 0 <= v < 2147483648 -> stored_level v = v.
Proof. intros H. unfold stored_level, wrap32. rewrite Z.mod_small by lia. lia. Qed.

Theorem gzip_level_kept v : 1 <= v <= 9 -> gzip_level_used (stored_level v) = v.
Proof.
  intros H. rewrite stored_small by lia. unfold gzip_level_used.
  destruct (Z.leb_spec v 0); [lia|]. destruct (Z.ltb_spec 9 v); [lia | reflexivity].
Qed.

Theorem br_level_kept v : 1 <= v <= 11 -> br_level_used (stored_level v) = v.
Proof.
  intros H. rewrite stored_small by lia. unfold br_level_used.
  destruct (Z.leb_spec v 0); [lia|]. destruct (Z.ltb_spec 11 v); [lia | reflexivity].
Qed.

(** out-of-range values fall back to the defaults *)
Theorem out_of_range_defaults v : 0 <= v < 2147483648 ->
  (v = 0 \/ 9 < v -> gzip_level_used (stored_level v) = -1) /\ (v = 0 \/ 11 < v -> br_level_used (stored_level v) = 6).
Proof.
  intros H. rewrite stored_small by lia. unfold gzip_level_used, br_level_used. split; intros [E|E].
  - subst. reflexivity.
  - destruct (Z.leb_spec v 0); [reflexivity|]. destruct (Z.ltb_spec 9 v); [reflexivity | lia].
  - subst. reflexivity.
  - destruct (Z.leb_spec v 0); [reflexivity|]. destruct (Z.ltb_spec 11 v); [reflexivity | lia].
Qed.

(** Decompress reaches the decoder of exactly the five documented encodings,
    passes identity through, and rejects everything else (an error, not a panic) *)
Theorem dispatch_total enc :
  match dispatch enc with
  | DGzip => enc = e_gzip | DBr => enc = e_br | DLz4 => enc = e_lz4 | DSnappy => enc = e_snz | DZstd => enc = e_zst
  | DIdentity => enc = [] | DUnsupported => enc <> [] /\ enc <> e_gzip /\ enc <> e_br /\ enc <> e_lz4 /\ enc <> e_snz /\ enc <> e_zst
  end.
Proof.
  unfold dispatch.
  destruct (beqb enc e_gzip) eqn:E1; [apply beqb_spec; exact E1|].
  destruct (beqb enc e_br) eqn:E2; [apply beqb_spec; exact E2|].
  destruct (beqb enc e_lz4) eqn:E3; [apply beqb_spec; exact E3|].
  destruct (beqb enc e_snz) eqn:E4; [apply beqb_spec; exact E4|].
  destruct (beqb enc e_zst) eqn:E5; [apply beqb_spec; exact E5|].
  destruct enc as [|b r]; [reflexivity|].
  repeat split; try discriminate; intros H; rewrite H in *; rewrite beqb_refl in *; discriminate.
Qed.
