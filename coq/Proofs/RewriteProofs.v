(** Facts about the path-rewriter model (Model/Rewrite.v): the matcher is
    sound and complete for the patterns of the modelled class, the replacer
    substitutes exactly the [$d] tokens. *)
From Coq Require Import List Arith Bool NArith Lia.
From Pike Require Import Base.Bytes Model.Rewrite.
Import ListNotations.

Definition group_ok (g : bytes) : Prop := forallb nonspace g = true.

Lemma run_len_firstn s k : (k <= run_len s)%nat -> forallb nonspace (firstn k s) = true.
Proof.
  revert k; induction s as [|c s IH]; intros k Hk; simpl in *.
  - destruct k; reflexivity.
  - destruct k as [|k]; [reflexivity|]. simpl.
    destruct (nonspace c) eqn:E; [|lia]. simpl. apply IH. lia.
Qed.

Lemma run_len_app_ge g t : forallb nonspace g = true -> (length g <= run_len (g ++ t))%nat.
Proof.
  induction g as [|c g IH]; simpl; intros H; [lia|].
  apply andb_prop in H. destruct H as [Hc Hg]. rewrite Hc. specialize (IH Hg). lia.
Qed.

Lemma star_try_sound cont s k res :
  star_try cont s k = Some res ->
  exists k' caps, (k' <= k)%nat /\ res = firstn k' s :: caps /\ cont (skipn k' s) = Some caps.
Proof.
  induction k as [|k IH]; cbn [star_try]; intros H.
  - destruct (cont (skipn 0 s)) as [caps|] eqn:E; [|discriminate H].
    injection H as <-. exists 0%nat, caps. repeat split; auto.
  - destruct (cont (skipn (S k) s)) as [caps|] eqn:E.
    + injection H as <-. exists (S k), caps. repeat split; auto.
    + destruct (IH H) as (k' & caps & Hle & Hres & Hc). exists k', caps. repeat split; auto.
Qed.

Lemma star_try_complete cont s k k0 :
  (k0 <= k)%nat -> cont (skipn k0 s) <> None -> star_try cont s k <> None.
Proof.
  induction k as [|k IH]; intros Hle Hc; cbn [star_try].
  - assert (k0 = 0)%nat by lia. subst. destruct (cont (skipn 0 s)); [discriminate | contradiction].
  - destruct (cont (skipn (S k) s)) eqn:E; [discriminate|].
    apply IH; [|exact Hc]. destruct (Nat.eq_dec k0 (S k)) as [->|]; [rewrite E in Hc; contradiction|lia].
Qed.

Theorem match_here_sound its : forall s caps,
  match_here its s = Some caps ->
  length caps = stars its /\ Forall group_ok caps /\ exists rest, s = render its caps ++ rest.
Proof.
  induction its as [|it its IH]; intros s caps H; simpl in H.
  - inversion H; subst. repeat split; [constructor | exists s; reflexivity].
  - destruct it as [c|].
    + destruct s as [|x s]; [discriminate|].
      destruct (N.eqb x c) eqn:E; [|discriminate]. apply N.eqb_eq in E. subst x.
      destruct (IH _ _ H) as (Hl & Hg & rest & Hs). repeat split; auto.
      exists rest. simpl. rewrite <- Hs. reflexivity.
    + apply star_try_sound in H. destruct H as (k' & caps' & Hle & Hres & Hc). subst caps.
      destruct (IH _ _ Hc) as (Hl & Hg & rest & Hs). repeat split.
      * simpl. rewrite Hl. reflexivity.
      * constructor; [apply run_len_firstn; exact Hle | exact Hg].
      * exists rest. simpl. rewrite <- app_assoc, <- Hs. symmetry. apply firstn_skipn.
Qed.

Theorem match_here_complete its : forall caps rest,
  length caps = stars its -> Forall group_ok caps ->
  match_here its (render its caps ++ rest) <> None.
Proof.
  induction its as [|it its IH]; intros caps rest Hl Hg; simpl.
  - discriminate.
  - destruct it as [c|].
    + simpl. rewrite N.eqb_refl. apply IH; assumption.
    + destruct caps as [|g caps]; [simpl in Hl; discriminate|].
      simpl in Hl. inversion Hg as [|? ? Hg1 Hg2]; subst.
      rewrite <- app_assoc.
      apply star_try_complete with (k0 := length g).
      * apply run_len_app_ge. exact Hg1.
      * rewrite skipn_app, skipn_all, Nat.sub_diag. simpl. apply IH; [lia | exact Hg2].
Qed.

Theorem find_match_sound its : forall s caps,
  find_match its s = Some caps ->
  length caps = stars its /\ Forall group_ok caps /\ exists pre rest, s = pre ++ render its caps ++ rest.
Proof.
  induction s as [|x s IH]; intros caps H; simpl in H.
  - destruct (match_here its []) as [c0|] eqn:E; [|discriminate]. inversion H; subst.
    destruct (match_here_sound _ _ _ E) as (Hl & Hg & rest & Hs). repeat split; auto.
    exists [], rest. exact Hs.
  - destruct (match_here its (x :: s)) as [c0|] eqn:E.
    + inversion H; subst. destruct (match_here_sound _ _ _ E) as (Hl & Hg & rest & Hs).
      repeat split; auto. exists [], rest. exact Hs.
    + destruct (IH _ H) as (Hl & Hg & pre & rest & Hs). repeat split; auto.
      exists (x :: pre), rest. simpl. rewrite <- Hs. reflexivity.
Qed.

Theorem find_match_complete its : forall pre caps rest,
  length caps = stars its -> Forall group_ok caps ->
  find_match its (pre ++ render its caps ++ rest) <> None.
Proof.
  induction pre as [|x pre IH]; intros caps rest Hl Hg.
  - simpl app. pose proof (match_here_complete its caps rest Hl Hg) as M.
    destruct (render its caps ++ rest) as [|y t] eqn:E; simpl; destruct (match_here its _); try discriminate; contradiction.
  - simpl. destruct (match_here its (x :: pre ++ render its caps ++ rest)); [discriminate|].
    apply IH; assumption.
Qed.

(** ** the replacer *)
Lemma expand_plain caps v : (forall c, In c v -> c <> 36%N) -> expand caps v = v.
Proof.
  induction v as [|c tl IH]; intros H; [reflexivity|].
  simpl. destruct tl as [|d rest]; [reflexivity|].
  assert (N.eqb c 36 = false) as ->. { apply N.eqb_neq. apply H. left; reflexivity. }
  simpl. f_equal. apply IH. intros c0 Hin. apply H. right; exact Hin.
Qed.

Lemma expand_token caps d rest :
  (49 <= d)%N -> (d <= 57)%N -> (N.to_nat (d - 48) <= length caps)%nat ->
  expand caps (36%N :: d :: rest) = nth (N.to_nat (d - 49)) caps [] ++ expand caps rest.
Proof.
  intros H1 H2 H3. simpl.
  apply N.leb_le in H1. apply N.leb_le in H2. apply Nat.leb_le in H3.
  rewrite H1, H2, H3. reflexivity.
Qed.

Lemma expand_not_a_token caps d rest :
  ((d <? 49)%N || (57 <? d)%N || (length caps <? N.to_nat (d - 48))%nat) = true ->
  expand caps (36%N :: d :: rest) = 36%N :: expand caps (d :: rest).
Proof.
  intros H. cbn [expand]. 
  destruct ((N.eqb 36 36 && (49 <=? d)%N && (d <=? 57)%N && (N.to_nat (d - 48) <=? length caps)%nat)) eqn:E; [|reflexivity].
  exfalso. rewrite !andb_true_iff in E. destruct E as [[[_ A] B] C].
  apply N.leb_le in A. apply N.leb_le in B. apply Nat.leb_le in C.
  rewrite !orb_true_iff in H. destruct H as [[H|H]|H].
  - apply N.ltb_lt in H. lia.
  - apply N.ltb_lt in H. lia.
  - apply Nat.ltb_lt in H. lia.
Qed.

(** ** rules *)
Theorem apply_rule_unmatched r path : find_match (r_items r) path = None -> apply_rule r path = path.
Proof. unfold apply_rule. intros ->. reflexivity. Qed.

Theorem rewrite_unmatched rules : forall path,
  Forall (fun r => find_match (r_items r) path = None) rules -> rewrite_path rules path = path.
Proof.
  unfold rewrite_path. induction rules as [|r rules IH]; intros path H; [reflexivity|].
  inversion H; subst. simpl. rewrite apply_rule_unmatched by assumption. apply IH. assumption.
Qed.

(** a matching rule replaces the whole path by its target, instantiated with
    groups that really occur in the path, in order, none containing a blank *)
Theorem apply_rule_matched r path pre caps rest :
  length caps = stars (r_items r) -> Forall group_ok caps ->
  path = pre ++ render (r_items r) caps ++ rest ->
  exists caps' pre' rest',
    apply_rule r path = expand caps' (r_value r) /\
    length caps' = stars (r_items r) /\ Forall group_ok caps' /\
    path = pre' ++ render (r_items r) caps' ++ rest'.
Proof.
  intros Hl Hg Hp. unfold apply_rule.
  destruct (find_match (r_items r) path) as [caps'|] eqn:E.
  - destruct (find_match_sound _ _ _ E) as (Hl' & Hg' & pre' & rest' & Hs).
    exists caps', pre', rest'. repeat split; auto.
  - exfalso. subst path. exact (find_match_complete _ pre caps rest Hl Hg E).
Qed.

(** with no group, no [$d] is a token: the target is taken literally *)
Lemma expand_nil v : expand [] v = v.
Proof.
  induction v as [|c tl IH]; [reflexivity|].
  cbn [expand]. destruct tl as [|d rest]; [reflexivity|].
  destruct (N.eqb c 36 && (49 <=? d)%N && (d <=? 57)%N && (N.to_nat (d - 48) <=? length (@nil bytes))%nat) eqn:E.
  - exfalso. rewrite !andb_true_iff in E. destruct E as [[[_ A] _] C].
    apply N.leb_le in A. apply Nat.leb_le in C. simpl in C. lia.
  - f_equal. exact IH.
Qed.

Theorem apply_rule_literal r path :
  stars (r_items r) = 0%nat -> find_match (r_items r) path <> None -> apply_rule r path = r_value r.
Proof.
  intros Hs Hm. unfold apply_rule. destruct (find_match (r_items r) path) as [caps|] eqn:E; [|contradiction].
  destruct (find_match_sound _ _ _ E) as (Hl & _). rewrite Hs in Hl.
  destruct caps; [|discriminate]. apply expand_nil.
Qed.
