(** Refinement of the shard model to the simplest specification of an LRU
    with capacity [max] (0 = unlimited): the resident keys, most recently used
    first, evolve by
      touch k : put k in front, drop it from its old place, keep the first [max]
      del k   : drop k
    — this is the specification the recency monitor of Corr/C11Corr.v runs on
    the implementation's own observations. *)
From Coq Require Import List Arith Bool NArith Lia.
From Pike Require Import Model.LRU Proofs.LRUProofs.
Import ListNotations.

Section LRUSpec.
  Context {K V : Type}.
  Variable keqb : K -> K -> bool.
  Hypothesis keqb_spec : forall a b, keqb a b = true <-> a = b.

  Definition cut (max : nat) (ks : list K) : list K := if Nat.eqb max 0 then ks else firstn max ks.

  Definition spec_step (max : nat) (ks : list K) (o : @sop K V) : list K :=
    match o with
    | SAcc k _ => cut max (k :: filter (other keqb k) ks)
    | SDel k => filter (other keqb k) ks
    end.

  Definition within (max : nat) (n : nat) : Prop := max = 0 \/ n <= max.

  Lemma filter_length_le {A} (f : A -> bool) l : length (filter f l) <= length l.
  Proof. induction l as [|a l IH]; simpl; [lia|]. destruct (f a); simpl; lia. Qed.

  Lemma removelast_is_firstn {A} (l : list A) n : length l = S n -> removelast l = firstn n l.
  Proof.
    intros H. rewrite removelast_firstn_len. rewrite H. reflexivity.
  Qed.

  Lemma keys_length (l : @lru K V) : length (keys l) = length l.
  Proof. unfold keys. apply map_length. Qed.

  Theorem shard_step_refines max (l : @lru K V) o :
    NoDup (keys l) -> within max (length l) ->
    keys (shard_step keqb max l o) = spec_step max (keys l) o
    /\ within max (length (shard_step keqb max l o)).
  Proof.
    intros ND W. destruct o as [k v|k]; simpl.
    - unfold get, add. destruct (find keqb k l) as [v0|] eqn:F.
      + (* resident: moved to the front, nothing dropped *)
        simpl. rewrite (keys_remove_filter keqb keqb_spec) by exact ND.
        assert (L : length ((k, v0) :: remove keqb k l) = length l).
        { pose proof (get_length keqb k l) as G. unfold LRU.get in G. rewrite F in G. exact G. }
        split.
        * unfold cut. destruct (Nat.eqb max 0) eqn:E; [reflexivity|].
          apply Nat.eqb_neq in E. destruct W as [W|W]; [contradiction|].
          symmetry. apply firstn_all2. simpl.
          rewrite <- (keys_remove_filter keqb keqb_spec) by exact ND.
          rewrite keys_length. simpl in L. lia.
        * destruct W as [W|W]; [left; exact W | right; simpl in L |- *; lia].
      + (* not resident: pushed in front; the last one is dropped when the shard is over its capacity *)
        assert (Hk : ~ In k (keys l)) by (apply (find_None_keys keqb keqb_spec); exact F).
        rewrite (filter_other_id keqb keqb_spec) by exact Hk.
        destruct (Nat.eqb max 0) eqn:E.
        * apply Nat.eqb_eq in E. subst max. simpl. unfold cut. simpl. split; [reflexivity | left; reflexivity].
        * apply Nat.eqb_neq in E. destruct W as [W|W]; [contradiction|].
          simpl negb. cbn [andb].
          destruct (Nat.ltb max (length ((k, v) :: l))) eqn:LT.
          -- apply Nat.ltb_lt in LT. simpl in LT. assert (Hl : length l = max) by lia.
             split.
             ++ rewrite keys_removelast. unfold cut.
                assert (Nat.eqb max 0 = false) as -> by (apply Nat.eqb_neq; exact E).
                apply removelast_is_firstn. simpl. rewrite keys_length. lia.
             ++ right. rewrite length_removelast. simpl. lia.
          -- apply Nat.ltb_ge in LT. split.
             ++ unfold cut. assert (Nat.eqb max 0 = false) as -> by (apply Nat.eqb_neq; exact E).
                symmetry. apply firstn_all2. simpl. rewrite keys_length. simpl in LT. lia.
             ++ right. exact LT.
    - split.
      + apply (keys_remove_filter keqb keqb_spec). exact ND.
      + destruct W as [W|W]; [left; exact W | right].
        pose proof (remove_length_le keqb k l). lia.
  Qed.

  (** over whole histories, from the empty shard *)
  Theorem shard_refines_spec max ops :
    keys (fold_left (shard_step keqb max) ops []) = fold_left (spec_step max) ops [].
  Proof.
    assert (G : forall (l : @lru K V), NoDup (keys l) -> within max (length l) ->
              keys (fold_left (shard_step keqb max) ops l) = fold_left (spec_step max) ops (keys l)).
    { induction ops as [|o ops' IH]; intros l ND W; simpl; [reflexivity|].
      destruct (shard_step_refines max l o ND W) as [E W'].
      rewrite <- E. apply IH; [apply (shard_step_NoDup keqb keqb_spec); exact ND | exact W']. }
    apply (G []); [constructor | unfold within; simpl; lia].
  Qed.

  (** consequence: a lookup finds its key resident iff the specification lists it *)
  Corollary resident_iff_spec max ops k :
    (exists v, find keqb k (fold_left (shard_step keqb max) ops []) = Some v)
    <-> In k (fold_left (spec_step max) ops []).
  Proof.
    rewrite <- shard_refines_spec. apply (find_Some_keys keqb keqb_spec).
  Qed.
End LRUSpec.
