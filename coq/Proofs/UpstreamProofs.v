From Coq Require Import List Arith Bool NArith ZArith Lia.
From Pike Require Import Model.Upstream.
Import ListNotations.

Lemma indices_where_spec f l k i :
  In i (indices_where f l k) <-> exists s, k <= i /\ nth_error l (i - k) = Some s /\ f s = true.
Proof.
  revert k; induction l as [|a r IH]; intros k; simpl.
  - split; [intros [] | intros (s & _ & H & _); destruct (i - k); discriminate].
  - assert (G : In i (indices_where f r (S k)) <-> exists s, S k <= i /\ nth_error r (i - S k) = Some s /\ f s = true) by apply IH.
    destruct (f a) eqn:Fa; simpl; rewrite G; split.
    + intros [<-|(s & H1 & H2 & H3)].
      * exists a. rewrite Nat.sub_diag. simpl. auto.
      * exists s. split; [lia|]. replace (i - k) with (S (i - S k)) by lia. simpl. auto.
    + intros (s & H1 & H2 & H3). destruct (Nat.eq_dec i k) as [->|Hne]; [left; reflexivity|right].
      exists s. split; [lia|]. replace (i - k) with (S (i - S k)) in H2 by lia. simpl in H2. auto.
    + intros (s & H1 & H2 & H3). exists s. split; [lia|]. replace (i - k) with (S (i - S k)) by lia. simpl. auto.
    + intros (s & H1 & H2 & H3). destruct (Nat.eq_dec i k) as [->|Hne].
      * rewrite Nat.sub_diag in H2. simpl in H2. inversion H2; subst. congruence.
      * exists s. split; [lia|]. replace (i - k) with (S (i - S k)) in H2 by lia. simpl in H2. auto.
Qed.

Lemma preferred_spec l i : In i (preferred l) <->
  exists s, nth_error l i = Some s /\ is_healthy s = true /\ u_backup s = false.
Proof.
  unfold preferred. rewrite indices_where_spec. rewrite Nat.sub_0_r. split.
  - intros (s & _ & H & F). apply andb_prop in F. destruct F as [F1 F2]. apply negb_true_iff in F2. eauto.
  - intros (s & H & F1 & F2). exists s. split; [lia|]. split; [exact H|]. rewrite F1, F2. reflexivity.
Qed.

Lemma backups_spec l i : In i (backups l) <->
  exists s, nth_error l i = Some s /\ is_healthy s = true /\ u_backup s = true.
Proof.
  unfold backups. rewrite indices_where_spec. rewrite Nat.sub_0_r. split.
  - intros (s & _ & H & F). apply andb_prop in F. destruct F as [F1 F2]. eauto.
  - intros (s & H & F1 & F2). exists s. split; [lia|]. split; [exact H|]. rewrite F1, F2. reflexivity.
Qed.

(** a server is offered only if its health checks currently pass, and a backup
    only while no primary is healthy *)
Theorem available_sound l i : In i (available l) ->
  exists s, nth_error l i = Some s /\ is_healthy s = true /\
    (u_backup s = true -> forall j t, nth_error l j = Some t -> is_healthy t = true -> u_backup t = true).
Proof.
  unfold available. destruct (preferred l) as [|p ps] eqn:E.
  - intros H. apply backups_spec in H. destruct H as (s & H1 & H2 & H3). exists s. repeat split; auto.
    intros _ j t Hj Ht. destruct (u_backup t) eqn:B; [reflexivity|]. exfalso.
    assert (In j (preferred l)) by (apply preferred_spec; eauto). rewrite E in H. contradiction.
  - rewrite <- E. intros H. apply preferred_spec in H. destruct H as (s & H1 & H2 & H3).
    exists s. repeat split; auto. congruence.
Qed.

Theorem available_empty_iff l : available l = [] <-> forall j t, nth_error l j = Some t -> is_healthy t = false.
Proof.
  split.
  - intros H j t Hj. destruct (is_healthy t) eqn:Ht; [|reflexivity]. exfalso.
    unfold available in H. destruct (u_backup t) eqn:B.
    + assert (In j (backups l)) by (apply backups_spec; eauto).
      destruct (preferred l); [rewrite H in H0; contradiction | discriminate].
    + assert (In j (preferred l)) by (apply preferred_spec; eauto).
      destruct (preferred l); [contradiction | discriminate].
  - intros H. destruct (available l) as [|i r] eqn:E; [reflexivity|]. exfalso.
    assert (Hin : In i (available l)) by (rewrite E; left; reflexivity).
    destruct (available_sound l i Hin) as (s & H1 & H2 & _). rewrite (H _ _ H1) in H2. discriminate.
Qed.

Lemma pick_index_in l idx i : pick_index l idx = Some i -> In i (available l).
Proof.
  unfold pick_index. destruct (available l) as [|a r] eqn:E; [discriminate|]. intros H.
  eapply nth_error_In; eauto.
Qed.

Lemma pick_index_none l idx : pick_index l idx = None <-> available l = [].
Proof.
  unfold pick_index. destruct (available l) as [|a r] eqn:E; [tauto|]. split; [|discriminate].
  intros H. apply nth_error_None in H. exfalso.
  assert (0 <= idx mod Z.of_nat (length (a :: r)) < Z.of_nat (length (a :: r)))%Z.
  { apply Z.mod_pos_bound. simpl. lia. }
  lia.
Qed.

Lemma argmin_in l av : forall best i, argmin_value l av best = Some i ->
  In i av \/ (exists v, best = Some (i, v)).
Proof.
  induction av as [|a r IH]; intros best i H; simpl in H.
  - destruct best as [[b v]|]; simpl in H; [inversion H; subst; right; eauto | discriminate].
  - destruct best as [[b v]|].
    + destruct (N.ltb _ v); apply IH in H; destruct H as [H|(v' & H)].
      * left; right; exact H.
      * inversion H; subst. left; left; reflexivity.
      * left; right; exact H.
      * right. eauto.
    + apply IH in H. destruct H as [H|(v' & H)]; [left; right; exact H | inversion H; subst; left; left; reflexivity].
Qed.

Lemma argmin_none l av : argmin_value l av None = None -> av = [].
Proof.
  destruct av as [|a r]; [reflexivity|]. simpl. intros H. exfalso.
  assert (G : forall av best, best <> None -> argmin_value l av best <> None).
  { clear. induction av as [|a r IH]; intros best Hb; simpl.
    - destruct best; [discriminate | contradiction].
    - destruct best as [[b v]|]; [|contradiction]. destruct (N.ltb _ v); apply IH; discriminate. }
  eapply G; [|exact H]. discriminate.
Qed.

(** C19 core: whatever the policy and whatever rand returns, the chosen server
    is healthy, and a backup only when no primary is healthy; no server is
    chosen exactly when none is healthy *)
Theorem next_healthy p rnd st i :
  fst (next p rnd st) = Some i ->
  exists s, nth_error (servers st) i = Some s /\ is_healthy s = true /\
    (u_backup s = true -> forall j t, nth_error (servers st) j = Some t -> is_healthy t = true -> u_backup t = true).
Proof.
  intros H. apply available_sound.
  destruct p; simpl in H.
  - eapply pick_index_in; eauto.
  - eapply pick_index_in; eauto.
  - eapply pick_index_in; eauto.
  - destruct (argmin_value (servers st) (available (servers st)) None) as [k|] eqn:E; simpl in H; [|discriminate].
    inversion H; subst k. apply argmin_in in E. destruct E as [E|(v & E)]; [exact E | discriminate].
Qed.

Theorem next_none_iff p rnd st :
  fst (next p rnd st) = None <-> forall j t, nth_error (servers st) j = Some t -> is_healthy t = false.
Proof.
  rewrite <- available_empty_iff.
  destruct p; simpl; try apply pick_index_none.
  destruct (argmin_value (servers st) (available (servers st)) None) as [k|] eqn:E; simpl.
  - split; [discriminate|]. intros H. rewrite H in E. simpl in E. discriminate.
  - split; [intros _; eapply argmin_none; eauto | reflexivity].
Qed.

(** selection never changes health or backup flags *)
Lemma upd_srv_flags l i f :
  (forall s, u_backup (f s) = u_backup s /\ u_status (f s) = u_status s) ->
  map (fun s => (u_backup s, u_status s)) (upd_srv l i f) = map (fun s => (u_backup s, u_status s)) l.
Proof.
  intros Hf. revert i; induction l as [|a r IH]; intros [|i]; simpl; auto.
  - destruct (Hf a) as [-> ->]. reflexivity.
  - rewrite IH. reflexivity.
Qed.

(** ** round robin *)
(** number of j in [0, k) with (a + j) mod n = r *)
Fixpoint cnt (n a : Z) (k : nat) (r : Z) : Z :=
  match k with
  | O => 0
  | S k' => cnt n a k' r + (if ((a + Z.of_nat k') mod n =? r)%Z then 1 else 0)
  end%Z.

Local Open Scope Z_scope.

Lemma div_step n x : 0 < n -> (x + 1) / n = x / n + (if (x + 1) mod n =? 0 then 1 else 0).
Proof.
  intros Hn. pose proof (Z.div_mod x n ltac:(lia)) as D. pose proof (Z.mod_pos_bound x n Hn) as B.
  set (q := x / n) in *. set (m := x mod n) in *.
  destruct (Z_lt_le_dec (m + 1) n) as [Hl|Hl].
  - assert (E1 : (x + 1) / n = q) by (symmetry; apply (Z.div_unique (x + 1) n q (m + 1)); lia).
    assert (E2 : (x + 1) mod n = m + 1) by (symmetry; apply (Z.mod_unique (x + 1) n q (m + 1)); lia).
    rewrite E1, E2. destruct (Z.eqb_spec (m + 1) 0); lia.
  - assert (E1 : (x + 1) / n = q + 1) by (symmetry; apply (Z.div_unique (x + 1) n (q + 1) 0); lia).
    assert (E2 : (x + 1) mod n = 0) by (symmetry; apply (Z.mod_unique (x + 1) n (q + 1) 0); lia).
    rewrite E1, E2. reflexivity.
Qed.

Lemma mod_shift n y r : 0 < n -> 0 <= r < n -> ((y - r) mod n =? 0) = (y mod n =? r).
Proof.
  intros Hn Hr.
  pose proof (Z.div_mod y n ltac:(lia)) as D. pose proof (Z.mod_pos_bound y n Hn) as B.
  set (q := y / n) in *. set (m := y mod n) in *.
  destruct (Z.eqb_spec m r) as [E|E].
  - assert ((y - r) mod n = 0) as -> by (symmetry; apply (Z.mod_unique (y - r) n q 0); lia). reflexivity.
  - destruct (Z_lt_le_dec m r).
    + assert ((y - r) mod n = m - r + n) as -> by (symmetry; apply (Z.mod_unique (y - r) n (q - 1) (m - r + n)); lia).
      destruct (Z.eqb_spec (m - r + n) 0); [lia | reflexivity].
    + assert ((y - r) mod n = m - r) as -> by (symmetry; apply (Z.mod_unique (y - r) n q (m - r)); lia).
      destruct (Z.eqb_spec (m - r) 0); [lia | reflexivity].
Qed.

Lemma cnt_closed n a k r : 0 < n -> 0 <= r < n ->
  cnt n a k r = (a + Z.of_nat k - 1 - r) / n - (a - 1 - r) / n.
Proof.
  intros Hn Hr. induction k as [|k IH].
  - simpl. replace (a + 0 - 1 - r) with (a - 1 - r) by lia. lia.
  - cbn [cnt]. rewrite IH. rewrite Nat2Z.inj_succ.
    replace (a + Z.succ (Z.of_nat k) - 1 - r) with ((a + Z.of_nat k - 1 - r) + 1) by lia.
    rewrite (div_step n (a + Z.of_nat k - 1 - r) Hn).
    replace (a + Z.of_nat k - 1 - r + 1) with ((a + Z.of_nat k) - r) by lia.
    rewrite (mod_shift n (a + Z.of_nat k) r Hn Hr). lia.
Qed.

Lemma div_window n x k : 0 < n -> 0 <= k -> k / n <= (x + k) / n - x / n <= k / n + 1.
Proof.
  intros Hn Hk.
  pose proof (Z.div_mod x n ltac:(lia)) as Dx. pose proof (Z.mod_pos_bound x n Hn) as Bx.
  pose proof (Z.div_mod k n ltac:(lia)) as Dk. pose proof (Z.mod_pos_bound k n Hn) as Bk.
  set (qx := x / n) in *. set (mx := x mod n) in *. set (qk := k / n) in *. set (mk := k mod n) in *.
  destruct (Z_lt_le_dec (mx + mk) n) as [Hl|Hl].
  - assert ((x + k) / n = qx + qk) as -> by (symmetry; apply (Z.div_unique (x + k) n (qx + qk) (mx + mk)); lia). lia.
  - assert ((x + k) / n = qx + qk + 1) as -> by (symmetry; apply (Z.div_unique (x + k) n (qx + qk + 1) (mx + mk - n)); lia). lia.
Qed.

(** over any k consecutive counter values, the positions of the available
    list are chosen evenly: the counts differ by at most one *)
Theorem round_robin_even n a k r1 r2 : 0 < n -> 0 <= r1 < n -> 0 <= r2 < n ->
  Z.abs (cnt n a k r1 - cnt n a k r2) <= 1.
Proof.
  intros Hn H1 H2. rewrite !cnt_closed by assumption.
  pose proof (div_window n (a - 1 - r1) (Z.of_nat k) Hn ltac:(lia)) as W1.
  pose proof (div_window n (a - 1 - r2) (Z.of_nat k) Hn ltac:(lia)) as W2.
  replace (a - 1 - r1 + Z.of_nat k) with (a + Z.of_nat k - 1 - r1) in W1 by lia.
  replace (a - 1 - r2 + Z.of_nat k) with (a + Z.of_nat k - 1 - r2) in W2 by lia.
  lia.
Qed.

(** the j-th of k successive round-robin picks uses counter c + j (no uint32
    wrap inside the window) and thus position (c + j) mod n of the available list *)
Fixpoint rr_picks (st : ustate) (k : nat) : list (option nat) :=
  match k with
  | O => []
  | S k' => let '(o, st') := next PRoundRobin 0 st in o :: rr_picks st' k'
  end.

Theorem rr_pick_positions st k : 0 <= rr st -> rr st + Z.of_nat k < two32 ->
  rr_picks st k = map (fun j => pick_index (servers st) (rr st + 1 + Z.of_nat j)) (seq 0 k).
Proof.
  revert st; induction k as [|k IH]; intros st H0 Hk; [reflexivity|].
  cbn [rr_picks next seq map]. rewrite Z.mod_small by (unfold two32 in *; lia).
  f_equal; [f_equal; lia|].
  rewrite IH; simpl; [|lia | unfold two32 in *; lia].
  rewrite <- seq_shift, map_map. apply map_ext. intros j. f_equal. lia.
Qed.

(** ** health-check rule *)
Theorem check_rule_spec max_fail fails cur : cur <> UIgnored ->
  check_rule max_fail fails cur = (if Nat.leb max_fail fails then USick else UHealthy).
Proof. destruct cur; simpl; congruence. Qed.
