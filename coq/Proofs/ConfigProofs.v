From Coq Require Import List Arith Bool NArith ZArith Lia.
From Pike Require Import Base.Bytes Model.Config.
Import ListNotations.

Lemma has_name_In {A} (nm : A -> bytes) l n : has_name nm l n = true <-> exists x, In x l /\ nm x = n.
Proof.
  unfold has_name. rewrite existsb_exists. split; intros (x & H1 & H2); exists x; split; auto.
  - apply beqb_spec; auto.
  - apply beqb_spec; auto.
Qed.

Lemma first_bad_ok l : first_bad l = VOk -> forall v, In v l -> v = VOk.
Proof.
  induction l as [|a r IH]; simpl; intros H v Hin; [contradiction|].
  destruct a; try discriminate. destruct Hin as [<-|Hin]; auto.
Qed.

(** ** C17: an accepted configuration is closed under references *)
Theorem validate_closed c : validate c = VOk ->
  fields_ok c = true /\
  (forall l, In l (pc_locations c) -> exists u, In u (pc_upstreams c) /\ up_name u = lo_upstream l) /\
  (forall s, In s (pc_servers c) ->
     (forall n, In n (sv_locations s) -> exists l, In l (pc_locations c) /\ lo_name l = n) /\
     (exists ca, In ca (pc_caches c) /\ ca_name ca = sv_cache s) /\
     (sv_compress s = [] \/ exists cc, In cc (pc_compresses c) /\ cc_name cc = sv_compress s)).
Proof.
  unfold validate. destruct (fields_ok c) eqn:F; simpl; [|discriminate].
  destruct (forallb (fun l => has_name up_name (pc_upstreams c) (lo_upstream l)) (pc_locations c)) eqn:U; simpl; [|discriminate].
  intros H. split; [reflexivity|]. split.
  - intros l Hl. rewrite forallb_forall in U. apply has_name_In. apply U. exact Hl.
  - intros s Hs. pose proof (first_bad_ok _ H (server_verdict c s) (in_map _ _ _ Hs)) as V.
    unfold server_verdict in V.
    destruct (forallb (has_name lo_name (pc_locations c)) (sv_locations s)) eqn:L; simpl in V; [|discriminate].
    destruct (is_empty_b (sv_cache s) || has_name ca_name (pc_caches c) (sv_cache s)) eqn:C; simpl in V; [|discriminate].
    destruct (is_empty_b (sv_compress s) || has_name cc_name (pc_compresses c) (sv_compress s)) eqn:P; simpl in V; [|discriminate].
    split; [|split].
    + intros n Hn. rewrite forallb_forall in L. apply has_name_In. apply L. exact Hn.
    + (* the cache name is required (non-empty) by the field rules *)
      assert (NE : is_empty_b (sv_cache s) = false).
      { unfold fields_ok in F. repeat (apply andb_prop in F; destruct F as [F ?]).
        match goal with H : forallb _ (pc_servers c) = true |- _ => rewrite forallb_forall in H; specialize (H s Hs) end.
        repeat match goal with H : _ && _ = true |- _ => apply andb_prop in H; destruct H end.
        unfold name_ok in *. repeat match goal with H : _ && _ = true |- _ => apply andb_prop in H; destruct H end.
        match goal with H : negb (is_empty_b (sv_cache s)) = true |- _ => apply negb_true_iff in H; exact H end. }
      rewrite NE in C. simpl in C. apply has_name_In. exact C.
    + apply orb_prop in P. destruct P as [P|P].
      * left. destruct (sv_compress s); [reflexivity | discriminate].
      * right. apply has_name_In. exact P.
Qed.

(** ** the registries after [update] *)
Lemma assoc_In {A} (l : list (bytes * A)) k v : assoc l k = Some v -> In (k, v) l.
Proof.
  induction l as [|[k' v'] r IH]; simpl; [discriminate|].
  destruct (beqb k k') eqn:E; [apply beqb_spec in E; subst; intros H; inversion H; auto | auto].
Qed.

Lemma assoc_some_iff {A} (l : list (bytes * A)) k : (exists v, assoc l k = Some v) <-> In k (map fst l).
Proof.
  induction l as [|[k' v'] r IH]; simpl.
  - split; [intros (v & H); discriminate | intros []].
  - destruct (beqb k k') eqn:E.
    + apply beqb_spec in E. subst. split; eauto.
    + rewrite IH. split; [auto|]. intros [H|H]; [|exact H]. subst. rewrite beqb_refl in E. discriminate.
Qed.

Lemma add_caches_spec names : forall cur gen,
  let '(cur', gen') := add_caches names cur gen in
  (forall n, In n (map fst cur') <-> In n (map fst cur) \/ In n names) /\
  (forall n g, assoc cur n = Some g -> assoc cur' n = Some g).
Proof.
  induction names as [|a r IH]; intros cur gen; simpl.
  - split; [intros n; tauto | auto].
  - destruct (assoc cur a) as [g0|] eqn:E.
    + specialize (IH cur gen). destruct (add_caches r cur gen) as [cur' gen']. destruct IH as [H1 H2].
      split; [|exact H2]. intros n. rewrite H1. split; [tauto|].
      intros [H|[<-|H]]; auto. left. apply assoc_some_iff. eauto.
    + specialize (IH (cur ++ [(a, gen)]) (S gen)). destruct (add_caches r (cur ++ [(a, gen)]) (S gen)) as [cur' gen'].
      destruct IH as [H1 H2]. split.
      * intros n. rewrite H1. rewrite map_app, in_app_iff. simpl. tauto.
      * intros n g Hg. apply H2. clear -Hg. induction cur as [|[k v] t IH]; simpl in *; [discriminate|].
        destruct (beqb n k); auto.
Qed.

Lemma caches_reset_names cs r n :
  In n (map fst (rg_caches (caches_reset cs r))) <-> In n (map ca_name cs).
Proof.
  unfold caches_reset.
  pose proof (add_caches_spec (map ca_name cs)
    (filter (fun e => existsb (beqb (fst e)) (map ca_name cs)) (rg_caches r)) (rg_next_gen r)) as S.
  destruct (add_caches _ _ _) as [cur gen]. destruct S as [S1 _]. simpl. rewrite S1. split; [|tauto].
  intros [H|H]; [|exact H]. apply in_map_iff in H. destruct H as ([k v] & <- & H). apply filter_In in H.
  destruct H as [_ H]. apply existsb_exists in H. destruct H as (x & Hx & E). apply beqb_spec in E. simpl in E. subst. exact Hx.
Qed.

(** surviving dispatchers are the same objects (their entries are retained) *)
Theorem caches_retained cs r n g :
  assoc (rg_caches r) n = Some g -> In n (map ca_name cs) -> assoc (rg_caches (caches_reset cs r)) n = Some g.
Proof.
  intros Hg Hn. unfold caches_reset.
  pose proof (add_caches_spec (map ca_name cs)
    (filter (fun e => existsb (beqb (fst e)) (map ca_name cs)) (rg_caches r)) (rg_next_gen r)) as S.
  destruct (add_caches _ _ _) as [cur gen]. destruct S as [_ S2]. simpl. apply S2.
  clear -Hg Hn. induction (rg_caches r) as [|[k v] t IH]; simpl in *; [discriminate|].
  destruct (beqb n k) eqn:E.
  - apply beqb_spec in E. subst k. inversion Hg; subst.
    assert (existsb (beqb n) (map ca_name cs) = true) as -> by (apply existsb_exists; exists n; split; [exact Hn | apply beqb_refl]).
    simpl. rewrite beqb_refl. reflexivity.
  - destruct (existsb (beqb k) (map ca_name cs)); simpl; [rewrite E|]; auto.
Qed.

(** every registered server state comes from a configured server *)
Definition from_cfg (legacy : bool) (ss : list server_cfg) (e : bytes * server_state) : Prop :=
  exists s, In s ss /\ fst e = sv_addr s /\ (snd e = new_server s \/ snd e = update_server legacy s).

Lemma servers_apply_from legacy : forall todo done cur,
  (forall e, In e cur -> from_cfg legacy done e \/ In (fst e) (map sv_addr todo)) ->
  forall e, In e (servers_apply legacy todo cur) -> from_cfg legacy (done ++ todo) e.
Proof.
  induction todo as [|s r IH]; intros done cur H e He; simpl in *.
  - rewrite app_nil_r. destruct (H e He) as [F|[]]. exact F.
  - replace (done ++ s :: r) with ((done ++ [s]) ++ r) by (rewrite <- app_assoc; reflexivity).
    eapply IH; [|exact He]. intros e' He'.
    assert (Mono : forall x, from_cfg legacy done x -> from_cfg legacy (done ++ [s]) x).
    { intros x (s0 & A & B & C). exists s0. split; [apply in_or_app; left; exact A | auto]. }
    destruct (assoc cur (sv_addr s)) eqn:E.
    + apply in_map_iff in He'. destruct He' as (e0 & <- & He0).
      destruct (beqb (fst e0) (sv_addr s)) eqn:B.
      * left. exists s. split; [apply in_or_app; right; left; reflexivity|]. simpl. apply beqb_spec in B. auto.
      * destruct (H e0 He0) as [F|[F|F]]; [left; apply Mono; exact F | | right; exact F].
        rewrite F in B. rewrite beqb_refl in B. discriminate.
    + apply in_app_or in He'. destruct He' as [He'|[<-|[]]].
      * destruct (H e' He') as [F|[F|F]]; [left; apply Mono; exact F | | right; exact F].
        exfalso. assert (exists v, assoc cur (sv_addr s) = Some v) as (v & Hv).
        { apply assoc_some_iff. rewrite F. apply in_map. exact He'. }
        congruence.
      * left. exists s. split; [apply in_or_app; right; left; reflexivity|]. simpl. auto.
Qed.

Lemma servers_reset_from legacy ss r e : In e (rg_servers (servers_reset legacy ss r)) -> from_cfg legacy ss e.
Proof.
  unfold servers_reset. simpl. intros H.
  refine (servers_apply_from legacy ss [] _ _ e H).
  intros e' He'. right. apply filter_In in He'. destruct He' as [_ He'].
  apply existsb_exists in He'. destruct He' as (x & Hx & E). apply beqb_spec in E. subst. exact Hx.
Qed.

(** ** C17: once applied — over ANY prior registry state — every server
    resolves its cache, its locations and their upstreams *)
Theorem apply_resolves legacy c r e :
  validate c = VOk -> In e (rg_servers (update legacy c r)) -> resolves (update legacy c r) (snd e) = true.
Proof.
  intros V He. destruct (validate_closed c V) as (F & VU & VS).
  unfold update, update_steps in *. cbn [last] in *.
  set (r1 := compress_reset legacy (pc_compresses c) r) in *.
  set (r2 := caches_reset (pc_caches c) r1) in *.
  destruct (servers_reset_from legacy (pc_servers c) _ e He) as (s & Hs & _ & Hst).
  destruct (VS s Hs) as (VL & (ca & Hca & Eca) & _).
  assert (Fields : ss_locations (snd e) = sv_locations s /\ ss_cache (snd e) = sv_cache s)
    by (destruct Hst as [-> | ->]; split; reflexivity).
  destruct Fields as [EL EC]. unfold resolves. simpl. rewrite EL, EC.
  apply andb_true_intro. split; [apply andb_true_intro; split|].
  - assert (In (sv_cache s) (map fst (rg_caches r2))).
    { apply caches_reset_names. rewrite <- Eca. apply in_map. exact Hca. }
    apply assoc_some_iff in H. destruct H as (g & ->). reflexivity.
  - apply forallb_forall. intros n Hn. destruct (VL n Hn) as (l & Hl & El).
    apply existsb_exists. exists l. split; [exact Hl | apply beqb_spec; exact El].
  - apply forallb_forall. intros l Hl. apply orb_true_intro. right.
    destruct (VU l Hl) as (u & Hu & Eu). apply existsb_exists. exists u. split; [apply in_rev in Hu; exact Hu | apply beqb_spec; exact Eu].
Qed.
