(** The composed cache (Model/Multi.v): every key's component of every
    reachable state is a reachable state of the per-key protocol (so every
    per-key theorem holds in the composition), the dispatcher holds a key
    exactly when the key's protocol has a resident entry, and a step on one
    key touches another key by at most one eviction. *)
From Coq Require Import List Arith Bool NArith ZArith Lia.
From Pike Require Import Model.LRU Model.Dispatcher Model.Sys Model.Multi.
From Pike Require Import Proofs.LRUProofs Proofs.DispatcherProofs Proofs.SysInv Proofs.SysStep.
From Pike Require Proofs.SysTheorems.
Import ListNotations.

(** ** per-key facts about [Sys.step] *)

Lemma run_snoc ls : forall s0 s l s', run s0 ls = Some s -> step s l = Some s' -> run s0 (ls ++ [l]) = Some s'.
Proof.
  induction ls as [|a r IH]; simpl; intros s0 s l s' H Hs.
  - inversion H; subst. rewrite Hs. reflexivity.
  - destruct (step s0 a) eqn:E; [|discriminate]. eapply IH; eauto.
Qed.

(** reachable per-key states for a given configuration *)
Definition kreach (h : Z) (st0 : bool) (s : Sys.state) : Prop :=
  exists t0 ls, (0 <= t0)%Z /\ run (init t0 h st0 false) ls = Some s.

Lemma kreach_init h st0 t0 : (0 <= t0)%Z -> kreach h st0 (init t0 h st0 false).
Proof. intros H. exists t0, []. split; [exact H | reflexivity]. Qed.

Lemma kreach_step h st0 s l s' : kreach h st0 s -> step s l = Some s' -> kreach h st0 s'.
Proof.
  intros (t0 & ls & Ht & H) Hs. exists t0, (ls ++ [l]). split; [exact Ht | eapply run_snoc; eauto].
Qed.

Lemma kreach_inv h st0 s : kreach h st0 s -> Inv s.
Proof. intros (t0 & ls & Ht & H). eapply inv_reachable; eauto. Qed.

Lemma step_evict s : step s Evict = Some (set_cur s None).
Proof. reflexivity. Qed.

(** which labels leave the resident generation alone *)
Definition keeps_cur (s : Sys.state) (l : Sys.label) : bool :=
  match l with
  | Arrive _ | Tick _ | Corrupt _ => true
  | Run i _ => negb (at_lookup s i)
  | _ => false
  end.

Lemma step_keeps_cur s l s' : step s l = Some s' -> keeps_cur s l = true -> cur s' = cur s.
Proof.
  intros H K. destruct l as [pass| d | i c | ok | | | sc]; simpl in K; try discriminate.
  - simpl in H. inversion H; subst. destruct pass; reflexivity.
  - simpl in H. destruct (0 <=? d)%Z; inversion H; subst; reflexivity.
  - unfold at_lookup in K. cbn [step] in H.
    destruct (nth_error (ts s) i) as [p|] eqn:Ep; [|discriminate].
    destruct p; try discriminate;
      repeat match type of H with
             | Some _ = Some _ => inversion H; subst; clear H; reflexivity
             | None = Some _ => discriminate
             | context [match ?x with _ => _ end] => destruct x eqn:?
             | context [if ?x then _ else _] => destruct x eqn:?
             end.
  - simpl in H. destruct (has_store s); inversion H; subst; reflexivity.
Qed.

Lemma step_lookup_cur s i c s' : at_lookup s i = true -> step s (Run i c) = Some s' -> cur s' <> None.
Proof.
  unfold at_lookup. intros A H. cbn [step] in H.
  destruct (nth_error (ts s) i) as [p|]; [|discriminate]. destruct p; try discriminate.
  destruct (cur s) eqn:C; inversion H; subst; simpl; rewrite ?C; discriminate.
Qed.

Lemma step_purge_cur s ok s' : step s (Purge ok) = Some s' -> cur s' = None.
Proof. simpl. intros H. inversion H; subst. destruct (has_store s && ok); reflexivity. Qed.

Lemma step_crash_cur s s' : step s Crash = Some s' -> cur s' = None.
Proof. simpl. intros H. inversion H; subst. reflexivity. Qed.

(** the clock of a per-key state moves only with [Tick] *)
Lemma step_now s l s' : step s l = Some s' ->
  now s' = match l with Tick d => (now s + d)%Z | _ => now s end.
Proof.
  intros H. destruct l as [pass| d | i c | ok | | | sc].
  - simpl in H. inversion H; subst. destruct pass; reflexivity.
  - simpl in H. destruct (0 <=? d)%Z; inversion H; subst; reflexivity.
  - cbn [step] in H.
    destruct (nth_error (ts s) i) as [p|] eqn:Ep; [|discriminate].
    destruct p; try discriminate;
      repeat match type of H with
             | Some _ = Some _ => inversion H; subst; clear H; reflexivity
             | None = Some _ => discriminate
             | context [match ?x with _ => _ end] => destruct x eqn:?
             | context [if ?x then _ else _] => destruct x eqn:?
             end.
  - simpl in H. inversion H; subst. destruct (has_store s && ok); reflexivity.
  - simpl in H. inversion H; subst. reflexivity.
  - simpl in H. inversion H; subst. reflexivity.
  - simpl in H. destruct (has_store s); inversion H; subst; reflexivity.
Qed.

Section MultiProofs.
  Context {K : Type}.
  Variable keqb : K -> K -> bool.
  Hypothesis keqb_spec : forall a b, keqb a b = true <-> a = b.
  Variable hash : K -> N.

  Notation mstate := (@mstate K).
  Notation sys_of := (sys_of keqb).
  Notation set_sys := (set_sys keqb).
  Notation mstep := (mstep keqb hash).
  Notation mrun := (mrun keqb hash).
  Notation live := (live keqb).
  Notation held := (held keqb hash).
  Notation assoc := (assoc keqb).
  Notation set_assoc := (set_assoc keqb).
  Notation evict_all := (evict_all keqb).
  Notation mem := (mem keqb).

  Lemma keqb_refl' k : keqb k k = true. Proof. apply keqb_spec. reflexivity. Qed.
  Lemma keqb_ne a b : a <> b -> keqb a b = false.
  Proof. intros H. destruct (keqb a b) eqn:E; [apply keqb_spec in E; contradiction | reflexivity]. Qed.

  Lemma mem_In k l : mem k l = true <-> In k l.
  Proof.
    unfold Multi.mem. rewrite existsb_exists. split.
    - intros (x & Hx & E). apply keqb_spec in E. subst. exact Hx.
    - intros H. exists k. split; [exact H | apply keqb_refl'].
  Qed.

  Lemma mem_eq k a b : (In k a <-> In k b) -> mem k a = mem k b.
  Proof.
    intros H. destruct (mem k a) eqn:Ea, (mem k b) eqn:Eb; try reflexivity.
    - apply mem_In in Ea. apply H in Ea. apply mem_In in Ea. congruence.
    - apply mem_In in Eb. apply H in Eb. apply mem_In in Eb. congruence.
  Qed.

  Lemma assoc_set_same k s l : assoc k (set_assoc k s l) = Some s.
  Proof.
    induction l as [|[k' s'] r IH]; simpl.
    - rewrite keqb_refl'. reflexivity.
    - destruct (keqb k k') eqn:E; simpl; [rewrite keqb_refl'; reflexivity | rewrite E; exact IH].
  Qed.

  Lemma assoc_set_other k k2 s l : k2 <> k -> assoc k2 (set_assoc k s l) = assoc k2 l.
  Proof.
    intros Hne. induction l as [|[k' s'] r IH]; simpl.
    - rewrite keqb_ne by exact Hne. reflexivity.
    - destruct (keqb k k') eqn:E; simpl.
      + apply keqb_spec in E. subst k'. rewrite keqb_ne by exact Hne. reflexivity.
      + destruct (keqb k2 k'); [reflexivity | exact IH].
  Qed.

  Lemma sys_of_set_same m k s : sys_of (set_sys m k s) k = s.
  Proof. unfold Multi.sys_of, Multi.set_sys; simpl. rewrite assoc_set_same. reflexivity. Qed.

  Lemma sys_of_set_other m k k2 s : k2 <> k -> sys_of (set_sys m k s) k2 = sys_of m k2.
  Proof. intros H. unfold Multi.sys_of, Multi.set_sys; simpl. rewrite assoc_set_other by exact H. reflexivity. Qed.

  Lemma sys_of_set_disp m d k : sys_of (set_disp m d) k = sys_of m k.
  Proof. reflexivity. Qed.

  (** [evict_all]: every listed key loses its resident generation, nothing else changes *)
  Lemma evict_all_params ks : forall m,
    m_disp (evict_all m ks) = m_disp m /\ m_now (evict_all m ks) = m_now m /\
    m_hfp (evict_all m ks) = m_hfp m /\ m_store (evict_all m ks) = m_store m.
  Proof.
    induction ks as [|k r IH]; intros m; simpl; [auto|].
    destruct (IH (set_sys m k (set_cur (sys_of m k) None))) as (A & B & C & D).
    rewrite A, B, C, D. auto.
  Qed.

  Lemma evict_all_sys ks : forall m k2,
    sys_of (evict_all m ks) k2 = if mem k2 ks then set_cur (sys_of m k2) None else sys_of m k2.
  Proof.
    induction ks as [|k r IH]; intros m k2; simpl; [reflexivity|].
    rewrite IH.
    destruct (keqb k2 k) eqn:E; simpl.
    - apply keqb_spec in E. subst k2. rewrite sys_of_set_same. destruct (mem k r); reflexivity.
    - assert (k2 <> k) by (intros ->; rewrite keqb_refl' in E; discriminate).
      rewrite sys_of_set_other by assumption. reflexivity.
  Qed.

  (** [all_step] *)
  Lemma all_step_assoc l ks : forall ks', all_step l ks = Some ks' ->
    forall k, match assoc k ks with
              | Some s => exists s', step s l = Some s' /\ assoc k ks' = Some s'
              | None => assoc k ks' = None
              end.
  Proof.
    induction ks as [|[k0 s0] r IH]; simpl; intros ks' H k.
    - inversion H; subst. reflexivity.
    - destruct (step s0 l) as [s0'|] eqn:E; [|discriminate].
      destruct (all_step l r) as [r'|] eqn:Er; [|discriminate]. inversion H; subst. simpl.
      destruct (keqb k k0); [exists s0'; auto | apply IH; reflexivity].
  Qed.

  (** ** the invariant of the composition *)
  Record MInv (m : mstate) : Prop := {
    mi_now : (0 <= m_now m)%Z;
    mi_disp : DInv hash (m_disp m);
    mi_reach : forall k, kreach (m_hfp m) (m_store m) (sys_of m k);
    mi_couple : forall k, live m k = held m k
  }.

  Lemma live_init d t0 h st0 k : live (minit d t0 h st0) k = false.
  Proof. reflexivity. Qed.

  Lemma nth_repeat_nil {A} z i : nth i (repeat (@nil A) z) [] = [].
  Proof. revert i; induction z as [|z IH]; intros [|i]; simpl; auto. Qed.

  Lemma held_mk_disp z lim t0 h st0 k ks :
    held {| m_disp := mk_disp z lim; m_keys := ks; m_now := t0; m_hfp := h; m_store := st0 |} k = false.
  Proof. unfold Multi.held, shard_keys; simpl. set (x := nth _ _ _). assert (Hx : x = []) by (subst x; apply nth_repeat_nil). rewrite Hx. reflexivity. Qed.

  Lemma minit_inv z lim t0 h st0 : 0 < z -> (0 <= t0)%Z -> MInv (minit (mk_disp z lim) t0 h st0).
  Proof.
    intros Hz Ht. constructor; simpl.
    - exact Ht.
    - apply mk_disp_inv. exact Hz.
    - intros k. apply kreach_init. exact Ht.
    - intros k. rewrite live_init. symmetry. apply held_mk_disp.
  Qed.

  (** a protocol step on key [k] that keeps its resident generation *)
  Lemma key_step_inv m k l m' :
    MInv m -> key_step keqb m k l = Some m' -> keeps_cur (sys_of m k) l = true -> MInv m'.
  Proof.
    intros I H Kc. unfold key_step in H. destruct (step (sys_of m k) l) as [s'|] eqn:E; [|discriminate].
    inversion H; subst m'; clear H. constructor; simpl.
    - apply (mi_now _ I).
    - apply (mi_disp _ I).
    - intros k2. destruct (keqb k2 k) eqn:E2.
      + apply keqb_spec in E2. subst k2. rewrite sys_of_set_same. eapply kreach_step; [apply (mi_reach _ I) | exact E].
      + assert (k2 <> k) by (intros ->; rewrite keqb_refl' in E2; discriminate).
        rewrite sys_of_set_other by assumption. apply (mi_reach _ I).
    - intros k2. unfold Multi.held; simpl. fold (held m k2). rewrite <- (mi_couple _ I). unfold Multi.live.
      destruct (keqb k2 k) eqn:E2.
      + apply keqb_spec in E2. subst k2. rewrite sys_of_set_same. rewrite (step_keeps_cur _ _ _ E Kc). reflexivity.
      + assert (k2 <> k) by (intros ->; rewrite keqb_refl' in E2; discriminate).
        rewrite sys_of_set_other by assumption. reflexivity.
  Qed.

  (** keys of a shard after the dispatcher's get-or-create *)
  Lemma lookup_shard_keys d k : DInv hash d ->
    let i := shard_index hash d k in
    let d' := snd (get_http_cache keqb hash d k) in
    zones d' = zones d /\
    In k (shard_keys d' i) /\
    (forall x, In x (shard_keys d' i) -> x = k \/ In x (shard_keys d i)) /\
    (forall j, j <> i -> shard_keys d' j = shard_keys d j).
  Proof.
    intros I. cbv zeta.
    pose proof (shard_index_lt hash d k (di_zones _ _ I)) as Hi.
    assert (Hl : shard_index hash d k < length (shards d)) by (rewrite (di_len _ _ I); exact Hi).
    unfold get_http_cache, shard_keys.
    remember (shard_index hash d k) as i eqn:Hieq.
    remember (nth i (shards d) []) as sh eqn:Hsh.
    destruct (get keqb k sh) as [[id|] sh'] eqn:G; simpl.
    - assert (Hs : sh' = snd (get keqb k sh)) by (rewrite G; reflexivity).
      rewrite nth_upd_same by exact Hl. repeat split.
      + rewrite Hs. apply (get_keys_same keqb keqb_spec). apply (get_hit_iff keqb keqb_spec). rewrite G. simpl. eauto.
      + intros x Hx. right. rewrite Hs in Hx. apply (get_keys_same keqb keqb_spec) in Hx. exact Hx.
      + intros j Hj. rewrite nth_upd_other by congruence. reflexivity.
    - rewrite nth_upd_same by exact Hl. repeat split.
      + apply in_map_iff. exists (k, next_id d). split; [reflexivity|].
        apply (add_In_new keqb). lia.
      + intros x Hx. apply in_map_iff in Hx. destruct Hx as ([x' v] & Ex & Hin). simpl in Ex. subst x'.
        apply (add_In_old keqb) in Hin. destruct Hin as [Hin|Hin].
        * inversion Hin; subst. left. reflexivity.
        * right. apply in_map_iff. exists (x, v). auto.
      + intros j Hj. rewrite nth_upd_other by congruence. reflexivity.
  Qed.

  (** a resident key lives in the shard its hash selects *)
  Lemma shard_keys_index d i x : DInv hash d -> i < zones d -> In x (shard_keys d i) -> shard_index hash d x = i.
  Proof.
    intros I Hi Hx. unfold shard_keys in Hx. apply in_map_iff in Hx. destruct Hx as ([x' v] & Ex & Hin). simpl in Ex. subst x'.
    pose proof (nth_shard hash d i I Hi) as Hn.
    destruct (di_own _ _ I i _ x v Hn Hin) as [_ E]. symmetry. exact E.
  Qed.

  Lemma mstep_inv m l m' : MInv m -> mstep m l = Some m' -> MInv m'.
  Proof.
    intros I H. destruct l as [k pass | d | k i c | k ok | | k sc]; simpl in H.
    - eapply key_step_inv; eauto.
    - (* clock *)
      destruct (all_step (Tick d) (m_keys m)) as [ks|] eqn:A; [|discriminate].
      destruct (0 <=? d)%Z eqn:Hd; [|discriminate]. inversion H; subst m'; clear H.
      assert (Hs : forall k, step (sys_of m k) (Tick d) = Some (sys_of {| m_disp := m_disp m; m_keys := ks; m_now := m_now m + d; m_hfp := m_hfp m; m_store := m_store m |} k)).
      { intros k. pose proof (all_step_assoc _ _ _ A k) as P. unfold Multi.sys_of; simpl.
        destruct (assoc k (m_keys m)) as [s|].
        - destruct P as (s' & E & E'). rewrite E'. exact E.
        - rewrite P. simpl. rewrite Hd. reflexivity. }
      pose proof (mi_now _ I) as Hn. apply Z.leb_le in Hd.
      constructor; simpl.
      + lia.
      + apply (mi_disp _ I).
      + intros k. eapply kreach_step; [apply (mi_reach _ I k) | apply Hs].
      + intros k. unfold Multi.held; simpl. fold (held m k). rewrite <- (mi_couple _ I). unfold Multi.live.
        rewrite (step_keeps_cur _ _ _ (Hs k) eq_refl). reflexivity.
    - (* a thread of key k *)
      destruct (at_lookup (sys_of m k) i) eqn:AL.
      + pose proof (mi_disp _ I) as DI.
        pose proof (lookup_shard_keys (m_disp m) k DI) as L. cbv zeta in L.
        pose proof (get_inv keqb keqb_spec hash (m_disp m) k DI) as DI'.
        destruct (get_http_cache keqb hash (m_disp m) k) as [[id hit] d'] eqn:G. simpl in L, DI'.
        destruct L as (Lz & Lk & Lsub & Loth).
        set (ix := shard_index hash (m_disp m) k) in *.
        set (ev := evicted keqb (m_disp m) d' ix) in *.
        unfold key_step in H.
        destruct (step (sys_of (evict_all (set_disp m d') ev) k) (Run i c)) as [s'|] eqn:E; [|discriminate].
        inversion H; subst m'; clear H.
        destruct (evict_all_params ev (set_disp m d')) as (Pd & Pn & Ph & Ps). simpl in Pd, Pn, Ph, Ps.
        assert (Hix : ix < zones (m_disp m)) by (apply shard_index_lt; apply (di_zones _ _ DI)).
        assert (Hev : forall x, mem x ev = true <-> In x (shard_keys (m_disp m) ix) /\ ~ In x (shard_keys d' ix)).
        { intros x. rewrite mem_In. unfold ev, evicted. rewrite filter_In. rewrite negb_true_iff.
          split; intros [A B]; split; auto.
          - intros C. apply mem_In in C. congruence.
          - destruct (Multi.mem keqb x (shard_keys d' ix)) eqn:M; [apply mem_In in M; contradiction | reflexivity]. }
        assert (Hk : mem k ev = false).
        { destruct (mem k ev) eqn:M; [|reflexivity]. apply Hev in M. destruct M as [_ M]. contradiction. }
        assert (Ek : sys_of (evict_all (set_disp m d') ev) k = sys_of m k).
        { rewrite evict_all_sys, Hk. reflexivity. }
        rewrite Ek in E.
        constructor; simpl; rewrite ?Pd, ?Pn, ?Ph, ?Ps.
        * apply (mi_now _ I).
        * exact DI'.
        * intros k2. destruct (keqb k2 k) eqn:E2.
          -- apply keqb_spec in E2. subst k2. rewrite sys_of_set_same. eapply kreach_step; [apply (mi_reach _ I k) | exact E].
          -- assert (k2 <> k) by (intros ->; rewrite keqb_refl' in E2; discriminate).
             rewrite sys_of_set_other by assumption. rewrite evict_all_sys. rewrite sys_of_set_disp.
             destruct (mem k2 ev); [|apply (mi_reach _ I)].
             eapply kreach_step; [apply (mi_reach _ I k2) | apply step_evict].
        * intros k2. unfold Multi.held; simpl. rewrite Pd. simpl.
          unfold shard_index at 1. rewrite Lz. fold (shard_index hash (m_disp m) k2).
          unfold Multi.live.
          destruct (keqb k2 k) eqn:E2.
          -- apply keqb_spec in E2. subst k2. rewrite sys_of_set_same.
             pose proof (step_lookup_cur _ _ _ _ AL E) as C. destruct (cur s'); [|contradiction].
             symmetry. apply mem_In. exact Lk.
          -- assert (Hne : k2 <> k) by (intros ->; rewrite keqb_refl' in E2; discriminate).
             rewrite sys_of_set_other by assumption. rewrite evict_all_sys, sys_of_set_disp.
             pose proof (mi_couple _ I k2) as Co. unfold Multi.live, Multi.held in Co.
             destruct (Nat.eq_dec (shard_index hash (m_disp m) k2) ix) as [Ej|Ej].
             ++ rewrite Ej in *. destruct (mem k2 ev) eqn:M.
                ** simpl. apply Hev in M. destruct M as [_ M]. symmetry.
                   destruct (mem k2 (shard_keys d' ix)) eqn:M2; [apply mem_In in M2; contradiction | reflexivity].
                ** rewrite Co. apply mem_eq. split; intros Hin.
                   --- destruct (mem k2 (shard_keys d' ix)) eqn:M2; [apply mem_In; exact M2|].
                       assert (mem k2 ev = true) by (apply Hev; split; [exact Hin | intros C; apply mem_In in C; congruence]).
                       congruence.
                   --- destruct (Lsub _ Hin) as [->|Hin']; [contradiction | exact Hin'].
             ++ rewrite (Loth _ Ej).
                destruct (mem k2 ev) eqn:M; [|exact Co].
                apply Hev in M. destruct M as [M _]. apply (shard_keys_index _ _ _ DI Hix) in M. contradiction.
      + eapply key_step_inv; eauto. simpl. rewrite AL. reflexivity.
    - (* purge *)
      pose proof (mi_disp _ I) as DI.
      unfold key_step in H. rewrite sys_of_set_disp in H.
      destruct (step (sys_of m k) (Purge ok)) as [s'|] eqn:E; [|discriminate].
      inversion H; subst m'; clear H.
      pose proof (remove_inv keqb hash (m_disp m) k DI) as DI'.
      constructor; simpl.
      + apply (mi_now _ I).
      + exact DI'.
      + intros k2. destruct (keqb k2 k) eqn:E2.
        * apply keqb_spec in E2. subst k2. rewrite sys_of_set_same. eapply kreach_step; [apply (mi_reach _ I k) | exact E].
        * assert (k2 <> k) by (intros ->; rewrite keqb_refl' in E2; discriminate).
          rewrite sys_of_set_other by assumption. apply (mi_reach _ I).
      + intros k2. unfold Multi.held, Multi.live; simpl.
        assert (Hz : shard_index hash (remove_http_cache keqb hash (m_disp m) k) k2 = shard_index hash (m_disp m) k2) by reflexivity.
        rewrite Hz.
        pose proof (shard_index_lt hash (m_disp m) k (di_zones _ _ DI)) as Hi.
        assert (Hl : shard_index hash (m_disp m) k < length (shards (m_disp m))) by (rewrite (di_len _ _ DI); exact Hi).
        destruct (keqb k2 k) eqn:E2.
        * apply keqb_spec in E2. subst k2. rewrite sys_of_set_same. rewrite (step_purge_cur _ _ _ E).
          symmetry. unfold shard_keys, remove_http_cache; simpl. rewrite nth_upd_same by exact Hl.
          destruct (mem k (keys (remove keqb k (nth (shard_index hash (m_disp m) k) (shards (m_disp m)) [])))) eqn:M; [|reflexivity].
          apply mem_In in M. exfalso. revert M. apply (keys_remove_not keqb keqb_spec).
          pose proof (di_nodup _ _ DI) as ND. rewrite Forall_forall in ND. apply ND.
          apply nth_In. exact Hl.
        * assert (Hne : k2 <> k) by (intros ->; rewrite keqb_refl' in E2; discriminate).
          rewrite sys_of_set_other by assumption. rewrite sys_of_set_disp.
          pose proof (mi_couple _ I k2) as Co. unfold Multi.live, Multi.held in Co. rewrite Co.
          apply mem_eq. unfold shard_keys.
          pose proof (remove_frame keqb keqb_spec hash (m_disp m) k k2 Hne) as F.
          rewrite <- !(find_Some_keys keqb keqb_spec). rewrite F. reflexivity.
    - (* crash *)
      destruct (all_step Crash (m_keys m)) as [ks|] eqn:A; [|discriminate]. inversion H; subst m'; clear H.
      set (m2 := {| m_disp := mk_disp (zones (m_disp m)) (limit (m_disp m)); m_keys := ks; m_now := m_now m; m_hfp := m_hfp m; m_store := m_store m |}).
      assert (Hs : forall k, step (sys_of m k) Crash = Some (sys_of m2 k) \/ sys_of m2 k = sys_of m k /\ cur (sys_of m k) = None).
      { intros k. pose proof (all_step_assoc _ _ _ A k) as P. unfold Multi.sys_of; simpl.
        destruct (assoc k (m_keys m)) as [s|].
        - destruct P as (s' & E & E'). rewrite E'. left. exact E.
        - rewrite P. right. split; reflexivity. }
      constructor; simpl.
      + apply (mi_now _ I).
      + apply mk_disp_inv. apply (di_zones _ _ (mi_disp _ I)).
      + intros k. destruct (Hs k) as [E|[E _]].
        * eapply kreach_step; [apply (mi_reach _ I k) | exact E].
        * fold m2. rewrite E. apply (mi_reach _ I k).
      + intros k. fold m2. unfold m2 at 2. rewrite held_mk_disp. unfold Multi.live.
        destruct (Hs k) as [E|[E C]].
        * rewrite (step_crash_cur _ _ E). reflexivity.
        * rewrite E, C. reflexivity.
    - eapply key_step_inv; eauto.
  Qed.

  Theorem minv_reachable z lim t0 h st0 ls m :
    0 < z -> (0 <= t0)%Z -> mrun (minit (mk_disp z lim) t0 h st0) ls = Some m -> MInv m.
  Proof.
    intros Hz Ht. assert (G : forall m0, MInv m0 -> mrun m0 ls = Some m -> MInv m).
    { induction ls as [|l r IH]; simpl; intros m0 I0 H.
      - inversion H; subst; exact I0.
      - destruct (mstep m0 l) eqn:E; [|discriminate]. eapply IH; [eapply mstep_inv; eauto | exact H]. }
    apply G. apply minit_inv; assumption.
  Qed.

  (** ** the dispatcher's shape never changes *)
  Lemma mstep_params m l m' : mstep m l = Some m' ->
    zones (m_disp m') = zones (m_disp m) /\ limit (m_disp m') = limit (m_disp m).
  Proof.
    assert (KS : forall m0 k lb m1, key_step keqb m0 k lb = Some m1 -> m_disp m1 = m_disp m0).
    { intros m0 k lb m1 Hk. unfold key_step in Hk. destruct (step (sys_of m0 k) lb); [|discriminate].
      inversion Hk; subst. reflexivity. }
    intros H. destruct l as [k pass | d | k i c | k ok | | k sc]; simpl in H.
    - apply KS in H. rewrite H. auto.
    - destruct (all_step (Tick d) (m_keys m)); [|discriminate]. destruct (0 <=? d)%Z; [|discriminate].
      inversion H; subst. auto.
    - destruct (at_lookup (sys_of m k) i).
      + pose proof (dstep_params keqb hash (m_disp m) (DGet k)) as P. simpl in P.
        destruct (get_http_cache keqb hash (m_disp m) k) as [[id hit] d'] eqn:G. simpl in P.
        apply KS in H. rewrite H. destruct (evict_all_params (evicted keqb (m_disp m) d' (shard_index hash (m_disp m) k)) (set_disp m d')) as (A & _).
        rewrite A. exact P.
      + apply KS in H. rewrite H. auto.
    - apply KS in H. rewrite H. auto.
    - destruct (all_step Crash (m_keys m)); [|discriminate]. inversion H; subst. auto.
    - apply KS in H. rewrite H. auto.
  Qed.

  Lemma mrun_params ls : forall m m', mrun m ls = Some m' ->
    zones (m_disp m') = zones (m_disp m) /\ limit (m_disp m') = limit (m_disp m).
  Proof.
    induction ls as [|l r IH]; simpl; intros m m' H.
    - inversion H; subst; auto.
    - destruct (mstep m l) as [m1|] eqn:E; [|discriminate].
      destruct (mstep_params _ _ _ E) as [A B]. destruct (IH _ _ H) as [C D]. rewrite C, D. auto.
  Qed.

  Lemma mstep_hfp_store m l m' : mstep m l = Some m' -> m_hfp m' = m_hfp m /\ m_store m' = m_store m.
  Proof.
    assert (KS : forall m0 k lb m1, key_step keqb m0 k lb = Some m1 -> m_hfp m1 = m_hfp m0 /\ m_store m1 = m_store m0).
    { intros m0 k lb m1 Hk. unfold key_step in Hk. destruct (step (sys_of m0 k) lb); [|discriminate].
      inversion Hk; subst. auto. }
    intros H. destruct l as [k pass | d | k i c | k ok | | k sc]; simpl in H.
    - eapply KS; eauto.
    - destruct (all_step (Tick d) (m_keys m)); [|discriminate]. destruct (0 <=? d)%Z; [|discriminate].
      inversion H; subst. auto.
    - destruct (at_lookup (sys_of m k) i).
      + destruct (get_http_cache keqb hash (m_disp m) k) as [[id hit] d'] eqn:G.
        apply KS in H. destruct H as [A B]. rewrite A, B.
        destruct (evict_all_params (evicted keqb (m_disp m) d' (shard_index hash (m_disp m) k)) (set_disp m d')) as (_ & _ & C & D).
        rewrite C, D. auto.
      + eapply KS; eauto.
    - apply KS in H. exact H.
    - destruct (all_step Crash (m_keys m)); [|discriminate]. inversion H; subst. auto.
    - eapply KS; eauto.
  Qed.

  Lemma mrun_hfp_store ls : forall m m', mrun m ls = Some m' -> m_hfp m' = m_hfp m /\ m_store m' = m_store m.
  Proof.
    induction ls as [|l r IH]; simpl; intros m m' H.
    - inversion H; subst; auto.
    - destruct (mstep m l) as [m1|] eqn:E; [|discriminate].
      destruct (mstep_hfp_store _ _ _ E) as [A B]. destruct (IH _ _ H) as [C D]. rewrite C, D. auto.
  Qed.

  (** ** keys with a resident entry are distinct elements of the shards *)
  Lemma length_flat_keys (l : list (@lru K entry_id)) : length (flat_map (@keys K entry_id) l) = total l.
  Proof.
    induction l as [|a r IH]; simpl; [reflexivity|].
    rewrite app_length, IH. unfold keys. rewrite map_length. reflexivity.
  Qed.

  Lemma held_in_shards m k : held m k = true -> In k (flat_map (@keys K entry_id) (shards (m_disp m))).
  Proof.
    unfold Multi.held, shard_keys. intros H. apply mem_In in H.
    set (i := shard_index hash (m_disp m) k) in *.
    destruct (Nat.lt_ge_cases i (length (shards (m_disp m)))) as [Hl|Hl].
    - apply in_flat_map. exists (nth i (shards (m_disp m)) []). split; [apply nth_In; exact Hl | exact H].
    - rewrite nth_overflow in H by exact Hl. contradiction.
  Qed.

  Theorem live_keys_bounded m ks :
    MInv m -> NoDup ks -> (forall k, In k ks -> live m k = true) -> length ks <= resident (m_disp m).
  Proof.
    intros I ND Hl. rewrite resident_total, <- length_flat_keys.
    apply NoDup_incl_length; [exact ND|].
    intros k Hk. apply held_in_shards. rewrite <- (mi_couple _ I). apply Hl. exact Hk.
  Qed.

  Theorem composed_bound c S t0 h st0 ls m ks :
    consts_ok c -> (0 <= t0)%Z ->
    mrun (minit (new_dispatcher c S) t0 h st0) ls = Some m ->
    NoDup ks -> (forall k, In k ks -> live m k = true) ->
    (Z.of_nat (length ks) <= eff_size c S)%Z.
  Proof.
    intros Hc Ht H ND Hl.
    assert (I : MInv m).
    { eapply minv_reachable; [| exact Ht | exact H]. apply zone_count_pos; exact Hc. }
    destruct (mrun_params _ _ _ H) as [Ez El]. unfold minit in Ez, El. cbn [m_disp] in Ez, El.
    destruct (new_dispatcher_limit (K:=K) c S Hc) as [H1 H2].
    pose proof (live_keys_bounded m ks I ND Hl) as B.
    pose proof (resident_le hash _ (mi_disp _ I)) as R.
    rewrite El, Ez in R. specialize (R H1). lia.
  Qed.

  (** ** one clock for all keys *)
  Definition Clk (m : mstate) : Prop := forall k, now (sys_of m k) = m_now m.

  Lemma clk_init d t0 h st0 : Clk (minit d t0 h st0).
  Proof. intros k. reflexivity. Qed.

  Lemma key_step_clk m k l m' : Clk m -> key_step keqb m k l = Some m' ->
    (forall d, l <> Tick d) -> Clk m'.
  Proof.
    intros C H NT k2. unfold key_step in H. destruct (step (sys_of m k) l) as [s'|] eqn:E; [|discriminate].
    inversion H; subst m'; clear H. simpl.
    destruct (keqb k2 k) eqn:E2.
    - apply keqb_spec in E2. subst k2. rewrite sys_of_set_same. rewrite (step_now _ _ _ E).
      destruct l; try apply C. exfalso. eapply NT; reflexivity.
    - assert (k2 <> k) by (intros ->; rewrite keqb_refl' in E2; discriminate).
      rewrite sys_of_set_other by assumption. apply C.
  Qed.

  Lemma mstep_clk m l m' : Clk m -> mstep m l = Some m' -> Clk m'.
  Proof.
    intros C H. destruct l as [k pass | d | k i c | k ok | | k sc]; simpl in H.
    - eapply key_step_clk; eauto. discriminate.
    - destruct (all_step (Tick d) (m_keys m)) as [ks|] eqn:A; [|discriminate].
      destruct (0 <=? d)%Z eqn:Hd; [|discriminate]. inversion H; subst m'; clear H.
      intros k. pose proof (all_step_assoc _ _ _ A k) as P. pose proof (C k) as Ck.
      unfold Multi.sys_of in *; cbn [m_keys m_now m_hfp m_store m_disp] in *.
      destruct (assoc k (m_keys m)) as [s|].
      + destruct P as (s' & E & E'). rewrite E'. rewrite (step_now _ _ _ E). rewrite Ck. reflexivity.
      + rewrite P. reflexivity.
    - destruct (at_lookup (sys_of m k) i).
      + destruct (get_http_cache keqb hash (m_disp m) k) as [[id hit] d'].
        set (ev := evicted keqb (m_disp m) d' (shard_index hash (m_disp m) k)) in *.
        assert (C1 : Clk (evict_all (set_disp m d') ev)).
        { intros k2. rewrite evict_all_sys, sys_of_set_disp.
          destruct (evict_all_params ev (set_disp m d')) as (_ & Pn & _). rewrite Pn. simpl.
          destruct (mem k2 ev); apply C. }
        eapply key_step_clk; [exact C1 | exact H | discriminate].
      + eapply key_step_clk; eauto. discriminate.
    - assert (C1 : Clk (set_disp m (remove_http_cache keqb hash (m_disp m) k))) by (intros k2; apply C).
      eapply key_step_clk; [exact C1 | exact H | discriminate].
    - destruct (all_step Crash (m_keys m)) as [ks|] eqn:A; [|discriminate]. inversion H; subst m'; clear H.
      intros k. pose proof (all_step_assoc _ _ _ A k) as P. pose proof (C k) as Ck.
      unfold Multi.sys_of in *; cbn [m_keys m_now m_hfp m_store m_disp] in *.
      destruct (assoc k (m_keys m)) as [s|].
      + destruct P as (s' & E & E'). rewrite E'. rewrite (step_now _ _ _ E). exact Ck.
      + rewrite P. reflexivity.
    - eapply key_step_clk; eauto. discriminate.
  Qed.

  Theorem clock_shared d t0 h st0 ls m : mrun (minit d t0 h st0) ls = Some m -> forall k, now (sys_of m k) = m_now m.
  Proof.
    assert (G : forall m0, Clk m0 -> mrun m0 ls = Some m -> Clk m).
    { induction ls as [|l r IH]; simpl; intros m0 C0 H.
      - inversion H; subst; exact C0.
      - destruct (mstep m0 l) eqn:E; [|discriminate]. eapply IH; [eapply mstep_clk; eauto | exact H]. }
    intros H. apply (G _ (clk_init d t0 h st0) H).
  Qed.

  (** ** a lookup never evicts the key it is for *)
  Lemma lookup_keeps_own m k : DInv hash (m_disp m) ->
    let d' := snd (get_http_cache keqb hash (m_disp m) k) in
    sys_of (evict_all (set_disp m d') (evicted keqb (m_disp m) d' (shard_index hash (m_disp m) k))) k = sys_of m k.
  Proof.
    intros DI. cbv zeta. pose proof (lookup_shard_keys (m_disp m) k DI) as L. cbv zeta in L.
    destruct L as (_ & Lk & _ & _). rewrite evict_all_sys, sys_of_set_disp.
    destruct (mem k _) eqn:M; [|reflexivity].
    apply mem_In in M. unfold evicted in M. apply filter_In in M. destruct M as [_ M].
    apply negb_true_iff in M. apply mem_In in Lk. unfold Multi.mem in *. congruence.
  Qed.

  (** ** progress: while any request of any key is unfinished, some request of
      some key can take a step (no schedule of the whole cache strands one) *)
  Theorem composed_progress m :
    MInv m -> (exists k j p, nth_error (ts (sys_of m k)) j = Some p /\ Pike.Proofs.SysTheorems.finished p = false) ->
    exists k i c m', mstep m (MRun k i c) = Some m'.
  Proof.
    intros I (k & j & p & Hj & Hf).
    destruct (Pike.Proofs.SysTheorems.no_deadlock (sys_of m k) (kreach_inv _ _ _ (mi_reach _ I k)) (ex_intro _ j (ex_intro _ p (conj Hj Hf))))
      as (i & c & s' & Hs).
    exists k, i, c. simpl. destruct (at_lookup (sys_of m k) i).
    - pose proof (lookup_keeps_own m k (mi_disp _ I)) as E. cbv zeta in E.
      destruct (get_http_cache keqb hash (m_disp m) k) as [[id hit] d']. simpl in E.
      unfold key_step. rewrite E, Hs. eauto.
    - unfold key_step. rewrite Hs. eauto.
  Qed.

  (** ** purge in the composed cache *)
  Theorem composed_purge m k ok m' :
    MInv m -> mstep m (MPurge k ok) = Some m' ->
    live m' k = false /\ held m' k = false /\
    (m_store m = true -> ok = true -> has_store (sys_of m k) = true -> store (sys_of m' k) = SNone).
  Proof.
    intros I H. pose proof (mstep_inv _ _ _ I H) as I'.
    simpl in H. unfold key_step in H. rewrite sys_of_set_disp in H.
    destruct (step (sys_of m k) (Purge ok)) as [s'|] eqn:E; [|discriminate].
    inversion H; subst m'; clear H.
    assert (L : live (set_sys (set_disp m (remove_http_cache keqb hash (m_disp m) k)) k s') k = false).
    { unfold Multi.live. rewrite sys_of_set_same. rewrite (step_purge_cur _ _ _ E). reflexivity. }
    split; [exact L|]. split; [rewrite <- (mi_couple _ I'); exact L|].
    intros _ Hok Hs. rewrite sys_of_set_same. simpl in E. inversion E; subst s'. rewrite Hs, Hok. reflexivity.
  Qed.

  (** ** restart of the composed cache: every key loses its resident entry and
      keeps exactly what the store holds for it *)
  Theorem composed_crash m m' : mstep m MCrash = Some m' ->
    forall k, live m' k = false /\ store (sys_of m' k) = store (sys_of m k).
  Proof.
    intros H k. simpl in H.
    destruct (all_step Crash (m_keys m)) as [ks|] eqn:A; [|discriminate]. inversion H; subst m'; clear H.
    pose proof (all_step_assoc _ _ _ A k) as P. unfold Multi.live, Multi.sys_of in *; cbn [m_keys m_now m_hfp m_store m_disp] in *.
    destruct (assoc k (m_keys m)) as [s|].
    - destruct P as (s' & E & E'). rewrite E'. simpl in E. inversion E; subst s'. split; reflexivity.
    - rewrite P. split; reflexivity.
  Qed.

  (** ** isolation: a step addressed to key [k] changes another key's protocol
      state by at most one eviction, and only a lookup can do that *)
  Theorem other_keys_frame m k l m' k2 :
    (l = MArrive k false \/ l = MArrive k true \/ (exists i c, l = MRun k i c) \/ (exists ok, l = MPurge k ok) \/ (exists sc, l = MCorrupt k sc)) ->
    mstep m l = Some m' -> k2 <> k ->
    sys_of m' k2 = sys_of m k2 \/
    ((exists i c, l = MRun k i c /\ at_lookup (sys_of m k) i = true) /\ sys_of m' k2 = set_cur (sys_of m k2) None).
  Proof.
    intros Hl H Hne.
    assert (KS : forall m0 lb m1, key_step keqb m0 k lb = Some m1 -> sys_of m1 k2 = sys_of m0 k2).
    { intros m0 lb m1 Hk. unfold key_step in Hk. destruct (step (sys_of m0 k) lb); [|discriminate].
      inversion Hk; subst. apply sys_of_set_other. exact Hne. }
    destruct Hl as [->|[->|[(i & c & ->)|[(ok & ->)|(sc & ->)]]]]; simpl in H.
    - left. eapply KS; eauto.
    - left. eapply KS; eauto.
    - destruct (at_lookup (sys_of m k) i) eqn:AL.
      + destruct (get_http_cache keqb hash (m_disp m) k) as [[id hit] d'].
        apply KS in H. rewrite H, evict_all_sys, sys_of_set_disp.
        destruct (mem k2 _); [right; split; [exists i, c; auto | reflexivity] | left; reflexivity].
      + left. eapply KS; eauto.
    - left. apply KS in H. rewrite H. reflexivity.
    - left. eapply KS; eauto.
  Qed.
End MultiProofs.
