(** The inductive invariant of the entry protocol (Model/Sys.v, repaired Get
    and initFromStore), for ALL label sequences: every schedule, every
    environment choice (upstream outcomes, store faults and corruption),
    purges, evictions, crashes, clock behaviour, unboundedly many threads. *)
From Coq Require Import List Arith Bool ZArith Lia.
From Pike Require Import Model.Sys Proofs.ListAux.
Import ListNotations.

Definition owner_on (e : eid) (p : pc) : bool :=
  match p with PFetch e' LFetching | PFetched e' _ => Nat.eqb e' e | _ => false end.
Definition sending_on (e : eid) (p : pc) : bool :=
  match p with PSending e' _ => Nat.eqb e' e | _ => false end.
Definition waiting_on (e : eid) (p : pc) : bool :=
  match p with PRegistered e' | PWait e' => Nat.eqb e' e | _ => false end.

Definition eref (p : pc) : option eid :=
  match p with
  | PGet e | PRegistered e | PWait e | PWoken e | PHitAge e _ | PFetch e _ | PFetched e _ | PSending e _ => Some e
  | _ => None
  end.

Definition b2n (b : bool) : nat := if b then 1 else 0.
Definition is_fetching (st0 : status) : bool := match st0 with Fetching => true | _ => false end.
Definition is_some {A} (o : option A) : bool := match o with Some _ => true | None => false end.

Record EInv (e : eid) (x : entry) (ths : list pc) : Prop := {
  i_owner : count (owner_on e) ths = b2n (is_fetching (st x));
  i_lock : forall h, elock x = Some h -> exists p, nth_error ths h = Some p /\ sending_on e p = true;
  i_sending : count (sending_on e) ths = b2n (is_some (elock x));
  i_sendq : elock x = None -> sendq x = [];
  i_waiters : forall j, In j (waitq x ++ sendq x) <->
                        exists p, nth_error ths j = Some p /\ waiting_on e p = true;
  i_nodup : NoDup (waitq x ++ sendq x);
  i_waitq : waitq x <> [] -> st x = Fetching;
  i_exp0 : st x = Unknown \/ st x = Fetching -> expired x = 0%Z;
  i_fetch_unlocked : st x = Fetching -> elock x = None;
  i_exp_pos : st x = Hit \/ st x = HitForPass -> (0 < expired x)%Z;
  i_hit_resp : st x = Hit -> resp x <> None
}.

Record Inv (s : state) : Prop := {
  inv_fixed : legacy s = false;
  inv_now : (0 <= now s)%Z;
  inv_base : base s <= length (gens s);
  inv_cur : forall e, cur s = Some e -> base s <= e < length (gens s);
  inv_ref : forall i p e, nth_error (ts s) i = Some p -> eref p = Some e -> base s <= e < length (gens s);
  inv_nowoken : forall i e, nth_error (ts s) i <> Some (PWoken e);
  inv_entries : forall e x, base s <= e -> nth_error (gens s) e = Some x -> EInv e x (ts s)
}.

(** ** changing one thread without changing its role on entry [e] *)
Lemma einv_thread e x ths i p p' :
  EInv e x ths -> nth_error ths i = Some p ->
  owner_on e p' = owner_on e p -> sending_on e p' = sending_on e p -> waiting_on e p' = waiting_on e p ->
  EInv e x (upd i p' ths).
Proof.
  intros I Hi Ho Hs Hw. pose proof (nth_error_lt _ _ _ Hi) as Hlt.
  destruct I as [I1 I2 I3 I4 I5 I6 I7 I8 I9 I10 I11].
  constructor; auto.
  - rewrite (count_upd_same _ _ _ _ _ Hi Ho). exact I1.
  - intros h Hh. destruct (I2 h Hh) as (q & Hq & Sq). rewrite nth_error_upd.
    destruct (Nat.eqb_spec i h) as [->|Hne].
    + apply Nat.ltb_lt in Hlt. rewrite Hlt. exists p'. split; [reflexivity|]. congruence.
    + exists q. auto.
  - rewrite (count_upd_same _ _ _ _ _ Hi Hs). exact I3.
  - intros j. rewrite I5. rewrite nth_error_upd. destruct (Nat.eqb_spec i j) as [->|Hne].
    + apply Nat.ltb_lt in Hlt. rewrite Hlt. split.
      * intros (q & Hq & Wq). exists p'. split; [reflexivity|]. congruence.
      * intros (q & Hq & Wq). inversion Hq; subst. exists p. split; [exact Hi|]. congruence.
    + tauto.
Qed.

Definition neutral (e : eid) (p : pc) : Prop :=
  owner_on e p = false /\ sending_on e p = false /\ waiting_on e p = false.

Lemma einv_neutral e x ths i p p' :
  EInv e x ths -> nth_error ths i = Some p -> neutral e p -> neutral e p' -> EInv e x (upd i p' ths).
Proof.
  intros I Hi (A1 & A2 & A3) (B1 & B2 & B3). eapply einv_thread; eauto; congruence.
Qed.

Lemma einv_append e x ths p : EInv e x ths -> neutral e p -> EInv e x (ths ++ [p]).
Proof.
  intros [I1 I2 I3 I4 I5 I6 I7 I8 I9 I10 I11] (A1 & A2 & A3). constructor; auto.
  - rewrite count_app. unfold count at 2. simpl. rewrite A1. simpl. lia.
  - intros h Hh. destruct (I2 h Hh) as (q & Hq & Sq). exists q. split; [|exact Sq].
    rewrite nth_error_app1; [exact Hq | eapply nth_error_lt; eauto].
  - rewrite count_app. unfold count at 2. simpl. rewrite A2. simpl. lia.
  - intros j. rewrite I5. split.
    + intros (q & Hq & Wq). exists q. split; [|exact Wq]. rewrite nth_error_app1; [exact Hq | eapply nth_error_lt; eauto].
    + intros (q & Hq & Wq). destruct (Nat.lt_ge_cases j (length ths)) as [Hl|Hl].
      * rewrite nth_error_app1 in Hq by exact Hl. eauto.
      * rewrite nth_error_app2 in Hq by exact Hl. destruct (j - length ths) as [|k]; simpl in Hq.
        -- inversion Hq; subst. congruence.
        -- destruct k; discriminate.
Qed.

(** a pc that does not refer to [e] is neutral for [e] *)
Lemma eref_neutral e p : eref p <> Some e -> neutral e p.
Proof.
  intros H. unfold neutral, owner_on, sending_on, waiting_on.
  destruct p; simpl in *; auto; try (destruct l); repeat split; auto;
    try (apply Nat.eqb_neq; congruence).
Qed.

(** a fresh entry nobody refers to *)
Lemma einv_fresh e ths :
  (forall i p, nth_error ths i = Some p -> eref p <> Some e) -> EInv e fresh_entry ths.
Proof.
  intros H.
  assert (Z : forall f, (forall p, f p = true -> eref p = Some e) -> count f ths = 0).
  { intros f Hf. destruct (count f ths) eqn:E; [reflexivity|].
    destruct (count_pos_exists f ths ltac:(lia)) as (i & p & Hi & Fp). exfalso. eapply H; eauto. }
  constructor; simpl; auto; try discriminate; try tauto.
  - apply Z. intros p. unfold owner_on. destruct p; try discriminate; simpl.
    + destruct l; try discriminate. intros E. apply Nat.eqb_eq in E. congruence.
    + intros E. apply Nat.eqb_eq in E. congruence.
  - apply Z. intros p. unfold sending_on. destruct p; try discriminate. intros E. apply Nat.eqb_eq in E. simpl. congruence.
  - intros j. split; [intros []|]. intros (p & Hp & Wp). exfalso. eapply H; [exact Hp|].
    unfold waiting_on in Wp. destruct p; try discriminate; apply Nat.eqb_eq in Wp; simpl; congruence.
  - constructor.
  - intros [H1|H1]; discriminate.
Qed.

(** ** entry-level lemmas for the steps that write the entry *)

Lemma waitq_nil_unless_fetching e x ths : EInv e x ths -> st x <> Fetching -> waitq x = [].
Proof.
  intros I H. destruct (waitq x) eqn:E; [reflexivity|]. exfalso. apply H. apply (i_waitq _ _ _ I). congruence.
Qed.

(** what get() does before looking at the status: load (repaired) + expiry rule *)
Definition pre_get (s : state) (rd : bool) (x0 : entry) : entry :=
  expire (now_s s) (match st x0 with Unknown => load s rd x0 | _ => x0 end).

Lemma load_cases s rd x0 : legacy s = false ->
  load s rd x0 = x0 \/
  exists r, valid_record r = true /\
    load s rd x0 = mk_entry (sr_st r) (waitq x0) (sendq x0) (sr_resp r) (sr_created r) (sr_expired r) (elock x0).
Proof.
  intros L. unfold load. rewrite L.
  destruct (negb (has_store s) || negb rd); [left; reflexivity|].
  destruct (store s) as [|r|st0 rw]; [left; reflexivity | | left; reflexivity].
  simpl. destruct (valid_record r) eqn:V; [right; exists r; auto | left; reflexivity].
Qed.

Lemma valid_record_facts r : valid_record r = true ->
  (0 < sr_expired r)%Z /\ (sr_st r = Hit \/ sr_st r = HitForPass) /\ (sr_st r = Hit -> sr_resp r <> None).
Proof.
  unfold valid_record. intros H. apply andb_prop in H. destruct H as [H1 H2]. apply Z.ltb_lt in H1.
  split; [exact H1|]. destruct (sr_st r); try discriminate.
  - split; [right; reflexivity | discriminate].
  - destruct (sr_resp r); [|discriminate]. split; [left; reflexivity | intros _; discriminate].
Qed.

Lemma einv_load e x0 ths s rd : legacy s = false -> EInv e x0 ths -> st x0 = Unknown ->
  EInv e (load s rd x0) ths.
Proof.
  intros L I U. destruct (load_cases s rd x0 L) as [->|(r & V & ->)]; [exact I|].
  destruct (valid_record_facts r V) as (Vx & Vs & Vr).
  pose proof (waitq_nil_unless_fetching _ _ _ I ltac:(congruence)) as Wn.
  destruct I as [I1 I2 I3 I4 I5 I6 I7 I8 I9 I10 I11].
  constructor; simpl; auto.
  - rewrite I1, U. destruct Vs as [-> | ->]; reflexivity.
  - intros H. congruence.
  - intros [H|H]; destruct Vs; congruence.
  - intros H. destruct Vs; congruence.
Qed.

Lemma einv_expire e x ths t : EInv e x ths -> EInv e (expire t x) ths.
Proof.
  intros I. unfold expire.
  destruct (negb (expired x =? 0)%Z && (expired x <? t)%Z) eqn:F; [|exact I].
  apply andb_prop in F. destruct F as [F1 F2]. apply negb_true_iff in F1. apply Z.eqb_neq in F1.
  assert (NF : st x <> Fetching).
  { intros H. apply F1. apply (i_exp0 _ _ _ I). right; exact H. }
  pose proof (waitq_nil_unless_fetching _ _ _ I NF) as Wn.
  destruct I as [I1 I2 I3 I4 I5 I6 I7 I8 I9 I10 I11].
  constructor; simpl; auto.
  - rewrite I1. destruct (st x); try reflexivity. congruence.
  - intros H. congruence.
  - intros H. discriminate.
  - intros [H|H]; discriminate.
  - intros H; discriminate.
Qed.

Lemma einv_pre_get e x0 ths s rd : legacy s = false -> EInv e x0 ths -> EInv e (pre_get s rd x0) ths.
Proof.
  intros L I. unfold pre_get. apply einv_expire.
  destruct (st x0) eqn:U; auto. apply einv_load; auto.
Qed.

Lemma pre_get_lock s rd x0 : elock (pre_get s rd x0) = elock x0.
Proof.
  unfold pre_get, expire, load.
  destruct (st x0); simpl;
  repeat match goal with |- context [if ?b then _ else _] => destruct b; simpl end;
  try reflexivity; destruct (store s); simpl;
  repeat match goal with |- context [if ?b then _ else _] => destruct b; simpl end; reflexivity.
Qed.

Lemma NoDup_app_snoc {A} (l : list A) a : NoDup l -> ~ In a l -> NoDup (l ++ [a]).
Proof.
  intros ND Hn. induction ND as [|x r Hx ND IH]; simpl.
  - constructor; [intros [] | constructor].
  - constructor.
    + rewrite in_app_iff. simpl. intros [H|[H|[]]]; [contradiction|]. subst. apply Hn. left; reflexivity.
    + apply IH. intros H. apply Hn. right; exact H.
Qed.

Lemma neutral_not_in_queue e x ths i p :
  EInv e x ths -> nth_error ths i = Some p -> waiting_on e p = false -> ~ In i (waitq x ++ sendq x).
Proof.
  intros I Hi Hw Hin. apply (i_waiters _ _ _ I) in Hin. destruct Hin as (q & Hq & Wq). congruence.
Qed.

(** PGet on a Fetching entry: register as a waiter *)
Lemma einv_register e x ths i p :
  EInv e x ths -> nth_error ths i = Some p -> neutral e p -> st x = Fetching ->
  EInv e (mk_entry Fetching (waitq x ++ [i]) (sendq x) (resp x) (created x) (expired x) None)
       (upd i (PRegistered e) ths).
Proof.
  intros I Hi (N1 & N2 & N3) F. pose proof (nth_error_lt _ _ _ Hi) as Hlt.
  pose proof (neutral_not_in_queue _ _ _ _ _ I Hi N3) as Hnin.
  pose proof (i_fetch_unlocked _ _ _ I F) as Hul.
  destruct I as [I1 I2 I3 I4 I5 I6 I7 I8 I9 I10 I11].
  constructor; simpl.
  - rewrite (count_upd_same _ _ (PRegistered e) p _ Hi); [rewrite I1, F; reflexivity | simpl; congruence].
  - discriminate.
  - rewrite (count_upd_same _ _ (PRegistered e) p _ Hi); [rewrite I3, Hul; reflexivity | simpl; congruence].
  - intros _. apply I4. exact Hul.
  - intros j. rewrite nth_error_upd. rewrite <- app_assoc.
    destruct (Nat.eqb_spec i j) as [->|Hne].
    + apply Nat.ltb_lt in Hlt. rewrite Hlt. split.
      * intros _. exists (PRegistered e). split; [reflexivity|]. simpl. apply Nat.eqb_refl.
      * intros _. apply in_or_app. right. apply in_or_app. left. left. reflexivity.
    + rewrite <- I5. rewrite !in_app_iff. simpl. intuition.
  - rewrite (I4 Hul) in *. rewrite app_nil_r in *.
    apply NoDup_app_snoc; assumption.
  - reflexivity.
  - intros _. apply I8. right; exact F.
  - reflexivity.
  - intros [H|H]; discriminate.
  - discriminate.
Qed.

(** PGet on an Unknown entry: become the fetcher *)
Lemma einv_become_fetcher e x ths i p :
  EInv e x ths -> nth_error ths i = Some p -> neutral e p -> st x = Unknown -> elock x = None ->
  EInv e (mk_entry Fetching [] (sendq x) (resp x) (created x) (expired x) None)
       (upd i (PFetch e LFetching) ths).
Proof.
  intros I Hi (N1 & N2 & N3) U Hul. pose proof (nth_error_lt _ _ _ Hi) as Hlt.
  pose proof (waitq_nil_unless_fetching _ _ _ I ltac:(congruence)) as Wn.
  destruct I as [I1 I2 I3 I4 I5 I6 I7 I8 I9 I10 I11].
  constructor; simpl.
  - pose proof (count_upd (owner_on e) i (PFetch e LFetching) p ths Hi) as C.
    simpl in C. rewrite Nat.eqb_refl, N1, I1, U in C. simpl in *. lia.
  - discriminate.
  - rewrite (count_upd_same _ _ (PFetch e LFetching) p _ Hi); [rewrite I3, Hul; reflexivity | simpl; congruence].
  - intros _. apply I4. exact Hul.
  - intros j. rewrite Wn in I5. simpl in I5. rewrite I5. rewrite nth_error_upd.
    destruct (Nat.eqb_spec i j) as [->|Hne]; [|tauto].
    apply Nat.ltb_lt in Hlt. rewrite Hlt. split.
    + intros (q & Hq & Wq). congruence.
    + intros (q & Hq & Wq). inversion Hq; subst. discriminate.
  - rewrite Wn in I6. exact I6.
  - reflexivity.
  - intros _. apply I8. left; exact U.
  - reflexivity.
  - intros [H|H]; discriminate.
  - discriminate.
Qed.

(** PFetched: the fetcher writes the entry, takes the waiters over into the
    send queue and holds the lock *)
Lemma einv_complete e x ths i o (x' : entry) :
  EInv e x ths -> nth_error ths i = Some (PFetched e o) -> elock x = None ->
  (st x' = Hit \/ st x' = HitForPass) -> waitq x' = [] -> sendq x' = waitq x -> elock x' = Some i ->
  (0 < expired x')%Z -> (st x' = Hit -> resp x' <> None) ->
  EInv e x' (upd i (PSending e o) ths).
Proof.
  intros I Hi Hul Hst Hwq Hsq Hlk Hex Hrs. pose proof (nth_error_lt _ _ _ Hi) as Hlt.
  assert (F : st x = Fetching).
  { destruct (st x) eqn:E; try reflexivity; exfalso;
    pose proof (i_owner _ _ _ I) as C; rewrite E in C; simpl in C;
    pose proof (count_zero_all _ _ C i _ Hi) as Z; simpl in Z; rewrite Nat.eqb_refl in Z; discriminate. }
  destruct I as [I1 I2 I3 I4 I5 I6 I7 I8 I9 I10 I11].
  assert (NF : is_fetching (st x') = false) by (destruct Hst as [-> | ->]; reflexivity).
  constructor.
  - pose proof (count_upd (owner_on e) i (PSending e o) _ ths Hi) as C.
    simpl in C. rewrite Nat.eqb_refl, I1, F in C. rewrite NF. simpl in *. lia.
  - intros h Hh. rewrite Hlk in Hh. inversion Hh; subst h.
    exists (PSending e o). split; [apply nth_error_upd_same; exact Hlt | simpl; apply Nat.eqb_refl].
  - pose proof (count_upd (sending_on e) i (PSending e o) _ ths Hi) as C.
    simpl in C. rewrite Nat.eqb_refl, I3, Hul in C. rewrite Hlk. simpl in *. lia.
  - rewrite Hlk. discriminate.
  - intros j. rewrite Hwq, Hsq. simpl. rewrite (I4 Hul) in I5. rewrite app_nil_r in I5. rewrite I5.
    rewrite nth_error_upd. destruct (Nat.eqb_spec i j) as [->|Hne]; [|tauto].
    apply Nat.ltb_lt in Hlt. rewrite Hlt. split.
    + intros (q & Hq & Wq). rewrite Hi in Hq. inversion Hq; subst. discriminate.
    + intros (q & Hq & Wq). inversion Hq; subst. discriminate.
  - rewrite Hwq, Hsq. simpl. rewrite (I4 Hul) in I6. rewrite app_nil_r in I6. exact I6.
  - rewrite Hwq. congruence.
  - intros [H|H]; destruct Hst; congruence.
  - intros H; destruct Hst; congruence.
  - intros _. exact Hex.
  - exact Hrs.
Qed.

(** PSending with a non-empty send queue: wake the head waiter *)
Lemma einv_send e x ths i o w rest :
  EInv e x ths -> nth_error ths i = Some (PSending e o) -> sendq x = w :: rest ->
  nth_error ths w = Some (PWait e) ->
  EInv e (mk_entry (st x) (waitq x) rest (resp x) (created x) (expired x) (elock x))
       (upd w (PGet e) ths).
Proof.
  intros I Hi Hq Hw. pose proof (nth_error_lt _ _ _ Hw) as Hlt.
  destruct I as [I1 I2 I3 I4 I5 I6 I7 I8 I9 I10 I11].
  assert (Hnd : ~ In w (waitq x ++ rest)).
  { rewrite Hq in I6. apply NoDup_remove_2 in I6. exact I6. }
  constructor; simpl; auto.
  - rewrite (count_upd_same _ _ (PGet e) (PWait e) _ Hw); [exact I1 | reflexivity].
  - intros h Hh. destruct (I2 h Hh) as (q & Hqq & Sq). rewrite nth_error_upd.
    destruct (Nat.eqb_spec w h) as [->|Hne]; [|eauto].
    rewrite Hw in Hqq. inversion Hqq; subst. discriminate.
  - rewrite (count_upd_same _ _ (PGet e) (PWait e) _ Hw); [exact I3 | reflexivity].
  - intros Hn. specialize (I4 Hn). congruence.
  - intros j. rewrite nth_error_upd. destruct (Nat.eqb_spec w j) as [->|Hne].
    + apply Nat.ltb_lt in Hlt. rewrite Hlt. split; [intros H; contradiction|].
      intros (q & Hqq & Wq). inversion Hqq; subst. discriminate.
    + rewrite <- I5, Hq. rewrite !in_app_iff. simpl. intuition congruence.
  - rewrite Hq in I6. apply NoDup_remove_1 in I6. exact I6.
Qed.

(** PSending with an empty send queue: save (ignored here) and unlock *)
Lemma einv_unlock e x ths i o p' :
  EInv e x ths -> nth_error ths i = Some (PSending e o) -> sendq x = [] -> neutral e p' ->
  EInv e (mk_entry (st x) (waitq x) [] (resp x) (created x) (expired x) None) (upd i p' ths).
Proof.
  intros I Hi Hq (N1 & N2 & N3). pose proof (nth_error_lt _ _ _ Hi) as Hlt.
  destruct I as [I1 I2 I3 I4 I5 I6 I7 I8 I9 I10 I11].
  assert (Hlk : elock x <> None).
  { intros Hn. rewrite Hn in I3. simpl in I3.
    pose proof (count_zero_all _ _ I3 i _ Hi) as Z. simpl in Z. rewrite Nat.eqb_refl in Z. discriminate. }
  constructor; simpl; auto.
  - rewrite (count_upd_same _ _ p' (PSending e o) _ Hi); [exact I1 | rewrite N1; reflexivity].
  - discriminate.
  - pose proof (count_upd (sending_on e) i p' _ ths Hi) as C. simpl in C.
    rewrite Nat.eqb_refl, N2, I3 in C. destruct (elock x); [simpl in *; lia | congruence].
  - intros j. rewrite Hq in I5. rewrite I5. rewrite nth_error_upd.
    destruct (Nat.eqb_spec i j) as [->|Hne]; [|tauto].
    apply Nat.ltb_lt in Hlt. rewrite Hlt. split.
    + intros (q & Hqq & Wq). rewrite Hi in Hqq. inversion Hqq; subst. discriminate.
    + intros (q & Hqq & Wq). inversion Hqq; subst. congruence.
  - rewrite Hq in I6. exact I6.
Qed.

(** ** lifting to the whole state *)

Definition same_roles (q q' : pc) : Prop :=
  forall e, owner_on e q' = owner_on e q /\ sending_on e q' = sending_on e q /\ waiting_on e q' = waiting_on e q.

Lemma inv_thread_only s s' j q q' :
  Inv s -> nth_error (ts s) j = Some q -> same_roles q q' ->
  (forall e, eref q' = Some e -> base s <= e < length (gens s)) ->
  (forall e, q' <> PWoken e) ->
  ts s' = upd j q' (ts s) -> gens s' = gens s -> base s' = base s -> cur s' = cur s ->
  legacy s' = legacy s -> now s' = now s ->
  Inv s'.
Proof.
  intros I Hj SR Hr Hw Ets Eg Eb Ec El En.
  destruct I as [F N B C R W E].
  constructor; rewrite ?Ets, ?Eg, ?Eb, ?Ec, ?El, ?En; auto.
  - intros i p e Hi He. rewrite nth_error_upd in Hi. destruct (Nat.eqb_spec j i) as [->|Hne].
    + destruct (Nat.ltb (length (ts s)) (length (ts s))); destruct (Nat.ltb i (length (ts s))); try discriminate;
      inversion Hi; subst; auto.
    + eauto.
  - intros i e Hi. rewrite nth_error_upd in Hi. destruct (Nat.eqb_spec j i) as [->|Hne].
    + destruct (Nat.ltb i (length (ts s))); try discriminate. inversion Hi. eapply Hw; eauto.
    + eapply W; eauto.
  - intros e x Hb Hx. destruct (SR e) as (S1 & S2 & S3). eapply einv_thread; eauto.
Qed.

Lemma upd_nth_error_other_gen {A} (l : list A) e0 x' e : e <> e0 -> nth_error (upd e0 x' l) e = nth_error l e.
Proof. intros H. apply nth_error_upd_other. congruence. Qed.

Lemma inv_update s s' j q q' e0 x' :
  Inv s -> nth_error (ts s) j = Some q ->
  (forall e, eref q = Some e -> e = e0) -> (forall e, eref q' = Some e -> e = e0) ->
  (forall e, q' <> PWoken e) ->
  base s <= e0 < length (gens s) ->
  EInv e0 x' (upd j q' (ts s)) ->
  ts s' = upd j q' (ts s) -> gens s' = upd e0 x' (gens s) -> base s' = base s -> cur s' = cur s ->
  legacy s' = legacy s -> now s' = now s ->
  Inv s'.
Proof.
  intros I Hj Hq Hq' Hw He0 IE Ets Eg Eb Ec El En.
  destruct I as [F N B C R W E].
  constructor; rewrite ?Ets, ?Eg, ?Eb, ?Ec, ?El, ?En, ?upd_length; auto.
  - intros i p e Hi He. rewrite nth_error_upd in Hi. destruct (Nat.eqb_spec j i) as [->|Hne].
    + destruct (Nat.ltb i (length (ts s))); try discriminate. inversion Hi; subst.
      rewrite (Hq' e He). exact He0.
    + eauto.
  - intros i e Hi. rewrite nth_error_upd in Hi. destruct (Nat.eqb_spec j i) as [->|Hne].
    + destruct (Nat.ltb i (length (ts s))); try discriminate. inversion Hi. eapply Hw; eauto.
    + eapply W; eauto.
  - intros e x Hb Hx. destruct (Nat.eq_dec e e0) as [->|Hne].
    + rewrite nth_error_upd_same in Hx by lia. inversion Hx; subst. exact IE.
    + rewrite upd_nth_error_other_gen in Hx by exact Hne.
      eapply einv_neutral; [eapply E; eauto | exact Hj | |]; apply eref_neutral; intros H.
      * apply Hq in H. congruence.
      * apply Hq' in H. congruence.
Qed.

Lemma upd_same {A} (l : list A) i x : nth_error l i = Some x -> upd i x l = l.
Proof. revert i; induction l as [|a r IH]; intros [|i] H; simpl in *; try discriminate; [congruence | f_equal; auto]. Qed.

Lemma inv_init t0 h st0 : (0 <= t0)%Z -> Inv (init t0 h st0 false).
Proof.
  intros H. constructor; simpl; auto; try lia.
  - discriminate.
  - intros i p e Hi. destruct i; discriminate.
  - intros i e Hi. destruct i; discriminate.
  - intros e x _ Hx. destruct e; discriminate.
Qed.

Lemma now_s_nonneg s : (0 <= now s)%Z -> (0 <= now_s s)%Z.
Proof. intros H. unfold now_s. apply Z.div_pos; lia. Qed.

Lemma eff_hfp_pos s : (0 < eff_hfp s)%Z.
Proof. unfold eff_hfp, default_hfp. destruct (Z.leb_spec (hfp s) 0); lia. Qed.
