(** Consequences of the invariant: single flight (C01), progress and
    termination (C02), and the step-level facts behind C04, C07, C10, C18. *)
From Coq Require Import List Arith Bool ZArith Lia Relation_Operators Wellfounded Wf_nat.
From Pike Require Import Model.Sys Proofs.ListAux Proofs.SysInv Proofs.SysStep.
Import ListNotations.

(** ** C01 *)
Theorem single_flight s e x : Inv s -> base s <= e -> nth_error (gens s) e = Some x ->
  count (owner_on e) (ts s) <= 1 /\
  (count (owner_on e) (ts s) = 1 <-> st x = Fetching).
Proof.
  intros I Hb Hx. pose proof (i_owner _ _ _ (inv_entries _ I e x Hb Hx)) as H. rewrite H.
  destruct (st x); simpl; split; try lia; split; intros; try discriminate; try reflexivity; lia.
Qed.

(** two requests in flight to the upstream as fetchers are never on the same entry *)
Corollary fetchers_distinct_entries s i j e :
  Inv s -> nth_error (ts s) i = Some (PFetch e LFetching) -> nth_error (ts s) j = Some (PFetch e LFetching) -> i = j.
Proof.
  intros I Hi Hj. pose proof (inv_ref _ I _ _ _ Hi eq_refl) as He.
  destruct (nth_error (gens s) e) as [x|] eqn:Hx; [|apply nth_error_None in Hx; lia].
  destruct (single_flight s e x I (proj1 He) Hx) as [H _].
  eapply (count_le_one_unique (owner_on e)); eauto; simpl; apply Nat.eqb_refl.
Qed.

(** a request that finds the entry fetching waits: it registers, produces no
    upstream contact, and can only be moved on by the completer's send *)
Lemma arrivals_wait s i c e x0 s' :
  Inv s -> nth_error (ts s) i = Some (PGet e) -> nth_error (gens s) e = Some x0 -> st x0 = Fetching ->
  step s (Run i c) = Some s' ->
  nth_error (ts s') i = Some (PRegistered e) /\ log s' = log s /\
  exists x', nth_error (gens s') e = Some x' /\ st x' = Fetching /\ waitq x' = waitq x0 ++ [i].
Proof.
  intros I Hi Hx F H. pose proof (inv_ref _ I _ _ _ Hi eq_refl) as He.
  pose proof (inv_entries _ I e x0 (proj1 He) Hx) as IE.
  pose proof (i_fetch_unlocked _ _ _ IE F) as Hl. pose proof (i_exp0 _ _ _ IE (or_intror F)) as Hex.
  unfold step in H. rewrite Hi, Hx, Hl, F in H.
  unfold expire in H. rewrite Hex in H. simpl in H. rewrite F in H.
  inversion H; subst s'; clear H. simpl.
  split; [apply nth_error_upd_same; eapply nth_error_lt; eauto|]. split; [reflexivity|].
  eexists. split; [apply nth_error_upd_same; lia|]. simpl. auto.
Qed.

(** ** C02: progress *)
Definition finished (p : pc) : bool := is_done p.

Lemma sender_can_move s h e o x :
  Inv s -> nth_error (ts s) h = Some (PSending e o) -> nth_error (gens s) e = Some x ->
  exists i c s', step s (Run i c) = Some s'.
Proof.
  intros I Hh Hx. pose proof (inv_ref _ I _ _ _ Hh eq_refl) as He.
  pose proof (inv_entries _ I e x (proj1 He) Hx) as IE.
  set (c0 := {| ch_outcome := OFail; ch_read_ok := true; ch_write_ok := true |}).
  destruct (sendq x) as [|w rest] eqn:Hq.
  - exists h, c0. unfold step. rewrite Hh, Hx, Hq. eauto.
  - assert (Hin : In w (waitq x ++ sendq x)) by (rewrite Hq; apply in_or_app; right; left; reflexivity).
    apply (i_waiters _ _ _ IE) in Hin. destruct Hin as (p & Hp & Wp).
    destruct p; simpl in Wp; try discriminate; apply Nat.eqb_eq in Wp; subst e0.
    + exists w, c0. unfold step. rewrite Hp. eauto.
    + exists h, c0. unfold step. rewrite Hh, Hx, Hq, Hp, Nat.eqb_refl. eauto.
Qed.

Theorem no_deadlock s :
  Inv s -> (exists j p, nth_error (ts s) j = Some p /\ finished p = false) ->
  exists i c s', step s (Run i c) = Some s'.
Proof.
  intros I (j & p & Hj & Hf).
  set (c0 := {| ch_outcome := OFail; ch_read_ok := true; ch_write_ok := true |}).
  assert (LockCase : forall e x h, nth_error (gens s) e = Some x -> base s <= e -> elock x = Some h ->
                      exists i c s', step s (Run i c) = Some s').
  { intros e x h Hx Hb El.
    pose proof (inv_entries _ I e x Hb Hx) as IE.
    destruct (i_lock _ _ _ IE h El) as (q & Hq & Sq).
    destruct q; simpl in Sq; try discriminate. apply Nat.eqb_eq in Sq. subst e0.
    eapply sender_can_move; eauto. }
  destruct p; simpl in Hf; try discriminate.
  - (* PLookup *) exists j, c0. unfold step. rewrite Hj. destruct (cur s); eauto.
  - (* PGet *)
    pose proof (inv_ref _ I _ _ _ Hj eq_refl) as He.
    destruct (nth_error (gens s) e) as [x|] eqn:Hx; [|apply nth_error_None in Hx; lia].
    destruct (elock x) eqn:El.
    + eapply LockCase; eauto. lia.
    + exists j, c0. unfold step. rewrite Hj, Hx, El.
      destruct (st (expire _ _)); eauto.
  - (* PRegistered *) exists j, c0. unfold step. rewrite Hj. eauto.
  - (* PWait *)
    pose proof (inv_ref _ I _ _ _ Hj eq_refl) as He.
    destruct (nth_error (gens s) e) as [x|] eqn:Hx; [|apply nth_error_None in Hx; lia].
    pose proof (inv_entries _ I e x (proj1 He) Hx) as IE.
    assert (Hin : In j (waitq x ++ sendq x)).
    { apply (i_waiters _ _ _ IE). exists (PWait e). split; [exact Hj | simpl; apply Nat.eqb_refl]. }
    destruct (elock x) eqn:El.
    + eapply LockCase; eauto. lia.
    + rewrite (i_sendq _ _ _ IE El), app_nil_r in Hin.
      assert (F : st x = Fetching) by (apply (i_waitq _ _ _ IE); intros E; rewrite E in Hin; contradiction).
      pose proof (i_owner _ _ _ IE) as C. rewrite F in C. simpl in C.
      destruct (count_pos_exists _ _ ltac:(rewrite C; lia)) as (o & q & Ho & Oq).
      destruct q; simpl in Oq; try discriminate.
      * destruct l; try discriminate. exists o, c0. unfold step. rewrite Ho. eauto.
      * apply Nat.eqb_eq in Oq. subst e0. exists o, c0. unfold step. rewrite Ho, Hx, El. eauto.
  - exfalso. eapply (inv_nowoken _ I); eauto.
  - (* PHitAge *)
    pose proof (inv_ref _ I _ _ _ Hj eq_refl) as He.
    destruct (nth_error (gens s) e) as [x|] eqn:Hx; [|apply nth_error_None in Hx; lia].
    exists j, c0. unfold step. rewrite Hj, Hx. eauto.
  - (* PFetch *) exists j, c0. unfold step. rewrite Hj. destruct l; eauto.
  - (* PFetched *)
    pose proof (inv_ref _ I _ _ _ Hj eq_refl) as He.
    destruct (nth_error (gens s) e) as [x|] eqn:Hx; [|apply nth_error_None in Hx; lia].
    destruct (elock x) eqn:El.
    + eapply LockCase; eauto. lia.
    + exists j, c0. unfold step. rewrite Hj, Hx, El. eauto.
  - (* PSending *)
    pose proof (inv_ref _ I _ _ _ Hj eq_refl) as He.
    destruct (nth_error (gens s) e) as [x|] eqn:Hx; [|apply nth_error_None in Hx; lia].
    eapply sender_can_move; eauto.
  - exists j, c0. unfold step. rewrite Hj. eauto.
Qed.

(** ** C02: termination.  A lexicographic measure that strictly decreases on
    every thread step, whatever the environment chooses. *)
Definition active (p : pc) : bool :=
  match p with PDone _ | PDead | PSending _ _ => false | _ => true end.
Definition weight (p : pc) : nat :=
  match p with
  | PLookup => 11 | PGet _ => 10 | PRegistered _ => 9 | PWait _ => 8 | PWoken _ => 10
  | PHitAge _ _ => 1 | PFetch _ _ => 9 | PFetched _ _ => 8 | PSending _ _ => 1
  | PPassFetch => 2 | PDone _ => 0 | PDead => 0
  end.

Fixpoint sumf {A} (f : A -> nat) (l : list A) : nat :=
  match l with [] => 0 | a :: r => f a + sumf f r end.

Lemma sumf_upd {A} (f : A -> nat) i v old l : nth_error l i = Some old ->
  sumf f (upd i v l) + f old = sumf f l + f v.
Proof.
  revert i; induction l as [|a r IH]; intros [|i] H; simpl in *; try discriminate.
  - inversion H; subst. lia.
  - specialize (IH i H). lia.
Qed.

Lemma sumf_app {A} (f : A -> nat) a b : sumf f (a ++ b) = sumf f a + sumf f b.
Proof. induction a; simpl; lia. Qed.

Definition muA (s : state) : nat := count active (ts s).
Definition muB (s : state) : nat := sumf weight (ts s) + 3 * sumf (fun x => length (sendq x)) (gens s).

Definition mu_lt (s' s : state) : Prop := muA s' < muA s \/ (muA s' = muA s /\ muB s' < muB s).

Lemma mu_thread s s' i p p' :
  nth_error (ts s) i = Some p -> ts s' = upd i p' (ts s) ->
  sumf (fun x => length (sendq x)) (gens s') = sumf (fun x => length (sendq x)) (gens s) ->
  (active p' = false /\ active p = true) \/ (active p' = active p /\ weight p' < weight p) ->
  mu_lt s' s.
Proof.
  intros Hi Ets Eg H. unfold mu_lt, muA, muB. rewrite Ets, Eg.
  pose proof (count_upd active i p' p (ts s) Hi) as C.
  pose proof (sumf_upd weight i p' p (ts s) Hi) as W.
  destruct H as [[A1 A2]|[A1 A2]].
  - left. rewrite A1, A2 in C. lia.
  - right. rewrite A1 in C. split; [destruct (active p); lia | lia].
Qed.

Lemma sendq_pre_get s rd x0 : sendq (pre_get s rd x0) = sendq x0.
Proof.
  unfold pre_get, expire, load.
  destruct (st x0); simpl;
  repeat match goal with |- context [if ?b then _ else _] => destruct b; simpl end;
  try reflexivity; destruct (store s); simpl;
  repeat match goal with |- context [if ?b then _ else _] => destruct b; simpl end; reflexivity.
Qed.

Lemma sumf_upd_same_key {A} (f : A -> nat) i v old l : nth_error l i = Some old -> f v = f old ->
  sumf f (upd i v l) = sumf f l.
Proof. intros H E. pose proof (sumf_upd f i v old l H). lia. Qed.

Ltac mt Hi p p' :=
  match type of Hi with nth_error (ts ?s) ?i = _ =>
    eapply (mu_thread s _ i p p' Hi);
    [ reflexivity
    | simpl; try reflexivity
    | simpl; first [ left; split; reflexivity | right; split; [reflexivity | lia] ] ]
  end.

Theorem run_decreases s i c s' : step s (Run i c) = Some s' -> mu_lt s' s.
Proof.
  intros H. unfold step in H. destruct (nth_error (ts s) i) as [p|] eqn:Hi; [|discriminate].
  destruct p.
  - (* PLookup *)
    destruct (cur s).
    + inversion H; subst s'. mt Hi PLookup (PGet e).
    + inversion H; subst s'. mt Hi PLookup (PGet (length (gens s))).
      rewrite sumf_app. simpl. lia.
  - (* PGet *)
    destruct (nth_error (gens s) e) as [x0|] eqn:Hx; [|discriminate].
    destruct (elock x0); [discriminate|].
    fold (pre_get s (ch_read_ok c) x0) in H.
    pose proof (sendq_pre_get s (ch_read_ok c) x0) as Sq.
    destruct (st (pre_get s (ch_read_ok c) x0)); inversion H; subst s'; clear H.
    + mt Hi (PGet e) (PFetch e LFetching). apply (sumf_upd_same_key _ _ _ _ _ Hx). simpl. congruence.
    + mt Hi (PGet e) (PRegistered e). apply (sumf_upd_same_key _ _ _ _ _ Hx). simpl. congruence.
    + mt Hi (PGet e) (PFetch e LHitForPass). apply (sumf_upd_same_key _ _ _ _ _ Hx). simpl. congruence.
    + mt Hi (PGet e) (PHitAge e (resp (pre_get s (ch_read_ok c) x0))).
      apply (sumf_upd_same_key _ _ _ _ _ Hx). simpl. congruence.
  - inversion H; subst s'. mt Hi (PRegistered e) (PWait e).
  - discriminate.
  - (* PWoken *)
    destruct (nth_error (gens s) e) as [x|]; [|discriminate].
    destruct (st x); inversion H; subst s'.
    + mt Hi (PWoken e) (PFetch e LFetching).
    + mt Hi (PWoken e) (PFetch e LFetching).
    + mt Hi (PWoken e) (PFetch e LHitForPass).
    + mt Hi (PWoken e) (PHitAge e (resp x)).
  - (* PHitAge *)
    destruct (nth_error (gens s) e) as [x|]; [|discriminate]. inversion H; subst s'.
    mt Hi (PHitAge e r) (PDone (Reply LHit r (now_s s - created x))).
  - (* PFetch *)
    destruct l; inversion H; subst s'.
    + mt Hi (PFetch e LFetching) (PFetched e (ch_outcome c)).
    + mt Hi (PFetch e LHitForPass) (PDone (Reply LHitForPass (rid_of (ch_outcome c)) 0)).
    + mt Hi (PFetch e LHit) (PDone (Reply LHit (rid_of (ch_outcome c)) 0)).
    + mt Hi (PFetch e LPassed) (PDone (Reply LPassed (rid_of (ch_outcome c)) 0)).
  - (* PFetched *)
    destruct (nth_error (gens s) e) as [x|] eqn:Hx; [|discriminate].
    destruct (elock x); [discriminate|]. inversion H; subst s'; clear H.
    unfold mu_lt, muA. left. simpl.
    pose proof (count_upd active i (PSending e o) _ (ts s) Hi) as C. simpl in C. lia.
  - (* PSending *)
    destruct (nth_error (gens s) e) as [x|] eqn:Hx; [|discriminate].
    destruct (sendq x) as [|w rest] eqn:Hq.
    + assert (G : forall st1 lg1, mu_lt {| now := now s; hfp := hfp s; has_store := has_store s; legacy := legacy s;
                      gens := upd e (mk_entry (st x) (waitq x) [] (resp x) (created x) (expired x) None) (gens s);
                      base := base s; cur := cur s; store := st1;
                      ts := upd i (PDone (Reply LFetching (rid_of o) 0)) (ts s); log := lg1 |} s).
      { intros st1 lg1. mt Hi (PSending e o) (PDone (Reply LFetching (rid_of o) 0)).
        apply (sumf_upd_same_key _ _ _ _ _ Hx). simpl. rewrite Hq. reflexivity. }
      destruct (has_store s && ch_write_ok c); inversion H; subst s'; apply G.
    + destruct (nth_error (ts s) w) as [pw|] eqn:Hw; [|discriminate].
      destruct pw; try discriminate. destruct (Nat.eqb e0 e); [|discriminate].
      inversion H; subst s'; clear H.
      unfold mu_lt, muA, muB. right. simpl.
      set (pw' := if legacy s then PWoken e else PGet e).
      pose proof (count_upd active w pw' _ (ts s) Hw) as C.
      pose proof (sumf_upd weight w pw' _ (ts s) Hw) as W.
      pose proof (sumf_upd (fun x => length (sendq x)) e
                    (mk_entry (st x) (waitq x) rest (resp x) (created x) (expired x) (elock x)) x (gens s) Hx) as G.
      simpl in *. rewrite Hq in G. simpl in G.
      assert (Ha : active pw' = true) by (unfold pw'; destruct (legacy s); reflexivity).
      assert (Hw10 : weight pw' <= 10) by (unfold pw'; destruct (legacy s); simpl; lia).
      rewrite Ha in C. split; lia.
  - inversion H; subst s'. mt Hi PPassFetch (PDone (Reply LPassed (rid_of (ch_outcome c)) 0)).
  - discriminate.
  - discriminate.
Qed.

Lemma crash_active l : count active (map (fun p => if is_done p then p else PDead) l) <= count active l.
Proof.
  induction l as [|p r IH]; simpl; [unfold count; simpl; lia|]. rewrite !count_cons. destruct p; simpl; lia.
Qed.
Lemma crash_weight l : sumf weight (map (fun p => if is_done p then p else PDead) l) <= sumf weight l.
Proof. induction l as [|p r IH]; simpl; [lia|]. destruct p; simpl; lia. Qed.

(** labels that are not thread steps never increase the measure, except new arrivals *)
Lemma env_labels_measure s l s' : step s l = Some s' ->
  match l with
  | Run _ _ | Arrive _ => True
  | _ => muA s' <= muA s /\ (muA s' = muA s -> muB s' <= muB s)
  end.
Proof.
  destruct l; simpl; auto; intros H.
  - destruct (0 <=? d)%Z; inversion H; subst; unfold muA, muB; simpl; lia.
  - inversion H; subst. destruct (has_store s && del_ok); unfold muA, muB; simpl; lia.
  - inversion H; subst; unfold muA, muB; simpl; lia.
  - inversion H; subst s'. unfold muA, muB. simpl.
    pose proof (crash_active (ts s)). pose proof (crash_weight (ts s)). lia.
  - destruct (has_store s); inversion H; subst; unfold muA, muB; simpl; lia.
Qed.

(** the measure is well-founded: no schedule has infinitely many thread steps
    without new arrivals *)
Theorem mu_lt_wf : well_founded mu_lt.
Proof.
  apply (wf_incl _ _ (fun a b => slexprod nat nat lt lt (muA a, muB a) (muA b, muB b))).
  - intros a b [H|[H1 H2]].
    + apply left_slex. exact H.
    + rewrite H1. apply right_slex. exact H2.
  - apply (wf_inverse_image state (nat * nat) (slexprod nat nat lt lt) (fun s => (muA s, muB s))).
    apply wf_slexprod; apply lt_wf.
Qed.

(** ** C02: when everybody is done nothing is left behind *)
Theorem final_clean s e x :
  Inv s -> (forall j p, nth_error (ts s) j = Some p -> finished p = true) ->
  base s <= e -> nth_error (gens s) e = Some x ->
  st x <> Fetching /\ waitq x = [] /\ sendq x = [] /\ elock x = None.
Proof.
  intros I Hall Hb Hx. pose proof (inv_entries _ I e x Hb Hx) as IE.
  assert (NoRole : forall f, (forall p, f p = true -> finished p = false) -> count f (ts s) = 0).
  { intros f Hf. destruct (count f (ts s)) eqn:E; [reflexivity|].
    destruct (count_pos_exists f (ts s) ltac:(lia)) as (i & p & Hi & Fp).
    specialize (Hall _ _ Hi). rewrite (Hf _ Fp) in Hall. discriminate. }
  assert (O : count (owner_on e) (ts s) = 0).
  { apply NoRole. intros p. destruct p; simpl; try discriminate; auto. }
  assert (S : count (sending_on e) (ts s) = 0).
  { apply NoRole. intros p. destruct p; simpl; try discriminate; auto. }
  rewrite (i_owner _ _ _ IE) in O. rewrite (i_sending _ _ _ IE) in S.
  assert (Hl : elock x = None) by (destruct (elock x); [simpl in S; discriminate | reflexivity]).
  assert (Q : waitq x ++ sendq x = []).
  { destruct (waitq x ++ sendq x) as [|j r] eqn:E; [reflexivity|].
    assert (Hin : In j (waitq x ++ sendq x)) by (rewrite E; left; reflexivity).
    apply (i_waiters _ _ _ IE) in Hin. destruct Hin as (p & Hp & Wp).
    specialize (Hall _ _ Hp). destruct p; simpl in *; discriminate. }
  apply app_eq_nil in Q. destruct Q as [Q1 Q2].
  repeat split; auto. intros F. rewrite F in O. simpl in O. discriminate.
Qed.
