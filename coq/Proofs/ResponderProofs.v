From Coq Require Import List Arith Bool NArith ZArith.
From Pike Require Import Base.Bytes Model.MaxAge Model.Resp Model.Proxy.
From Pike Require Import Model.Responder.
Import ListNotations.

Lemma beqb_sym a b : beqb a b = beqb b a.
Proof.
  destruct (beqb a b) eqn:E.
  - apply beqb_spec in E. subst. symmetry. apply beqb_refl.
  - destruct (beqb b a) eqn:E2; [|reflexivity]. apply beqb_spec in E2. subst. rewrite beqb_refl in E. discriminate.
Qed.

Lemma hvalues_app k a b : hvalues k (a ++ b) = hvalues k a ++ hvalues k b.
Proof. unfold hvalues. rewrite filter_app, map_app. reflexivity. Qed.

Lemma hvalues_hdel_other k k' h : beqb k' k = false -> hvalues k (hdel k' h) = hvalues k h.
Proof.
  intros NE. unfold hvalues, hdel. induction h as [|[a v] h IH]; [reflexivity|].
  cbn [filter fst]. destruct (beqb a k') eqn:E1.
  - apply beqb_spec in E1. subst a. cbn [negb]. rewrite NE. exact IH.
  - cbn [negb filter fst]. destruct (beqb a k); cbn [map snd]; [f_equal|]; exact IH.
Qed.

Lemma hvalues_hdel_same k h : hvalues k (hdel k h) = [].
Proof.
  unfold hvalues, hdel. induction h as [|[a v] h IH]; [reflexivity|].
  cbn [filter fst]. destruct (beqb a k) eqn:E; cbn [negb]; [exact IH|].
  cbn [filter fst]. rewrite E. exact IH.
Qed.

Lemma hvalues_hset_other k k' v h : beqb k' k = false -> hvalues k (hset k' v h) = hvalues k h.
Proof.
  intros NE. unfold hset. rewrite hvalues_app, hvalues_hdel_other by exact NE.
  unfold hvalues. cbn [filter fst]. rewrite NE. cbn. apply app_nil_r.
Qed.

Lemma hvalues_hset_same k v h : hvalues k (hset k v h) = [v].
Proof.
  unfold hset. rewrite hvalues_app, hvalues_hdel_same. unfold hvalues. cbn [filter fst]. rewrite beqb_refl. reflexivity.
Qed.

(** every header other than Age and X-Status reaches the client exactly as filled *)
Theorem responder_keeps_other_headers filled age label k :
  beqb k_age k = false -> beqb k_x_status k = false ->
  hvalues k (responder_headers filled age label) = hvalues k filled.
Proof.
  intros NA NX. unfold responder_headers. rewrite hvalues_hset_other by exact NX.
  destruct age; [apply hvalues_hset_other; exact NA | reflexivity].
Qed.

(** when pike measured no age, the origin's own Age header (if any) reaches the client untouched *)
Theorem responder_keeps_origin_age filled label :
  hvalues k_age (responder_headers filled None label) = hvalues k_age filled.
Proof. unfold responder_headers. apply hvalues_hset_other. reflexivity. Qed.

(** when pike measured an age, that is the one Age value the client sees *)
Theorem responder_sets_measured_age filled a label :
  hvalues k_age (responder_headers filled (Some a) label) = [a].
Proof.
  unfold responder_headers. rewrite hvalues_hset_other by reflexivity. apply hvalues_hset_same.
Qed.

Theorem responder_sets_status filled age label :
  hvalues k_x_status (responder_headers filled age label) = [label].
Proof. unfold responder_headers. apply hvalues_hset_same. Qed.
