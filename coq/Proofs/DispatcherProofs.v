From Coq Require Import List Arith Bool NArith ZArith Lia.
From Pike Require Import Model.LRU Model.Dispatcher Proofs.LRUProofs.
Import ListNotations.

Section UpdLemmas.
  Context {A : Type}.
  Lemma upd_length i (x : A) l : length (upd i x l) = length l.
  Proof. revert i; induction l as [|a r IH]; intros [|i]; simpl; auto. Qed.

  Lemma upd_Forall (P : A -> Prop) i x l : Forall P l -> P x -> Forall P (upd i x l).
  Proof.
    intros H Hx. revert i; induction H as [|a r Ha Hr IH]; intros [|i]; simpl; auto.
  Qed.

  Lemma nth_error_upd_same i (x : A) l : i < length l -> nth_error (upd i x l) i = Some x.
  Proof. revert i; induction l as [|a r IH]; intros [|i] H; simpl in *; try lia; auto. apply IH; lia. Qed.

  Lemma nth_error_upd_other i j (x : A) l : i <> j -> nth_error (upd i x l) j = nth_error l j.
  Proof.
    revert i j; induction l as [|a r IH]; intros [|i] [|j] H; simpl; auto; try congruence.
  Qed.

  Lemma upd_oob i (x : A) l : length l <= i -> upd i x l = l.
  Proof. revert i; induction l as [|a r IH]; intros [|i] H; simpl in *; auto; try lia. f_equal; apply IH; lia. Qed.

  Lemma nth_error_nth_default i (l : list A) d y : nth_error l i = Some y -> nth i l d = y.
  Proof. revert i; induction l as [|a r IH]; intros [|i]; simpl; try discriminate; auto. congruence. Qed.
End UpdLemmas.

Definition total {A} (l : list (list A)) : nat := fold_right (fun sh n => length sh + n) 0 l.

Lemma total_upd {A} i (x : list A) l :
  i < length l -> total (upd i x l) + length (nth i l []) = total l + length x.
Proof.
  unfold total. revert i; induction l as [|a r IH]; intros [|i] H; simpl in *; try lia.
  specialize (IH i ltac:(lia)). lia.
Qed.

Lemma total_bound {A} (l : list (list A)) m :
  Forall (fun sh => length sh <= m) l -> total l <= length l * m.
Proof. induction 1; simpl; lia. Qed.

Section DispProofs.
  Context {K : Type}.
  Variable keqb : K -> K -> bool.
  Hypothesis keqb_spec : forall a b, keqb a b = true <-> a = b.
  Variable hash : K -> N.

  Notation disp := (@disp K).
  Notation get_http_cache := (get_http_cache keqb hash).
  Notation remove_http_cache := (remove_http_cache keqb hash).
  Notation dstep := (dstep keqb hash).
  Notation drun := (drun keqb hash).
  Notation shard_index := (shard_index hash).

  Record DInv (d : disp) : Prop := {
    di_zones : 0 < zones d;
    di_len : length (shards d) = zones d;
    di_bound : 1 <= limit d -> Forall (fun sh => length sh <= limit d) (shards d);
    di_nodup : Forall (fun sh => NoDup (keys sh)) (shards d);
    di_own : forall i sh k id, nth_error (shards d) i = Some sh -> In (k, id) sh ->
                               In (id, k) (created d) /\ i = shard_index d k;
    di_ids : forall id k, In (id, k) (created d) -> (id < next_id d)%N;
    di_fun : NoDup (map fst (created d))
  }.

  Lemma shard_index_lt d k : 0 < zones d -> shard_index d k < zones d.
  Proof.
    intros H. unfold shard_index.
    assert (hash k mod N.of_nat (zones d) < N.of_nat (zones d))%N by (apply N.mod_lt; lia).
    lia.
  Qed.

  Lemma mk_disp_inv z lim : 0 < z -> DInv (mk_disp z lim).
  Proof.
    intros Hz. constructor; simpl; auto.
    - apply repeat_length.
    - intros _. apply Forall_forall. intros x Hx. apply repeat_spec in Hx. subst. simpl. lia.
    - apply Forall_forall. intros x Hx. apply repeat_spec in Hx. subst. constructor.
    - intros i sh k id Hn Hin. apply nth_error_In in Hn. apply repeat_spec in Hn. subst. contradiction.
    - intros ? ? [].
    - constructor.
  Qed.

  Lemma nth_shard d i : DInv d -> i < zones d ->
    nth_error (shards d) i = Some (nth i (shards d) []).
  Proof.
    intros I Hi. apply nth_error_nth'. rewrite (di_len _ I). exact Hi.
  Qed.

  Lemma get_inv d k : DInv d -> DInv (snd (get_http_cache d k)).
  Proof.
    intros I. pose proof (shard_index_lt d k (di_zones _ I)) as Hi.
    pose proof (nth_shard d _ I Hi) as Hnth.
    unfold get_http_cache.
    remember (Dispatcher.shard_index hash d k) as i eqn:Hieq.
    remember (nth i (shards d) []) as sh eqn:Hsheq.
    destruct (get keqb k sh) as [[id|] sh'] eqn:G; simpl.
    - (* hit: move to front *)
      assert (Hsh' : sh' = snd (get keqb k sh)) by (rewrite G; reflexivity).
      constructor; simpl.
      + apply I.
      + rewrite upd_length. apply I.
      + intros Hl. apply upd_Forall; [apply I; auto|].
        rewrite Hsh', (get_length keqb). 
        pose proof (di_bound _ I Hl) as F. rewrite Forall_forall in F. apply F.
        eapply nth_error_In; eauto.
      + apply upd_Forall; [apply I|]. rewrite Hsh'. apply (get_NoDup keqb keqb_spec).
        pose proof (di_nodup _ I) as F. rewrite Forall_forall in F. apply F. eapply nth_error_In; eauto.
      + intros j shj k' id' Hn Hin.
        destruct (Nat.eq_dec i j) as [->|Hij].
        * rewrite nth_error_upd_same in Hn by (rewrite (di_len _ I); auto).
          inversion Hn; subst shj. 
          assert (In (k', id') sh).
          { rewrite Hsh' in Hin. eapply (get_In keqb keqb_spec); eauto. }
          unfold Dispatcher.shard_index in *. simpl. eapply (di_own _ I); eauto.
        * rewrite nth_error_upd_other in Hn by auto.
          unfold Dispatcher.shard_index in *. simpl. eapply (di_own _ I); eauto.
      + apply I.
      + apply I.
    - (* miss: create *)
      assert (F : find keqb k sh = None).
      { unfold get in G. destruct (find keqb k sh); [inversion G | reflexivity]. }
      constructor; simpl.
      + apply I.
      + rewrite upd_length. apply I.
      + intros Hl. apply upd_Forall; [apply I; auto|].
        apply add_length_le; auto.
        pose proof (di_bound _ I Hl) as Fa. rewrite Forall_forall in Fa. apply Fa.
        eapply nth_error_In; eauto.
      + apply upd_Forall; [apply I|]. apply (add_NoDup keqb keqb_spec).
        pose proof (di_nodup _ I) as Fa. rewrite Forall_forall in Fa. apply Fa. eapply nth_error_In; eauto.
      + intros j shj k' id' Hn Hin.
        destruct (Nat.eq_dec i j) as [->|Hij].
        * rewrite nth_error_upd_same in Hn by (rewrite (di_len _ I); auto).
          inversion Hn; subst shj. apply (add_In_old keqb) in Hin. destruct Hin as [Hin|Hin].
          -- inversion Hin; subst. split; [left; reflexivity | reflexivity].
          -- destruct (di_own _ I _ _ _ _ Hnth Hin) as [H1 H2]. split; [right; exact H1 | exact H2].
        * rewrite nth_error_upd_other in Hn by auto.
          destruct (di_own _ I _ _ _ _ Hn Hin) as [H1 H2]. split; [right; exact H1 | exact H2].
      + intros id' k' [H|H].
        * inversion H; subst. lia.
        * apply (di_ids _ I) in H. lia.
      + constructor; [|apply I]. intros H. apply in_map_iff in H. destruct H as [[id' k'] [E H]].
        simpl in E. subst. apply (di_ids _ I) in H. lia.
  Qed.

  Lemma remove_inv d k : DInv d -> DInv (remove_http_cache d k).
  Proof.
    intros I. pose proof (shard_index_lt d k (di_zones _ I)) as Hi.
    pose proof (nth_shard d _ I Hi) as Hnth.
    unfold remove_http_cache.
    remember (Dispatcher.shard_index hash d k) as i eqn:Hieq.
    remember (nth i (shards d) []) as sh eqn:Hsheq.
    constructor; simpl.
    - apply I.
    - rewrite upd_length. apply I.
    - intros Hl. apply upd_Forall; [apply I; auto|].
      pose proof (di_bound _ I Hl) as Fa. rewrite Forall_forall in Fa.
      specialize (Fa sh ltac:(eapply nth_error_In; eauto)).
      pose proof (remove_length_le keqb k sh). lia.
    - apply upd_Forall; [apply I|]. apply (NoDup_remove keqb).
      pose proof (di_nodup _ I) as Fa. rewrite Forall_forall in Fa. apply Fa. eapply nth_error_In; eauto.
    - intros j shj k' id' Hn Hin.
      destruct (Nat.eq_dec i j) as [->|Hij].
      + rewrite nth_error_upd_same in Hn by (rewrite (di_len _ I); auto).
        inversion Hn; subst shj. apply remove_In in Hin.
        unfold Dispatcher.shard_index in *. simpl. eapply (di_own _ I); eauto.
      + rewrite nth_error_upd_other in Hn by auto.
        unfold Dispatcher.shard_index in *. simpl. eapply (di_own _ I); eauto.
    - apply I.
    - apply I.
  Qed.

  Lemma dstep_inv d o : DInv d -> DInv (dstep d o).
  Proof. destruct o; simpl; [apply get_inv | apply remove_inv]. Qed.

  Lemma dstep_params d o : zones (dstep d o) = zones d /\ limit (dstep d o) = limit d.
  Proof.
    destruct o; simpl; [|auto]. unfold Dispatcher.get_http_cache.
    destruct (get keqb k _) as [[?|] ?]; simpl; auto.
  Qed.

  Lemma drun_inv ops : forall d, DInv d ->
    DInv (drun d ops) /\ zones (drun d ops) = zones d /\ limit (drun d ops) = limit d.
  Proof.
    induction ops as [|o ops IH]; intros d I; simpl; [auto|].
    destruct (IH (dstep d o) (dstep_inv _ _ I)) as (H1 & H2 & H3).
    destruct (dstep_params d o) as [E1 E2]. unfold Dispatcher.drun in *. simpl.
    rewrite <- E1, <- E2. auto.
  Qed.

  Lemma resident_total (d : disp) : resident d = total (shards d).
  Proof. reflexivity. Qed.

  Lemma resident_le d : DInv d -> 1 <= limit d -> resident d <= zones d * limit d.
  Proof.
    intros I Hl. rewrite resident_total, <- (di_len _ I). apply total_bound. apply I; auto.
  Qed.

  (** ** NewDispatcher's arithmetic *)
  Definition consts_ok (c : dconsts) : Prop :=
    0 < zone_small c /\ 0 < zone_big c /\ (0 < default_mult c)%Z.

  Lemma eff_size_pos c s : consts_ok c -> (0 < eff_size c s)%Z.
  Proof.
    intros (H1 & H2 & H3). unfold eff_size. destruct (Z.leb_spec s 0); nia.
  Qed.

  Lemma zone_count_pos c s : consts_ok c -> 0 < zone_count c s.
  Proof.
    intros Hc. pose proof (eff_size_pos c s Hc) as He. destruct Hc as (H1 & H2 & H3).
    unfold zone_count, zone_count_legacy.
    destruct (eff_size c s <? small_below c)%Z;
      match goal with |- context [(?a <? ?b)%Z] => destruct (Z.ltb_spec a b) end; lia.
  Qed.

  Lemma zone_count_le c s : consts_ok c -> (Z.of_nat (zone_count c s) <= eff_size c s)%Z.
  Proof.
    intros Hc. pose proof (eff_size_pos c s Hc) as He.
    unfold zone_count.
    match goal with |- context [(?a <? ?b)%Z] => destruct (Z.ltb_spec a b) end; lia.
  Qed.

  (** The obligation that fails on the pinned commit (D5): at least one slot
      per shard, and the shards together never hold more than the size. *)
  Lemma new_dispatcher_limit c s : consts_ok c ->
    1 <= limit (new_dispatcher (K:=K) c s) /\
    (Z.of_nat (zones (new_dispatcher (K:=K) c s) * limit (new_dispatcher (K:=K) c s)) <= eff_size c s)%Z.
  Proof.
    intros Hc. pose proof (zone_count_pos c s Hc) as Hz. pose proof (zone_count_le c s Hc) as Hle.
    pose proof (eff_size_pos c s Hc) as He.
    unfold new_dispatcher, mk_disp; simpl.
    set (z := zone_count c s) in *. set (e := eff_size c s) in *.
    assert (Hq : (1 <= e / Z.of_nat z)%Z).
    { apply Z.div_le_lower_bound; lia. }
    split; [lia|].
    rewrite Nat2Z.inj_mul, Z2Nat.id by lia.
    apply Z.mul_div_le. lia.
  Qed.

  Theorem resident_bound c s ops : consts_ok c ->
    (Z.of_nat (resident (drun (new_dispatcher c s) ops)) <= eff_size c s)%Z.
  Proof.
    intros Hc.
    assert (I0 : DInv (new_dispatcher (K:=K) c s)).
    { apply mk_disp_inv. apply zone_count_pos; auto. }
    destruct (drun_inv ops _ I0) as (I & Ez & El).
    destruct (new_dispatcher_limit c s Hc) as [H1 H2].
    pose proof (resident_le _ I ltac:(rewrite El; exact H1)) as H.
    rewrite Ez, El in H. lia.
  Qed.

  (** removing key k leaves every other key's shard lookup unchanged (C18) *)
  Lemma find_remove_other k k' (l : @lru K entry_id) : k' <> k ->
    find keqb k' (remove keqb k l) = find keqb k' l.
  Proof.
    intros Hne. induction l as [|[a v] r IH]; simpl; auto.
    destruct (keqb k a) eqn:E1; simpl.
    - apply keqb_spec in E1. subst a. destruct (keqb k' k) eqn:E2; [apply keqb_spec in E2; contradiction | reflexivity].
    - destruct (keqb k' a); auto.
  Qed.

  Lemma nth_upd_same {A} i (x : A) l d : i < length l -> nth i (upd i x l) d = x.
  Proof. revert i; induction l as [|a r IH]; intros [|i] H; simpl in *; try lia; auto. apply IH; lia. Qed.
  Lemma nth_upd_other {A} i j (x : A) l d : i <> j -> nth j (upd i x l) d = nth j l d.
  Proof. revert i j; induction l as [|a r IH]; intros [|i] [|j] H; simpl; auto; congruence. Qed.

  Theorem remove_frame d k k' : k' <> k ->
    find keqb k' (nth (shard_index d k') (shards (remove_http_cache d k)) [])
    = find keqb k' (nth (shard_index d k') (shards d) []).
  Proof.
    intros Hne. unfold Dispatcher.remove_http_cache. simpl.
    destruct (Nat.eq_dec (shard_index d k) (shard_index d k')) as [E|E].
    - rewrite E. destruct (Nat.lt_ge_cases (shard_index d k') (length (shards d))) as [Hl|Hl].
      + rewrite nth_upd_same by exact Hl. apply find_remove_other. exact Hne.
      + rewrite upd_oob by lia. reflexivity.
    - rewrite nth_upd_other by exact E. reflexivity.
  Qed.

  (** Lookup is exact (used by C06): the entry returned for [k] was created
      for [k], and it is the resident one iff [k] was resident. *)
  Lemma get_returns_own d k : DInv d ->
    let '(id, hit, d') := get_http_cache d k in
    In (id, k) (created d') /\
    (hit = true <-> In k (keys (nth (shard_index d k) (shards d) []))).
  Proof.
    intros I. pose proof (shard_index_lt d k (di_zones _ I)) as Hi.
    pose proof (nth_shard d _ I Hi) as Hnth.
    unfold Dispatcher.get_http_cache.
    remember (Dispatcher.shard_index hash d k) as i eqn:Hieq.
    remember (nth i (shards d) []) as sh eqn:Hsheq.
    pose proof (get_hit_iff keqb keqb_spec k sh) as Hh.
    destruct (get keqb k sh) as [[id|] sh'] eqn:G; simpl in *.
    - split.
      + unfold get in G. destruct (find keqb k sh) eqn:F; inversion G; subst.
        apply (find_In keqb keqb_spec) in F. eapply (di_own _ I); eauto.
      + split; [intros _; apply Hh; eauto | reflexivity].
    - split; [left; reflexivity|].
      split; [discriminate|]. intros H. apply Hh in H. destruct H; discriminate.
  Qed.
End DispProofs.
