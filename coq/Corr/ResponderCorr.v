(** Correspondence for the responder (respond family, C15 / C04): the real
    server.NewResponder on generated filled-header sets, measured ages and
    status labels against Model/Responder.v. *)
From Coq Require Import List Arith Bool NArith ZArith.
From Pike Require Import Base.Bytes Model.MaxAge Model.Resp Model.Proxy Corr.C15Corr.
From Pike Require Import Model.Responder.
Import ListNotations.

Record rp_case := { rp_filled : headers; rp_age : option bytes; rp_label : bytes; rp_out : headers }.

Definition rp_agrees (c : rp_case) : bool :=
  same_on (fun _ => false) (responder_headers (rp_filled c) (rp_age c) (rp_label c)) (rp_out c).

(** monitor, on the implementation's output alone: everything that was filled
    is still there with the same values, except that Age is pike's own when it
    measured one; X-Status is the label *)
Definition rp_monitor (c : rp_case) : bool :=
  forallb (fun k =>
             beqb k k_x_status
             || (beqb k k_age && match rp_age c with Some _ => true | None => false end)
             || lbytes_eqb (hvalues k (rp_filled c)) (hvalues k (rp_out c)))
          (keys_of (rp_filled c) ++ keys_of (rp_out c))
  && lbytes_eqb (hvalues k_x_status (rp_out c)) [rp_label c]
  && match rp_age c with Some a => lbytes_eqb (hvalues k_age (rp_out c)) [a] | None => true end.

Fixpoint failing {A} (f : A -> bool) (i : nat) (l : list A) : list nat :=
  match l with
  | [] => []
  | x :: r => if f x then failing f (S i) r else i :: failing f (S i) r
  end.

Definition check_cases (cs : list rp_case) : list nat * list nat :=
  (failing rp_agrees 0 cs, failing rp_monitor 0 cs).
