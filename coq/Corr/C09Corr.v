(** Correspondence for C09 (codec family). *)
From Coq Require Import List Arith Bool NArith ZArith.
From Pike Require Import Base.Bytes Model.MaxAge Model.Resp Model.Codec Corr.RespCorr.
Import ListNotations.

Definition ohdr := option headers.

Definition ohdr_eqb (a b : ohdr) : bool :=
  match a, b with
  | None, None => true
  | Some x, Some y => headers_eqb (hsort x) (hsort y)
  | _, _ => false
  end.

Record c9_dec := { cd_data : bytes; cd_ok : bool; cd_after : pentry }.

Record c9_case := {
  c9_entry : option pentry;                 (* structured entry, when the case has one *)
  c9_bytes : bytes;                         (* its Bytes() from the implementation *)
  c9_hdr_enc : list (ohdr * bytes);         (* json.Marshal answers *)
  c9_hdr_dec : list (bytes * option ohdr);  (* json.Unmarshal answers (into a nil map) *)
  c9_regex : list (bytes * bool);           (* regexp.Compile succeeded? *)
  c9_decodes : list c9_dec;                 (* FromBytes on a fresh entry *)
  c9_prefix_ok : list bool                  (* FromBytes ok? for every strict prefix of c9_bytes, by length *)
}.

Definition t_hdr_enc (c : c9_case) (h : ohdr) : bytes :=
  match find (fun e => ohdr_eqb (fst e) h) (c9_hdr_enc c) with Some e => snd e | None => miss end.
Definition t_hdr_dec (c : c9_case) (b : bytes) (_ : ohdr) : option ohdr :=
  match find (fun e => beqb (fst e) b) (c9_hdr_dec c) with Some e => snd e | None => None end.
Definition t_regex (c : c9_case) (b : bytes) : bool :=
  match find (fun e => beqb (fst e) b) (c9_regex c) with Some e => snd e | None => false end.

Definition obytes_eq (a b : option bytes) : bool :=
  match a, b with None, None => true | Some x, Some y => beqb x y | _, _ => false end.

Definition presp_eqb (a b : presp) : bool :=
  beqb (p_srv a) (p_srv b) && Z.eqb (p_min a) (p_min b) && obytes_eq (p_filter a) (p_filter b)
  && ohdr_eqb (p_header a) (p_header b) && Z.eqb (p_status a) (p_status b)
  && beqb (p_gzip a) (p_gzip b) && beqb (p_br a) (p_br b) && beqb (p_raw a) (p_raw b).

Definition opresp_eqb (a b : option presp) : bool :=
  match a, b with None, None => true | Some x, Some y => presp_eqb x y | _, _ => false end.

Definition pentry_eqb (a b : pentry) : bool :=
  Z.eqb (pe_status a) (pe_status b) && opresp_eqb (pe_resp a) (pe_resp b)
  && Z.eqb (pe_created a) (pe_created b) && Z.eqb (pe_expired a) (pe_expired b).

(** [a] as persisted equals [b] as restored: a nil response comes back empty *)
Definition pentry_equiv_b (a b : pentry) : bool :=
  Z.eqb (pe_status a) (pe_status b)
  && match pe_resp a, pe_resp b with
     | Some x, Some y => presp_eqb x y
     | None, Some y => presp_eqb empty_presp y
     | _, _ => false
     end
  && Z.eqb (pe_created a) (pe_created b) && Z.eqb (pe_expired a) (pe_expired b).

Definition m_decode (c : c9_case) (data : bytes) : pentry * bool :=
  decode_entry (t_hdr_dec c) (t_regex c) fresh_entry data.

Definition dec_agrees (c : c9_case) (d : c9_dec) : bool :=
  let '(e, ok) := m_decode c (cd_data d) in
  Bool.eqb ok (cd_ok d) && pentry_eqb e (cd_after d).

Fixpoint prefixes_agree (c : c9_case) (n : nat) (oks : list bool) : bool :=
  match oks with
  | [] => true
  | o :: r => Bool.eqb (snd (m_decode c (firstn n (c9_bytes c)))) o && prefixes_agree c (S n) r
  end.

Definition case_agrees (c : c9_case) : bool :=
  match c9_entry c with
  | Some e => beqb (encode_entry (t_hdr_enc c) e) (c9_bytes c)
  | None => true
  end
  && forallb (dec_agrees c) (c9_decodes c)
  && prefixes_agree c 0 (c9_prefix_ok c).

(** monitor = C09's statement on the implementation's own outputs:
    (a) decoding the encoding gives an entry equal to the original (a nil
        response aside), (b) every strict prefix is reported as an error *)
Definition case_monitor (c : c9_case) : bool :=
  match c9_entry c with
  | Some e =>
      match find (fun d => beqb (cd_data d) (c9_bytes c)) (c9_decodes c) with
      | Some d => cd_ok d && pentry_equiv_b e (cd_after d)
      | None => true
      end
  | None => true
  end
  && forallb negb (c9_prefix_ok c).

Fixpoint failing {A} (f : A -> bool) (i : nat) (l : list A) : list nat :=
  match l with
  | [] => []
  | x :: r => if f x then failing f (S i) r else i :: failing f (S i) r
  end.

Definition check_cases (cs : list c9_case) : list nat * list nat :=
  (failing case_agrees 0 cs, failing case_monitor 0 cs).
