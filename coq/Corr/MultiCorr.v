(** Correspondence for the composed model (Model/Multi.v), family [multi]:
    the harness drives the real dispatcher AND the real entry protocol for many
    keys, one operation at a time (requests, completions of open fetches --
    also on entries that were evicted or purged meanwhile -- and purges), and
    records per operation what a caller can see: whether the lookup created a
    new entry, the label Get returned, the response a hit carries, the number
    of resident entries.  The model replays the operations. *)
From Coq Require Import List Arith Bool NArith ZArith.
From Pike Require Import Model.LRU Model.Dispatcher Model.Sys Model.Multi Corr.C11Corr.
Import ListNotations.

Inductive mu_op :=
| MoReq (k : ckey) (fresh : bool) (l : option lbl) (r : option rid) (res : nat)
    (* l = None: lookup only (the harness's own fetch is still open on the entry it got: Get would park) *)
| MoComplete (k : ckey) (t : tid) (o : outcome) (res : nat)
| MoPurge (k : ckey) (res : nat).

Record mu_case := { mu_size : Z; mu_ops : list mu_op }.

Definition mu_choice (o : outcome) : choice := {| ch_outcome := o; ch_read_ok := true; ch_write_ok := true |}.

Definition pc_of (m : @mstate ckey) (k : ckey) (i : tid) : option pc := nth_error (ts (sys_of ckey_eqb m k)) i.

(** run request [i] of key [k] until it is in the upstream, parked or done *)
Fixpoint settle_req (fuel : nat) (m : @mstate ckey) (k : ckey) (i : tid) (o : outcome) : @mstate ckey :=
  match fuel with
  | O => m
  | S f =>
      match pc_of m k i with
      | Some (PFetch _ _) | Some (PDone _) | Some (PWait _) | Some PDead | None => m
      | _ => match mstep ckey_eqb ckey_hash m (MRun k i (mu_choice o)) with
             | Some m' => settle_req f m' k i o
             | None => m
             end
      end
  end.

(** complete the fetch of request [i]: from [PFetch] to [PDone] *)
Fixpoint finish_req (fuel : nat) (m : @mstate ckey) (k : ckey) (i : tid) (o : outcome) : @mstate ckey :=
  match fuel with
  | O => m
  | S f =>
      match pc_of m k i with
      | Some (PDone _) | Some PDead | None => m
      | _ => match mstep ckey_eqb ckey_hash m (MRun k i (mu_choice o)) with
             | Some m' => finish_req f m' k i o
             | None => m
             end
      end
  end.

Definition lbl_eqb' (a b : lbl) : bool :=
  match a, b with
  | LFetching, LFetching | LHitForPass, LHitForPass | LHit, LHit | LPassed, LPassed => true
  | _, _ => false
  end.

Definition opt_nat_eqb (a b : option nat) : bool :=
  match a, b with Some x, Some y => Nat.eqb x y | None, None => true | _, _ => false end.

(** what the caller of Get saw, from the request's program counter *)
Definition seen (p : option pc) : option (lbl * option rid) :=
  match p with
  | Some (PFetch _ l) => Some (l, None)
  | Some (PDone (Reply l r _)) => Some (l, r)
  | _ => None
  end.

Fixpoint mu_replay (m : @mstate ckey) (ops : list mu_op) : bool :=
  match ops with
  | [] => true
  | MoReq k fresh l r res :: rest =>
      let i := List.length (ts (sys_of ckey_eqb m k)) in
      let was_live := live ckey_eqb m k in
      match mrun ckey_eqb ckey_hash m [MArrive k false; MRun k i (mu_choice OFail)] with
      | Some m1 =>
          let m2 := match l with Some _ => settle_req 4 m1 k i OFail | None => m1 end in
          let ok_obs := match l with
                        | None => true
                        | Some lb => match seen (pc_of m2 k i) with
                                     | Some (lb', r') =>
                                         lbl_eqb' lb lb' && match lb with LHit => opt_nat_eqb r r' | _ => true end
                                     | None => false
                                     end
                        end in
          Bool.eqb was_live (negb fresh) && ok_obs && Nat.eqb (live_count m2) res && mu_replay m2 rest
      | None => false
      end
  | MoComplete k t o res :: rest =>
      let m1 := finish_req 6 m k t o in
      match pc_of m1 k t with
      | Some (PDone _) => Nat.eqb (live_count m1) res && mu_replay m1 rest
      | _ => false
      end
  | MoPurge k res :: rest =>
      match mstep ckey_eqb ckey_hash m (MPurge k true) with
      | Some m1 => Nat.eqb (live_count m1) res && mu_replay m1 rest
      | None => false
      end
  end.

Definition mu_agrees (k : dconsts) (c : mu_case) : bool :=
  mu_replay (minit (new_dispatcher k (mu_size c)) 1000000000 300 false) (mu_ops c).

(** monitors on the implementation's own observations:
    C11: resident entries never exceed the effective size;
    C06: a hit carries a response that was installed for the SAME key (by a cacheable completion of that key) *)
Definition mu_monitor_size (k : dconsts) (c : mu_case) : bool :=
  forallb (fun o => let res := match o with MoReq _ _ _ _ r => r | MoComplete _ _ _ r => r | MoPurge _ r => r end in
                    Z.leb (Z.of_nat res) (eff_size k (mu_size c))) (mu_ops c).

Fixpoint mu_monitor_keys (installed : list (rid * ckey)) (ops : list mu_op) : bool :=
  match ops with
  | [] => true
  | MoComplete k _ (OCacheable _ r) _ :: rest => mu_monitor_keys ((r, k) :: installed) rest
  | MoReq k _ (Some LHit) (Some r) _ :: rest =>
      existsb (fun x => Nat.eqb (fst x) r && ckey_eqb (snd x) k) installed && mu_monitor_keys installed rest
  | MoReq _ _ (Some LHit) None _ :: _ => false
  | _ :: rest => mu_monitor_keys installed rest
  end.

Definition mu_check_cases (k : dconsts) (cs : list mu_case) : list nat * list nat * list nat :=
  (failing (mu_agrees k) 0 cs, failing (mu_monitor_size k) 0 cs, failing (fun c => mu_monitor_keys [] (mu_ops c)) 0 cs).
