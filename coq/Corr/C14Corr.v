(** Correspondence for C14 (route family): the harness builds real Locations
    (NewLocations -> Set -> sort) and calls Get; it reports which configured
    location (by position) was returned, or none. *)
From Coq Require Import List Arith Bool NArith ZArith.
From Pike Require Import Base.Bytes Model.Location.
Import ListNotations.

Record rt_query := { rq_host : bytes; rq_url : bytes; rq_names : list bytes; rq_impl : option nat }.
Record rt_case := { rt_locs : list loc; rt_queries : list rt_query }.

Definition opt_class (locs : list loc) (o : option nat) : option N :=
  match o with
  | None => None
  | Some i => match nth_error locs i with Some l => Some (loc_class l) | None => Some 99%N end
  end.

Definition opt_N_eqb (a b : option N) : bool :=
  match a, b with None, None => true | Some x, Some y => N.eqb x y | _, _ => false end.

(** model vs implementation, projected on (found?, class of the chosen location) *)
Definition query_agrees (c : pconsts) (locs : list loc) (q : rt_query) : bool :=
  opt_N_eqb (option_map loc_class (locations_get c locs (rq_host q) (rq_url q) (rq_names q)))
            (opt_class locs (rq_impl q)).

(** monitor: the property's statement on the implementation's answer *)
Definition query_monitor (c : pconsts) (locs : list loc) (q : rt_query) : bool :=
  let el := eligible (rq_names q) (rq_host q) (rq_url q) in
  match rq_impl q with
  | None => negb (existsb el locs)
  | Some i =>
      match nth_error locs i with
      | None => false
      | Some l => el l && forallb (fun l' => negb (el l') || (loc_class l <=? loc_class l')%N) locs
      end
  end.

Fixpoint failing {A} (f : A -> bool) (i : nat) (l : list A) : list nat :=
  match l with
  | [] => []
  | x :: r => if f x then failing f (S i) r else i :: failing f (S i) r
  end.

Definition check_cases (c : pconsts) (cs : list rt_case) : list nat * list nat :=
  (failing (fun k => forallb (query_agrees c (rt_locs k)) (rt_queries k)) 0 cs,
   failing (fun k => forallb (query_monitor c (rt_locs k)) (rt_queries k)) 0 cs).
