(** Correspondence for C13 / C05 (negotiate family): the harness builds a real
    HTTPResponse from an "upstream" answer (NewHTTPResponse), optionally stores
    it (Cacheable: best-compression pre-compress) and optionally round-trips it
    through the persistence format, then serves it with Fill under several
    Accept-Encoding values.  Codec and regexp answers observed by the harness
    are passed as tables. *)
From Coq Require Import List Arith Bool NArith ZArith.
From Pike Require Import Base.Bytes Model.MaxAge Model.Resp Proofs.RespProofs.
Import ListNotations.

Definition tbl2 := list (bytes * bytes * bytes).      (* (name/encoding, input) -> output *)
Definition tbl1 := list (bytes * option bytes).       (* input -> output / error *)

Definition miss : bytes := [77;73;83;83]%N.

Fixpoint look2 (t : tbl2) (n x : bytes) : option bytes :=
  match t with
  | [] => None
  | (n', x', y) :: r => if beqb n n' && beqb x x' then Some y else look2 r n x
  end.
Fixpoint look1 (t : tbl1) (x : bytes) : option bytes :=
  match t with
  | [] => None
  | (x', y) :: r => if beqb x x' then y else look1 r x
  end.

Record serve_obs := {
  so_accept : bytes;
  so_ok : bool;                 (* Fill returned no error *)
  so_status : Z;
  so_headers : headers;         (* sorted by the harness *)
  so_encoding : bytes;
  so_body : bytes
}.

Record rs_case := {
  rc_status : Z; rc_up_headers : headers; rc_up_encoding : bytes; rc_up_data : bytes;
  rc_orig : bytes;              (* the upstream's decoded body *)
  rc_srv : bytes; rc_min : Z; rc_filter : option bytes;
  rc_cacheable : bool;          (* run Cacheable (pre-compress) before serving *)
  rc_new_ok : bool;             (* NewHTTPResponse returned no error *)
  rc_stored : bytes * bytes * bytes;   (* gzip, br, raw variants of the response as served *)
  rc_gzip_t : tbl2; rc_br_t : tbl2; rc_gunzip_t : tbl1; rc_brdec_t : tbl1; rc_other_t : tbl2;
  rc_filter_t : list (option bytes * bytes * bool);
  rc_valid : bool;              (* the upstream data is a valid stream of its encoding *)
  rc_serves : list serve_obs
}.

Definition obytes_eqb (a b : option bytes) : bool :=
  match a, b with None, None => true | Some x, Some y => beqb x y | _, _ => false end.

Definition case_filter (c : rs_case) (f : option bytes) (ct : bytes) : bool :=
  match find (fun e => obytes_eqb (fst (fst e)) f && beqb (snd (fst e)) ct) (rc_filter_t c) with
  | Some e => snd e
  | None => false
  end.

Definition c_gzip_enc c n x := match look2 (rc_gzip_t c) n x with Some y => y | None => miss end.
Definition c_br_enc c n x := match look2 (rc_br_t c) n x with Some y => y | None => miss end.
Definition c_gunzip c x := look1 (rc_gunzip_t c) x.
Definition c_brdec c x := look1 (rc_brdec_t c) x.
Definition c_other c e x := look2 (rc_other_t c) e x.

(** multiset comparison of header lists: both sorted by the harness / here by insertion *)
Fixpoint bytes_leb (a b : bytes) : bool :=
  match a, b with
  | [], _ => true
  | _ :: _, [] => false
  | x :: a', y :: b' => if N.ltb x y then true else if N.ltb y x then false else bytes_leb a' b'
  end.
Definition hline_leb (a b : header) : bool :=
  if beqb (fst a) (fst b) then bytes_leb (snd a) (snd b) else bytes_leb (fst a) (fst b).
Fixpoint hinsert (x : header) (l : headers) : headers :=
  match l with
  | [] => [x]
  | y :: r => if hline_leb x y then x :: l else y :: hinsert x r
  end.
Definition hsort (l : headers) : headers := fold_right hinsert [] l.
Fixpoint headers_eqb (a b : headers) : bool :=
  match a, b with
  | [], [] => true
  | (k, v) :: a', (k', v') :: b' => beqb k k' && beqb v v' && headers_eqb a' b'
  | _, _ => false
  end.

(** the model's response as served *)
Definition model_resp (c : rs_case) : option resp :=
  match new_response (c_other c) (rc_status c) (rc_up_headers c) (rc_up_encoding c) (rc_up_data c) with
  | None => None
  | Some r0 =>
      let r1 := {| r_srv := rc_srv c; r_min := rc_min c; r_filter := rc_filter c; r_header := r_header r0;
                   r_status := r_status r0; r_gzip := r_gzip r0; r_br := r_br r0; r_raw := r_raw r0 |} in
      Some (if rc_cacheable c
            then cacheable_compress (c_gzip_enc c) (c_br_enc c) (c_gunzip c) (c_brdec c) (case_filter c) r1
            else r1)
  end.

Definition enc_of_name (n : bytes) : option enc :=
  if is_empty n then Some EId else if beqb n s_gzip then Some EGzip else if beqb n s_br then Some EBr else None.

(** model vs implementation, projected per property.
    C05's projection: success, status, end-to-end headers (Content-Encoding
    aside) and the *decoded* body;  C13's projection: the chosen encoding and
    which variants are stored. *)
Definition serve_agrees_c05 (c : rs_case) (r : resp) (o : serve_obs) : bool :=
  match fill (c_gzip_enc c) (c_br_enc c) (c_gunzip c) (c_brdec c) (case_filter c) [] r (so_accept o) with
  | None => negb (so_ok o)
  | Some (st, hs, body, e, _) =>
      so_ok o && Z.eqb st (so_status o)
      && headers_eqb (hsort (hdel k_content_encoding hs)) (hsort (hdel k_content_encoding (so_headers o)))
      (* the decoded body is compared with the upstream's original on each side
         separately: by theorem C05_serve_sound for the model, by the C05
         monitor below for the implementation *)
  end.

Definition serve_agrees_c13 (c : rs_case) (r : resp) (o : serve_obs) : bool :=
  match fill (c_gzip_enc c) (c_br_enc c) (c_gunzip c) (c_brdec c) (case_filter c) [] r (so_accept o) with
  | None => negb (so_ok o)
  | Some (_, _, body, e, _) => so_ok o && beqb (enc_name e) (so_encoding o) && beqb body (so_body o)
  end.

Definition case_agrees_c05 (c : rs_case) : bool :=
  match model_resp c with
  | None => negb (rc_new_ok c)
  | Some r => rc_new_ok c && forallb (serve_agrees_c05 c r) (rc_serves c)
  end.

Definition case_agrees_c13 (c : rs_case) : bool :=
  match model_resp c with
  | None => negb (rc_new_ok c)
  | Some r =>
      rc_new_ok c
      && (let '(g, b, w) := rc_stored c in beqb g (r_gzip r) && beqb b (r_br r) && beqb w (r_raw r))
      && forallb (serve_agrees_c13 c r) (rc_serves c)
  end.

(** C05 monitor on the implementation's own outputs: the body decodes (per the
    returned Content-Encoding) to the upstream's decoded body, the encoding is
    absent or mentioned in Accept-Encoding, status preserved, end-to-end
    headers = upstream headers minus the four hop/framing ones. *)
Definition serve_c05 (c : rs_case) (o : serve_obs) : bool :=
  so_ok o
  && match enc_of_name (so_encoding o) with
     | None => false
     | Some e =>
         obytes_eqb (decode (c_gunzip c) (c_brdec c) e (so_body o)) (Some (rc_orig c))
         && match e with EId => true | EGzip => contains s_gzip (so_accept o) | EBr => contains s_br (so_accept o) end
     end
  && Z.eqb (so_status o) (rc_status c)
  && headers_eqb (hsort (hdel k_content_encoding (so_headers o))) (hsort (clone_and_ignore (rc_up_headers c)))
  && headers_eqb (map (fun v => (k_content_encoding, v)) (hvalues k_content_encoding (so_headers o)))
                 (if is_empty (so_encoding o) then [] else [(k_content_encoding, so_encoding o)]).

Definition case_c05 (c : rs_case) : bool :=
  (* only meaningful when the upstream's data really decodes (documented encoding, valid stream) *)
  if rc_valid c then rc_new_ok c && forallb (serve_c05 c) (rc_serves c) else true.

(** C13 monitor: the implementation's encoding equals the documented table
    evaluated on the implementation's own stored variants *)
Definition serve_c13 (c : rs_case) (o : serve_obs) : bool :=
  let '(g, b, w) := rc_stored c in
  let r := {| r_srv := rc_srv c; r_min := rc_min c; r_filter := rc_filter c; r_header := clone_and_ignore (rc_up_headers c);
              r_status := rc_status c; r_gzip := g; r_br := b; r_raw := w |} in
  let r := if rc_cacheable c then with_srv r s_best else r in
  let '(e, _) := spec_encoding (contains s_br (so_accept o)) (contains s_gzip (so_accept o))
                   (negb (is_empty b)) (negb (is_empty g)) (spec_compressible (case_filter c) r) in
  beqb (enc_name e) (so_encoding o).

(** ... and a cacheable compressible response was compressed when stored (both
    variants present, no raw body), never otherwise *)
Definition stored_c13 (c : rs_case) : bool :=
  let '(g, b, w) := rc_stored c in
  if rc_cacheable c then
    let r0 := {| r_srv := s_best; r_min := rc_min c; r_filter := rc_filter c; r_header := clone_and_ignore (rc_up_headers c);
                 r_status := rc_status c;
                 r_gzip := if beqb (rc_up_encoding c) s_gzip then rc_up_data c else [];
                 r_br := if beqb (rc_up_encoding c) s_br then rc_up_data c else [];
                 r_raw := if beqb (rc_up_encoding c) s_gzip || beqb (rc_up_encoding c) s_br then [] else rc_orig c |} in
    if spec_compressible (case_filter c) r0 && negb (is_empty (rc_orig c))
    then negb (is_empty g) && negb (is_empty b) && is_empty w
         (* ... with the best-compression profile, whatever profile the server names:
            a variant pike produced itself is that profile's output for the decoded body *)
         && (beqb (rc_up_encoding c) s_gzip || beqb g (c_gzip_enc c s_best (rc_orig c)))
         && (beqb (rc_up_encoding c) s_br || beqb b (c_br_enc c s_best (rc_orig c)))
    else true
  else (* not stored: exactly the upstream's single variant *)
    (Nat.leb (length (filter (fun x => negb (is_empty x)) [g; b; w])) 1).

Definition case_c13 (c : rs_case) : bool :=
  if rc_valid c && rc_new_ok c then stored_c13 c && forallb (serve_c13 c) (rc_serves c) else true.

Fixpoint failing {A} (f : A -> bool) (i : nat) (l : list A) : list nat :=
  match l with
  | [] => []
  | x :: r => if f x then failing f (S i) r else i :: failing f (S i) r
  end.

Definition check_cases (cs : list rs_case) : list nat * list nat * list nat * list nat :=
  (failing case_agrees_c05 0 cs, failing case_agrees_c13 0 cs, failing case_c05 0 cs, failing case_c13 0 cs).
