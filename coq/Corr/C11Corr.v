(** Correspondence for C11: the harness drives the real dispatcher through a
    sequence of lookups / removals and records, per op, the identity of the
    returned entry (numbered in creation order) and the total number of
    resident entries (sum of the shards' Len()).  The model replays the ops. *)
From Coq Require Import List Arith Bool NArith ZArith.
From Pike Require Import Model.LRU Model.Dispatcher.
Import ListNotations.

(** a key is (index in the harness's key population, runtime hash of the key) *)
Definition ckey := (N * N)%type.
Definition ckey_eqb (a b : ckey) : bool := N.eqb (fst a) (fst b) && N.eqb (snd a) (snd b).
Definition ckey_hash (k : ckey) : N := snd k.

Record lru_op := { lo_get : bool; lo_key : ckey; lo_id : N; lo_resident : nat }.
Record lru_case := { lc_size : Z; lc_ops : list lru_op }.

Fixpoint replay (d : @disp ckey) (ops : list lru_op) : bool :=
  match ops with
  | [] => true
  | o :: r =>
      if lo_get o then
        let '(id, _, d') := get_http_cache ckey_eqb ckey_hash d (lo_key o) in
        N.eqb id (lo_id o) && Nat.eqb (resident d') (lo_resident o) && replay d' r
      else
        let d' := remove_http_cache ckey_eqb ckey_hash d (lo_key o) in
        Nat.eqb (resident d') (lo_resident o) && replay d' r
  end.

Definition case_agrees (k : dconsts) (c : lru_case) : bool :=
  replay (new_dispatcher k (lc_size c)) (lc_ops c).

(** Monitor on the implementation's own observations: the property's statement
    (resident keys never exceed the configured size). *)
Definition case_monitor (k : dconsts) (c : lru_case) : bool :=
  forallb (fun o => Z.leb (Z.of_nat (lo_resident o)) (eff_size k (lc_size c))) (lc_ops c).

Fixpoint failing {A} (f : A -> bool) (i : nat) (l : list A) : list nat :=
  match l with
  | [] => []
  | x :: r => if f x then failing f (S i) r else i :: failing f (S i) r
  end.

Definition check_cases (k : dconsts) (cs : list lru_case) : list nat * list nat :=
  (failing (case_agrees k) 0 cs, failing (case_monitor k) 0 cs).
