(** Correspondence for C11: the harness drives the real dispatcher through a
    sequence of lookups / removals and records, per op, the identity of the
    returned entry (numbered in creation order) and the total number of
    resident entries (sum of the shards' Len()).  The model replays the ops. *)
From Coq Require Import List Arith Bool NArith ZArith.
From Pike Require Import Model.LRU Model.Dispatcher Model.Sys Model.Multi.
Import ListNotations.

(** a key is (index in the harness's key population, runtime hash of the key) *)
Definition ckey := (N * N)%type.
Definition ckey_eqb (a b : ckey) : bool := N.eqb (fst a) (fst b) && N.eqb (snd a) (snd b).
Definition ckey_hash (k : ckey) : N := snd k.

Record lru_op := { lo_get : bool; lo_key : ckey; lo_id : N; lo_resident : nat }.
Record lru_case := { lc_size : Z; lc_ops : list lru_op }.

Fixpoint replay (d : @disp ckey) (ops : list lru_op) : bool :=
  match ops with
  | [] => true
  | o :: r =>
      if lo_get o then
        let '(id, _, d') := get_http_cache ckey_eqb ckey_hash d (lo_key o) in
        N.eqb id (lo_id o) && Nat.eqb (resident d') (lo_resident o) && replay d' r
      else
        let d' := remove_http_cache ckey_eqb ckey_hash d (lo_key o) in
        Nat.eqb (resident d') (lo_resident o) && replay d' r
  end.

Definition case_agrees (k : dconsts) (c : lru_case) : bool :=
  replay (new_dispatcher k (lc_size c)) (lc_ops c).

(** Monitor on the implementation's own observations: the property's statement
    (resident keys never exceed the configured size). *)
Definition case_monitor (k : dconsts) (c : lru_case) : bool :=
  forallb (fun o => Z.leb (Z.of_nat (lo_resident o)) (eff_size k (lc_size c))) (lc_ops c).

(** Second monitor, the "least recently used" clause, stated on the history of
    operations alone (no model state): an access finds its key resident iff the
    key is among the resident keys of its shard, where the resident keys are
    defined by the history alone: an access makes its key the most recent one
    of its shard and, when the shard then has more than [cap] keys, the least
    recently used one is forgotten; a removal forgets its key.  [rec] = the
    resident keys by recency, most recent first.
    Whether the implementation found the key resident is visible in the entry
    identity it returns: a fresh identity (= number of entries created so far)
    means the key was not resident. *)
Definition shard_of (z : nat) (k : ckey) : N := ckey_hash k mod N.of_nat z.
Definition forget (k : ckey) (rec : list (N * ckey)) : list (N * ckey) :=
  filter (fun x => negb (ckey_eqb (snd x) k)) rec.

Fixpoint mon_lru (z cap : nat) (rec : list (N * ckey)) (next : N) (ops : list lru_op) : bool :=
  match ops with
  | [] => true
  | o :: r =>
      let k := lo_key o in
      if lo_get o then
        let sh := shard_of z k in
        let expected_resident := existsb (fun x => ckey_eqb (snd x) k) rec in
        let observed_resident := negb (N.eqb (lo_id o) next) in
        let mine := (sh, k) :: filter (fun x => N.eqb (fst x) sh) (forget k rec) in
        let others := filter (fun x => negb (N.eqb (fst x) sh)) rec in
        let rec1 := (if Nat.eqb cap 0 then mine else firstn cap mine) ++ others in
        Bool.eqb expected_resident observed_resident
        && mon_lru z cap rec1 (if observed_resident then next else N.succ next) r
      else mon_lru z cap (forget k rec) next r
  end.

Definition case_monitor_lru (k : dconsts) (c : lru_case) : bool :=
  let z := zone_count k (lc_size c) in
  mon_lru z (Z.to_nat (eff_size k (lc_size c) / Z.of_nat z)) [] 0%N (lc_ops c).

(** Third reading of the same histories, through the COMPOSED model
    (Model/Multi.v: dispatcher + one protocol state per key): a lookup is a new
    request of the key that runs its first step (the dispatcher's
    get-or-create); a removal is a purge.  The implementation found the key
    resident iff the key's protocol state had a resident generation, and the
    number of resident entries is the number of keys that have one. *)
Definition mk_choice : choice := {| ch_outcome := OFail; ch_read_ok := true; ch_write_ok := true |}.

Definition live_count (m : @mstate ckey) : nat :=
  List.length (filter (fun ks => match cur (snd ks) with Some _ => true | None => false end) (m_keys m)).

Fixpoint replay_multi (m : @mstate ckey) (next : N) (ops : list lru_op) : bool :=
  match ops with
  | [] => true
  | o :: r =>
      let k := lo_key o in
      if lo_get o then
        let was_live := live ckey_eqb m k in
        let i := List.length (ts (sys_of ckey_eqb m k)) in
        match mrun ckey_eqb ckey_hash m [MArrive k false; MRun k i mk_choice] with
        | Some m' =>
            let observed_resident := negb (N.eqb (lo_id o) next) in
            Bool.eqb was_live observed_resident
            && Nat.eqb (live_count m') (lo_resident o)
            && replay_multi m' (if observed_resident then next else N.succ next) r
        | None => false
        end
      else
        match mstep ckey_eqb ckey_hash m (MPurge k true) with
        | Some m' => Nat.eqb (live_count m') (lo_resident o) && replay_multi m' next r
        | None => false
        end
  end.

Definition case_agrees_multi (k : dconsts) (c : lru_case) : bool :=
  replay_multi (minit (new_dispatcher k (lc_size c)) 1000000 0 false) 0%N (lc_ops c).

Fixpoint failing {A} (f : A -> bool) (i : nat) (l : list A) : list nat :=
  match l with
  | [] => []
  | x :: r => if f x then failing f (S i) r else i :: failing f (S i) r
  end.

Definition check_cases (k : dconsts) (cs : list lru_case) : list nat * list nat * list nat * list nat :=
  (failing (case_agrees k) 0 cs, failing (case_monitor k) 0 cs, failing (case_monitor_lru k) 0 cs,
   failing (case_agrees_multi k) 0 cs).
