(** Correspondence for C15 (proxy family): the real NewProxy middleware
    against a local origin that records what it receives and behaves like a
    conforming origin (ETag / Last-Modified / Range via http.ServeContent). *)
From Coq Require Import List Arith Bool NArith ZArith.
From Pike Require Import Base.Bytes Model.MaxAge Model.Resp Model.Proxy Corr.RespCorr.
Import ListNotations.

Record px_case := {
  px_fetching : bool;            (* cache status label of the request: fetching, or hitForPass / passed *)
  px_loc : plocation;
  px_up_accept : bytes;
  px_request : prequest;         (* the client's request *)
  px_rewritten : bytes;          (* the location's rewriter applied to the path (oracle) *)
  px_seen : prequest;            (* what the origin received *)
  px_after : prequest;           (* the client's request object afterwards *)
  px_origin_status : Z; px_origin_headers : headers;   (* what the origin answered *)
  px_resp_status : Z; px_resp_headers : headers;       (* the HTTPResponse handed on *)
  px_offered : Z;                (* lifetime put in the context for the cache middleware (0 = none) *)
  (* full-chain scenario on the same key afterwards: (request carried conditional/range headers?, status, body length, X-Status is hit?) *)
  px_followups : list (bool * Z * Z * bool);
  px_full_len : Z
}.

(** headers the reverse proxy / HTTP transport add or drop by themselves *)
Definition k_xff : bytes := [88;45;70;111;114;119;97;114;100;101;100;45;70;111;114]%N.
Definition k_user_agent : bytes := [85;115;101;114;45;65;103;101;110;116]%N.
Definition transport_header (k : bytes) : bool :=
  beqb k k_xff || beqb k k_user_agent || beqb k k_content_length || beqb k k_connection.

Definition keys_of (h : headers) : list bytes := map fst h.

Fixpoint lbytes_eqb (a b : list bytes) : bool :=
  match a, b with [], [] => true | x :: a', y :: b' => beqb x y && lbytes_eqb a' b' | _, _ => false end.

(** compare two header sets on every key occurring in either, except [skip] *)
Definition same_on (skip : bytes -> bool) (a b : headers) : bool :=
  forallb (fun k => skip k || lbytes_eqb (hvalues k a) (hvalues k b)) (keys_of a ++ keys_of b).

Definition model_seen (c : px_case) : prequest :=
  upstream_request (fun _ => px_rewritten c) (px_fetching c) (px_loc c) (px_up_accept c) (px_request c).

(** Accept-Encoding is compared only when pike sets it or the client sent one
    (otherwise Go's HTTP transport adds its own) *)
Definition skip_seen (c : px_case) (k : bytes) : bool :=
  transport_header k ||
  (beqb k k_accept_encoding && is_empty (px_up_accept c) &&
   match hvalues k_accept_encoding (rq_headers (px_request c)) with [] => true | _ => false end).

Definition px_agrees (c : px_case) : bool :=
  let m := model_seen c in
  beqb (rq_method m) (rq_method (px_seen c)) && beqb (rq_path m) (rq_path (px_seen c))
  && beqb (rq_query m) (rq_query (px_seen c)) && beqb (rq_body m) (rq_body (px_seen c))
  && same_on (skip_seen c) (rq_headers m) (rq_headers (px_seen c))
  (* the client's request afterwards: conditionals and everything else present again *)
  && same_on (fun k => beqb k k_accept_encoding)
       (rq_headers (client_after (px_loc c) (px_up_accept c) (px_request c))) (rq_headers (px_after c))
  && beqb (rq_path (px_after c)) (rq_path (px_request c))
  (* response side *)
  && Z.eqb (px_resp_status c) (px_origin_status c)
  && same_on (fun k => existsb (beqb k) ignore_headers) (proxy_response_headers (px_loc c) (px_origin_headers c)) (px_resp_headers c)
  && Z.eqb (match offered_lifetime (px_fetching c) (px_loc c) (px_origin_headers c) with Some t => t | None => 0%Z end) (px_offered c).

(** monitor = C15's statement on what the origin really received / what was offered for storage *)
Definition px_monitor (c : px_case) : bool :=
  let rq := px_request c in let seen := px_seen c in
  (* method, body unchanged; the original query string is kept verbatim in front of the additions *)
  beqb (rq_method seen) (rq_method rq) && beqb (rq_body seen) (rq_body rq)
  && (is_prefix (rq_query rq) (rq_query seen))
  && beqb (rq_query seen) (add_query (rq_query rq) (pl_query (px_loc c)))
  && beqb (rq_path seen) (px_rewritten c)
  (* headers: withheld ones absent on a fetching request; all others = client's + configured additions *)
  && forallb (fun k =>
       skip_seen c k || beqb k k_accept_encoding ||
       (if px_fetching c && is_withheld k
        then match hvalues k (rq_headers seen) with [] => true | _ => false end
        else lbytes_eqb (hvalues k (rq_headers seen)) (hvalues k (rq_headers rq) ++ hvalues k (pl_req_headers (px_loc c)))))
     (keys_of (rq_headers rq) ++ keys_of (rq_headers seen) ++ withheld)
  && (is_empty (px_up_accept c) || lbytes_eqb (hvalues k_accept_encoding (rq_headers seen)) [px_up_accept c])
  (* nothing partial / conditional is offered for storage *)
  && (Z.eqb (px_offered c) 0 || negb (Z.eqb (px_resp_status c) 304 || Z.eqb (px_resp_status c) 206 || Z.eqb (px_resp_status c) 412))
  (* full chain afterwards: a request without conditional or range headers always gets the whole resource *)
  && forallb (fun f => match f with (cond, st, len, _) => cond || (Z.eqb st 200 && Z.eqb len (px_full_len c)) end) (px_followups c).

Fixpoint failing {A} (f : A -> bool) (i : nat) (l : list A) : list nat :=
  match l with
  | [] => []
  | x :: r => if f x then failing f (S i) r else i :: failing f (S i) r
  end.

Definition check_cases (cs : list px_case) : list nat * list nat :=
  (failing px_agrees 0 cs, failing px_monitor 0 cs).
