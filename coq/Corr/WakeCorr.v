(** Correspondence for the wake-up / expiry window (wakeup family; C01, C20):
    a choreographed schedule on the real httpCache under GOMAXPROCS=1 without
    asynchronous preemption — the entry expires and another request re-enters
    get() between a waiter's wake-up and its resumption.  The same schedule is
    run on the model as an explicit label list. *)
From Coq Require Import List Arith Bool ZArith Lia.
From Pike Require Import Model.Sys Corr.SysCorr.
Import ListNotations.

Record wk_case := {
  wk_waiters : nat; wk_ttl : Z; wk_delay_ms : Z;
  wk_second : bool;                (* does the main goroutine call Get again before the waiters resume? *)
  wk_main2 : tobs;                 (* what the second Get of the main goroutine returned *)
  wk_after_resume : list tobs;     (* each waiter after it was allowed to resume *)
  wk_after_second : list tobs      (* each waiter after the second fetch completed (cacheable, 60 s, rid 2) *)
}.

Definition ch0 := mkch OFail true true.
Definition chc (ttl : Z) (r : rid) := mkch (OCacheable ttl r) true true.

Definition waiters_arrive (n : nat) : list label :=
  flat_map (fun w => [Arrive false; Run w ch0; Run w ch0; Run w ch0]) (seq 1 n).

Definition schedule1 (n : nat) (ttl delay : Z) (second : bool) : list label :=
  [Arrive false; Run 0 ch0; Run 0 ch0]
  ++ waiters_arrive n
  ++ [Run 0 (chc ttl 1); Run 0 ch0]
  ++ repeat (Run 0 ch0) n          (* sends: every waiter is woken (runnable), none has resumed *)
  ++ [Run 0 ch0]                   (* unlock *)
  ++ [Tick delay]
  ++ (if second then [Arrive false; Run (S n) ch0; Run (S n) ch0] else []).  (* the main goroutine's second Get *)

Definition schedule2 (n : nat) : list label :=
  [Run (S n) (chc 60 2); Run (S n) ch0] ++ repeat (Run (S n) ch0) n ++ [Run (S n) ch0].

(** without a second Get: whichever waiter became the fetcher on resuming is completed (cacheable, 60 s, rid 2) *)
Definition complete_any (n : nat) (s : state) : state :=
  fold_left (fun s i =>
               match nth_error (ts s) i with
               | Some (PFetch _ LFetching) =>
                   run_skip s ([Run i (chc 60 2); Run i ch0] ++ repeat (Run i ch0) n ++ [Run i ch0])
               | _ => s
               end) (seq 1 n) s.

(** let thread [w] run until its next blocking point (upstream, channel, done) *)
Fixpoint run_to_block (fuel : nat) (s : state) (w : tid) : state :=
  match fuel with
  | O => s
  | S f =>
      match nth_error (ts s) w with
      | Some p => if needs_env p then s
                  else match step s (Run w ch0) with Some s' => run_to_block f s' w | None => s end
      | None => s
      end
  end.
Definition resume_waiters (n : nat) (s : state) : state :=
  fold_left (fun s w => run_to_block 6 s w) (seq 1 n) s.

Definition t0_ms : Z := 1000000000000.

Definition obs_threads (s : state) (from n : nat) : list tobs :=
  map (fun i => match nth_error (ts s) i with Some p => obs_of p | None => TOther end) (seq from n).

(** a waiter that is registered again counts as parked; a hit that has not
    yet read its Age is reported by its label only *)
Definition norm (t : tobs) : tobs :=
  match t with TDone l r _ => TDone l r 0 | _ => t end.
Definition obs_of' (p : pc) : tobs :=
  match p with
  | PRegistered _ | PWait _ => TParked
  | PHitAge _ r => TDone LHit r 0
  | _ => norm (obs_of p)
  end.
Definition obs_threads' (s : state) (from n : nat) : list tobs :=
  map (fun i => match nth_error (ts s) i with Some p => obs_of' p | None => TOther end) (seq from n).

Definition wk_model (leg : bool) (c : wk_case) : tobs * list tobs * list tobs :=
  let n := wk_waiters c in
  let s1 := resume_waiters n (run_skip (init t0_ms 0 false leg) (schedule1 n (wk_ttl c) (wk_delay_ms c) (wk_second c))) in
  let s2 := if wk_second c then resume_waiters n (run_skip s1 (schedule2 n))
            else resume_waiters n (complete_any n s1) in
  let fetcher_by_get t := match t with TDone LFetching _ _ => TUpstream LFetching | _ => t end in
  (if wk_second c then match obs_threads' s1 (S n) 1 with [t] => t | _ => TOther end else TOther,
   obs_threads' s1 1 n, map fetcher_by_get (obs_threads' s2 1 n)).

(** multiset equality: which of several woken waiters the scheduler resumes
    first is the runtime's choice and irrelevant to the property *)
Definition count_tobs (t : tobs) (l : list tobs) : nat := length (filter (tobs_eqb t) l).
Definition perm_eqb (a b : list tobs) : bool :=
  Nat.eqb (length a) (length b) && forallb (fun t => Nat.eqb (count_tobs t a) (count_tobs t b)) a.

Definition wk_agrees (c : wk_case) : bool :=
  let '(m2, a1, a2) := wk_model false c in
  if wk_second c
  then tobs_eqb m2 (wk_main2 c) && list_eqb tobs_eqb a1 (wk_after_resume c) && list_eqb tobs_eqb a2 (wk_after_second c)
  else perm_eqb a1 (wk_after_resume c) && perm_eqb a2 (wk_after_second c).

(** monitor (C01): while the main goroutine's second fetch is in flight no
    woken waiter may come back labelled fetching (it would contact the upstream too) *)
Definition wk_monitor (c : wk_case) : bool :=
  match wk_main2 c with
  | TUpstream LFetching => forallb (fun t => negb (is_up_fetching t)) (wk_after_resume c)
  | _ => true
  end.

(** monitor (C04): a waiter that resumes after the entry's lifetime is over
    (aged by at least ttl + 1 whole seconds) is not answered with the expired response (id 1) *)
Definition wk_monitor_fresh (c : wk_case) : bool :=
  if (wk_ttl c + 1 <=? wk_delay_ms c / 1000)%Z
  then forallb (fun t => match t with TDone LHit (Some 1) _ => false | _ => true end) (wk_after_resume c)
  else true.

(** monitor (C02): after the refetch completed nobody is parked *)
Definition wk_monitor_done (c : wk_case) : bool :=
  forallb (fun t => match t with TParked => false | _ => true end) (wk_after_second c).

Definition check_cases (cs : list wk_case) : list nat * list nat * list nat * list nat :=
  (failing wk_agrees 0 cs, failing wk_monitor 0 cs, failing wk_monitor_fresh 0 cs, failing wk_monitor_done 0 cs).

(** the pinned commit's Get exhibits the double fetch on this schedule *)
Lemma legacy_double_fetch :
  let c := {| wk_waiters := 1; wk_ttl := 1; wk_delay_ms := 2100; wk_second := true; wk_main2 := TOther;
              wk_after_resume := []; wk_after_second := [] |} in
  let '(m2, a1, _) := wk_model true c in
  m2 = TUpstream LFetching /\ a1 = [TUpstream LFetching].
Proof. vm_compute. split; reflexivity. Qed.
