(** Correspondence for the choreographed schedules of the `choreo` family
    (C01, C02, C18, C20): critical sections of the real entry / shard lock are
    forced into a chosen order with every operation descheduled right after
    its Unlock (kind 0 and 1), or a purge is held inside store.Delete while
    requests arrive (kind 2).  The same schedules are run on [Model.Sys]. *)
From Coq Require Import List Arith Bool ZArith Lia.
From Pike Require Import Model.Sys Corr.SysCorr Corr.WakeCorr.
Import ListNotations.

Inductive hop := HGet | HCache (ttl : Z) (r : rid) | HHfp.

Record ch_case := {
  ch_kind : nat;               (* 0 entry-handoff, 1 zone-handoff, 2 purge-window (any other number), 3 lookup-purge-get *)
  ch_queue : list hop;         (* kind 0: operations queued on the entry lock, in order *)
  ch_requests : nat;           (* kind 1: requests queued on the shard lock; kind 2: requests arriving during the purge *)
  ch_obs1 : list tobs;         (* every Get after the queue drained *)
  ch_obs2 : list tobs          (* ... after the remaining fetch was completed *)
}.

(** one critical section of a new request's Get on the entry: arrive, look the
    entry up, run get() under the lock — and stop there *)
Definition get_section (k : tid) : list label := [Arrive false; Run k ch0; Run k ch0].

(** the fetcher's completion: outcome, then the locked section (install +
    as many sends as there are possible waiters; a send to a waiter that is
    not receiving yet is disabled and skipped here: the settle phase retries) *)
Definition complete_section (i : tid) (o : outcome) (n : nat) : list label :=
  [Run i (mkch o true true); Run i ch0] ++ repeat (Run i ch0) (S n).

Fixpoint queue_labels (q : list hop) (k : tid) (n : nat) : list label :=
  match q with
  | [] => []
  | HGet :: r => get_section k ++ queue_labels r (S k) n
  | HCache ttl rr :: r => complete_section 0 (OCacheable ttl rr) n ++ queue_labels r k n
  | HHfp :: r => complete_section 0 OFail n ++ queue_labels r k n
  end.

(** quiescence: round-robin, every thread runs to its next blocking point;
    [order] lists the threads in the order in which they resume *)
Fixpoint settle (rounds : nat) (order : list tid) (s : state) : state :=
  match rounds with
  | O => s
  | S r => settle r order (fold_left (fun s w => run_to_block 8 s w) order s)
  end.

Definition count_gets (q : list hop) : nat :=
  length (filter (fun h => match h with HGet => true | _ => false end) q).

(** complete every request that is in the upstream as the fetcher: cacheable, 60 s, response id [f idx] *)
Definition complete_fetchers (f : nat -> rid) (n : nat) (s : state) : state :=
  fold_left (fun s i =>
               match nth_error (ts s) i with
               | Some (PFetch _ LFetching) => run_skip s (complete_section i (OCacheable 60 (f i)) n)
               | _ => s
               end) (seq 0 n) s.

(** the harness reports a request by what its Get returned: a fetcher stays
    "in the upstream as the fetcher" also after its fetch was completed *)
Definition by_get (t : tobs) : tobs :=
  match t with TDone LFetching _ _ => TUpstream LFetching | TDone LHitForPass _ _ => TUpstream LHitForPass | _ => t end.
Definition obs_gets (s : state) (from n : nat) : list tobs := map by_get (obs_threads' s from n).

Definition ch_model (c : ch_case) : list tobs * list tobs :=
  match ch_kind c with
  | 0 =>
      let g := count_gets (ch_queue c) in
      let s0 := run_skip (init t0_ms 0 false false) (get_section 0) in
      let s1 := run_skip s0 (queue_labels (ch_queue c) 1 g) in
      let s2 := settle (3 + g) (seq 0 (S g)) s1 in
      (obs_gets s2 1 g, obs_gets s2 1 g)
  | 1 =>
      let n := ch_requests c in
      (* lookup-or-create sections in queue order; then the last one resumes first *)
      let s1 := run_skip (init t0_ms 0 false false) (flat_map (fun k => [Arrive false; Run k ch0]) (seq 0 n)) in
      let order := (n - 1) :: seq 0 (n - 1) in
      let s2 := settle (3 + n) order s1 in
      let s3 := settle (3 + n) order (complete_fetchers (fun _ => 100) n s2) in
      (obs_gets s2 0 n, obs_gets s3 0 n)
  | 3 =>
      (* a fetch in flight with one parked request; a third request has looked the entry up (it holds the
         entry) when the key is purged, and only then runs get() on the entry it holds; then the fetch completes *)
      let s0 := settle 3 [0; 1] (run_skip (init t0_ms 0 false false) (get_section 0 ++ get_section 1)) in
      let s1 := run_skip s0 [Arrive false; Run 2 ch0; Purge true] in
      let s2 := settle 3 [2; 1; 0] s1 in
      let s3 := settle 4 [0; 1; 2] (run_skip s2 (complete_section 0 (OCacheable 60 1) 2)) in
      (obs_gets s2 1 2, obs_gets s3 1 2)
  | _ =>
      let n := S (ch_requests c) in
      let s0 := run_skip (init t0_ms 0 true false) (get_section 0 ++ complete_section 0 (OCacheable 60 1) 1) in
      let s1 := run_skip s0 [Purge true] in
      let s2 := settle (3 + n) (seq 0 (S n))
                  (run_skip s1 (flat_map (fun k => [Arrive false; Run k ch0]) (seq 1 n))) in
      let s3 := settle (3 + n) (seq 0 (S n)) (complete_fetchers (fun _ => 2) (S n) s2) in
      (obs_gets s2 1 n, obs_gets s3 1 n)
  end.

Definition ch_agrees (c : ch_case) : bool :=
  let '(o1, o2) := ch_model c in
  if Nat.eqb (ch_kind c) 1
  then perm_eqb o1 (ch_obs1 c) && perm_eqb o2 (ch_obs2 c)   (* which request resumes first is the scheduler's choice *)
  else list_eqb tobs_eqb o1 (ch_obs1 c) && list_eqb tobs_eqb o2 (ch_obs2 c).

(** monitors on the implementation's observations alone *)
Definition is_parked (t : tobs) : bool := match t with TParked => true | _ => false end.

(** C01: at most one request is the fetcher *)
Definition ch_mon_c01 (c : ch_case) : bool :=
  Nat.leb (count_obs is_up_fetching (ch_obs1 c)) 1.

(** C02: once no fetch is in flight nobody is parked *)
Definition ch_mon_c02 (c : ch_case) : bool :=
  (if Nat.eqb (ch_kind c) 0 then negb (existsb is_parked (ch_obs1 c)) else true)
  && negb (existsb is_parked (ch_obs2 c)).

(** C18: the request that arrived after the purge returned is not answered from the purged response (id 1) *)
Definition ch_mon_c18 (c : ch_case) : bool :=
  if Nat.eqb (ch_kind c) 2 then
    match last (ch_obs2 c) TOther with
    | TDone LHit (Some 1) _ => false
    | _ => true
    end
  else true.

Definition check_cases (cs : list ch_case) : list nat * list nat * list nat * list nat :=
  (failing ch_agrees 0 cs, failing ch_mon_c01 0 cs, failing ch_mon_c02 0 cs, failing ch_mon_c18 0 cs).

(** sanity: what the model answers on three schedules *)
Example ch_model_registered_waiter :
  ch_model {| ch_kind := 0; ch_queue := [HGet; HCache 60 1]; ch_requests := 0; ch_obs1 := []; ch_obs2 := [] |}
  = ([TDone LHit (Some 1) 0], [TDone LHit (Some 1) 0]).
Proof. vm_compute. reflexivity. Qed.

Example ch_model_cold_burst :
  fst (ch_model {| ch_kind := 1; ch_queue := []; ch_requests := 3; ch_obs1 := []; ch_obs2 := [] |})
  = [TParked; TParked; TUpstream LFetching].
Proof. vm_compute. reflexivity. Qed.

Example ch_model_lookup_purge_get :
  ch_model {| ch_kind := 3; ch_queue := []; ch_requests := 0; ch_obs1 := []; ch_obs2 := [] |}
  = ([TParked; TParked], [TDone LHit (Some 1) 0; TDone LHit (Some 1) 0]).
Proof. vm_compute. reflexivity. Qed.

Example ch_model_purge_window :
  ch_model {| ch_kind := 2; ch_queue := []; ch_requests := 1; ch_obs1 := []; ch_obs2 := [] |}
  = ([TUpstream LFetching; TParked], [TUpstream LFetching; TDone LHit (Some 2) 0]).
Proof. vm_compute. reflexivity. Qed.
