(** Correspondence for the path rewriter (rewrite family, C15): the real
    location.URLRewriter on generated (rules, path) pairs against
    Model/Rewrite.v; the monitor is the specification "the image is the path
    itself when no rule matches, otherwise the rule's target with every [$d]
    token replaced by the d-th group of SOME decomposition of the path along
    the pattern" — it does not use the matcher's search order. *)
From Coq Require Import List Arith Bool NArith.
From Pike Require Import Base.Bytes Model.Rewrite.
Import ListNotations.

Record rw_case := { rw_rules : list bytes; rw_path : bytes; rw_image : bytes }.

Definition rw_agrees (c : rw_case) : bool :=
  match parse_rules (rw_rules c) with
  | Some rs => beqb (rewrite_path rs (rw_path c)) (rw_image c)
  | None => true          (* outside the modelled class *)
  end.

(** every decomposition of a prefix of [s] along the pattern *)
Fixpoint all_here (its : list pitem) (s : bytes) : list (list bytes) :=
  match its with
  | [] => [[]]
  | PLit c :: r =>
      match s with
      | x :: s' => if N.eqb x c then all_here r s' else []
      | [] => []
      end
  | PStar :: r =>
      flat_map (fun k => map (cons (firstn k s)) (all_here r (skipn k s))) (seq 0 (S (run_len s)))
  end.

Fixpoint all_matches (its : list pitem) (s : bytes) : list (list bytes) :=
  all_here its s ++ match s with [] => [] | _ :: s' => all_matches its s' end.

Definition images1 (r : rule) (path : bytes) : list bytes :=
  match all_matches (r_items r) path with
  | [] => [path]
  | ms => map (fun caps => expand caps (r_value r)) ms
  end.

Definition images (rs : list rule) (path : bytes) : list bytes :=
  fold_left (fun ps r => flat_map (images1 r) ps) rs [path].

Definition rw_monitor (c : rw_case) : bool :=
  match parse_rules (rw_rules c) with
  | Some rs => existsb (beqb (rw_image c)) (images rs (rw_path c))
  | None => true
  end.

Fixpoint failing {A} (f : A -> bool) (i : nat) (l : list A) : list nat :=
  match l with
  | [] => []
  | x :: r => if f x then failing f (S i) r else i :: failing f (S i) r
  end.

Definition check_cases (cs : list rw_case) : list nat * list nat :=
  (failing rw_agrees 0 cs, failing rw_monitor 0 cs).
