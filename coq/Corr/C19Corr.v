(** Correspondence for C19 (upstream family): real upstream servers built with
    pike's NewUpstreamServer; statuses set through the library; picks through
    pike's target picker; health-check rounds against local listeners that
    fail a chosen number of pings. *)
From Coq Require Import List Arith Bool NArith ZArith.
From Pike Require Import Model.Upstream.
Import ListNotations.

Inductive uop :=
| USet (i : nat) (st : ustatus)            (* Healthy() / Sick() / Ignored() on server i *)
| UPick (impl : option nat)                (* one request: the server the implementation chose *)
| UDone (i : nat)                          (* a least-conn request on server i finished *)
| UCheck (fails : list nat) (after : list ustatus).  (* one DoHealthCheck round: failed pings per server; statuses afterwards *)

Record u_case := { uc_policy : upolicy; uc_backup : list bool; uc_ops : list uop }.

Definition ustatus_eqb (a b : ustatus) : bool :=
  match a, b with UUnknown, UUnknown | USick, USick | UHealthy, UHealthy | UIgnored, UIgnored => true | _, _ => false end.
Definition onat_eqb (a b : option nat) : bool :=
  match a, b with None, None => true | Some x, Some y => Nat.eqb x y | _, _ => false end.

Definition set_status (s : usrv) (v : ustatus) : usrv := {| u_backup := u_backup s; u_status := v; u_value := u_value s |}.

Fixpoint statuses_eqb (l : list usrv) (a : list ustatus) : bool :=
  match l, a with
  | [], [] => true
  | s :: r, x :: a' => ustatus_eqb (u_status s) x && statuses_eqb r a'
  | _, _ => false
  end.

Fixpoint apply_check (l : list usrv) (fails : list nat) : list usrv :=
  match l, fails with
  | s :: r, f :: fr => set_status s (check_rule 2 f (u_status s)) :: apply_check r fr
  | _, _ => l
  end.

(** exact replay for first / round-robin / least-conn; for random only validity is checked *)
Fixpoint replay (p : upolicy) (st : ustate) (ops : list uop) : bool :=
  match ops with
  | [] => true
  | USet i v :: r => replay p {| servers := upd_srv (servers st) i (fun s => set_status s v); rr := rr st |} r
  | UDone i :: r => replay p (done_conn st i) r
  | UCheck fails after :: r =>
      let l := apply_check (servers st) fails in
      statuses_eqb l after && replay p {| servers := l; rr := rr st |} r
  | UPick impl :: r =>
      match p with
      | PRandom =>
          (match impl with
           | None => match available (servers st) with [] => true | _ => false end
           | Some i => existsb (Nat.eqb i) (available (servers st))
           end) && replay p st r
      | _ => let '(o, st') := next p 0 st in onat_eqb o impl && replay p st' r
      end
  end.

Definition init_state (c : u_case) : ustate :=
  {| servers := map (fun b => {| u_backup := b; u_status := USick; u_value := 0 |}) (uc_backup c); rr := 0 |}.

Definition case_agrees (c : u_case) : bool := replay (uc_policy c) (init_state c) (uc_ops c).

(** monitor = C19's statement on the implementation's own picks: the chosen
    server is one whose last known status is healthy, a backup only when no
    primary is healthy, none only when none is healthy; with round robin over
    an unchanged status vector, counts of the available servers differ by <= 1 *)
Fixpoint track (l : list usrv) (ops : list uop) (window : list nat) : bool :=
  match ops with
  | [] => true
  | USet i v :: r => track (upd_srv l i (fun s => set_status s v)) r []
  | UDone _ :: r => track l r window
  | UCheck fails after :: r =>
      (* statuses as the implementation reports them *)
      let l' := (fix go (l : list usrv) (a : list ustatus) := match l, a with s :: r, x :: a' => set_status s x :: go r a' | _, _ => l end) l after in
      forallb (fun sf => match sf with (s, (f, x)) =>
                 match u_status s with UIgnored => ustatus_eqb x UIgnored
                 | _ => ustatus_eqb x (if Nat.leb 2 f then USick else UHealthy) end end)
              (combine l (combine fails after))
      && track l' r []
  | UPick impl :: r =>
      let ok :=
        match impl with
        | None => forallb (fun s => negb (is_healthy s)) l
        | Some i =>
            match nth_error l i with
            | Some s => is_healthy s && (negb (u_backup s) || forallb (fun t => negb (is_healthy t) || u_backup t) l)
            | None => false
            end
        end in
      ok && track l r (match impl with Some i => i :: window | None => window end)
  end.

(** evenness over maximal windows of picks with an unchanged status vector *)
Definition count_nat (x : nat) (l : list nat) : nat := length (filter (Nat.eqb x) l).
Fixpoint windows (l : list usrv) (ops : list uop) (cur : list nat) : list (list usrv * list nat) :=
  match ops with
  | [] => [(l, cur)]
  | USet i v :: r => (l, cur) :: windows (upd_srv l i (fun s => set_status s v)) r []
  | UCheck fails after :: r =>
      (l, cur) :: windows ((fix go (l : list usrv) (a : list ustatus) := match l, a with s :: r, x :: a' => set_status s x :: go r a' | _, _ => l end) l after) r []
  | UDone _ :: r => windows l r cur
  | UPick (Some i) :: r => windows l r (i :: cur)
  | UPick None :: r => windows l r cur
  end.
Definition even_window (w : list usrv * list nat) : bool :=
  let av := available (fst w) in
  forallb (fun a => forallb (fun b => Nat.leb (count_nat a (snd w)) (S (count_nat b (snd w)))) av) av.

Definition case_monitor (c : u_case) : bool :=
  track (servers (init_state c)) (uc_ops c) []
  && match uc_policy c with
     | PRoundRobin => forallb even_window (windows (servers (init_state c)) (uc_ops c) [])
     | _ => true
     end.

Fixpoint failing {A} (f : A -> bool) (i : nat) (l : list A) : list nat :=
  match l with
  | [] => []
  | x :: r => if f x then failing f (S i) r else i :: failing f (S i) r
  end.

Definition check_cases (cs : list u_case) : list nat * list nat :=
  (failing case_agrees 0 cs, failing case_monitor 0 cs).
