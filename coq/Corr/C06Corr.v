(** Correspondence for C06 (keys family).
    (a) getKey: bytes of the real key vs the model;
    (b) dispatcher under colliding keys: entry identities vs the model, plus the
        monitor "an entry is only ever returned for the key it was created for". *)
From Coq Require Import List Arith Bool NArith ZArith.
From Pike Require Import Base.Bytes Model.Key Model.LRU Model.Dispatcher Corr.C11Corr.
Import ListNotations.

Record key_case := { kc_method : bytes; kc_host : bytes; kc_request_uri : bytes; kc_url_string : bytes; kc_impl : bytes }.

Definition key_agrees (c : key_case) : bool :=
  beqb (get_key (kc_method c) (kc_host c) (effective_uri (kc_request_uri c) (kc_url_string c))) (kc_impl c).

(** key isolation on the implementation's own outputs: two requests that
    differ in method, host or URI (with space-free method and host) never get
    the same key *)
Definition triple_eqb (a b : key_case) : bool :=
  beqb (kc_method a) (kc_method b) && beqb (kc_host a) (kc_host b) &&
  beqb (effective_uri (kc_request_uri a) (kc_url_string a)) (effective_uri (kc_request_uri b) (kc_url_string b)).

Definition wf_case (c : key_case) : bool := space_free (kc_method c) && space_free (kc_host c).

Fixpoint keys_isolated (l : list key_case) : bool :=
  match l with
  | [] => true
  | c :: r =>
      forallb (fun d => negb (wf_case c && wf_case d) || negb (beqb (kc_impl c) (kc_impl d)) || triple_eqb c d) r
      && keys_isolated r
  end.

(** dispatcher part: reuse the lru case format; monitor for C06 = ids are
    never shared between keys *)
Fixpoint id_owner_ok (seen : list (N * N)) (ops : list lru_op) : bool :=
  match ops with
  | [] => true
  | o :: r =>
      if lo_get o then
        match List.find (fun p => N.eqb (fst p) (lo_id o)) seen with
        | Some (_, k) => N.eqb k (fst (lo_key o)) && id_owner_ok seen r
        | None => id_owner_ok ((lo_id o, fst (lo_key o)) :: seen) r
        end
      else id_owner_ok seen r
  end.

Fixpoint failing {A} (f : A -> bool) (i : nat) (l : list A) : list nat :=
  match l with
  | [] => []
  | x :: r => if f x then failing f (S i) r else i :: failing f (S i) r
  end.

Record c06_case := { c6_keys : list key_case; c6_disp : list lru_case }.

Definition check_cases (k : dconsts) (cs : list c06_case) : list nat * list nat :=
  (failing (fun c => forallb key_agrees (c6_keys c) && forallb (case_agrees k) (c6_disp c)) 0 cs,
   failing (fun c => keys_isolated (c6_keys c) && forallb (fun d => id_owner_ok [] (lc_ops d)) (c6_disp c)) 0 cs).
