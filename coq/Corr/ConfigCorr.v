(** Correspondence for C17 (config family) and C16 (reconf family). *)
From Coq Require Import List Arith Bool NArith ZArith.
From Pike Require Import Base.Bytes Model.Config.
Import ListNotations.

Definition verdict_eqb (a b : verdict) : bool :=
  match a, b with VOk, VOk | VField, VField | VUpstream, VUpstream | VLocation, VLocation | VCache, VCache | VCompress, VCompress => true | _, _ => false end.

(** ** C17 *)
Record cf_case := {
  cf_cfg : pike_cfg;
  cf_impl : verdict;                   (* what the real Validate answered *)
  cf_resolved : list (bytes * bool)    (* after applying an accepted config: per server addr, did cache + every location + its upstream resolve? *)
}.

Definition cf_agrees (c : cf_case) : bool :=
  verdict_eqb (validate (cf_cfg c)) (cf_impl c)
  && match cf_impl c with
     | VOk => forallb (fun ar => match assoc (rg_servers (update false (cf_cfg c) boot)) (fst ar) with
                                 | Some st => Bool.eqb (resolves (update false (cf_cfg c) boot) st) (snd ar)
                                 | None => false end) (cf_resolved c)
     | _ => true
     end.

(** monitor: an accepted configuration has no dangling reference (checked on
    the configuration itself) and every server resolved after applying it *)
Definition cfg_closed (c : pike_cfg) : bool :=
  forallb (fun l => has_name up_name (pc_upstreams c) (lo_upstream l)) (pc_locations c)
  && forallb (fun s => forallb (has_name lo_name (pc_locations c)) (sv_locations s)
                       && has_name ca_name (pc_caches c) (sv_cache s)
                       && (is_empty_b (sv_compress s) || has_name cc_name (pc_compresses c) (sv_compress s))) (pc_servers c).

Definition cf_monitor (c : cf_case) : bool :=
  match cf_impl c with
  | VOk => cfg_closed (cf_cfg c) && fields_ok (cf_cfg c) && forallb snd (cf_resolved c)
  | _ => true
  end.

Fixpoint failing {A} (f : A -> bool) (i : nat) (l : list A) : list nat :=
  match l with
  | [] => []
  | x :: r => if f x then failing f (S i) r else i :: failing f (S i) r
  end.

Definition check_cases (cs : list cf_case) : list nat * list nat :=
  (failing cf_agrees 0 cs, failing cf_monitor 0 cs).

(** ** C16 *)
(** observations the harness reads through the exported getters *)
Record srv_obs := { so_addr : bytes; so_present : bool; so_locs : list bytes; so_cache : bytes; so_compress : bytes;
                    so_min : Z; so_filter : option bytes }.
Record up_obs := { uo_name : bytes; uo_present : bool; uo_policy : bytes; uo_accept : bytes; uo_backup : list bool }.
Record robs := {
  ro_servers : list srv_obs;
  ro_ups : list up_obs;
  ro_caches : list (bytes * bool);
  ro_levels : list (bytes * (Z * Z));
  ro_route : list (bytes * bytes * bytes * option bytes)   (* host, uri, location name -> upstream of the chosen location *)
}.

Record rc_case := {
  rc_cfgs : list pike_cfg;       (* applied in this order to one process *)
  rc_live : robs;                (* observed on the live process after the last one *)
  rc_fresh : robs;               (* observed on a fresh process given only the last one *)
  rc_retained : list (bytes * bool)   (* for dispatchers that existed before the last update and survive: same object? *)
}.

Definition obytes_eqb (a b : option bytes) : bool :=
  match a, b with None, None => true | Some x, Some y => beqb x y | _, _ => false end.
Fixpoint lbytes_eqb (a b : list bytes) : bool :=
  match a, b with [], [] => true | x :: a', y :: b' => beqb x y && lbytes_eqb a' b' | _, _ => false end.
Fixpoint lbool_eqb (a b : list bool) : bool :=
  match a, b with [], [] => true | x :: a', y :: b' => Bool.eqb x y && lbool_eqb a' b' | _, _ => false end.

Definition srv_obs_eqb (a b : srv_obs) : bool :=
  beqb (so_addr a) (so_addr b) && Bool.eqb (so_present a) (so_present b) &&
  (negb (so_present a) ||
   (lbytes_eqb (so_locs a) (so_locs b) && beqb (so_cache a) (so_cache b) && beqb (so_compress a) (so_compress b)
    && Z.eqb (so_min a) (so_min b) && obytes_eqb (so_filter a) (so_filter b))).
Definition up_obs_eqb (a b : up_obs) : bool :=
  beqb (uo_name a) (uo_name b) && Bool.eqb (uo_present a) (uo_present b) &&
  (negb (uo_present a) || (beqb (uo_policy a) (uo_policy b) && beqb (uo_accept a) (uo_accept b) && lbool_eqb (uo_backup a) (uo_backup b))).

Fixpoint all2 {A} (f : A -> A -> bool) (a b : list A) : bool :=
  match a, b with [], [] => true | x :: a', y :: b' => f x y && all2 f a' b' | _, _ => false end.

Definition robs_eqb (a b : robs) : bool :=
  all2 srv_obs_eqb (ro_servers a) (ro_servers b)
  && all2 up_obs_eqb (ro_ups a) (ro_ups b)
  && all2 (fun x y => beqb (fst x) (fst y) && Bool.eqb (snd x) (snd y)) (ro_caches a) (ro_caches b)
  && all2 (fun x y => beqb (fst x) (fst y) && Z.eqb (fst (snd x)) (fst (snd y)) && Z.eqb (snd (snd x)) (snd (snd y))) (ro_levels a) (ro_levels b)
  && all2 (fun x y => match x, y with (h, u, n, r), (h', u', n', r') => beqb h h' && beqb u u' && beqb n n' && obytes_eqb r r' end)
          (ro_route a) (ro_route b).

(** the model's prediction of the same observations *)
Definition model_srv (r : regs) (o : srv_obs) : srv_obs :=
  match assoc (rg_servers r) (so_addr o) with
  | Some st => {| so_addr := so_addr o; so_present := true; so_locs := ss_locations st; so_cache := ss_cache st;
                  so_compress := ss_compress st; so_min := ss_min_length st; so_filter := ss_filter st |}
  | None => {| so_addr := so_addr o; so_present := false; so_locs := []; so_cache := []; so_compress := []; so_min := 0; so_filter := None |}
  end.
Definition model_up (r : regs) (o : up_obs) : up_obs :=
  match find (fun u => beqb (up_name u) (uo_name o)) (rg_ups r) with
  | Some u => {| uo_name := uo_name o; uo_present := true; uo_policy := up_policy u; uo_accept := up_accept u; uo_backup := up_backup_flags u |}
  | None => {| uo_name := uo_name o; uo_present := false; uo_policy := []; uo_accept := []; uo_backup := [] |}
  end.

From Pike Require Import Model.Location.
Definition to_loc (l : location_cfg) : loc :=
  {| l_name := lo_name l; l_hosts := lo_hosts l; l_prefixes := lo_prefixes l; l_tag := 0 |}.
(** route: the upstream of the best matching location with that name; when
    several locations tie, any of them — compared only when the answer is unambiguous *)
Definition model_route (r : regs) (q : bytes * bytes * bytes * option bytes) : list (option bytes) :=
  let '(h, u, n, _) := q in
  let cands := filter (fun l => eligible [n] h u (to_loc l)) (rg_locs r) in
  match cands with
  | [] => [None]
  | _ => let best := fold_left (fun m l => N.min m (loc_class (to_loc l))) cands 9%N in
         map (fun l => Some (lo_upstream l)) (filter (fun l => N.eqb (loc_class (to_loc l)) best) cands)
  end.

Definition model_agrees (r : regs) (o : robs) : bool :=
  all2 srv_obs_eqb (map (model_srv r) (ro_servers o)) (ro_servers o)
  && all2 up_obs_eqb (map (model_up r) (ro_ups o)) (ro_ups o)
  && forallb (fun x => Bool.eqb (match assoc (rg_caches r) (fst x) with Some _ => true | None => false end) (snd x)) (ro_caches o)
  && forallb (fun x => let lv := compress_get r (fst x) in Z.eqb (fst lv) (fst (snd x)) && Z.eqb (snd lv) (snd (snd x))) (ro_levels o)
  && forallb (fun q => existsb (obytes_eqb (snd q)) (model_route r q)) (ro_route o).

Definition rc_agrees (c : rc_case) : bool :=
  let live := fold_left (fun r x => update false x r) (rc_cfgs c) boot in
  let fresh := match rev (rc_cfgs c) with x :: _ => update false x boot | [] => boot end in
  model_agrees live (rc_live c) && model_agrees fresh (rc_fresh c).

(** monitor = the property: live observations equal fresh observations, and surviving caches were retained *)
Definition rc_monitor (c : rc_case) : bool :=
  robs_eqb (rc_live c) (rc_fresh c) && forallb snd (rc_retained c).

Definition check_reconf (cs : list rc_case) : list nat * list nat :=
  (failing rc_agrees 0 cs, failing rc_monitor 0 cs).
