(** Correspondence for the entry protocol (flight family; C01 C02 C03 C04 C07
    C08 C10 C18).  The harness drives the real cache middleware (server.NewCache
    over a real dispatcher, a fake store, testing/synctest's fake clock) with
    one op at a time and observes every request at quiescence.  The model
    applies the op and runs every enabled thread step to quiescence. *)
From Coq Require Import List Arith Bool ZArith Lia.
From Pike Require Import Model.Sys.
Import ListNotations.

Inductive op :=
| OpArrive (pass : bool)
| OpRelease (i : tid) (o : outcome)
| OpTick (ms : Z)
| OpPurge (del_ok : bool)
| OpEvict
| OpRestart
| OpCorrupt (c : scontent)
| OpFaults (read_ok write_ok : bool).

Inductive tobs := TParked | TUpstream (l : lbl) | TDone (l : lbl) (r : option rid) (age : Z) | TOther.

Definition obs_of (p : pc) : tobs :=
  match p with
  | PWait _ => TParked
  | PFetch _ l => TUpstream l
  | PPassFetch => TUpstream LPassed
  | PDone (Reply l r a) => TDone l r a
  | _ => TOther
  end.

Definition needs_env (p : pc) : bool :=
  match p with PFetch _ _ | PPassFetch | PWait _ | PDone _ | PDead => true | _ => false end.

Definition mkch (o : outcome) (rd wr : bool) : choice := {| ch_outcome := o; ch_read_ok := rd; ch_write_ok := wr |}.

(** one pass over all threads: run each thread that does not wait for the
    environment; report whether anything moved *)
Fixpoint pass_threads (rd wr : bool) (n : nat) (i : nat) (s : state) : state * bool :=
  match n with
  | O => (s, false)
  | S n' =>
      let '(s1, moved1) :=
        match nth_error (ts s) i with
        | Some p => if needs_env p then (s, false)
                    else match step s (Run i (mkch OFail rd wr)) with Some s' => (s', true) | None => (s, false) end
        | None => (s, false)
        end in
      let '(s2, moved2) := pass_threads rd wr n' (S i) s1 in
      (s2, moved1 || moved2)
  end.

Fixpoint quiesce (fuel : nat) (rd wr : bool) (s : state) : state :=
  match fuel with
  | O => s
  | S f => let '(s', moved) := pass_threads rd wr (length (ts s)) 0 s in
           if moved then quiesce f rd wr s' else s'
  end.

Definition apply_op (s : state) (rd wr : bool) (o : op) : state * bool * bool :=
  match o with
  | OpArrive p => (match step s (Arrive p) with Some s' => s' | None => s end, rd, wr)
  | OpRelease i oc => (match step s (Run i (mkch oc rd wr)) with Some s' => s' | None => s end, rd, wr)
  | OpTick d => (match step s (Tick d) with Some s' => s' | None => s end, rd, wr)
  | OpPurge ok => (match step s (Purge ok) with Some s' => s' | None => s end, rd, wr)
  | OpEvict => (match step s Evict with Some s' => s' | None => s end, rd, wr)
  | OpRestart => (match step s Crash with Some s' => s' | None => s end, rd, wr)
  | OpCorrupt c => (match step s (Corrupt c) with Some s' => s' | None => s end, rd, wr)
  | OpFaults r w => (s, r, w)
  end.

(** store content as the harness can see it (decoded with the real FromBytes) *)
Inductive sobs := SoNone | SoRec (st : status) (r : option rid) (created expired : Z) | SoJunk.

Definition sobs_of (c : scontent) : sobs :=
  match c with
  | SNone => SoNone
  | SRec r => SoRec (sr_st r) (sr_resp r) (sr_created r) (sr_expired r)
  | SJunk _ _ => SoJunk
  end.

Record frame := { f_op : op; f_threads : list tobs; f_store : sobs }.
Record fl_case := { fc_t0 : Z; fc_hfp : Z; fc_store : bool; fc_frames : list frame }.

Definition status_eqb (a b : status) : bool :=
  match a, b with Unknown, Unknown | Fetching, Fetching | HitForPass, HitForPass | Hit, Hit => true | _, _ => false end.
Definition lbl_eqb (a b : lbl) : bool :=
  match a, b with LFetching, LFetching | LHitForPass, LHitForPass | LHit, LHit | LPassed, LPassed => true | _, _ => false end.
Definition orid_eqb (a b : option rid) : bool :=
  match a, b with None, None => true | Some x, Some y => Nat.eqb x y | _, _ => false end.
Definition tobs_eqb (a b : tobs) : bool :=
  match a, b with
  | TParked, TParked => true
  | TUpstream x, TUpstream y => lbl_eqb x y
  | TDone l r a, TDone l' r' a' => lbl_eqb l l' && orid_eqb r r' && Z.eqb a a'
  | _, _ => false
  end.
Fixpoint list_eqb {A} (f : A -> A -> bool) (a b : list A) : bool :=
  match a, b with
  | [], [] => true
  | x :: a', y :: b' => f x y && list_eqb f a' b'
  | _, _ => false
  end.
Definition sobs_eqb (a b : sobs) : bool :=
  match a, b with
  | SoNone, SoNone => true
  | SoJunk, SoJunk => true
  | SoRec s r c x, SoRec s' r' c' x' => status_eqb s s' && orid_eqb r r' && Z.eqb c c' && Z.eqb x x'
  | _, _ => false
  end.

(** replay: model observation after each op must equal the implementation's *)
Fixpoint replay (s : state) (rd wr : bool) (fs : list frame) : bool :=
  match fs with
  | [] => true
  | f :: r =>
      let '(s1, rd1, wr1) := apply_op s rd wr (f_op f) in
      let s2 := quiesce (20 + 8 * length (ts s1)) rd1 wr1 s1 in
      list_eqb tobs_eqb (map obs_of (ts s2)) (f_threads f)
      && (negb (has_store s2) || sobs_eqb (sobs_of (store s2)) (f_store f))
      && replay s2 rd1 wr1 r
  end.

Definition case_agrees (c : fl_case) : bool :=
  replay (init (fc_t0 c) (fc_hfp c) (fc_store c) false) true true (fc_frames c).

(** ** Monitors on the implementation's own observations *)

(** clock after each frame, table of installed responses (rid -> created second, ttl) *)
Definition installed := list (rid * (Z * Z)).
Fixpoint lookup_rid (t : installed) (r : rid) : option (Z * Z) :=
  match t with [] => None | (r', v) :: rest => if Nat.eqb r r' then Some v else lookup_rid rest r end.

Definition count_obs (f : tobs -> bool) (l : list tobs) : nat := length (filter f l).
Definition is_up_fetching (t : tobs) : bool := match t with TUpstream LFetching => true | _ => false end.
Definition is_parked (t : tobs) : bool := match t with TParked => true | _ => false end.
Definition is_up (t : tobs) : bool := match t with TUpstream _ => true | _ => false end.

Definition disruptive (o : op) : bool :=
  match o with OpPurge _ | OpEvict | OpRestart | OpCorrupt _ => true | _ => false end.

(** C01: at most one fetching-labelled request in flight, plus one per
    disruption (purge / eviction / restart / store loss — the property's own
    proviso) that happened while a fetch was in flight *)
Fixpoint mon_c01 (allow : nat) (fs : list frame) : bool :=
  match fs with
  | [] => true
  | f :: r =>
      let n := count_obs is_up_fetching (f_threads f) in
      let allow1 := if disruptive (f_op f) then S allow else allow in
      let allow2 := if Nat.eqb n 0 then 1 else allow1 in
      Nat.leb n allow1 && mon_c01 allow2 r
  end.

(** thread-wise transitions between consecutive frames *)
Definition nth_obs (l : list tobs) (i : nat) : option tobs := nth_error l i.

(** C03 (label truthful) + well-formed lifecycles: a request labelled hit was
    never seen in the upstream; any other completed request was seen in the
    upstream with exactly that label; completed requests never change again *)
Fixpoint mon_lifecycle (prev : list tobs) (fs : list frame) : bool :=
  match fs with
  | [] => true
  | f :: r =>
      let cur := f_threads f in
      let ok :=
        forallb (fun i =>
          match nth_obs prev i, nth_obs cur i with
          | Some (TDone l a b), Some t => tobs_eqb (TDone l a b) t
          | Some (TUpstream l), Some (TDone l' _ _) => lbl_eqb l l'
          | Some (TUpstream l), Some t => tobs_eqb (TUpstream l) t
          | Some TParked, Some (TDone l' _ _) => lbl_eqb l' LHit
          | Some TParked, Some (TUpstream l) => negb (lbl_eqb l LPassed)
          | None, Some (TDone l' _ _) => lbl_eqb l' LHit        (* answered within its arrival op: only a hit can be *)
          | _, Some TOther => false
          | _, _ => true
          end) (seq 0 (length cur)) in
      ok && mon_lifecycle cur r
  end.

(** C04 / C08: every hit carries a response installed by a cacheable release
    at second c with lifetime T, is served at a second <= c + T, with age
    = (second of service) - c.  [t] = ms clock, [tbl] = installed responses *)
Fixpoint mon_fresh (t : Z) (tbl : installed) (prev : list tobs) (fs : list frame) : bool :=
  match fs with
  | [] => true
  | f :: r =>
      let t1 := match f_op f with OpTick d => (t + d)%Z | _ => t end in
      let tbl1 := match f_op f with
                  | OpRelease _ (OCacheable ttl rr) => (rr, ((t1 / 1000)%Z, ttl)) :: tbl
                  (* a well-formed record written into the store from outside counts as installed *)
                  | OpCorrupt (SRec rc) =>
                      match sr_st rc, sr_resp rc with
                      | Hit, Some rr => (rr, (sr_created rc, (sr_expired rc - sr_created rc)%Z)) :: tbl
                      | _, _ => tbl
                      end
                  | _ => tbl
                  end in
      let cur := f_threads f in
      let ok :=
        forallb (fun i =>
          match nth_obs prev i, nth_obs cur i with
          | Some (TDone _ _ _), _ => true
          | _, Some (TDone LHit (Some rr) age) =>
              match lookup_rid tbl1 rr with
              | Some (c, ttl) => ((t1 / 1000) <=? c + ttl)%Z && Z.eqb age (t1 / 1000 - c)
              | None => false
              end
          | _, Some (TDone LHit None _) => false      (* a hit without a response: an error served from cache *)
          | _, _ => true
          end) (seq 0 (length cur)) in
      ok && mon_fresh t1 tbl1 cur r
  end.

(** C02: the harness ends every history by releasing everything that is in the
    upstream until nothing is; afterwards no request may remain parked or in flight *)
Definition mon_final (fs : list frame) : bool :=
  match rev fs with
  | [] => true
  | f :: _ => forallb (fun t => match t with TDone _ _ _ => true | _ => false end) (f_threads f)
  end.

(** C07 (no disruption in the history): after a fetch ended without a
    cacheable result at second c, every request arriving at a second
    <= c + H goes straight to the upstream labelled hitForPass; it is never
    parked and never a hit *)
Fixpoint mon_hfp (t : Z) (H : Z) (hs : bool) (rd : bool) (resident : bool) (owner : option nat)
         (mark : option Z) (clean : bool) (prev : list tobs) (fs : list frame) : bool :=
  match fs with
  | [] => true
  | f :: r =>
      let t1 := match f_op f with OpTick d => (t + d)%Z | _ => t end in
      let rd1 := match f_op f with OpFaults r0 _ => r0 | _ => rd end in
      let cur := f_threads f in
      (* [owner]: the request known to be the fetcher of the key's CURRENT entry
         (it arrived, looked the entry up in the dispatcher and was labelled
         fetching); a purge, eviction or restart detaches that entry: its
         fetcher finishes on the orphan and marks nothing visible to new requests *)
      let released_fetcher :=
        match f_op f with
        | OpRelease i o =>
            match owner, nth_obs prev i with
            | Some j, Some (TUpstream LFetching) => if Nat.eqb i j then Some o else None
            | _, _ => None
            end
        | _ => None
        end in
      let mark1 := match released_fetcher with
                   | Some (OCacheable _ _) => None
                   | Some _ => Some ((t1 / 1000) + H)%Z
                   | None => mark
                   end in
      (* when the entry is not in memory the marker is found again iff a store is
         configured, readable, and holds the hit-for-pass record (C08: markers
         are persisted under the same rules) *)
      let reloadable := hs && rd1 && match f_store f with SoRec HitForPass _ _ _ => true | _ => false end in
      let is_get_arrival := match f_op f with OpArrive false => true | _ => false end in
      (* [clean]: nothing happened since the mark was set that may legitimately lose it *)
      let clean1 := match released_fetcher with
                    | Some _ => true
                    | None => clean && match f_op f with
                                       | OpPurge _ | OpCorrupt _ => false
                                       | OpArrive false => resident || reloadable
                                       | _ => true
                                       end
                    end in
      let resident1 := match f_op f with
                       | OpEvict | OpRestart | OpPurge _ => false
                       | OpArrive false => true
                       | _ => match released_fetcher with Some _ => true | None => resident end
                       end in
      let owner1 := match f_op f with
                    | OpEvict | OpRestart | OpPurge _ => None
                    | OpArrive false =>
                        match nth_obs cur (length prev) with
                        | Some (TUpstream LFetching) => Some (length prev)
                        | _ => owner
                        end
                    | _ => match released_fetcher with Some _ => None | None => owner end
                    end in
      let ok :=
        match mark with
        | Some lim =>
            if is_get_arrival && clean1 && ((t1 / 1000) <=? lim)%Z
            then match nth_obs cur (length prev) with
                 | Some (TUpstream LHitForPass) => true
                 | _ => false
                 end
            else true
        | None => true
        end in
      ok && mon_hfp t1 H hs rd1 resident1 owner1 mark1 clean1 cur r
  end.

(** C07 / C08, the other direction: a hit-for-pass period ENDS.  [bound] = the
    last second any hit-for-pass marker can still be valid, from the history
    alone: the latest (second of completion + H) over all fetching requests
    that ended without a cacheable result, and the latest expiry of any
    hit-for-pass record seen in the store.  A GET arriving at a later second
    is never labelled hitForPass (it probes the key again as its fetcher, or
    waits for the one that does, or is a hit). *)
Fixpoint mon_hfp_lapse (t : Z) (H : Z) (bound : Z) (prev : list tobs) (fs : list frame) : bool :=
  match fs with
  | [] => true
  | f :: r =>
      let t1 := match f_op f with OpTick d => (t + d)%Z | _ => t end in
      let cur := f_threads f in
      let b1 := match f_op f with
                | OpRelease i o =>
                    match nth_obs prev i, o with
                    | Some (TUpstream LFetching), OCacheable ttl _ => if (0 <? ttl)%Z then bound else Z.max bound ((t1 / 1000) + H)
                    | Some (TUpstream LFetching), _ => Z.max bound ((t1 / 1000) + H)
                    | _, _ => bound
                    end
                | _ => bound
                end in
      let b2 := match f_store f with SoRec HitForPass _ _ ex => Z.max b1 ex | _ => b1 end in
      let ok :=
        match f_op f with
        | OpArrive false =>
            match nth_obs cur (length prev) with
            | Some (TUpstream LHitForPass) => ((t1 / 1000) <=? b2)%Z
            | _ => true
            end
        | _ => true
        end in
      ok && mon_hfp_lapse t1 H b2 cur r
  end.

(** C01 / C02 / C10, the positive side of coalescing and caching, from the
    history alone.  [owner]: the request known to be the fetcher of the key's
    current resident entry (it arrived and was labelled fetching; an eviction,
    purge or restart detaches the entry).  [waits]: pairs (w, j): request w
    arrived while j was that fetcher and was parked.  [fresh]: the response the
    owner's cacheable completion installed in the resident entry, with its
    second and lifetime.
    (a) when fetcher j is released, every request parked behind it is released
        in the same step: answered as a hit from j's response when that is
        cacheable, and otherwise on its own way to the upstream labelled
        hitForPass;
    (b) while the resident entry holds a fresh response, every GET is answered
        from it as a hit -- whatever the store does. *)
Fixpoint mon_coalesce (t : Z) (owner : option nat) (waits : list (nat * nat)) (fresh : option (rid * Z * Z))
         (prev : list tobs) (fs : list frame) : bool :=
  match fs with
  | [] => true
  | f :: r =>
      let t1 := match f_op f with OpTick d => (t + d)%Z | _ => t end in
      let cur := f_threads f in
      let newi := length prev in
      let rel := match f_op f with
                 | OpRelease i o => match nth_obs prev i with
                                    | Some (TUpstream LFetching) => Some (i, o)
                                    | _ => None
                                    end
                 | _ => None
                 end in
      let ok_wait :=
        match rel with
        | Some (j, o) =>
            forallb (fun wf =>
                       if Nat.eqb (snd wf) j then
                         match nth_obs cur (fst wf), cacheable o with
                         | Some (TDone LHit (Some rr) _), Some (_, r0) => Nat.eqb rr r0
                         | Some (TUpstream LHitForPass), None => true
                         | _, _ => false
                         end
                       else true) waits
        | None => true
        end in
      let ok_hit :=
        match f_op f, fresh with
        | OpArrive false, Some (rr, c, ttl) =>
            if ((t1 / 1000) <=? c + ttl)%Z
            then match nth_obs cur newi with
                 | Some (TDone LHit (Some r1) _) => Nat.eqb r1 rr
                 | _ => false
                 end
            else true
        | _, _ => true
        end in
      let owner_released := match rel, owner with Some (j, _), Some j' => Nat.eqb j j' | _, _ => false end in
      let fresh1 :=
        match f_op f with
        | OpEvict | OpRestart | OpPurge _ => None
        | OpArrive false =>
            match nth_obs cur newi with
            | Some (TDone LHit _ _) => fresh
            | _ => None
            end
        | _ => if owner_released
               then match rel with
                    | Some (_, o) => match cacheable o with Some (ttl, r0) => Some (r0, (t1 / 1000)%Z, ttl) | None => None end
                    | None => fresh
                    end
               else fresh
        end in
      let waits1 :=
        match f_op f with
        | OpRestart => []
        | OpArrive false =>
            match nth_obs cur newi, owner with
            | Some TParked, Some j => (newi, j) :: waits
            | _, _ => waits
            end
        | _ => match rel with
               | Some (j, _) => filter (fun wf => negb (Nat.eqb (snd wf) j)) waits
               | None => waits
               end
        end in
      let owner1 :=
        match f_op f with
        | OpEvict | OpRestart | OpPurge _ => None
        | OpArrive false =>
            match nth_obs cur newi with
            | Some (TUpstream LFetching) => Some newi
            | _ => owner
            end
        | _ => if owner_released then None else owner
        end in
      ok_wait && ok_hit && mon_coalesce t1 owner1 waits1 fresh1 cur r
  end.

(** C18 / C10: when a purge is issued while nothing is in flight or parked,
    the store holds nothing afterwards if its delete succeeded, and — whenever
    the store holds nothing, also after a failed delete — the next request goes
    to the upstream as the fetcher *)
Fixpoint mon_purge (armed : bool) (prev : list tobs) (fs : list frame) : bool :=
  match fs with
  | [] => true
  | f :: r =>
      let cur := f_threads f in
      let quiet := forallb (fun t => match t with TDone _ _ _ => true | _ => false end) prev in
      let ok_now :=
        match f_op f with
        | OpPurge true => if quiet then match f_store f with SoNone => true | _ => false end else true
        | OpArrive false =>
            if armed then match nth_obs cur (length prev) with Some (TUpstream LFetching) => true | _ => false end
            else true
        | _ => true
        end in
      let armed1 := match f_op f with
                    | OpPurge true => quiet
                    (* the store delete failed: the entry is gone from memory all the same; when the store
                       holds nothing for the key the next request cannot be served without the upstream *)
                    | OpPurge false => quiet && match f_store f with SoNone => true | _ => false end
                    | OpArrive true | OpTick _ | OpFaults _ _ => armed
                    | _ => false
                    end in
      ok_now && mon_purge armed1 cur r
  end.

(** C10: with store faults anywhere — nobody is stuck at the end, hits always
    carry a stored response ([mon_fresh]), and a successful upstream answer is
    what its own request gets ([mon_lifecycle] + rid check below) *)
Fixpoint mon_own_answer (prev : list tobs) (fs : list frame) : bool :=
  match fs with
  | [] => true
  | f :: r =>
      let cur := f_threads f in
      let ok :=
        match f_op f with
        | OpRelease i o =>
            match nth_obs prev i, nth_obs cur i with
            | Some (TUpstream _), Some (TDone _ rr _) => orid_eqb rr (rid_of o)
            | Some (TUpstream _), Some _ => false
            | _, _ => true
            end
        | _ => true
        end in
      ok && mon_own_answer cur r
  end.

(** C01 ("every other request waits for that fetch instead of contacting the
    upstream"): a parked request leaves the queue only when a request that is
    in the upstream as a fetcher is released — nothing else wakes it *)
Fixpoint zip_changed (prev cur : list tobs) : bool :=   (* some thread was parked and is not any more *)
  match prev, cur with
  | TParked :: p, c :: q => negb (match c with TParked => true | _ => false end) || zip_changed p q
  | _ :: p, _ :: q => zip_changed p q
  | _, _ => false
  end.
Fixpoint mon_wake (prev : list tobs) (fs : list frame) : bool :=
  match fs with
  | [] => true
  | f :: r =>
      let cur := f_threads f in
      let by_fetcher :=
        match f_op f with
        | OpRelease i _ => match nth_obs prev i with Some (TUpstream LFetching) => true | _ => false end
        | _ => false
        end in
      (by_fetcher || negb (zip_changed prev cur)) && mon_wake cur r
  end.

Definition mon_all (c : fl_case) : list bool :=
  let fs := fc_frames c in
  let H := if (fc_hfp c <=? 0)%Z then default_hfp else fc_hfp c in
  [ mon_c01 1 fs && mon_wake [] fs && mon_coalesce (fc_t0 c) None [] None [] fs;
    mon_final fs && mon_coalesce (fc_t0 c) None [] None [] fs;
    mon_lifecycle [] fs;
    mon_fresh (fc_t0 c) [] [] fs && mon_hfp_lapse (fc_t0 c) H 0 [] fs;
    mon_hfp (fc_t0 c) H (fc_store c) true false None None true [] fs && mon_hfp_lapse (fc_t0 c) H 0 [] fs;
    mon_purge false [] fs;
    mon_own_answer [] fs ].

Fixpoint failing {A} (f : A -> bool) (i : nat) (l : list A) : list nat :=
  match l with
  | [] => []
  | x :: r => if f x then failing f (S i) r else i :: failing f (S i) r
  end.

(** result components: mismatch; monitors C01, C02, C03, C04(+C08), C07, C18, C10 *)
Definition check_cases (cs : list fl_case)
  : list nat * list nat * list nat * list nat * list nat * list nat * list nat * list nat :=
  (failing case_agrees 0 cs,
   failing (fun c => nth 0 (mon_all c) true) 0 cs,
   failing (fun c => nth 1 (mon_all c) true) 0 cs,
   failing (fun c => nth 2 (mon_all c) true) 0 cs,
   failing (fun c => nth 3 (mon_all c) true) 0 cs,
   failing (fun c => nth 4 (mon_all c) true) 0 cs,
   failing (fun c => nth 5 (mon_all c) true) 0 cs,
   failing (fun c => nth 1 (mon_all c) true && nth 3 (mon_all c) true && nth 6 (mon_all c) true) 0 cs).

(** diagnostics for replays: index of the first frame where model and
    implementation differ, with the model's observation *)
Fixpoint first_diff (k : nat) (s : state) (rd wr : bool) (fs : list frame) : option (nat * list tobs * sobs) :=
  match fs with
  | [] => None
  | f :: r =>
      let '(s1, rd1, wr1) := apply_op s rd wr (f_op f) in
      let s2 := quiesce (20 + 8 * length (ts s1)) rd1 wr1 s1 in
      if list_eqb tobs_eqb (map obs_of (ts s2)) (f_threads f)
         && (negb (has_store s2) || sobs_eqb (sobs_of (store s2)) (f_store f))
      then first_diff (S k) s2 rd1 wr1 r
      else Some (k, map obs_of (ts s2), sobs_of (store s2))
  end.
Definition case_diag (c : fl_case) :=
  first_diff 0 (init (fc_t0 c) (fc_hfp c) (fc_store c) false) true true (fc_frames c).
