(** Correspondence for C12 (codecs family). *)
From Coq Require Import List Arith Bool NArith ZArith.
From Pike Require Import Base.Bytes Model.Compress Model.LZ4.
Import ListNotations.

Inductive c12_case :=
| CLevel (configured : Z) (gzip_matches : list Z) (br_matches : list Z)
    (* the service's level was set from this configured value; pike's output for a probe body equals
       the reference encoder's output at exactly these levels *)
| CDispatch (enc : bytes) (kind : decoder) (impl_ok : bool)
    (* Decompress(enc, valid stream of [kind]) restored the original? *)
| CLz4 (block : bytes) (impl : option bytes).
    (* pike's LZ4Decode on this block: the decoded bytes, or an error *)

Definition decoder_eqb (a b : decoder) : bool :=
  match a, b with
  | DGzip, DGzip | DBr, DBr | DLz4, DLz4 | DSnappy, DSnappy | DZstd, DZstd | DIdentity, DIdentity | DUnsupported, DUnsupported => true
  | _, _ => false
  end.

Definition case_agrees (c : c12_case) : bool :=
  match c with
  | CLevel v gm bm =>
      existsb (Z.eqb (gzip_level_used (stored_level v))) gm && existsb (Z.eqb (br_level_used (stored_level v))) bm
  | CDispatch enc kind ok => Bool.eqb (decoder_eqb (dispatch enc) kind) ok
  | CLz4 block impl =>
      match do_lz4_decode block, impl with
      | LzOk o, Some o' => beqb o o'
      | LzOk _, None => false
      | _, Some _ => false
      | _, None => true
      end
  end.

(** monitor on the implementation's answers: the level in effect is a legal one
    for the library (never an out-of-range value reaching the encoder), and
    every valid LZ4 block is restored *)
Definition case_monitor (c : c12_case) : bool :=
  match c with
  | CLevel v gm bm =>
      existsb (fun l => Z.eqb l (-1) || ((1 <=? l) && (l <=? 9))%Z) gm && existsb (fun l => (1 <=? l) && (l <=? 11))%Z bm
  | CDispatch _ _ _ => true
  | CLz4 block impl =>
      match lz4_decode (255 * length block) block, impl with
      | LzOk o, Some o' => beqb o o'
      | LzOk _, None => false      (* a valid block the implementation failed to restore *)
      | _, _ => true
      end
  end.

Fixpoint failing {A} (f : A -> bool) (i : nat) (l : list A) : list nat :=
  match l with
  | [] => []
  | x :: r => if f x then failing f (S i) r else i :: failing f (S i) r
  end.

Definition check_cases (cs : list c12_case) : list nat * list nat :=
  (failing case_agrees 0 cs, failing case_monitor 0 cs).
