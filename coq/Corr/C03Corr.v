(** Correspondence for C03 (maxage family): the harness calls the real
    getCacheMaxAge on generated header sets. *)
From Coq Require Import List Arith Bool NArith ZArith.
From Pike Require Import Base.Bytes Model.MaxAge Model.MaxAgeSpec.
Import ListNotations.

Record ma_case := { ma_headers : headers; ma_impl : Z;
                    ma_method : bytes; ma_pass : bool  (* the request method of the case and what requestIsPass answered *) }.

Definition ma_agrees (c : ma_case) : bool :=
  Z.eqb (cache_max_age (ma_headers c)) (ma_impl c) && Bool.eqb (request_is_pass (ma_method c)) (ma_pass c).

(** monitor = the property's statement on the implementation's answer: a
    positive lifetime (the response would be stored for a GET) must be
    justified by the token-level reading of the headers *)
Definition ma_monitor (c : ma_case) : bool :=
  (if (0 <? ma_impl c)%Z then spec_shareable m_get (ma_headers c) (ma_impl c) else true)
  (* only GET and HEAD requests enter the cache at all: every other method is forwarded *)
  && (ma_pass c || beqb (ma_method c) m_get || beqb (ma_method c) m_head).

Fixpoint failing {A} (f : A -> bool) (i : nat) (l : list A) : list nat :=
  match l with
  | [] => []
  | x :: r => if f x then failing f (S i) r else i :: failing f (S i) r
  end.

Definition check_cases (cs : list ma_case) : list nat * list nat :=
  (failing ma_agrees 0 cs, failing ma_monitor 0 cs).
