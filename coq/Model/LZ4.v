(** An executable model of the LZ4 *block* format decoder with a destination
    capacity, as compress/lz4.go uses it (lz4.UncompressBlock into a buffer of
    a chosen size): sequences of
      token (hi nibble: literal length, lo nibble: match length - 4;
             15 = extended by following bytes, each adding up to 255),
      literals, 2-byte little-endian offset, match copy (may overlap);
    the last sequence ends after its literals. *)
From Coq Require Import List Arith Bool NArith ZArith Lia.
From Pike Require Import Base.Bytes.
Import ListNotations.

Inductive lz4_result := LzOk (out : bytes) | LzShort | LzBad.   (* decoded / destination too small / malformed *)

(** extended length: sum bytes until one is < 255; returns (extra, rest) *)
Fixpoint ext_len (fuel : nat) (s : bytes) (acc : nat) : option (nat * bytes) :=
  match fuel with
  | O => None
  | S f =>
      match s with
      | [] => None
      | b :: r => if N.eqb b 255 then ext_len f r (acc + 255) else Some (acc + N.to_nat b, r)
      end
  end.

(** copy [n] bytes starting [off] back from the end of [out] (byte by byte: overlapping copies repeat) *)
Fixpoint copy_match (n : nat) (off : nat) (out : bytes) : bytes :=
  match n with
  | O => out
  | S n' => copy_match n' off (out ++ [nth (length out - off) out 0%N])
  end.

(** one sequence per fuel unit; [cap] = destination capacity *)
Fixpoint lz4_go (fuel : nat) (cap : nat) (s : bytes) (out : bytes) : lz4_result :=
  match fuel with
  | O => LzBad
  | S f =>
      match s with
      | [] => LzOk out
      | tok :: r =>
          let lit0 := N.to_nat (N.shiftr tok 4) in
          let ml0 := N.to_nat (N.land tok 15) in
          match (if Nat.eqb lit0 15 then ext_len (length r) r 15 else Some (lit0, r)) with
          | None => LzBad
          | Some (lit, r1) =>
              if Nat.ltb (length r1) lit then LzBad
              else if Nat.ltb cap (length out + lit) then LzShort
              else
                let out1 := out ++ firstn lit r1 in
                let r2 := skipn lit r1 in
                match r2 with
                | [] => LzOk out1                         (* last sequence: literals only *)
                | [_] => LzBad
                | o1 :: o2 :: r3 =>
                    let off := N.to_nat o1 + 256 * N.to_nat o2 in
                    match (if Nat.eqb ml0 15 then ext_len (length r3) r3 15 else Some (ml0, r3)) with
                    | None => LzBad
                    | Some (ml, r4) =>
                        let mlen := ml + 4 in
                        if Nat.eqb off 0 || Nat.ltb (length out1) off then LzBad
                        else if Nat.ltb cap (length out1 + mlen) then LzShort
                        else lz4_go f cap r4 (copy_match mlen off out1)
                    end
                end
          end
      end
  end.

Definition lz4_decode (cap : nat) (s : bytes) : lz4_result :=
  match s with [] => LzOk [] | _ => lz4_go (length s) cap s [] end.

(** doLZ4Decode, repaired: start with 10x the input, on "too small" quadruple
    up to the format's bound of 255x *)
Fixpoint lz4_retry (tries : nat) (cap maxcap : nat) (s : bytes) : lz4_result :=
  match lz4_decode cap s with
  | LzShort =>
      match tries with
      | O => LzShort
      | S t => if Nat.leb maxcap cap then LzShort else lz4_retry t (Nat.min (4 * cap) maxcap) maxcap s
      end
  | r => r
  end.
Definition do_lz4_decode (s : bytes) : lz4_result := lz4_retry 4 (10 * length s) (255 * length s) s.
(** the pinned commit: one attempt at 10x *)
Definition do_lz4_decode_legacy (s : bytes) : lz4_result := lz4_decode (10 * length s) s.
