(** Model of the location's path rewriter (location/location.go:
    generateURLRewriter + captureTokens) for rules of the documented forms.

    A rule is "pattern:target".  Every star of the pattern is replaced by the
    regular expression "one group of zero or more non-blank bytes" (written backslash-S-star in parentheses) and the result is compiled; the request path is
    searched (unanchored, leftmost-first, greedy) and, when it matches, the
    WHOLE path is replaced by the target in which [$1], [$2], ... stand for
    the captured groups (strings.NewReplacer over "$i" -> group i).  Rules
    apply one after the other to the current path.

    Modelled class: patterns whose non-star bytes are letters, digits or one of
    [/ - _ ~ % = & , @ !] (they stand for themselves in a Go regular expression).
    Any other pattern byte makes [parse_rule] answer [None]: such rules are
    outside this model (their image is an oracle for Model/Proxy.v). *)
From Coq Require Import List Arith Bool NArith.
From Pike Require Import Base.Bytes.
Import ListNotations.
Local Open Scope N_scope.

Inductive pitem := PLit (c : N) | PStar.

Definition is_lower (b : N) : bool := (97 <=? b) && (b <=? 122).
Definition plain_byte (b : N) : bool :=
  is_upper b || is_lower b || is_digit b
  || N.eqb b 47 || N.eqb b 45 || N.eqb b 95 || N.eqb b 126 || N.eqb b 37
  || N.eqb b 61 || N.eqb b 38 || N.eqb b 44 || N.eqb b 64 || N.eqb b 33.

Fixpoint parse_pattern (k : bytes) : option (list pitem) :=
  match k with
  | [] => Some []
  | c :: r =>
      match parse_pattern r with
      | None => None
      | Some its =>
          if N.eqb c 42 then Some (PStar :: its)
          else if plain_byte c then Some (PLit c :: its) else None
      end
  end.

Record rule := { r_items : list pitem; r_value : bytes }.

(** strings.Split(value, ":") must give exactly two parts; other shapes are skipped by the code *)
Inductive parsed := Skipped | Unsupported | Rule (r : rule).
Definition parse_rule (s : bytes) : parsed :=
  match split_on 58 s with
  | [k; v] => match parse_pattern k with Some its => Rule {| r_items := its; r_value := v |} | None => Unsupported end
  | _ => Skipped
  end.

(** [\S]: anything but [\t\n\f\r ] *)
Definition nonspace (b : N) : bool := negb (is_ws b).

Fixpoint run_len (s : bytes) : nat :=
  match s with
  | c :: r => if nonspace c then S (run_len r) else O
  | [] => O
  end.

(** does the item list match a prefix of [s]?  the captured groups, in the
    order a backtracking matcher finds them (greedy: longest group first) *)
Fixpoint star_try (cont : bytes -> option (list bytes)) (s : bytes) (k : nat) : option (list bytes) :=
  match cont (skipn k s) with
  | Some caps => Some (firstn k s :: caps)
  | None => match k with O => None | S k' => star_try cont s k' end
  end.

Fixpoint match_here (its : list pitem) (s : bytes) : option (list bytes) :=
  match its with
  | [] => Some []
  | PLit c :: r =>
      match s with
      | x :: s' => if N.eqb x c then match_here r s' else None
      | [] => None
      end
  | PStar :: r => star_try (match_here r) s (run_len s)
  end.

(** leftmost match anywhere in [s] *)
Fixpoint find_match (its : list pitem) (s : bytes) : option (list bytes) :=
  match match_here its s with
  | Some caps => Some caps
  | None => match s with [] => None | _ :: s' => find_match its s' end
  end.

(** the replacer: "$d" with 1 <= d <= min 9 (number of groups) is replaced by
    group d; with ten or more groups "$1" still wins over "$10" (argument
    order gives it priority), so one digit decides *)
Fixpoint expand (caps : list bytes) (v : bytes) : bytes :=
  match v with
  | [] => []
  | c :: tl =>
      match tl with
      | d :: rest =>
          if N.eqb c 36 && (49 <=? d) && (d <=? 57) && (N.to_nat (d - 48) <=? length caps)%nat
          then nth (N.to_nat (d - 49)) caps [] ++ expand caps rest
          else c :: expand caps tl
      | [] => [c]
      end
  end.

Definition apply_rule (r : rule) (path : bytes) : bytes :=
  match find_match (r_items r) path with
  | Some caps => expand caps (r_value r)
  | None => path
  end.

Definition rewrite_path (rules : list rule) (path : bytes) : bytes :=
  fold_left (fun p r => apply_rule r p) rules path.

(** rule strings as configured; [None] when some rule is outside the modelled class *)
Fixpoint parse_rules (l : list bytes) : option (list rule) :=
  match l with
  | [] => Some []
  | s :: r =>
      match parse_rule s, parse_rules r with
      | Unsupported, _ => None
      | _, None => None
      | Skipped, Some rs => Some rs
      | Rule x, Some rs => Some (x :: rs)
      end
  end.

(** the string a pattern stands for once its groups are chosen *)
Fixpoint render (its : list pitem) (caps : list bytes) : bytes :=
  match its with
  | [] => []
  | PLit c :: r => c :: render r caps
  | PStar :: r => match caps with g :: caps' => g ++ render r caps' | [] => render r [] end
  end.

Fixpoint stars (its : list pitem) : nat :=
  match its with
  | [] => O
  | PStar :: r => S (stars r)
  | PLit _ :: r => stars r
  end.
