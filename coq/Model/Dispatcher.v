(** Model of cache/dispatcher.go: NewDispatcher's shard arithmetic,
    GetHTTPCache (get-or-create under the shard lock), RemoveHTTPCache. *)
From Coq Require Import List Arith Bool NArith ZArith.
From Pike Require Import Model.LRU.
Import ListNotations.

(** Constants of NewDispatcher, as a record so that theorems can be stated for
    every constant set that satisfies a side condition and then instantiated
    with the values regenerated from the source (Generated/Consts.v). *)
Record dconsts := {
  zone_big : nat;        (* defaultZoneSize = 128 *)
  zone_small : nat;      (* 8 *)
  small_below : Z;       (* 1024 *)
  default_mult : Z       (* 100: size = zoneSize * 100 when Size <= 0 *)
}.

Definition pike_dconsts : dconsts :=
  {| zone_big := 128; zone_small := 8; small_below := 1024; default_mult := 100 |}.

Section Disp.
  Context {K : Type}.
  Variable keqb : K -> K -> bool.
  Variable hash : K -> N.          (* runtime memhash: any function *)

  Definition entry_id := N.

  Record disp := {
    zones : nat;
    limit : nat;                       (* lru.New(lruSize): 0 = unlimited *)
    shards : list (@lru K entry_id);
    next_id : N;
    created : list (entry_id * K)      (* ghost: which key an entry was made for *)
  }.

  (** Effective size and zone count.  [legacy] is the arithmetic of the pinned
      commit (no floor of one slot per shard). *)
  Definition eff_size (c : dconsts) (size : Z) : Z :=
    if (size <=? 0)%Z then (Z.of_nat (zone_big c) * default_mult c)%Z else size.

  Definition zone_count_legacy (c : dconsts) (size : Z) : nat :=
    if (eff_size c size <? small_below c)%Z then zone_small c else zone_big c.

  Definition zone_count (c : dconsts) (size : Z) : nat :=
    let z := zone_count_legacy c size in
    if (eff_size c size <? Z.of_nat z)%Z then Z.to_nat (eff_size c size) else z.

  Definition mk_disp (z : nat) (lim : nat) : disp :=
    {| zones := z; limit := lim; shards := repeat [] z; next_id := 0; created := [] |}.

  Definition new_dispatcher (c : dconsts) (size : Z) : disp :=
    let z := zone_count c size in
    mk_disp z (Z.to_nat (eff_size c size / Z.of_nat z)).

  Definition new_dispatcher_legacy (c : dconsts) (size : Z) : disp :=
    let z := zone_count_legacy c size in
    mk_disp z (Z.to_nat (eff_size c size / Z.of_nat z)).

  Definition shard_index (d : disp) (k : K) : nat :=
    N.to_nat (hash k mod N.of_nat (zones d)).

  Fixpoint upd {A} (i : nat) (x : A) (l : list A) : list A :=
    match l, i with
    | [], _ => []
    | _ :: r, O => x :: r
    | a :: r, S j => a :: upd j x r
    end.

  (** GetHTTPCache: returns the entry id and whether the key was resident. *)
  Definition get_http_cache (d : disp) (k : K) : entry_id * bool * disp :=
    let i := shard_index d k in
    let sh := nth i (shards d) [] in
    match get keqb k sh with
    | (Some id, sh') =>
        (id, true, {| zones := zones d; limit := limit d; shards := upd i sh' (shards d);
                      next_id := next_id d; created := created d |})
    | (None, _) =>
        let id := next_id d in
        (id, false, {| zones := zones d; limit := limit d;
                       shards := upd i (add keqb (limit d) k id sh) (shards d);
                       next_id := N.succ id; created := (id, k) :: created d |})
    end.

  Definition remove_http_cache (d : disp) (k : K) : disp :=
    let i := shard_index d k in
    {| zones := zones d; limit := limit d;
       shards := upd i (remove keqb k (nth i (shards d) [])) (shards d);
       next_id := next_id d; created := created d |}.

  Definition resident (d : disp) : nat :=
    fold_right (fun sh n => length sh + n) 0 (shards d).

  Inductive dop := DGet (k : K) | DDel (k : K).

  Definition dstep (d : disp) (o : dop) : disp :=
    match o with
    | DGet k => snd (get_http_cache d k)
    | DDel k => remove_http_cache d k
    end.

  Definition drun (d : disp) (ops : list dop) : disp := fold_left dstep ops d.
End Disp.
