(** Model of config/config.go (PikeConfig.Validate), of the five registries
    and their Reset functions (compress, cache dispatchers, upstreams,
    locations, servers) and of main.update's order of application.
    Library-defined field validators (url, hostname, durations, sizes,
    regexp, ...) are validity bits supplied per field. *)
From Coq Require Import List Arith Bool NArith ZArith.
From Pike Require Import Base.Bytes.
Import ListNotations.

Record compress_cfg := { cc_name : bytes; cc_gzip : option Z; cc_br : option Z }.
Record cache_cfg := { ca_name : bytes; ca_size : Z; ca_hfp_ok : bool; ca_store_ok : bool }.
Record upstream_cfg := {
  up_name : bytes; up_fields_ok : bool;      (* healthCheck path, policy enum, ascii accept-encoding, every server addr *)
  up_servers : nat;                          (* number of servers: required *)
  up_policy : bytes; up_accept : bytes; up_backup_flags : list bool
}.
Record location_cfg := {
  lo_name : bytes; lo_upstream : bytes; lo_fields_ok : bool;   (* prefixes, rewrites, query strings, headers, hosts, timeout *)
  lo_hosts : list bytes; lo_prefixes : list bytes
}.
Record server_cfg := {
  sv_addr : bytes; sv_fields_ok : bool;      (* ascii addr, min-length size, filter regexp *)
  sv_locations : list bytes; sv_cache : bytes; sv_compress : bytes;
  sv_min_length : Z;                         (* parsed bytes; 0 = unset *)
  sv_filter : option bytes
}.
Record pike_cfg := {
  pc_admin_ok : bool;
  pc_compresses : list compress_cfg; pc_caches : list cache_cfg; pc_upstreams : list upstream_cfg;
  pc_locations : list location_cfg; pc_servers : list server_cfg
}.

(** ** Validate *)
Definition is_empty_b (b : bytes) : bool := match b with [] => true | _ => false end.
Definition name_ok (n : bytes) : bool := negb (is_empty_b n) && Nat.leb (length n) 20.

Inductive verdict := VOk | VField | VUpstream | VLocation | VCache | VCompress.

Definition has_name {A} (nm : A -> bytes) (l : list A) (n : bytes) : bool := existsb (fun x => beqb (nm x) n) l.

Definition fields_ok (c : pike_cfg) : bool :=
  pc_admin_ok c
  && forallb (fun x => name_ok (cc_name x)) (pc_compresses c)
  && forallb (fun x => name_ok (ca_name x) && (0 <? ca_size x)%Z && ca_hfp_ok x && ca_store_ok x) (pc_caches c)
  && forallb (fun x => name_ok (up_name x) && up_fields_ok x && Nat.ltb 0 (up_servers x)) (pc_upstreams c)
  && forallb (fun x => name_ok (lo_name x) && name_ok (lo_upstream x) && lo_fields_ok x) (pc_locations c)
  && forallb (fun x => sv_fields_ok x && negb (is_empty_b (sv_addr x))
                       && (match sv_locations x with [] => false | _ => true end)
                       && forallb (fun n => Nat.leb (length n) 20) (sv_locations x)
                       && name_ok (sv_cache x)) (pc_servers c).

Definition server_verdict (c : pike_cfg) (s : server_cfg) : verdict :=
  if negb (forallb (has_name lo_name (pc_locations c)) (sv_locations s)) then VLocation
  else if negb (is_empty_b (sv_cache s) || has_name ca_name (pc_caches c) (sv_cache s)) then VCache
  else if negb (is_empty_b (sv_compress s) || has_name cc_name (pc_compresses c) (sv_compress s)) then VCompress
  else VOk.

Fixpoint first_bad (l : list verdict) : verdict :=
  match l with [] => VOk | VOk :: r => first_bad r | v :: _ => v end.

Definition validate (c : pike_cfg) : verdict :=
  if negb (fields_ok c) then VField
  else if negb (forallb (fun l => has_name up_name (pc_upstreams c) (lo_upstream l)) (pc_locations c)) then VUpstream
  else first_bad (map (server_verdict c) (pc_servers c)).

(** ** registries *)
Definition levels := (Z * Z)%type.                  (* gzip, br as stored (int32) *)
Definition default_levels : levels := ((-1)%Z, 6%Z).    (* gzip.DefaultCompression, brotli.DefaultCompression *)
Definition best_levels : levels := (9%Z, (-1)%Z).      (* built-in bestCompression *)
Definition s_best_name : bytes := [98;101;115;116;67;111;109;112;114;101;115;115;105;111;110]%N.

Definition wrap32 (z : Z) : Z := ((z + 2147483648) mod 4294967296 - 2147483648)%Z.
Definition levels_of (c : compress_cfg) : levels :=
  (match cc_gzip c with Some v => wrap32 v | None => fst default_levels end,
   match cc_br c with Some v => wrap32 v | None => snd default_levels end).

Record server_state := {
  ss_locations : list bytes; ss_cache : bytes; ss_compress : bytes; ss_min_length : Z; ss_filter : option bytes
}.

Record regs := {
  rg_compress : list (bytes * levels);          (* later entries for a name shadow earlier ones: lookup takes the first *)
  rg_caches : list (bytes * nat);               (* dispatcher name -> identity (generation) *)
  rg_next_gen : nat;
  rg_ups : list upstream_cfg;
  rg_locs : list location_cfg;
  rg_servers : list (bytes * server_state)
}.

Definition boot : regs :=
  {| rg_compress := [(s_best_name, best_levels)]; rg_caches := []; rg_next_gen := 0;
     rg_ups := []; rg_locs := []; rg_servers := [] |}.

Fixpoint assoc {A} (l : list (bytes * A)) (k : bytes) : option A :=
  match l with [] => None | (k', v) :: r => if beqb k k' then Some v else assoc r k end.

(** compress.Get: unknown names get the default service *)
Definition compress_get (r : regs) (n : bytes) : levels :=
  match assoc (rg_compress r) n with Some l => l | None => default_levels end.

(** compress.Reset never deletes a profile (TestCompressList pins that); the
    repaired one additionally restores the built-in bestCompression whenever
    the configuration does not define a profile of that name *)
Definition compress_reset (legacy : bool) (cs : list compress_cfg) (r : regs) : regs :=
  let newer := rev (map (fun c => (cc_name c, levels_of c)) cs) in   (* the last Store wins *)
  {| rg_compress := if legacy then newer ++ rg_compress r else newer ++ [(s_best_name, best_levels)] ++ rg_compress r;
     rg_caches := rg_caches r; rg_next_gen := rg_next_gen r; rg_ups := rg_ups r; rg_locs := rg_locs r;
     rg_servers := rg_servers r |}.

(** dispatchers.Reset: drop names that disappeared, keep the survivors as they are, create the new ones *)
Fixpoint add_caches (names : list bytes) (cur : list (bytes * nat)) (gen : nat) : list (bytes * nat) * nat :=
  match names with
  | [] => (cur, gen)
  | n :: r => match assoc cur n with
              | Some _ => add_caches r cur gen
              | None => add_caches r (cur ++ [(n, gen)]) (S gen)
              end
  end.
Definition caches_reset (cs : list cache_cfg) (r : regs) : regs :=
  let names := map ca_name cs in
  let kept := filter (fun e => existsb (beqb (fst e)) names) (rg_caches r) in
  let '(cur, gen) := add_caches names kept (rg_next_gen r) in
  {| rg_compress := rg_compress r; rg_caches := cur; rg_next_gen := gen; rg_ups := rg_ups r; rg_locs := rg_locs r;
     rg_servers := rg_servers r |}.

(** upstreamServers.Reset: every configured upstream is rebuilt; the others are removed *)
Definition ups_reset (us : list upstream_cfg) (r : regs) : regs :=
  {| rg_compress := rg_compress r; rg_caches := rg_caches r; rg_next_gen := rg_next_gen r;
     rg_ups := rev us; rg_locs := rg_locs r; rg_servers := rg_servers r |}.

Definition locs_reset (ls : list location_cfg) (r : regs) : regs :=
  {| rg_compress := rg_compress r; rg_caches := rg_caches r; rg_next_gen := rg_next_gen r;
     rg_ups := rg_ups r; rg_locs := ls; rg_servers := rg_servers r |}.

Definition default_min_length : Z := 1024.
Definition new_server (s : server_cfg) : server_state :=
  {| ss_locations := sv_locations s; ss_cache := sv_cache s; ss_compress := sv_compress s;
     ss_min_length := if (sv_min_length s =? 0)%Z then default_min_length else sv_min_length s;
     ss_filter := sv_filter s |}.
(** server.Update — [legacy]: stores the raw min length (0 when unset) *)
Definition update_server (legacy : bool) (s : server_cfg) : server_state :=
  {| ss_locations := sv_locations s; ss_cache := sv_cache s; ss_compress := sv_compress s;
     ss_min_length := if legacy then sv_min_length s else (if (sv_min_length s =? 0)%Z then default_min_length else sv_min_length s);
     ss_filter := sv_filter s |}.

Fixpoint servers_apply (legacy : bool) (ss : list server_cfg) (cur : list (bytes * server_state)) : list (bytes * server_state) :=
  match ss with
  | [] => cur
  | s :: r =>
      let cur' := match assoc cur (sv_addr s) with
                  | Some _ => map (fun e => if beqb (fst e) (sv_addr s) then (fst e, update_server legacy s) else e) cur
                  | None => cur ++ [(sv_addr s, new_server s)]
                  end in
      servers_apply legacy r cur'
  end.
Definition servers_reset (legacy : bool) (ss : list server_cfg) (r : regs) : regs :=
  let addrs := map sv_addr ss in
  let kept := filter (fun e => existsb (beqb (fst e)) addrs) (rg_servers r) in
  {| rg_compress := rg_compress r; rg_caches := rg_caches r; rg_next_gen := rg_next_gen r;
     rg_ups := rg_ups r; rg_locs := rg_locs r; rg_servers := servers_apply legacy ss kept |}.

(** main.update: compress -> caches -> upstreams -> locations -> servers *)
Definition update_steps (legacy : bool) (c : pike_cfg) (r : regs) : list regs :=
  let r1 := compress_reset legacy (pc_compresses c) r in
  let r2 := caches_reset (pc_caches c) r1 in
  let r3 := ups_reset (pc_upstreams c) r2 in
  let r4 := locs_reset (pc_locations c) r3 in
  let r5 := servers_reset legacy (pc_servers c) r4 in
  [r1; r2; r3; r4; r5].
Definition update (legacy : bool) (c : pike_cfg) (r : regs) : regs :=
  last (update_steps legacy c r) r.

(** ** what a request needs at run time (server/cache.go, server/proxy.go) *)
Definition resolves (r : regs) (s : server_state) : bool :=
  (* cache dispatcher present; every listed location name present; every such location's upstream present *)
  match assoc (rg_caches r) (ss_cache s) with Some _ => true | None => false end
  && forallb (fun n => existsb (fun l => beqb (lo_name l) n) (rg_locs r)) (ss_locations s)
  && forallb (fun l => negb (existsb (beqb (lo_name l)) (ss_locations s))
                       || existsb (fun u => beqb (up_name u) (lo_upstream l)) (rg_ups r)) (rg_locs r).
