(** Model of pike's own code around the codecs (compress/compress.go,
    gzip.go, brotli.go): level storage and clamping, decoder dispatch.
    DEFLATE / Brotli / Zstandard / Snappy themselves are third-party. *)
From Coq Require Import List Arith Bool NArith ZArith.
From Pike Require Import Base.Bytes.
Import ListNotations.

Definition wrap32 (z : Z) : Z := ((z + 2147483648) mod 4294967296 - 2147483648)%Z.

(** SetLevels: the configured value (a uint, converted with int()) is stored as int32 *)
Definition stored_level (configured : Z) : Z := wrap32 configured.

(** gzipFn: level <= 0 or > gzip.BestCompression falls back to gzip.DefaultCompression (-1) *)
Definition gzip_level_used (stored : Z) : Z :=
  if (stored <=? 0)%Z || (9 <? stored)%Z then (-1)%Z else stored.
(** brotliEncode: level <= 0 or > 11 falls back to defaultBrQuality (6) *)
Definition br_level_used (stored : Z) : Z :=
  if (stored <=? 0)%Z || (11 <? stored)%Z then 6%Z else stored.

Inductive decoder := DGzip | DBr | DLz4 | DSnappy | DZstd | DIdentity | DUnsupported.

Definition e_gzip : bytes := [103;122;105;112]%N.
Definition e_br : bytes := [98;114]%N.
Definition e_lz4 : bytes := [108;122;52]%N.
Definition e_snz : bytes := [115;110;122]%N.
Definition e_zst : bytes := [122;115;116]%N.

(** compressSrv.Decompress *)
Definition dispatch (enc : bytes) : decoder :=
  if beqb enc e_gzip then DGzip else if beqb enc e_br then DBr else if beqb enc e_lz4 then DLz4
  else if beqb enc e_snz then DSnappy else if beqb enc e_zst then DZstd
  else match enc with [] => DIdentity | _ => DUnsupported end.
