(** Model of github.com/golang/groupcache/lru (Cache.Add / Get / Remove /
    RemoveOldest) as used by pike's cache/dispatcher.go.  Executable
    definitions only; proofs live in Proofs/LRUProofs.v. *)
From Coq Require Import List Arith Bool NArith.
Import ListNotations.

Section LRU.
  Context {K V : Type}.
  Variable keqb : K -> K -> bool.

  (** front of the list = most recently used (container/list front). *)
  Definition lru := list (K * V).

  Fixpoint find (k : K) (l : lru) : option V :=
    match l with
    | [] => None
    | (k', v) :: r => if keqb k k' then Some v else find k r
    end.

  Fixpoint remove (k : K) (l : lru) : lru :=
    match l with
    | [] => []
    | (k', v) :: r => if keqb k k' then r else (k', v) :: remove k r
    end.

  (** Cache.Get: a hit moves the element to the front. *)
  Definition get (k : K) (l : lru) : option V * lru :=
    match find k l with
    | Some v => (Some v, (k, v) :: remove k l)
    | None => (None, l)
    end.

  (** Cache.Add with MaxEntries = [max]; 0 means "no limit". *)
  Definition add (max : nat) (k : K) (v : V) (l : lru) : lru :=
    match find k l with
    | Some _ => (k, v) :: remove k l
    | None =>
        let l' := (k, v) :: l in
        if negb (Nat.eqb max 0) && Nat.ltb max (length l')
        then removelast l' else l'
    end.

  Definition keys (l : lru) : list K := map fst l.
End LRU.
