(** Model of server/responder.go: after the response was filled into the
    context (stored or proxied headers merged, body and Content-Encoding
    chosen), the responder sets [Age] when — and only when — pike itself
    measured a positive age for the entry, and always sets [X-Status]. *)
From Coq Require Import List Arith Bool NArith ZArith.
From Pike Require Import Base.Bytes Model.MaxAge Model.Resp Model.Proxy.
Import ListNotations.

Definition k_x_status : bytes := [88;45;83;116;97;116;117;115]%N.   (* "X-Status" *)

(** [age]: the decimal text of the age pike measured, [None] when it is 0 (fetched, passed, or a hit stored this second) *)
Definition responder_headers (filled : headers) (age : option bytes) (label : bytes) : headers :=
  let h := match age with Some a => hset k_age a filled | None => filled end in
  hset k_x_status label h.
