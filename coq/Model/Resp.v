(** Model of cache/http_response.go: NewHTTPResponse, shouldCompressed,
    GetRawBody, Compress, getBodyByAcceptEncoding, Fill.
    Third-party codecs and the content-type filter (Go regexp) are Section
    variables: after the Section closes they are ordinary arguments, which the
    correspondence check instantiates with the answers observed from the real
    libraries. *)
From Coq Require Import List Arith Bool NArith ZArith.
From Pike Require Import Base.Bytes Model.MaxAge.
Import ListNotations.

Inductive enc := EId | EGzip | EBr.
Inductive source := SStoredBr | SStoredGzip | SRaw | SFreshBr | SFreshGzip.

Record resp := {
  r_srv : bytes;               (* CompressSrv *)
  r_min : Z;                   (* CompressMinLength *)
  r_filter : option bytes;     (* CompressContentTypeFilter source; None = default filter *)
  r_header : headers;
  r_status : Z;
  r_gzip : bytes; r_br : bytes; r_raw : bytes
}.

Definition s_gzip : bytes := [103;122;105;112]%N.
Definition s_br : bytes := [98;114]%N.
Definition s_best : bytes := [98;101;115;116;67;111;109;112;114;101;115;115;105;111;110]%N. (* bestCompression *)
Definition k_content_type : bytes := [67;111;110;116;101;110;116;45;84;121;112;101]%N.
Definition k_content_encoding : bytes := [67;111;110;116;101;110;116;45;69;110;99;111;100;105;110;103]%N.
Definition k_content_length : bytes := [67;111;110;116;101;110;116;45;76;101;110;103;116;104]%N.
Definition k_connection : bytes := [67;111;110;110;101;99;116;105;111;110]%N.
Definition k_date : bytes := [68;97;116;101]%N.
Definition ignore_headers : list bytes := [k_content_encoding; k_content_length; k_connection; k_date].

Definition is_empty (b : bytes) : bool := match b with [] => true | _ => false end.
Definition blen (b : bytes) : Z := Z.of_nat (length b).

Definition hdel (k : bytes) (h : headers) : headers := filter (fun kv => negb (beqb (fst kv) k)) h.
Definition clone_and_ignore (h : headers) : headers :=
  filter (fun kv => negb (existsb (beqb (fst kv)) ignore_headers)) h.

Section Resp.
  Variable gzip_enc br_enc : bytes -> bytes -> bytes.      (* service name -> data -> stream *)
  Variable gunzip br_dec : bytes -> option bytes.          (* None = decoder error *)
  Variable other_dec : bytes -> bytes -> option bytes.     (* Decompress for lz4 / snz / zst / unknown *)
  Variable filter_match : option bytes -> bytes -> bool.   (* regexp MatchString on the Content-Type *)

  Definition with_bodies (r : resp) (g b w : bytes) : resp :=
    {| r_srv := r_srv r; r_min := r_min r; r_filter := r_filter r; r_header := r_header r;
       r_status := r_status r; r_gzip := g; r_br := b; r_raw := w |}.

  Definition with_srv (r : resp) (s : bytes) : resp :=
    {| r_srv := s; r_min := r_min r; r_filter := r_filter r; r_header := r_header r;
       r_status := r_status r; r_gzip := r_gzip r; r_br := r_br r; r_raw := r_raw r |}.

  (** NewHTTPResponse; the caller (proxy middleware) then sets srv/min/filter *)
  Definition new_response (status : Z) (h : headers) (encoding data : bytes) : option resp :=
    let base := {| r_srv := []; r_min := 0; r_filter := None; r_header := clone_and_ignore h;
                   r_status := status; r_gzip := []; r_br := []; r_raw := [] |} in
    if beqb encoding s_gzip then Some (with_bodies base data [] [])
    else if beqb encoding s_br then Some (with_bodies base [] data [])
    else if is_empty encoding then Some (with_bodies base [] [] data)
    else match other_dec encoding data with
         | Some d => Some (with_bodies base [] [] d)
         | None => None
         end.

  Definition should_compress (r : resp) : bool :=
    if (blen (r_raw r) <=? r_min r)%Z && (blen (r_gzip r) <=? r_min r)%Z && (blen (r_br r) <=? r_min r)%Z
    then false
    else filter_match (r_filter r) (hget k_content_type (r_header r)).

  Definition get_raw_body (r : resp) : option bytes :=
    if negb (is_empty (r_raw r)) then Some (r_raw r)
    else if negb (is_empty (r_gzip r)) then gunzip (r_gzip r)
    else if negb (is_empty (r_br r)) then
           (* doBrotliDecode returns nil for empty input; not reachable here *)
           br_dec (r_br r)
    else Some [].

  (** Compress: (new response, error?) — on error the response is unchanged *)
  Definition compress (r : resp) : resp * bool :=
    if negb (should_compress r) then (r, true)
    else if negb (is_empty (r_gzip r)) && negb (is_empty (r_br r)) then (r, true)
    else match get_raw_body r with
         | None => (r, false)
         | Some raw =>
             if is_empty raw then (r, false)   (* ErrBodyIsNil *)
             else
               let g := if is_empty (r_gzip r) then gzip_enc (r_srv r) raw else r_gzip r in
               let b := if is_empty (r_br r) then br_enc (r_srv r) raw else r_br r in
               (with_bodies r g b [], true)
         end.

  (** what Cacheable does to the response before installing it *)
  Definition cacheable_compress (r : resp) : resp := fst (compress (with_srv r s_best)).

  (** getBodyByAcceptEncoding: encoding, body, and where the body came from *)
  Definition get_body (r : resp) (accept : bytes) : option (enc * bytes * source) :=
    let accept_br := contains s_br accept in
    let accept_gzip := contains s_gzip accept in
    if accept_br && negb (is_empty (r_br r)) then Some (EBr, r_br r, SStoredBr)
    else if accept_gzip && negb (is_empty (r_gzip r)) then Some (EGzip, r_gzip r, SStoredGzip)
    else match get_raw_body r with
         | None => None
         | Some raw =>
             if negb (should_compress r) then Some (EId, raw, SRaw)
             else if accept_br then Some (EBr, br_enc (r_srv r) raw, SFreshBr)
             else if accept_gzip then Some (EGzip, gzip_enc (r_srv r) raw, SFreshGzip)
             else Some (EId, raw, SRaw)
         end.

  Definition enc_name (e : enc) : bytes :=
    match e with EId => [] | EGzip => s_gzip | EBr => s_br end.

  (** Fill: headers of the context after MergeHeader + SetHeader(Content-Encoding) *)
  Definition fill (ctx_header : headers) (r : resp) (accept : bytes)
    : option (Z * headers * bytes * enc * source) :=
    match get_body r accept with
    | None => None
    | Some (e, body, src) =>
        let merged := hdel k_content_encoding (ctx_header ++ r_header r) in
        let hs := match e with EId => merged | _ => merged ++ [(k_content_encoding, enc_name e)] end in
        Some (r_status r, hs, body, e, src)
    end.

  Definition decode (e : enc) (b : bytes) : option bytes :=
    match e with EId => Some b | EGzip => gunzip b | EBr => br_dec b end.
End Resp.
