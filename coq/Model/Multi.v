(** The cache as a whole: MANY keys.  The per-key protocol of Model/Sys.v and
    the sharded LRU of Model/Dispatcher.v are composed here: every key has its
    own protocol state; the dispatcher decides which keys are resident; a
    lookup that inserts a key into a full shard evicts the shard's least
    recently used key, and that (and nothing else) is what the evicted key's
    protocol sees as its environment label [Evict].  The clock and the process
    life (crash / restart) are shared by all keys.

    In Model/Sys.v eviction is an arbitrary environment event; here it is
    derived from the LRU model, so the per-key theorems (single flight, no
    stranded waiter, hit-for-pass, freshness ...) become statements about the
    composed cache: Proofs/MultiProofs.v shows that every key's component of
    every reachable composed state is a reachable per-key state, that a key
    has a resident entry exactly when the dispatcher holds it, and that a step
    on one key changes another key's state by at most one [Evict]. *)
From Coq Require Import List Arith Bool NArith ZArith.
From Pike Require Import Model.LRU Model.Dispatcher Model.Sys.
Import ListNotations.

Section Multi.
  Context {K : Type}.
  Variable keqb : K -> K -> bool.
  Variable hash : K -> N.

  Record mstate := {
    m_disp : @disp K;
    m_keys : list (K * Sys.state);     (* keys requested so far, each with its protocol state *)
    m_now : Z; m_hfp : Z; m_store : bool
  }.

  Fixpoint assoc (k : K) (l : list (K * Sys.state)) : option Sys.state :=
    match l with
    | [] => None
    | (k', s) :: r => if keqb k k' then Some s else assoc k r
    end.

  (** a key nobody asked for yet is in the initial protocol state *)
  Definition sys_of (m : mstate) (k : K) : Sys.state :=
    match assoc k (m_keys m) with
    | Some s => s
    | None => Sys.init (m_now m) (m_hfp m) (m_store m) false
    end.

  Fixpoint set_assoc (k : K) (s : Sys.state) (l : list (K * Sys.state)) : list (K * Sys.state) :=
    match l with
    | [] => [(k, s)]
    | (k', s') :: r => if keqb k k' then (k, s) :: r else (k', s') :: set_assoc k s r
    end.

  Definition set_sys (m : mstate) (k : K) (s : Sys.state) : mstate :=
    {| m_disp := m_disp m; m_keys := set_assoc k s (m_keys m);
       m_now := m_now m; m_hfp := m_hfp m; m_store := m_store m |}.
  Definition set_disp (m : mstate) (d : @disp K) : mstate :=
    {| m_disp := d; m_keys := m_keys m; m_now := m_now m; m_hfp := m_hfp m; m_store := m_store m |}.

  (** one protocol label for one key; [None] when the label is not enabled there *)
  Definition key_step (m : mstate) (k : K) (l : Sys.label) : option mstate :=
    match Sys.step (sys_of m k) l with
    | Some s' => Some (set_sys m k s')
    | None => None
    end.

  (** a label applied to every known key (clock, crash): all of them must accept it *)
  Fixpoint all_step (l : Sys.label) (ks : list (K * Sys.state)) : option (list (K * Sys.state)) :=
    match ks with
    | [] => Some []
    | (k, s) :: r =>
        match Sys.step s l, all_step l r with
        | Some s', Some r' => Some ((k, s') :: r')
        | _, _ => None
        end
    end.

  Definition shard_keys (d : @disp K) (i : nat) : list K := keys (nth i (shards d) []).
  Definition mem (k : K) (l : list K) : bool := existsb (keqb k) l.

  (** the keys a lookup pushed out: resident in the lookup's shard before, not after *)
  Definition evicted (d d' : @disp K) (i : nat) : list K :=
    filter (fun k' => negb (mem k' (shard_keys d' i))) (shard_keys d i).

  Fixpoint evict_all (m : mstate) (ks : list K) : mstate :=
    match ks with
    | [] => m
    | k :: r =>
        evict_all (match Sys.step (sys_of m k) Sys.Evict with Some s' => set_sys m k s' | None => m end) r
    end.

  Inductive mlabel :=
  | MArrive (k : K) (pass : bool)
  | MTick (d : Z)
  | MRun (k : K) (i : tid) (c : choice)
  | MPurge (k : K) (del_ok : bool)
  | MCrash
  | MCorrupt (k : K) (c : scontent).

  Definition at_lookup (s : Sys.state) (i : tid) : bool :=
    match nth_error (ts s) i with Some PLookup => true | _ => false end.

  Definition mstep (m : mstate) (l : mlabel) : option mstate :=
    match l with
    | MArrive k pass => key_step m k (Arrive pass)
    | MCorrupt k c => key_step m k (Corrupt c)
    | MTick d =>
        match all_step (Tick d) (m_keys m) with
        | Some ks => if (0 <=? d)%Z then
                       Some {| m_disp := m_disp m; m_keys := ks; m_now := m_now m + d;
                               m_hfp := m_hfp m; m_store := m_store m |}
                     else None
        | None => None
        end
    | MCrash =>
        match all_step Crash (m_keys m) with
        | Some ks => Some {| m_disp := mk_disp (zones (m_disp m)) (limit (m_disp m)); m_keys := ks;
                             m_now := m_now m; m_hfp := m_hfp m; m_store := m_store m |}
        | None => None
        end
    | MPurge k ok =>
        key_step (set_disp m (remove_http_cache keqb hash (m_disp m) k)) k (Purge ok)
    | MRun k i c =>
        if at_lookup (sys_of m k) i then
          (* GetHTTPCache: the dispatcher's get-or-create, one critical section *)
          let d := m_disp m in
          let '(_, _, d') := get_http_cache keqb hash d k in
          let m1 := evict_all (set_disp m d') (evicted d d' (shard_index hash d k)) in
          key_step m1 k (Run i c)
        else key_step m k (Run i c)
    end.

  Definition minit (d : @disp K) (t0 hfp0 : Z) (st0 : bool) : mstate :=
    {| m_disp := d; m_keys := []; m_now := t0; m_hfp := hfp0; m_store := st0 |}.

  Fixpoint mrun (m : mstate) (ls : list mlabel) : option mstate :=
    match ls with
    | [] => Some m
    | l :: r => match mstep m l with Some m' => mrun m' r | None => None end
    end.

  (** does key [k] have a resident entry according to its own protocol state? *)
  Definition live (m : mstate) (k : K) : bool :=
    match cur (sys_of m k) with Some _ => true | None => false end.
  (** ... and according to the dispatcher *)
  Definition held (m : mstate) (k : K) : bool :=
    mem k (shard_keys (m_disp m) (shard_index hash (m_disp m) k)).
End Multi.
