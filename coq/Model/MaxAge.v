(** Model of server/proxy.go getCacheMaxAge and of the storage decision of
    server/cache.go (requestIsPass, the maxAge > 0 test).

    The three regular expressions are modelled as string scanners for the
    literals pinned in PerRun/C03_inst.v:
      noCacheReg  (?i)no-cache|no-store|private
      sMaxAgeReg  (?i)(?:^|,)\s*s-maxage=(\d+)
      maxAgeReg   (?i)(?:^|,)\s*max-age=(\d+)
    Go's (?i) is Unicode simple folding: of the letters occurring in these
    literals only 's' has a non-ASCII fold, U+017F (bytes C5 BF). *)
From Coq Require Import List Arith Bool NArith ZArith.
From Pike Require Import Base.Bytes.
Import ListNotations.

Definition header := (bytes * bytes)%type.        (* canonical key, value *)
Definition headers := list header.

Definition hvalues (k : bytes) (h : headers) : list bytes :=
  map snd (filter (fun kv => beqb (fst kv) k) h).
(** http.Header.Get: first value or "" *)
Definition hget (k : bytes) (h : headers) : bytes :=
  match hvalues k h with v :: _ => v | [] => [] end.

(* "Set-Cookie", "Cache-Control", "Age", "GET", "HEAD" *)
Definition k_set_cookie : bytes := [83;101;116;45;67;111;111;107;105;101]%N.
Definition k_cache_control : bytes := [67;97;99;104;101;45;67;111;110;116;114;111;108]%N.
Definition k_age : bytes := [65;103;101]%N.
Definition m_get : bytes := [71;69;84]%N.
Definition m_head : bytes := [72;69;65;68]%N.

(* "no-cache" "no-store" "private" "s-maxage=" "max-age=" (lower case) *)
Definition s_no_cache : bytes := [110;111;45;99;97;99;104;101]%N.
Definition s_no_store : bytes := [110;111;45;115;116;111;114;101]%N.
Definition s_private : bytes := [112;114;105;118;97;116;101]%N.
Definition s_smaxage_eq : bytes := [115;45;109;97;120;97;103;101;61]%N.
Definition s_maxage_eq : bytes := [109;97;120;45;97;103;101;61]%N.

(** [strip_fold p s]: match the lower-case literal [p] at the start of [s]
    under Go's (?i); returns the rest of the input. *)
Fixpoint strip_fold (p s : bytes) : option bytes :=
  match p with
  | [] => Some s
  | x :: p' =>
      match s with
      | [] => None
      | y :: s' =>
          if N.eqb (lower y) x then strip_fold p' s'
          else if N.eqb x 115 && N.eqb y 197 then      (* U+017F = C5 BF folds to 's' *)
                 match s' with
                 | y2 :: s'' => if N.eqb y2 191 then strip_fold p' s'' else None
                 | [] => None
                 end
               else None
      end
  end.

Definition has_fold (p s : bytes) : bool :=
  exists_suffix (fun t => match strip_fold p t with Some _ => true | None => false end) s.

(** noCacheReg.MatchString *)
Definition forbidden_re (cc : bytes) : bool :=
  has_fold s_no_cache cc || has_fold s_no_store cc || has_fold s_private cc.

(** one comma-separated token against [\s*<name>=(\d+)]: the captured digits *)
Definition directive_digits (name_eq : bytes) (tok : bytes) : option bytes :=
  match strip_fold name_eq (ltrim tok) with
  | Some rest => match take_while is_digit rest with [] => None | ds => Some ds end
  | None => None
  end.

(** FindStringSubmatch of the anchored lifetime regexes: the leftmost match
    is the first comma-separated token that matches. *)
Definition lifetime_digits (name_eq : bytes) (cc : bytes) : option bytes :=
  first_some (directive_digits name_eq) (split_on 44 cc).

Definition sat_digits (ds : bytes) : Z := Z.min (digits_val ds) max_i64.

Definition cache_max_age (h : headers) : Z :=
  match hvalues k_set_cookie h with
  | _ :: _ => 0%Z
  | [] =>
      let cc := join [44%N] (hvalues k_cache_control h) in
      match cc with
      | [] => 0%Z
      | _ =>
          if forbidden_re cc then 0%Z
          else
            let n := match lifetime_digits s_smaxage_eq cc with
                     | Some ds => sat_digits ds
                     | None => match lifetime_digits s_maxage_eq cc with
                               | Some ds => sat_digits ds
                               | None => 0%Z
                               end
                     end in
            (* only a positive Age shortens the lifetime *)
            let v := atoi (hget k_age h) in
            if (0 <? v)%Z then (n - v)%Z else n
      end
  end.

Definition request_is_pass (m : bytes) : bool := negb (beqb m m_get) && negb (beqb m m_head).

(** The storage decision of the cache middleware for a fetching request whose
    upstream exchange returned headers [h] (and a non-nil response):
    [Some T] = stored with lifetime T. *)
Definition store_decision (m : bytes) (h : headers) : option Z :=
  if request_is_pass m then None
  else let t := cache_max_age h in if (0 <? t)%Z then Some t else None.

(** ** Legacy forms of the pinned commit, kept for the refutation witnesses:
    case-sensitive unanchored regexes, Set-Cookie tested through Get. *)
Definition has_exact (p s : bytes) : bool := contains p s.
Definition legacy_digits_after (p : bytes) (cc : bytes) : option bytes :=
  (fix go (s : bytes) (fuel : nat) : option bytes :=
     match fuel with
     | O => None
     | S f =>
         match strip_prefix p s with
         | Some rest => match take_while is_digit rest with
                        | [] => match s with [] => None | _ :: r => go r f end
                        | ds => Some ds
                        end
         | None => match s with [] => None | _ :: r => go r f end
         end
     end) cc (S (length cc)).

Definition cache_max_age_legacy (h : headers) : Z :=
  match hget k_set_cookie h with
  | _ :: _ => 0%Z
  | [] =>
      let cc := join [44%N] (hvalues k_cache_control h) in
      match cc with
      | [] => 0%Z
      | _ =>
          if has_exact s_no_cache cc || has_exact s_no_store cc || has_exact s_private cc then 0%Z
          else
            let n := match legacy_digits_after s_smaxage_eq cc with
                     | Some ds => sat_digits ds
                     | None => match legacy_digits_after s_maxage_eq cc with
                               | Some ds => sat_digits ds
                               | None => 0%Z
                               end
                     end in
            match hget k_age h with
            | [] => n
            | a => wrap64 (n - atoi a)
            end
      end
  end.
