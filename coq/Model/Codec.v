(** Model of the persistence format: cache/cache.go (uint32/uint64 helpers),
    HTTPResponse.Bytes/FromBytes, httpCache.Bytes/FromBytes.
    [FromBytes] mutates its receiver field by field and stops at the first
    error: the model returns the partially updated value together with the
    error flag.  bytes.Buffer.Next(n) returns min(n, remaining) bytes without
    any error — only the fixed-width reads can fail. *)
From Coq Require Import List Arith Bool NArith ZArith.
From Pike Require Import Base.Bytes Model.MaxAge Model.Resp.
Import ListNotations.

(** big-endian fixed-width integers *)
Fixpoint be_bytes (k : nat) (v : Z) : bytes :=
  match k with
  | O => []
  | S k' => be_bytes k' (v / 256) ++ [Z.to_N (v mod 256)]
  end.
Definition be_val (bs : bytes) : Z := fold_left (fun acc b => (acc * 256 + Z.of_N b)%Z) bs 0%Z.

Definition two32 : Z := 4294967296.
Definition two64 : Z := 18446744073709551616.

(** uint32ToBytes(int): uint32(value) wraps *)
Definition u32 (v : Z) : bytes := be_bytes 4 (v mod two32).
(** uint64ToBytes(int64) *)
Definition u64 (v : Z) : bytes := be_bytes 8 (v mod two64).

Definition read_u32 (s : bytes) : option (Z * bytes) :=
  if Nat.ltb (length s) 4 then None else Some (be_val (firstn 4 s), skipn 4 s).
(** readUint64ToInt64: int64(value) *)
Definition read_i64 (s : bytes) : option (Z * bytes) :=
  if Nat.ltb (length s) 8 then None
  else let v := be_val (firstn 8 s) in
       Some ((if (v <? two63)%Z then v else v - two64)%Z, skipn 8 s).
(** Buffer.Next *)
Definition next (n : Z) (s : bytes) : bytes * bytes :=
  (* min(n, remaining); written with Z.min so that a huge length field never
     becomes a huge unary number *)
  let k := Z.to_nat (Z.min n (Z.of_nat (length s))) in
  (firstn k s, skipn k s).

Definition blen32 (b : bytes) : bytes := u32 (Z.of_nat (length b)).

Section Codec.
  (** json.Marshal / json.Unmarshal of http.Header, regexp.Compile success *)
  Variable hdr_enc : option headers -> bytes.            (* None = nil map ("null") *)
  Variable hdr_dec : bytes -> option headers -> option (option headers).
                      (* Unmarshal into the current value; None = error *)
  Variable regex_ok : bytes -> bool.

  (** the persisted view of a response: like [resp] but with a nilable header *)
  Record presp := {
    p_srv : bytes; p_min : Z; p_filter : option bytes; p_header : option headers;
    p_status : Z; p_gzip : bytes; p_br : bytes; p_raw : bytes
  }.

  Definition empty_presp : presp :=
    {| p_srv := []; p_min := 0; p_filter := None; p_header := None; p_status := 0;
       p_gzip := []; p_br := []; p_raw := [] |}.

  Definition encode_resp (r : presp) : bytes :=
    let f := match p_filter r with Some s => s | None => [] end in
    let h := hdr_enc (p_header r) in
    blen32 (p_srv r) ++ p_srv r ++ u32 (p_min r) ++ blen32 f ++ f ++ blen32 h ++ h
    ++ u32 (p_status r) ++ blen32 (p_gzip r) ++ p_gzip r ++ blen32 (p_br r) ++ p_br r
    ++ blen32 (p_raw r) ++ p_raw r.

  Definition set_srv r v := {| p_srv := v; p_min := p_min r; p_filter := p_filter r; p_header := p_header r;
    p_status := p_status r; p_gzip := p_gzip r; p_br := p_br r; p_raw := p_raw r |}.
  Definition set_min r v := {| p_srv := p_srv r; p_min := v; p_filter := p_filter r; p_header := p_header r;
    p_status := p_status r; p_gzip := p_gzip r; p_br := p_br r; p_raw := p_raw r |}.
  Definition set_filter r v := {| p_srv := p_srv r; p_min := p_min r; p_filter := v; p_header := p_header r;
    p_status := p_status r; p_gzip := p_gzip r; p_br := p_br r; p_raw := p_raw r |}.
  Definition set_header r v := {| p_srv := p_srv r; p_min := p_min r; p_filter := p_filter r; p_header := v;
    p_status := p_status r; p_gzip := p_gzip r; p_br := p_br r; p_raw := p_raw r |}.
  Definition set_status r v := {| p_srv := p_srv r; p_min := p_min r; p_filter := p_filter r; p_header := p_header r;
    p_status := v; p_gzip := p_gzip r; p_br := p_br r; p_raw := p_raw r |}.
  Definition set_gzip r v := {| p_srv := p_srv r; p_min := p_min r; p_filter := p_filter r; p_header := p_header r;
    p_status := p_status r; p_gzip := v; p_br := p_br r; p_raw := p_raw r |}.
  Definition set_br r v := {| p_srv := p_srv r; p_min := p_min r; p_filter := p_filter r; p_header := p_header r;
    p_status := p_status r; p_gzip := p_gzip r; p_br := v; p_raw := p_raw r |}.
  Definition set_raw r v := {| p_srv := p_srv r; p_min := p_min r; p_filter := p_filter r; p_header := p_header r;
    p_status := p_status r; p_gzip := p_gzip r; p_br := p_br r; p_raw := v |}.

  (** read a uint32 or fail with the receiver as it is now *)
  Definition with_u32 {A} (s : bytes) (fail : A) (k : Z -> bytes -> A) : A :=
    match read_u32 s with None => fail | Some (v, s') => k v s' end.

  (** HTTPResponse.FromBytes on receiver [r]; result = (receiver afterwards, ok?) *)
  Definition decode_resp (r : presp) (data : bytes) : presp * bool :=
    match data with
    | [] => (r, true)
    | _ =>
      with_u32 data (r, false) (fun n s =>
      let r := set_srv r (fst (next n s)) in let s := snd (next n s) in
      with_u32 s (r, false) (fun mn s =>
      let r := set_min r mn in
      with_u32 s (r, false) (fun n s =>
      let f := fst (next n s) in let s := snd (next n s) in
      match (match f with [] => Some (p_filter r) | _ => if regex_ok f then Some (Some f) else None end) with
      | None => (r, false)
      | Some flt =>
      let r := set_filter r flt in
      with_u32 s (r, false) (fun n s =>
      let hb := fst (next n s) in let s := snd (next n s) in
      match hdr_dec hb (p_header r) with
      | None => (r, false)
      | Some h =>
      let r := set_header r h in
      with_u32 s (r, false) (fun sc s =>
      let r := set_status r sc in
      with_u32 s (r, false) (fun n s =>
      let r := set_gzip r (fst (next n s)) in let s := snd (next n s) in
      with_u32 s (r, false) (fun n s =>
      let r := set_br r (fst (next n s)) in let s := snd (next n s) in
      with_u32 s (r, false) (fun n s =>
      (set_raw r (fst (next n s)), true)))))
      end)
      end)))
    end.

  (** the cache entry as persisted *)
  Record pentry := { pe_status : Z; pe_resp : option presp; pe_created : Z; pe_expired : Z }.

  Definition encode_entry (e : pentry) : bytes :=
    let rb := match pe_resp e with Some r => encode_resp r | None => [] end in
    u32 (pe_status e) ++ blen32 rb ++ rb ++ u64 (pe_created e) ++ u64 (pe_expired e).

  Definition mk_pe st rs c x := {| pe_status := st; pe_resp := rs; pe_created := c; pe_expired := x |}.

  (** httpCache.FromBytes on receiver [e] *)
  Definition decode_entry (e : pentry) (data : bytes) : pentry * bool :=
    with_u32 data (e, false) (fun st s =>
    let e := mk_pe st (pe_resp e) (pe_created e) (pe_expired e) in
    with_u32 s (e, false) (fun n s =>
    let rb := fst (next n s) in let s := snd (next n s) in
    match decode_resp empty_presp rb with
    | (_, false) => (e, false)
    | (r, true) =>
      let e := mk_pe (pe_status e) (Some r) (pe_created e) (pe_expired e) in
      match read_i64 s with
      | None => (e, false)
      | Some (c, s) =>
        let e := mk_pe (pe_status e) (pe_resp e) c (pe_expired e) in
        match read_i64 s with
        | None => (e, false)
        | Some (x, _) => (mk_pe (pe_status e) (pe_resp e) (pe_created e) x, true)
        end
      end
    end)).

  Definition fresh_entry : pentry := {| pe_status := 0; pe_resp := None; pe_created := 0; pe_expired := 0 |}.
End Codec.
