(** Model of location/location.go: Location.Match, getPriority,
    Locations.Set (sort.Slice by priority) and Locations.Get. *)
From Coq Require Import List Arith Bool NArith ZArith.
From Pike Require Import Base.Bytes.
Import ListNotations.

Record loc := { l_name : bytes; l_hosts : list bytes; l_prefixes : list bytes; l_tag : N }.

Definition nonempty {A} (l : list A) : bool := match l with [] => false | _ => true end.

(** Location.Match *)
Definition lmatch (l : loc) (host url : bytes) : bool :=
  (negb (nonempty (l_hosts l)) || existsb (beqb host) (l_hosts l))
  && (negb (nonempty (l_prefixes l)) || existsb (fun p => is_prefix p url) (l_prefixes l)).

(** getPriority: base, minus dp when prefixes are set, minus dh when hosts are set *)
Record pconsts := { p_base : Z; p_prefix : Z; p_host : Z }.
Definition pike_pconsts : pconsts := {| p_base := 8; p_prefix := 4; p_host := 2 |}.

Definition priority (c : pconsts) (l : loc) : Z :=
  (p_base c - (if nonempty (l_prefixes l) then p_prefix c else 0)
            - (if nonempty (l_hosts l) then p_host c else 0))%Z.

(** eligibility of a location for a request on a server listing [names] *)
Definition eligible (names : list bytes) (host url : bytes) (l : loc) : bool :=
  existsb (beqb (l_name l)) names && lmatch l host url.

(** Locations.Get over the sorted slice: first eligible location *)
Definition get_from (sorted : list loc) (host url : bytes) (names : list bytes) : option loc :=
  find (eligible names host url) sorted.

(** a stable insertion sort — one of the orders sort.Slice may produce (and
    the one it does produce for fewer than 12 elements) *)
Fixpoint insert_by (c : pconsts) (x : loc) (l : list loc) : list loc :=
  match l with
  | [] => [x]
  | y :: r => if (priority c y <=? priority c x)%Z then y :: insert_by c x r else x :: l
  end.
Definition sort_locs (c : pconsts) (l : list loc) : list loc := fold_right (insert_by c) [] (rev l).
(* fold over the reversed list so that equal-priority elements keep their order *)

Definition locations_get (c : pconsts) (locs : list loc) (host url : bytes) (names : list bytes) : option loc :=
  get_from (sort_locs c locs) host url names.

(** specificity class of a location, for the projection compared with the implementation *)
Definition loc_class (l : loc) : N :=
  match nonempty (l_prefixes l), nonempty (l_hosts l) with
  | true, true => 0 | true, false => 1 | false, true => 2 | false, false => 3
  end%N.
