(** Which mutex protects which fields, and which internal functions must be
    called with a mutex held — the discipline the atomic steps of Model/Sys.v
    and Model/Dispatcher.v rely on.  Names are as they appear in the Go source
    (receiver / local variable name + field). *)
From Coq Require Import List String.
From Pike Require Import Proofs.Lockset.
Import ListNotations.
Local Open Scope string_scope.

Definition pol_cache : policy := {|
  protects := [("hc.status", "hc.mu"); ("hc.chanList", "hc.mu"); ("hc.response", "hc.mu");
               ("hc.createdAt", "hc.mu"); ("hc.expiredAt", "hc.mu")];
  requires := [("hc.get", ("hc.mu", MW)); ("hc.initFromStore", ("hc.mu", MW));
               ("hc.saveToStore", ("hc.mu", MW)); ("hc.Bytes", ("hc.mu", MR))]
|}.

Definition pol_disp : policy := {|
  protects := [];
  requires := [("lru.getCache", ("lru.mu", MW)); ("lru.addCache", ("lru.mu", MW)); ("lru.removeCache", ("lru.mu", MW))]
|}.

Definition pol_server : policy := {|
  protects := [("s.locations", "s.mutex"); ("s.cache", "s.mutex"); ("s.compress", "s.mutex");
               ("s.compressMinLength", "s.mutex"); ("s.compressContentTypeFilter", "s.mutex")];
  requires := []
|}.

Definition pol_locations : policy := {|
  protects := [("ls.locations", "ls.mutex")];
  requires := []
|}.

Definition ok (r : result) : bool := match r with Some _ => true | None => false end.
