(** Independent, token-level reading of C03's statement: what the origin must
    have said for a response to be shareable.  Used as the right-hand side of
    the C03 theorems and as the monitor run on the implementation's answers. *)
From Coq Require Import List Arith Bool NArith ZArith.
From Pike Require Import Base.Bytes Model.MaxAge.
Import ListNotations.

(** directive name of a token: text before '=' (or the whole token), OWS
    trimmed on both sides, ASCII lower-cased *)
Definition rtrim (s : bytes) : bytes := rev (ltrim (rev s)).
Definition token_name (tok : bytes) : bytes :=
  lower_s (rtrim (ltrim (take_while (fun b => negb (N.eqb b 61)) tok))).

Definition forbidden_name (n : bytes) : bool :=
  beqb n s_no_cache || beqb n s_no_store || beqb n s_private.

(** all Cache-Control tokens, over all header lines *)
Definition cc_tokens (h : headers) : list bytes :=
  flat_map (split_on 44) (hvalues k_cache_control h).

(** value of a lifetime directive: token (left-trimmed) = name, '=', at least
    one digit; value = the digits, saturated at 2^63-1 *)
Definition lifetime_of (name_eq : bytes) (tok : bytes) : option Z :=
  match directive_digits name_eq tok with Some ds => Some (sat_digits ds) | None => None end.

Definition spec_lifetime (h : headers) : option Z :=
  match first_some (lifetime_of s_smaxage_eq) (cc_tokens h) with
  | Some n => Some n
  | None => first_some (lifetime_of s_maxage_eq) (cc_tokens h)
  end.

(** the response's own Age: the first Age line read as a decimal integer;
    anything that is not a positive number counts as 0 *)
Definition spec_age (h : headers) : Z :=
  match hvalues k_age h with a :: _ => Z.max 0 (atoi a) | [] => 0%Z end.

(** [spec_shareable m h T]: the conditions of C03 under which storing with
    lifetime T is allowed *)
Definition spec_shareable (m : bytes) (h : headers) (T : Z) : bool :=
  (beqb m m_get || beqb m m_head)
  && match hvalues k_set_cookie h with [] => true | _ => false end
  && negb (existsb (fun tok => forbidden_name (token_name tok)) (cc_tokens h))
  && (0 <? T)%Z
  && match spec_lifetime h with
     | Some n => Z.eqb T (n - spec_age h)
     | None => false
     end.
