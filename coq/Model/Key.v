(** Model of server/cache.go getKey / requestIsPass. *)
From Coq Require Import List Arith Bool NArith.
From Pike Require Import Base.Bytes.
Import ListNotations.

Definition sp : N := 32%N.

(** [uri] is RequestURI, or URL.String() when RequestURI is empty *)
Definition effective_uri (request_uri url_string : bytes) : bytes :=
  match request_uri with [] => url_string | _ => request_uri end.

Definition get_key (method host uri : bytes) : bytes := method ++ [sp] ++ host ++ [sp] ++ uri.

Definition space_free (s : bytes) : bool := forallb (fun b => negb (N.eqb b sp)) s.
