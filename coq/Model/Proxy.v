(** Model of server/proxy.go (NewProxy): what the upstream is sent, what is
    restored on the client's request afterwards, what becomes the response,
    and when a response is offered for storage.  The location's path rewriter
    (user regular expressions) is a Section variable; hop-by-hop handling,
    X-Forwarded-For and retargeting are httputil.ReverseProxy's doing and
    outside the projection. *)
From Coq Require Import List Arith Bool NArith ZArith.
From Pike Require Import Base.Bytes Model.MaxAge Model.Resp.
Import ListNotations.

Record prequest := {
  rq_method : bytes; rq_path : bytes; rq_query : bytes; rq_headers : headers; rq_body : bytes
}.

(* canonical header names *)
Definition k_if_modified_since : bytes := [73;102;45;77;111;100;105;102;105;101;100;45;83;105;110;99;101]%N.
Definition k_if_none_match : bytes := [73;102;45;78;111;110;101;45;77;97;116;99;104]%N.
Definition k_if_match : bytes := [73;102;45;77;97;116;99;104]%N.
Definition k_if_unmodified_since : bytes := [73;102;45;85;110;109;111;100;105;102;105;101;100;45;83;105;110;99;101]%N.
Definition k_if_range : bytes := [73;102;45;82;97;110;103;101]%N.
Definition k_range : bytes := [82;97;110;103;101]%N.
Definition k_accept_encoding : bytes := [65;99;99;101;112;116;45;69;110;99;111;100;105;110;103]%N.

(** request headers that make an origin answer something other than the
    resource itself (304, 206, 412): withheld on a fetching request *)
Definition withheld : list bytes :=
  [k_if_modified_since; k_if_none_match; k_if_match; k_if_unmodified_since; k_if_range; k_range].
Definition is_withheld (k : bytes) : bool := existsb (beqb k) withheld.

Definition hset (k v : bytes) (h : headers) : headers := hdel k h ++ [(k, v)].

Definition add_query (raw added : bytes) : bytes :=
  match added, raw with
  | [], _ => raw
  | _, [] => added
  | _, _ => raw ++ [38%N] ++ added
  end.

Record plocation := {
  pl_req_headers : headers;      (* added request headers *)
  pl_resp_headers : headers;     (* added response headers *)
  pl_query : bytes               (* url-encoded extra query parameters, "" when none *)
}.

Section Proxy.
  Variable rewrite : bytes -> bytes.     (* the location's URLRewriter on the path (identity when no rules) *)

  (** the request handed to the upstream *)
  Definition upstream_request (fetching : bool) (l : plocation) (up_accept : bytes) (rq : prequest) : prequest :=
    let h1 := if fetching then filter (fun kv => negb (is_withheld (fst kv))) (rq_headers rq) else rq_headers rq in
    let h2 := h1 ++ pl_req_headers l in
    let h3 := match up_accept with [] => h2 | _ => hset k_accept_encoding up_accept h2 end in
    {| rq_method := rq_method rq; rq_path := rewrite (rq_path rq); rq_query := add_query (rq_query rq) (pl_query l);
       rq_headers := h3; rq_body := rq_body rq |}.

  (** the client's request object after the middleware returned *)
  Definition client_after (l : plocation) (up_accept : bytes) (rq : prequest) : prequest :=
    let h2 := rq_headers rq ++ pl_req_headers l in
    let h3 := match up_accept with [] => h2 | _ => hset k_accept_encoding (hget k_accept_encoding (rq_headers rq)) h2 end in
    {| rq_method := rq_method rq; rq_path := rq_path rq;
       rq_query := match rq_query rq with [] => add_query [] (pl_query l) | q => q end;
       rq_headers := h3; rq_body := rq_body rq |}.

  (** the response object built from the upstream's answer *)
  Definition proxy_response_headers (l : plocation) (up_resp : headers) : headers :=
    clone_and_ignore (up_resp ++ pl_resp_headers l).

  (** offered for storage: only a fetching request, lifetime from the response headers *)
  Definition offered_lifetime (fetching : bool) (l : plocation) (up_resp : headers) : option Z :=
    if fetching then
      let t := cache_max_age (up_resp ++ pl_resp_headers l) in
      if (0 <? t)%Z then Some t else None
    else None.
End Proxy.
