(** Model of github.com/vicanso/upstream (HTTP.Next, the four policies, the
    status rule of DoHealthCheck) and of pike's newTargetPicker /
    NewUpstreamServer plumbing (upstream/upstream.go). *)
From Coq Require Import List Arith Bool NArith ZArith.
Import ListNotations.

Inductive ustatus := UUnknown | USick | UHealthy | UIgnored.
Record usrv := { u_backup : bool; u_status : ustatus; u_value : N }.

Inductive upolicy := PFirst | PRandom | PRoundRobin | PLeastConn.

Definition is_healthy (s : usrv) : bool := match u_status s with UHealthy => true | _ => false end.

(** indices of the servers a request may go to: healthy primaries, or — only
    when there is none — healthy backups (enhanceGetAvailableUpstreamList) *)
Fixpoint indices_where (f : usrv -> bool) (l : list usrv) (i : nat) : list nat :=
  match l with
  | [] => []
  | s :: r => if f s then i :: indices_where f r (S i) else indices_where f r (S i)
  end.
Definition preferred (l : list usrv) : list nat := indices_where (fun s => is_healthy s && negb (u_backup s)) l 0.
Definition backups (l : list usrv) : list nat := indices_where (fun s => is_healthy s && u_backup s) l 0.
Definition available (l : list usrv) : list nat :=
  match preferred l with [] => backups l | p => p end.

Definition two32 : Z := 4294967296.

(** GetAvailableUpstream(index) *)
Definition pick_index (l : list usrv) (index : Z) : option nat :=
  match available l with
  | [] => None
  | av => nth_error av (Z.to_nat (index mod Z.of_nat (length av)))
  end.

(** position (in the available list) of the first server with the least value *)
Fixpoint argmin_value (l : list usrv) (av : list nat) (best : option (nat * N)) : option nat :=
  match av with
  | [] => option_map fst best
  | i :: r =>
      let v := match nth_error l i with Some s => u_value s | None => 0%N end in
      match best with
      | None => argmin_value l r (Some (i, v))
      | Some (_, bv) => if N.ltb v bv then argmin_value l r (Some (i, v)) else argmin_value l r best
      end
  end.

Record ustate := { servers : list usrv; rr : Z (* uint32 counter *) }.

Fixpoint upd_srv (l : list usrv) (i : nat) (f : usrv -> usrv) : list usrv :=
  match l, i with
  | [], _ => []
  | s :: r, O => f s :: r
  | s :: r, S j => s :: upd_srv r j f
  end.

(** HTTP.Next: the chosen server (index) and the new state; [rnd] is the
    value rand.Uint32() returned (any) *)
Definition next (p : upolicy) (rnd : Z) (st : ustate) : option nat * ustate :=
  match p with
  | PFirst => (pick_index (servers st) 0, st)
  | PRandom => (pick_index (servers st) rnd, st)
  | PRoundRobin =>
      let c := ((rr st + 1) mod two32)%Z in
      (pick_index (servers st) c, {| servers := servers st; rr := c |})
  | PLeastConn =>
      match argmin_value (servers st) (available (servers st)) None with
      | None => (None, st)
      | Some i => (Some i, {| servers := upd_srv (servers st) i (fun s =>
                     {| u_backup := u_backup s; u_status := u_status s; u_value := N.succ (u_value s) |}); rr := rr st |})
      end
  end.

(** the done callback of least-conn *)
Definition done_conn (st : ustate) (i : nat) : ustate :=
  {| servers := upd_srv (servers st) i (fun s =>
       {| u_backup := u_backup s; u_status := u_status s; u_value := N.pred (u_value s) |}); rr := rr st |}.

(** the status rule of one health-check round for one server:
    [fails] of the round's pings failed *)
Definition check_rule (max_fail : nat) (fails : nat) (cur : ustatus) : ustatus :=
  match cur with
  | UIgnored => UIgnored
  | _ => if Nat.leb max_fail fails then USick else UHealthy
  end.

(** pike's target picker: a URL or the 503 "Available Upstream Not Found" error *)
Definition target_picker (p : upolicy) (rnd : Z) (st : ustate) : option nat * ustate := next p rnd st.
