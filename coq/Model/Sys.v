(** Small-step model of pike's cache-entry protocol for ONE cache key:
    cache/http_cache.go (Get / get / HitForPass / Cacheable / Age,
    initFromStore / saveToStore), the cache middleware of server/cache.go
    (incl. the deferred HitForPass on error / panic), dispatcher lookup, purge,
    eviction, restart, clock and a persistent store with faults.

    Keys are independent of each other except through LRU eviction, which
    appears here as the environment label [Evict]; so "for all keys" is this
    model instantiated per key.  Successive entries of the key (after purge,
    eviction, restart) are the generations [gens]; a thread keeps referring to
    the generation it looked up (orphaned entries stay alive while referenced).

    Time is in milliseconds ([now]); the code reads whole seconds. *)
From Coq Require Import List Arith Bool ZArith Lia.
Import ListNotations.

Definition tid := nat.
Definition rid := nat.          (* identity of an upstream response *)
Definition eid := nat.          (* generation index of the key's entry *)

Inductive status := Unknown | Fetching | HitForPass | Hit.
(** X-Status label of a request *)
Inductive lbl := LFetching | LHitForPass | LHit | LPassed.

(** what the rest of the handler chain (proxy) produced for a request *)
Inductive outcome :=
| OCacheable (ttl : Z) (r : rid)     (* a response with max-age = ttl > 0 *)
| OUncacheable (r : rid)              (* a response that must not be stored *)
| OFail.                              (* error, timeout -> 504, nil response, panic *)

(** the middleware stores only when the reported max-age is positive (and a
    response exists); everything else ends in the deferred HitForPass *)
Definition cacheable (o : outcome) : option (Z * rid) :=
  match o with
  | OCacheable ttl r => if (0 <? ttl)%Z then Some (ttl, r) else None
  | _ => None
  end.

Definition rid_of (o : outcome) : option rid :=
  match o with OCacheable _ r => Some r | OUncacheable r => Some r | OFail => None end.

(** a record as decoded from the store *)
Record srec := { sr_st : status; sr_resp : option rid; sr_created : Z; sr_expired : Z }.
(** what the store holds for the key: nothing, a decodable record, or bytes
    that fail to decode (after leaving status/response partially written in
    the legacy decoder: [SJunk st resp_written]) *)
Inductive scontent := SNone | SRec (r : srec) | SJunk (st : status) (resp_written : bool).

Inductive reply := Reply (l : lbl) (r : option rid) (age : Z).   (* r = None: an error reply *)

Inductive pc :=
| PLookup
| PGet (e : eid)
| PRegistered (e : eid)
| PWait (e : eid)
| PWoken (e : eid)                       (* legacy Get only: woken, about to read status unlocked *)
| PHitAge (e : eid) (r : option rid)     (* got a hit; about to call Age() *)
| PFetch (e : eid) (l : lbl)             (* upstream exchange in flight; l = LFetching or LHitForPass *)
| PFetched (e : eid) (o : outcome)       (* fetching request: exchange over, about to complete the entry *)
| PSending (e : eid) (o : outcome)       (* holds the entry lock, waking waiters one by one *)
| PPassFetch                             (* non GET/HEAD: exchange in flight *)
| PDone (rp : reply)
| PDead.                                 (* killed by a crash *)

Record entry := {
  st : status; waitq : list tid; sendq : list tid; resp : option rid;
  created : Z; expired : Z; elock : option tid
}.

Definition fresh_entry : entry :=
  {| st := Unknown; waitq := []; sendq := []; resp := None; created := 0; expired := 0; elock := None |}.

Inductive event :=
| EvStart (t : tid) (e : option eid) (l : lbl)       (* upstream contacted *)
| EvInstall (t : tid) (e : eid) (o : outcome) (at_s : Z)  (* completion wrote the entry *)
| EvReply (t : tid) (rp : reply).

Record state := {
  now : Z;                   (* ms *)
  hfp : Z;                   (* configured hit-for-pass seconds (<= 0: default) *)
  has_store : bool;
  legacy : bool;             (* true: the pinned commit's Get / initFromStore *)
  gens : list entry;
  base : nat;                (* generations below [base] belong to earlier process lives *)
  cur : option eid;          (* the generation resident in the dispatcher, if any *)
  store : scontent;
  ts : list pc;
  log : list event           (* newest first *)
}.

Definition default_hfp : Z := 300.
Definition now_s (s : state) : Z := now s / 1000.

(** environment choices for one thread step *)
Record choice := { ch_outcome : outcome; ch_read_ok : bool; ch_write_ok : bool }.

Inductive label :=
| Arrive (pass : bool)           (* a new request; pass = not GET/HEAD *)
| Tick (d : Z)                   (* d ms pass *)
| Run (i : tid) (c : choice)
| Purge (del_ok : bool)
| Evict
| Crash
| Corrupt (c : scontent).        (* the store loses / garbles the record *)

(** ** helpers *)
Fixpoint upd {A} (i : nat) (x : A) (l : list A) : list A :=
  match l, i with
  | [], _ => []
  | _ :: r, O => x :: r
  | a :: r, S j => a :: upd j x r
  end.

Definition set_entry (s : state) (e : eid) (x : entry) : state :=
  {| now := now s; hfp := hfp s; has_store := has_store s; legacy := legacy s;
     gens := upd e x (gens s); base := base s; cur := cur s; store := store s; ts := ts s; log := log s |}.
Definition set_pc (s : state) (i : tid) (p : pc) : state :=
  {| now := now s; hfp := hfp s; has_store := has_store s; legacy := legacy s;
     gens := gens s; base := base s; cur := cur s; store := store s; ts := upd i p (ts s); log := log s |}.
Definition add_log (s : state) (ev : event) : state :=
  {| now := now s; hfp := hfp s; has_store := has_store s; legacy := legacy s;
     gens := gens s; base := base s; cur := cur s; store := store s; ts := ts s; log := ev :: log s |}.
Definition set_store (s : state) (c : scontent) : state :=
  {| now := now s; hfp := hfp s; has_store := has_store s; legacy := legacy s;
     gens := gens s; base := base s; cur := cur s; store := c; ts := ts s; log := log s |}.
Definition set_cur (s : state) (c : option eid) : state :=
  {| now := now s; hfp := hfp s; has_store := has_store s; legacy := legacy s;
     gens := gens s; base := base s; cur := c; store := store s; ts := ts s; log := log s |}.

Definition mk_entry st0 wq sq rs cr ex lk : entry :=
  {| st := st0; waitq := wq; sendq := sq; resp := rs; created := cr; expired := ex; elock := lk |}.

(** a persisted record is accepted only if it is a live-looking hit (with a
    response) or hit-for-pass marker with a real expiry (repaired initFromStore) *)
Definition valid_record (r : srec) : bool :=
  (0 <? sr_expired r)%Z &&
  match sr_st r with
  | Hit => match sr_resp r with Some _ => true | None => false end
  | HitForPass => true
  | _ => false
  end.

(** initFromStore on an Unknown entry *)
Definition load (s : state) (read_ok : bool) (x : entry) : entry :=
  if negb (has_store s) || negb read_ok then x
  else match store s with
       | SNone => x
       | SRec r =>
           if legacy s || valid_record r
           then mk_entry (sr_st r) (waitq x) (sendq x) (sr_resp r) (sr_created r) (sr_expired r) (elock x)
           else x
       | SJunk st0 rw =>
           if legacy s
           then mk_entry st0 (waitq x) (sendq x) (if rw then None else resp x) (created x) (expired x) (elock x)
           else x
       end.

(** the expiry rule of get() *)
Definition expire (t : Z) (x : entry) : entry :=
  if negb (expired x =? 0)%Z && (expired x <? t)%Z
  then mk_entry Unknown (waitq x) (sendq x) (resp x) (created x) 0 (elock x)
  else x.

Definition eff_hfp (s : state) : Z := if (hfp s <=? 0)%Z then default_hfp else hfp s.

Definition record_of (x : entry) : srec :=
  {| sr_st := st x; sr_resp := resp x; sr_created := created x; sr_expired := expired x |}.

Definition is_done (p : pc) : bool := match p with PDone _ | PDead => true | _ => false end.

(** ** the step function; [None] = label not enabled *)
Definition step (s : state) (l : label) : option state :=
  match l with
  | Arrive pass =>
      let i := length (ts s) in
      let s1 := {| now := now s; hfp := hfp s; has_store := has_store s; legacy := legacy s;
                   gens := gens s; base := base s; cur := cur s; store := store s;
                   ts := ts s ++ [if pass then PPassFetch else PLookup]; log := log s |} in
      Some (if pass then add_log s1 (EvStart i None LPassed) else s1)
  | Tick d => if (0 <=? d)%Z then
      Some {| now := now s + d; hfp := hfp s; has_store := has_store s; legacy := legacy s;
              gens := gens s; base := base s; cur := cur s; store := store s; ts := ts s; log := log s |}
      else None
  | Purge del_ok =>
      let s1 := set_cur s None in
      Some (if has_store s && del_ok then set_store s1 SNone else s1)
  | Evict => Some (set_cur s None)
  | Corrupt c => if has_store s then Some (set_store s c) else None
  | Crash =>
      Some {| now := now s; hfp := hfp s; has_store := has_store s; legacy := legacy s;
              gens := gens s; base := length (gens s); cur := None; store := store s;
              ts := map (fun p => if is_done p then p else PDead) (ts s); log := log s |}
  | Run i c =>
      match nth_error (ts s) i with
      | None => None
      | Some p =>
        match p with
        | PLookup =>
            match cur s with
            | Some e => Some (set_pc s i (PGet e))
            | None =>
                let e := length (gens s) in
                Some (set_pc {| now := now s; hfp := hfp s; has_store := has_store s; legacy := legacy s;
                                gens := gens s ++ [fresh_entry]; base := base s; cur := Some e;
                                store := store s; ts := ts s; log := log s |} i (PGet e))
            end
        | PGet e =>
            match nth_error (gens s) e with
            | None => None
            | Some x0 =>
              match elock x0 with
              | Some _ => None
              | None =>
                let x1 := match st x0 with Unknown => load s (ch_read_ok c) x0 | _ => x0 end in
                let x := expire (now_s s) x1 in
                match st x with
                | Fetching =>
                    Some (set_pc (set_entry s e (mk_entry Fetching (waitq x ++ [i]) (sendq x) (resp x) (created x) (expired x) None))
                                 i (PRegistered e))
                | Unknown =>
                    Some (add_log (set_pc (set_entry s e (mk_entry Fetching [] (sendq x) (resp x) (created x) (expired x) None))
                                          i (PFetch e LFetching))
                                  (EvStart i (Some e) LFetching))
                | Hit => Some (set_pc (set_entry s e x) i (PHitAge e (resp x)))
                | HitForPass =>
                    Some (add_log (set_pc (set_entry s e x) i (PFetch e LHitForPass)) (EvStart i (Some e) LHitForPass))
                end
              end
            end
        | PRegistered e => Some (set_pc s i (PWait e))
        | PWait _ => None
        | PWoken e =>
            (* legacy: status and response read without the lock *)
            match nth_error (gens s) e with
            | None => None
            | Some x =>
                match st x with
                | Hit => Some (set_pc s i (PHitAge e (resp x)))
                | Fetching | Unknown =>
                    (* the middleware takes the fetching path (Unknown behaves like it minus the deferred call; merged) *)
                    Some (add_log (set_pc s i (PFetch e LFetching)) (EvStart i (Some e) LFetching))
                | HitForPass => Some (add_log (set_pc s i (PFetch e LHitForPass)) (EvStart i (Some e) LHitForPass))
                end
            end
        | PHitAge e r =>
            match nth_error (gens s) e with
            | None => None
            | Some x =>
                let rp := Reply LHit r (now_s s - created x) in
                Some (add_log (set_pc s i (PDone rp)) (EvReply i rp))
            end
        | PFetch e LFetching => Some (set_pc s i (PFetched e (ch_outcome c)))
        | PFetch e l =>
            let rp := Reply l (rid_of (ch_outcome c)) 0 in
            Some (add_log (set_pc s i (PDone rp)) (EvReply i rp))
        | PFetched e o =>
            match nth_error (gens s) e with
            | None => None
            | Some x =>
              match elock x with
              | Some _ => None
              | None =>
                let x' := match cacheable o with
                          | Some (ttl, r) =>
                              mk_entry Hit [] (waitq x) (Some r) (now_s s) (now_s s + ttl) (Some i)
                          | None =>
                              mk_entry HitForPass [] (waitq x) (resp x) (created x) (now_s s + eff_hfp s) (Some i)
                          end in
                Some (add_log (set_pc (set_entry s e x') i (PSending e o)) (EvInstall i e o (now_s s)))
              end
            end
        | PSending e o =>
            match nth_error (gens s) e with
            | None => None
            | Some x =>
              match sendq x with
              | w :: rest =>
                  match nth_error (ts s) w with
                  | Some (PWait e') =>
                      if Nat.eqb e' e then
                        Some (set_pc (set_entry s e (mk_entry (st x) (waitq x) rest (resp x) (created x) (expired x) (elock x)))
                                     w (if legacy s then PWoken e else PGet e))
                      else None
                  | _ => None
                  end
              | [] =>
                  let s1 := set_entry s e (mk_entry (st x) (waitq x) [] (resp x) (created x) (expired x) None) in
                  let s2 := if has_store s && ch_write_ok c then set_store s1 (SRec (record_of x)) else s1 in
                  let rp := Reply LFetching (rid_of o) 0 in
                  Some (add_log (set_pc s2 i (PDone rp)) (EvReply i rp))
              end
            end
        | PPassFetch =>
            let rp := Reply LPassed (rid_of (ch_outcome c)) 0 in
            Some (add_log (set_pc s i (PDone rp)) (EvReply i rp))
        | PDone _ | PDead => None
        end
      end
  end.

Definition init (t0 : Z) (hfp0 : Z) (st0 : bool) (leg : bool) : state :=
  {| now := t0; hfp := hfp0; has_store := st0; legacy := leg; gens := []; base := 0; cur := None;
     store := SNone; ts := []; log := [] |}.

Fixpoint run (s : state) (ls : list label) : option state :=
  match ls with
  | [] => Some s
  | l :: r => match step s l with Some s' => run s' r | None => None end
  end.

(** executions that skip disabled labels (used by the correspondence driver) *)
Fixpoint run_skip (s : state) (ls : list label) : state :=
  match ls with
  | [] => s
  | l :: r => match step s l with Some s' => run_skip s' r | None => run_skip s r end
  end.
