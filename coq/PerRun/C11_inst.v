(** Per-run obligations of C11: the generic theorems instantiated with the
    constants regenerated from /repo's NewDispatcher on this run. *)
From Coq Require Import List Arith Bool NArith ZArith Lia.
From Pike Require Import Model.LRU Model.Dispatcher Proofs.DispatcherProofs Properties.C11.
From PikeRun Require Import Consts.

Lemma C11_run_translator_complete : Consts.extraction_problems = 0.
Proof. reflexivity. Qed.

(** side condition on the constants (any values satisfying it are fine) *)
Lemma C11_run_consts_ok : consts_ok Consts.disp_consts.
Proof. unfold consts_ok; simpl; lia. Qed.

(** the model's floor "never more shards than entries" is present in the source *)
Lemma C11_run_zone_floor : Consts.disp_zone_floor = true.
Proof. reflexivity. Qed.

Theorem C11_run_resident_bound :
  forall (K : Type) (keqb : K -> K -> bool), (forall a b, keqb a b = true <-> a = b) ->
  forall (hash : K -> N) (S : Z) (ops : list (@dop K)), (1 <= S)%Z ->
    (Z.of_nat (resident (drun keqb hash (new_dispatcher Consts.disp_consts S) ops)) <= S)%Z.
Proof.
  intros K keqb Hk hash S ops HS.
  rewrite <- (C11_effective_size Consts.disp_consts S HS) at 2.
  exact (C11_resident_bound K keqb Hk hash Consts.disp_consts C11_run_consts_ok S ops).
Qed.
Print Assumptions C11_run_resident_bound.
