(** Per-run obligations of C15: the request headers withheld from the upstream
    on a cold fetch are exactly the model's list, read from
    server/proxy.go:fetchingIgnoreHeaders on this run. *)
From Coq Require Import List NArith.
From Pike Require Import Base.Bytes Model.Proxy Properties.C15.
From PikeRun Require Import Consts.
Import ListNotations.

Lemma C15_run_translator_complete : Consts.extraction_problems = 0.
Proof. reflexivity. Qed.

Lemma C15_run_withheld_headers_pinned : Consts.lit_fetching_ignore_headers = withheld.
Proof. reflexivity. Qed.
