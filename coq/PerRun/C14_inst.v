From Coq Require Import List NArith ZArith Lia.
From Pike Require Import Model.Location Proofs.LocationProofs Properties.C14.
From PikeRun Require Import Consts.

Lemma C14_run_translator_complete : Consts.extraction_problems = 0.
Proof. reflexivity. Qed.

(** side condition on the weights regenerated from getPriority *)
Lemma C14_run_pconsts_ok : pconsts_ok Consts.loc_pconsts.
Proof. unfold pconsts_ok; simpl; lia. Qed.

Theorem C14_run_class_order : forall a b,
  ((priority Consts.loc_pconsts a <= priority Consts.loc_pconsts b)%Z <-> (loc_class a <= loc_class b)%N).
Proof. intros a b. exact (C14_class_order Consts.loc_pconsts a b C14_run_pconsts_ok). Qed.
