(** Per-run obligations of C18: a purge removes the entry from its shard and
    deletes the persisted copy in ONE critical section of the shard lock, on
    the skeleton regenerated from cache/dispatcher.go on this run. *)
From Coq Require Import List String Bool Arith.
From Pike Require Import Proofs.Lockset Proofs.Atomic Properties.C18.
From PikeRun Require Import Consts.
Import ListNotations.
Local Open Scope string_scope.

Lemma C18_run_translator_complete : Consts.extraction_problems = 0.
Proof. reflexivity. Qed.

Lemma C18_run_purge_checked :
  one_section "lru.mu" sk_dispatcher_RemoveHTTPCache
  && calls "lru.removeCache" sk_dispatcher_RemoveHTTPCache
  && calls "_.Delete" sk_dispatcher_RemoveHTTPCache = true.
Proof. vm_compute. reflexivity. Qed.

Theorem C18_run_purge_atomic :
  forall t r, Atomic.path_list sk_dispatcher_RemoveHTTPCache t r ->
  Atomic.count (Atomic.is_acq "lru.mu") t <= 1 /\ Atomic.count (Atomic.is_rel "lru.mu") t = 0.
Proof.
  intros t r P. apply (C18_one_section_sound "lru.mu" sk_dispatcher_RemoveHTTPCache t r); [|exact P].
  pose proof C18_run_purge_checked as H.
  apply andb_prop in H. destruct H as [H _]. apply andb_prop in H. destruct H as [H _]. exact H.
Qed.
Print Assumptions C18_run_purge_atomic.
