(** Per-run obligation of C16: the order in which main.update resets the
    registries is the one the model's [update_steps] uses. *)
From Coq Require Import List String.
From PikeRun Require Import Consts.
Import ListNotations.
Local Open Scope string_scope.

Lemma C16_run_translator_complete : Consts.extraction_problems = 0.
Proof. reflexivity. Qed.

Lemma C16_run_update_order :
  Consts.update_order = ["compress.Reset"; "cache.ResetDispatchers"; "upstream.ResetWithOnStats"; "location.Reset"; "server.Reset"; "server.Start"].
Proof. reflexivity. Qed.
