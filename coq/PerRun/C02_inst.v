(** Per-run obligations of C02: the completion of a fetch (Cacheable /
    HitForPass) is one critical section of the entry lock in which every
    registered waiter is woken by a blocking send in a loop (never a
    non-blocking select), the waiter list is reset and the entry is persisted
    — on the skeletons regenerated from cache/http_cache.go on this run. *)
From Coq Require Import List String Bool Arith.
From Pike Require Import Proofs.Lockset Proofs.Atomic Properties.C02.
From PikeRun Require Import Consts.
Import ListNotations.
Local Open Scope string_scope.

Lemma C02_run_translator_complete : Consts.extraction_problems = 0.
Proof. reflexivity. Qed.

Definition completions : list (list event) := [sk_httpCache_Cacheable; sk_httpCache_HitForPass].

Lemma C02_run_completion_checked :
  forallb (fun sk => one_section "hc.mu" sk
                     && wakes_by_blocking_send sk
                     && negb (calls "select.trysend" sk)
                     && existsb (String.eqb "hc.chanList") (writes_of sk)
                     && calls "hc.saveToStore" sk) completions = true.
Proof. vm_compute. reflexivity. Qed.

Theorem C02_run_completion_atomic :
  forall sk, In sk completions -> forall t r, Atomic.path_list sk t r ->
  Atomic.count (Atomic.is_acq "hc.mu") t <= 1 /\ Atomic.count (Atomic.is_rel "hc.mu") t = 0.
Proof.
  intros sk Hin t r P. apply (C02_one_section_sound "hc.mu" sk t r); [|exact P].
  pose proof C02_run_completion_checked as H. rewrite forallb_forall in H. specialize (H sk Hin).
  apply andb_prop in H; destruct H as [H _]. apply andb_prop in H; destruct H as [H _].
  apply andb_prop in H; destruct H as [H _]. apply andb_prop in H; destruct H as [H _]. exact H.
Qed.
Print Assumptions C02_run_completion_atomic.

(** a waiter blocks on its channel outside the entry lock: the receive in Get comes after the Unlock of its round *)
Lemma C02_run_wait_outside_lock :
  match sk_httpCache_Get with
  | [Loop [Lock m1; Call _; Unlock m2; If [Return] []; Recv]] => String.eqb m1 "hc.mu" && String.eqb m2 "hc.mu"
  | _ => false
  end = true.
Proof. vm_compute. reflexivity. Qed.

(** the cache middleware registers the hit-for-pass completion as a DEFERRED
    call right after it became the fetcher and before it calls the next
    handler — so it also runs when the handler returns an error or panics
    (Go runs deferred calls while unwinding); the cacheable completion comes
    after the handler *)
Lemma C02_run_middleware_completes_on_every_exit :
  let calls := flat_all sk__NewCache in
  registered_before "httpCache.Get" "defer:httpCache.HitForPass" calls
  && registered_before "defer:httpCache.HitForPass" "c.Next" calls
  && registered_before "c.Next" "httpCache.Cacheable" calls
  && negb (existsb (String.eqb "httpCache.HitForPass") calls) = true.
Proof. vm_compute. reflexivity. Qed.
