(** Per-run obligations of C20: the lock / write-set discipline checked on the
    function skeletons regenerated from /repo on this run, and lifted to all
    paths by the soundness theorem of the analysis. *)
From Coq Require Import List String Bool.
From Pike Require Import Proofs.Lockset Model.LockPolicy Properties.C20.
From PikeRun Require Import Consts.
Import ListNotations.
Local Open Scope string_scope.

Lemma C20_run_translator_complete : Consts.extraction_problems = 0.
Proof. reflexivity. Qed.

(** entry functions: (locks held on entry, skeleton) *)
Definition cache_functions : list (held * list event) :=
  [ ([], sk_httpCache_Get);
    ([("hc.mu", MW)], sk_httpCache_get);
    ([("hc.mu", MW)], sk_httpCache_initFromStore);
    ([("hc.mu", MW)], sk_httpCache_saveToStore);
    ([("hc.mu", MR)], sk_httpCache_Bytes);
    ([], sk_httpCache_HitForPass);
    ([], sk_httpCache_Cacheable);
    ([], sk_httpCache_Age);
    ([], sk_httpCache_GetStatus);
    ([], sk_httpCache_IsExpired) ].

Lemma C20_run_cache_lockset : forallb (fun p => ok (check pol_cache (fst p) (snd p))) cache_functions = true.
Proof. vm_compute. reflexivity. Qed.

Lemma C20_run_dispatcher_lockset :
  forallb (fun sk => ok (check pol_disp [] sk)) [sk_dispatcher_GetHTTPCache; sk_dispatcher_RemoveHTTPCache] = true.
Proof. vm_compute. reflexivity. Qed.

Lemma C20_run_server_lockset :
  forallb (fun sk => ok (check pol_server [] sk)) [sk_server_Update; sk_server_GetCache; sk_server_GetLocations; sk_server_GetCompress] = true.
Proof. vm_compute. reflexivity. Qed.

Lemma C20_run_locations_lockset :
  forallb (fun sk => ok (check pol_locations [] sk)) [sk_Locations_Set; sk_Locations_GetLocations] = true.
Proof. vm_compute. reflexivity. Qed.

(** the serve path never writes a field of the stored response, and never
    calls Compress; Compress is reached from Cacheable only, before the
    response is published in hc.response *)
Definition serve_path : list (list event) :=
  [sk_HTTPResponse_Fill; sk_HTTPResponse_getBodyByAcceptEncoding; sk_HTTPResponse_GetRawBody;
   sk_HTTPResponse_shouldCompressed; sk_HTTPResponse_Bytes].

Lemma C20_run_serve_path_readonly :
  forallb (fun sk => no_writes_to "resp." sk && negb (existsb (String.eqb "resp.Compress") (calls_of sk))) serve_path = true
  /\ existsb (String.eqb "resp.Compress") (calls_of sk_httpCache_Cacheable) = true.
Proof. vm_compute. split; reflexivity. Qed.

(** lifted to every path of every listed function *)
Theorem C20_run_every_path_guarded :
  forall h sk, In (h, sk) cache_functions ->
  forall t o, exec_list h sk t o -> safe pol_cache t.
Proof.
  intros h sk Hin. apply (C20_checked_functions_are_guarded pol_cache cache_functions C20_run_cache_lockset h sk Hin).
Qed.
Print Assumptions C20_run_every_path_guarded.
