(** Per-run obligations of C07: the default hit-for-pass period of the model is
    the constant cache/http_cache.go:defaultHitForPassSeconds read on this run. *)
From Coq Require Import ZArith.
From Pike Require Import Model.Sys Properties.C07.
From PikeRun Require Import Consts.

Lemma C07_run_translator_complete : Consts.extraction_problems = 0.
Proof. reflexivity. Qed.

Lemma C07_run_default_period_pinned : Consts.lit_default_hit_for_pass_seconds = default_hfp.
Proof. reflexivity. Qed.
