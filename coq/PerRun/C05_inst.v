(** Per-run obligations of C05: the upstream headers that are not end-to-end
    (dropped when the response object is built) are exactly the model's list,
    read from cache/http_response.go:ignoreHeaders on this run. *)
From Coq Require Import List NArith.
From Pike Require Import Base.Bytes Model.Resp Properties.C05.
From PikeRun Require Import Consts.
Import ListNotations.

Lemma C05_run_translator_complete : Consts.extraction_problems = 0.
Proof. reflexivity. Qed.

Lemma C05_run_ignored_headers_pinned : Consts.lit_response_ignore_headers = ignore_headers.
Proof. reflexivity. Qed.
