(** Per-run obligations of C03: the string scanners of Model/MaxAge.v were
    written for these three regular-expression literals; the literals are
    regenerated from server/proxy.go on every run. *)
From Coq Require Import List NArith ZArith.
From Pike Require Import Base.Bytes Model.MaxAge Properties.C03.
From PikeRun Require Import Consts.
Import ListNotations.

Lemma C03_run_translator_complete : Consts.extraction_problems = 0.
Proof. reflexivity. Qed.

(* (?i)no-cache|no-store|private *)
Lemma C03_run_no_cache_re :
  Consts.re_no_cache = [40;63;105;41;110;111;45;99;97;99;104;101;124;110;111;45;115;116;111;114;101;124;112;114;105;118;97;116;101]%N.
Proof. reflexivity. Qed.

(* (?i)(?:^|,)\s*s-maxage=(\d+) *)
Lemma C03_run_s_maxage_re :
  Consts.re_s_maxage = [40;63;105;41;40;63;58;94;124;44;41;92;115;42;115;45;109;97;120;97;103;101;61;40;92;100;43;41]%N.
Proof. reflexivity. Qed.

(* (?i)(?:^|,)\s*max-age=(\d+) *)
Lemma C03_run_max_age_re :
  Consts.re_max_age = [40;63;105;41;40;63;58;94;124;44;41;92;115;42;109;97;120;45;97;103;101;61;40;92;100;43;41]%N.
Proof. reflexivity. Qed.
