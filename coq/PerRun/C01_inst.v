(** Per-run obligations of C01: the dispatcher's lookup-or-create is one
    critical section of the shard lock, on the skeleton regenerated from
    cache/dispatcher.go on this run. *)
From Coq Require Import List String Bool Arith.
From Pike Require Import Proofs.Lockset Proofs.Atomic Properties.C01.
From PikeRun Require Import Consts.
Import ListNotations.
Local Open Scope string_scope.

Lemma C01_run_translator_complete : Consts.extraction_problems = 0.
Proof. reflexivity. Qed.

Lemma C01_run_lookup_or_create_checked :
  one_section "lru.mu" sk_dispatcher_GetHTTPCache
  && calls "lru.getCache" sk_dispatcher_GetHTTPCache
  && calls "lru.addCache" sk_dispatcher_GetHTTPCache = true.
Proof. vm_compute. reflexivity. Qed.

Theorem C01_run_lookup_or_create_atomic :
  forall t r, Atomic.path_list sk_dispatcher_GetHTTPCache t r ->
  Atomic.count (Atomic.is_acq "lru.mu") t <= 1 /\ Atomic.count (Atomic.is_rel "lru.mu") t = 0.
Proof.
  intros t r P. apply (C01_one_section_sound "lru.mu" sk_dispatcher_GetHTTPCache t r); [|exact P].
  pose proof C01_run_lookup_or_create_checked as H.
  apply andb_prop in H. destruct H as [H _]. apply andb_prop in H. destruct H as [H _]. exact H.
Qed.
Print Assumptions C01_run_lookup_or_create_atomic.

(** the entry's Get: every round takes the entry lock, runs get() under it and releases it *)
Lemma C01_run_get_rounds :
  match sk_httpCache_Get with
  | [Loop body] => calls "hc.get" body && Nat.eqb (bound_list (acq_bound "hc.mu") body) 1
  | _ => false
  end = true.
Proof. vm_compute. reflexivity. Qed.
