#!/bin/bash
# usage: seedproc.sh <seed-id> <PROP> <pkgdir> <-run regex>
# confirm + archive an agent's seeded change from /tmp/seed/out-<id>, remove its worktree, run the property's check on it.
id=$1; prop=$2; pkg=$3; run=$4
cd /verif
./seedverify.sh $id /tmp/seed/out-$id $prop $pkg/seed_demo_test.go ./$pkg/ -run "$run" 2>&1 | grep -E "^(without|with|REJECT|ARCHIVED|patch does)" 
git -C /repo worktree remove --force /tmp/seed/wt-$id 2>/dev/null
[ -f /verif/seeded/$id/patch.diff ] || exit 1
./seedtest.sh /verif/seeded/$id/patch.diff $prop 2>&1 | grep -E "VIOLATION|exit\(|obligations" | cut -c1-300
