#!/bin/bash
# usage: seedtest.sh <patch.diff> <PROP> [PROP...]
# applies a seeded change to /repo, runs the named checks, always restores /repo.
patch=$1; shift
cd /repo || exit 2
if ! git diff --quiet; then echo "/repo has uncommitted changes"; exit 2; fi
if ! git apply --3way "$patch" 2>/tmp/seedapply.err && ! git apply "$patch" 2>>/tmp/seedapply.err; then echo "patch does not apply"; cat /tmp/seedapply.err; git reset -q --hard HEAD; exit 3; fi
git reset -q
trap 'git -C /repo reset -q --hard HEAD; git -C /repo clean -fdq 2>/dev/null' EXIT INT TERM
# evidence files written while a seeded change is applied must not replace the clean-tree evidence
evbak=$(mktemp -d)
cp /verif/evidence/*.json $evbak/ 2>/dev/null
for p in "$@"; do
  (cd /verif && VERIF_SEED=${VERIF_SEED:-1} ./check $p --tier ${TIER:-quick} 2>&1 | tail -4; echo "exit($p)=${PIPESTATUS[0]}")
done
cp $evbak/*.json /verif/evidence/ 2>/dev/null; rm -rf $evbak
git reset -q --hard HEAD; git clean -fdq 2>/dev/null
git status --short | head
