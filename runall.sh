#!/bin/bash
# run every claimed check on the current (clean) tree; used before committing evidence
cd /verif
tier=${1:-quick}
for p in $(python3 -c "import sys; sys.path.insert(0,'checklib'); from props import PROPS; print(' '.join(sorted(PROPS)))"); do
  ./check $p --tier $tier 2>&1 | tail -2
done
