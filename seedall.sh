#!/bin/bash
# usage: seedall.sh [ids...]   — re-test every archived seeded change against its own property's check (quick tier)
# and write seeded/RESULTS.md.  Applies each patch to /repo, runs the check, restores /repo (seedtest.sh).
cd /verif
ids="$@"; [ -z "$ids" ] && ids=$(ls seeded | grep -E '^C[0-9]+[a-z]$' | sort)
out=seeded/RESULTS.md
tmp=$(mktemp)
for id in $ids; do
  d=seeded/$id
  patch=$d/patch.diff; [ -f $d/patch_rebased.diff ] && patch=$d/patch_rebased.diff
  prop=$(python3 -c "import json;print(json.load(open('$d/meta.json'))['property'])")
  t0=$(date +%s)
  log=$(./seedtest.sh /verif/$patch $prop 2>&1)
  t1=$(date +%s)
  verdict="MISSED"
  if echo "$log" | grep -q "^VIOLATION property=$prop .*no-failing-input-found"; then verdict="caught (no failing input)";
  elif echo "$log" | grep -q "^VIOLATION property=$prop"; then verdict="caught, failing input";
  elif echo "$log" | grep -q "patch does not apply"; then verdict="PATCH DOES NOT APPLY"; fi
  src=$(python3 - <<PY
import json,os
p="/verif/replays/$prop-1.json"
try:
    r=json.load(open(p))
    v=(r.get("violations") or r.get("model_impl_disagreements") or [{}])[0]
    nl=r.get("no_longer_checks") or []
    s="%s / %s"%(v.get("family","-"),v.get("source","-"))
    if nl: s+=" ; obligation: "+str(nl[0].get("kind") or nl[0])[:60]
    print(s)
except Exception as e:
    print("-")
PY
)
  what=$(python3 -c "import json;print((json.load(open('$d/meta.json')).get('summary') or '')[:150].replace('|','/').replace('\n',' '))")
  echo "| $id | $prop | $verdict | $src | $((t1-t0)) s | $what |" | tee -a $tmp
done
python3 - "$tmp" "$out" "$(git -C /repo rev-parse --short HEAD)" "$(git rev-parse --short HEAD)" <<'PY'
import sys, re, datetime
tmp, out, repo_head, verif_head = sys.argv[1:5]
new_rows = [l.rstrip("\n") for l in open(tmp) if l.startswith("| C")]
rows = {}
try:
    for l in open(out):
        m = re.match(r"\| (C\d+[a-z]) \|", l)
        if m:
            rows[m.group(1)] = l.rstrip("\n")
except FileNotFoundError:
    pass
for l in new_rows:
    rows[re.match(r"\| (C\d+[a-z]) \|", l).group(1)] = l
with open(out, "w") as f:
    f.write("# Seeded changes vs. the checks\n\n")
    f.write("Written by seedall.sh; last update %s (rows re-run in that update: %d of %d), /repo at %s, /verif at %s (+ working tree).\n" % (
        datetime.datetime.utcnow().strftime("%Y-%m-%dT%H:%MZ"), len(new_rows), len(rows), repo_head, verif_head))
    f.write("Each row: the change applied to /repo (git apply), its property's check run at the quick tier (seed 1), /repo restored.\n\n")
    f.write("| seed | property | verdict | first reporting family / source | time | change |\n|---|---|---|---|---|---|\n")
    for k in sorted(rows):
        f.write(rows[k] + "\n")
PY
rm -f $tmp
grep -c "caught" $out; grep -E "MISSED|DOES NOT" $out
