TEXT = {
    "C11": {
        "level": "Machine-checked proof (Coq): for every key type, hash function, configured size S>=1 and every sequence of lookups/removals the number of resident entries of the dispatcher model is <= S; a miss on a full shard drops exactly the back of the recency-ordered list; a non-resident key gets a fresh entry. The model is tied to the code on every run by regenerating NewDispatcher's constants and the one-slot floor from the source (per-run obligations) and by replaying generated op sequences on the real dispatcher vs the model (entry identity and resident count after every op).",
        "note": "Trusted: Coq kernel + vm_compute; hand-written model of groupcache/lru and cache/dispatcher.go (tied by correspondence, not verified); go/ast constant extractor; per-shard mutex gives atomic ops; memory footprint not modelled. No axioms (Print Assumptions: closed under the global context).",
        "technique": "Coq proof: inductive invariant over op sequences + refinement to recency order; per-run instantiation with regenerated constants; vm_compute differential replay",
        "design_ref": "DESIGN.md §7 C11",
    },
}

# properties not (yet) claimed: reason shown in MANIFEST.not_applicable
PENDING = "not yet claimed: model, theorems and correspondence for this property are still being built (see DESIGN.md §7, §12); the technique applies"
NOT_APPLICABLE = {("C%02d" % i): PENDING for i in range(1, 21)}
