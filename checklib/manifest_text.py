TEXT = {
    "C06": {
        "level": "Machine-checked proof (Coq): the cache key is injective in (method, host, URI) for all space-free methods and hosts (guard shown necessary), so GET/HEAD, hosts and URIs differing in one byte never share a key; for every hash function (collisions included), size and history of lookups/removals/evictions the dispatcher model returns for key k an entry created for exactly k and entry identities are never shared. Tied to the code by differential runs: exact key bytes of the real getKey on near-colliding requests, and real dispatcher runs with keys forced into one shard of a tiny cache (entry identity vs model; monitor: an entry is only ever returned for the key it was created for). The statement that a stored response is only replayed for its own key at system level is proved over the entry-protocol model (per-entry heap, C01 ff.).",
        "note": "Trusted: Coq kernel + vm_compute; hand-written models of getKey and dispatcher.go (tied by correspondence); net/http guarantees space-free method/host; memory safety of the zero-copy key conversion is outside the model. No axioms.",
        "technique": "Coq proof: injectivity lemma + dispatcher invariant (ownership of entries) by induction over op sequences; vm_compute differential replay with collision-forcing generator",
        "design_ref": "DESIGN.md §7 C06",
    },
    "C14": {
        "level": "Machine-checked proof (Coq): for every location list, every order sort.Slice may produce (any priority-ordered permutation), every host, URI and server location list, Locations.Get's model returns a configured location that the server lists and that matches host and URI, with no eligible location of a strictly better class; it returns none iff no location is eligible; priority order equals the documented class order for all weights with 0<host<prefix (instantiated per run with the weights regenerated from getPriority). Tied to the code by differential runs of the real NewLocations/Get over generated location sets x a host/URI universe, compared on (found?, class) and monitored for validity of the implementation's own choice.",
        "note": "Trusted: Coq kernel + vm_compute; hand-written model of location.go (tied by correspondence); sort.Slice assumed to return a permutation ordered by the comparison; the 503/no-upstream-contact consequence is exercised end to end under C15. No axioms.",
        "technique": "Coq proof over all sorted permutations (Permutation + StronglySorted); per-run instantiation of the class-order side condition; vm_compute differential replay + validity monitor",
        "design_ref": "DESIGN.md §7 C14",
    },
    "C03": {
        "level": "Machine-checked proof (Coq): for every method and every upstream header set, if the model of the cache middleware's storage decision stores a response with lifetime T then the method is GET/HEAD, no Set-Cookie line exists, no Cache-Control token over all lines is named no-cache/no-store/private (ASCII case-insensitive), T>0 and T = n - max(0,Age) with n the first s-maxage (else first max-age) token's saturated value; status codes are not an input and other headers are irrelevant (frame theorem). The model (regexes as string scanners incl. Go's (?i) fold of U+017F, strconv.Atoi saturation, Header.Get/Values) is tied to the code per run by pinning the three regex literals regenerated from server/proxy.go and by differential runs of the real getCacheMaxAge on generated header sets; the token-level monitor also runs on the implementation's answers. System-level parts (label truthful, forwarded once) are proved over the entry-protocol model under C01/C02's check.",
        "note": "Trusted: Coq kernel + vm_compute; hand-written model of getCacheMaxAge/requestIsPass (tied by correspondence); Go regexp and strconv semantics as modelled; net/http canonical header keys. No axioms.",
        "technique": "Coq proof: soundness of the storage-decision model w.r.t. an independent token-level spec (substring/split lemmas); per-run regex-literal pins; vm_compute differential replay + spec monitor on impl answers",
        "design_ref": "DESIGN.md §7 C03",
    },
    "C11": {
        "level": "Machine-checked proof (Coq): for every key type, hash function, configured size S>=1 and every sequence of lookups/removals the number of resident entries of the dispatcher model is <= S; a miss on a full shard drops exactly the back of the recency-ordered list; a non-resident key gets a fresh entry. The model is tied to the code on every run by regenerating NewDispatcher's constants and the one-slot floor from the source (per-run obligations) and by replaying generated op sequences on the real dispatcher vs the model (entry identity and resident count after every op).",
        "note": "Trusted: Coq kernel + vm_compute; hand-written model of groupcache/lru and cache/dispatcher.go (tied by correspondence, not verified); go/ast constant extractor; per-shard mutex gives atomic ops; memory footprint not modelled. No axioms (Print Assumptions: closed under the global context).",
        "technique": "Coq proof: inductive invariant over op sequences + refinement to recency order; per-run instantiation with regenerated constants; vm_compute differential replay",
        "design_ref": "DESIGN.md §7 C11",
    },
}

# properties not (yet) claimed: reason shown in MANIFEST.not_applicable
PENDING = "not yet claimed: model, theorems and correspondence for this property are still being built (see DESIGN.md §7, §12); the technique applies"
NOT_APPLICABLE = {("C%02d" % i): PENDING for i in range(1, 21)}
