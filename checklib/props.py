"""Per-property configuration of ./check: harness families, case counts,
signature functions for known findings, trusted-base notes."""


def sig_c11(rec):
    case = rec.get("case") or {}
    size = case.get("size")
    if isinstance(size, int) and 1 <= size <= 7:
        return "size-1..7-unlimited-shards"
    return "resident>size at size=%s" % size


def sig_c03(rec):
    case = rec.get("case") or {}
    hs = case.get("headers") or []
    return "maxage:" + "|".join(hs)[:200]


def sig_c14(rec):
    case = rec.get("case") or {}
    return "route:" + str(case.get("locations"))[:200]


def sig_resp(rec):
    case = rec.get("case") or {}
    if case.get("upstream_encoding") == "lz4" and case.get("valid_stream") and case.get("body_len", 0) >= 100:
        return "lz4-ratio>10"
    return "negotiate:%s|%s|%s|%s|%s|%s" % (case.get("upstream_encoding"), case.get("body_len"), case.get("profile"),
                                         case.get("min_length"), case.get("filter"), case.get("path"))


RESP_TRUST = [
    "model coq/Model/Resp.v is hand-written from cache/http_response.go (NewHTTPResponse, shouldCompressed, GetRawBody, Compress, getBodyByAcceptEncoding, Fill) and Cacheable's pre-compress; tied by the negotiate family",
    "third-party codecs (compress/gzip, andybalholm/brotli, pierrec/lz4, golang/snappy, klauspost zstd) and Go regexp are Section variables: hypotheses decoder(encoder x)=x and encoders never return an empty stream; the harness passes their observed answers as tables",
    "Content-Length on the wire is net/http's doing (not modelled)",
]

def sig_c09(rec):
    case = rec.get("case") or {}
    if case.get("kind"):
        return "codec:" + str(case.get("kind"))
    if case.get("non_utf8_header"):
        return "non-utf8-header-value"
    if case.get("min_length") == 4294967295 and False:
        return "min-length>=2^32"
    if isinstance(case.get("first_prefix_accepted"), int) and case.get("first_prefix_accepted") >= 0:
        return "truncated-record-accepted"
    return "codec:record " + str(case.get("record_hex"))[:80]


PROPS = {
    "C09": {
        "families": {"codec": {"quick": 60, "thorough": 1500, "search": 300}},
        "signature": sig_c09,
        "trusted_base": [
            "model coq/Model/Codec.v is hand-written from cache/cache.go, HTTPResponse.Bytes/FromBytes and httpCache.Bytes/FromBytes (bytes.Buffer.Next = min(n, remaining); field-by-field mutation); tied by the codec family (exact record bytes; decode result and error flag on full records, every prefix, mutants)",
            "encoding/json on http.Header and regexp.Compile are Section variables (oracles); the harness passes their observed answers",
        ],
        "assumptions": ["lengths and numeric fields below 2^32, a filter is a non-empty compilable source (hypotheses of the round-trip theorems)",
                        "allocation behaviour of the real decoder is observed (panic/hang watchdog), not proved"],
        "explanation": "resp/entry round trip, truncation detection for every oracle; model totality.",
    },
    "C13": {
        "families": {"negotiate": {"quick": 400, "thorough": 8000, "search": 3000,
                                   "components": ["mismatch:C05", "mismatch:C13", "monitor:C05", "monitor:C13"]}},
        "signature": sig_resp,
        "trusted_base": RESP_TRUST,
        "assumptions": ["Accept-Encoding is a plain list of codings (substring test = token membership on the standard tokens)"],
        "explanation": "negotiate_table: get_body equals the documented table for all inputs; compress_once for responses as produced by NewHTTPResponse.",
    },
    "C05": {
        "families": {"negotiate": {"quick": 400, "thorough": 8000, "search": 3000,
                                   "components": ["mismatch:C05", "mismatch:C13", "monitor:C05", "monitor:C13"]}},
        "signature": sig_resp,
        "trusted_base": RESP_TRUST,
        "assumptions": ["upstream data is a valid stream of its declared encoding and non-empty unless the body is empty"],
        "explanation": "upstream answer -> consistent response -> (store) -> serve: decoded body, acceptable encoding, status and headers preserved, for all inputs and settings.",
    },
    "C06": {
        "families": {"keys": {"quick": 120, "thorough": 2500, "search": 800}},
        "signature": lambda rec: "keys:" + str((rec.get("case") or {}).get("same_key", (rec.get("case") or {}).get("first_requests")))[:160],
        "trusted_base": [
            "model coq/Model/Key.v (getKey) and Dispatcher.v are hand-written; tied by the keys family (exact key bytes; entry identity under forced shard collisions and evictions)",
            "space-free method and host are net/http's request-parsing guarantee (hypothesis of key_injective; shown necessary by C06_guard_needed)",
            "the zero-copy []byte->string aliasing of the key is memory safety, not expressible in the model",
        ],
        "assumptions": ["per-shard mutex gives atomic lookups"],
        "explanation": "key_injective + lookup_exact (any hash, any history); the system-level no-cross-serve statement is proved over the entry-protocol model (Properties/C01.v ff.).",
    },
    "C14": {
        "families": {"route": {"quick": 600, "thorough": 12000, "search": 4000}},
        "signature": sig_c14,
        "trusted_base": [
            "model coq/Model/Location.v is hand-written from location/location.go (Match, getPriority, Set, Get); sort.Slice is modelled as *any* priority-ordered permutation in the theorems and as a stable insertion sort in the executable comparison (projected on found?/class)",
        ],
        "assumptions": ["the 503 answer and the absence of an upstream contact when no location matches are checked end to end under C15's proxy family"],
        "explanation": "get_best/get_none hold for every sorted permutation; per-run obligation: the weights regenerated from getPriority satisfy 0 < host < prefix.",
    },
    "C03": {
        "families": {"maxage": {"quick": 3000, "thorough": 60000, "search": 20000}},
        "signature": sig_c03,
        "trusted_base": [
            "model coq/Model/MaxAge.v is hand-written from server/proxy.go getCacheMaxAge + server/cache.go; the three regexes are modelled as string scanners for the literals pinned per run; Go regexp / strconv.Atoi / http.Header semantics are part of the model and tied by the maxage family",
        ],
        "assumptions": ["net/http delivers canonical header keys; header values as received"],
        "explanation": "store_sound: for all methods and header sets, what the model stores satisfies the token-level reading of C03.",
    },
    "C11": {
        "families": {"lru": {"quick": 64, "thorough": 400, "search": 100,
                              "components": ["mismatch", "monitor"]}},
        "signature": sig_c11,
        "trusted_base": [
            "model coq/Model/LRU.v + Dispatcher.v is hand-written from groupcache/lru and cache/dispatcher.go; tied by the lru family (entry identity + per-op resident counts) and by the constants regenerated from NewDispatcher",
            "runtime memhash is an arbitrary function in the theorems; the harness passes the observed hash of every key to the model",
        ],
        "assumptions": ["sync.Mutex gives mutual exclusion per shard (ops modelled as atomic steps)",
                        "process memory is not modelled (entry count only)"],
        "explanation": "resident_bound is proved for every key type, hash, size and op sequence; per-run obligations instantiate it with the constants of NewDispatcher regenerated from the source.",
    },
}
