"""Per-property configuration of ./check: harness families, case counts,
signature functions for known findings, trusted-base notes."""


def sig_c11(rec):
    case = rec.get("case") or {}
    if rec.get("family") == "multi":
        return "multi:size=%s:ops=%s:created=%s" % (case.get("size"), case.get("ops"), case.get("entries_created"))
    size = case.get("size")
    if case.get("kind"):
        return "lru:%s:%s->%s" % (case.get("kind"), case.get("size_before"), case.get("size_after"))
    if isinstance(size, int) and 1 <= size <= 7:
        return "size-1..7-unlimited-shards"
    return "resident>size at size=%s" % size


def sig_c03(rec):
    if rec.get("family") == "edge":
        case = rec.get("case") or {}
        return "edge:%s:%s" % (case.get("kind"), case.get("url") or case.get("method") or "")
    case = rec.get("case") or {}
    if rec.get("family") == "flight":
        return sig_flight(rec)
    hs = case.get("headers") or []
    return "maxage:" + "|".join(hs)[:200]


def sig_c14(rec):
    case = rec.get("case") or {}
    if rec.get("family") == "edge":
        return "edge:%s:%s" % (case.get("kind"), case.get("host") or case.get("url") or "")
    return "route:" + str(case.get("locations"))[:200]


def sig_resp(rec):
    if rec.get("family") == "edge":
        case = rec.get("case") or {}
        return "edge:%s:%s" % (case.get("kind"), case.get("url") or case.get("method") or "")
    case = rec.get("case") or {}
    if case.get("upstream_encoding") == "lz4" and case.get("valid_stream") and case.get("body_len", 0) >= 100:
        return "lz4-ratio>10"
    return "negotiate:%s|%s|%s|%s|%s|%s" % (case.get("upstream_encoding"), case.get("body_len"), case.get("profile"),
                                         case.get("min_length"), case.get("filter"), case.get("path"))


NEGOTIATE_COMPONENTS = ["mismatch:C05+C20", "mismatch:C13", "monitor:C05+C20+C09+C08", "monitor:C13"]

RESP_TRUST = [
    "model coq/Model/Resp.v is hand-written from cache/http_response.go (NewHTTPResponse, shouldCompressed, GetRawBody, Compress, getBodyByAcceptEncoding, Fill) and Cacheable's pre-compress; tied by the negotiate family",
    "third-party codecs (compress/gzip, andybalholm/brotli, pierrec/lz4, golang/snappy, klauspost zstd) and Go regexp are Section variables: hypotheses decoder(encoder x)=x and encoders never return an empty stream; the harness passes their observed answers as tables",
    "Content-Length on the wire is net/http's doing (not modelled)",
]

def sig_c09(rec):
    if rec.get("family") == "negotiate":
        return sig_resp(rec)
    case = rec.get("case") or {}
    if case.get("kind"):
        return "codec:" + str(case.get("kind"))
    if case.get("non_utf8_header"):
        return "non-utf8-header-value"
    if case.get("min_length") == 4294967295 and False:
        return "min-length>=2^32"
    if isinstance(case.get("first_prefix_accepted"), int) and case.get("first_prefix_accepted") >= 0:
        return "truncated-record-accepted"
    return "codec:record " + str(case.get("record_hex"))[:80]


FLIGHT_COMPONENTS = ["mismatch", "monitor:C01", "monitor:C02+C10", "monitor:C03", "monitor:C04+C08+C20", "monitor:C07", "monitor:C18+C10+C08", "monitor:C10+C20"]


def flight_family(quick, thorough, search):
    return {"quick": quick, "thorough": thorough, "search": search, "runner": "test", "test": "TestFlight",
            "components": FLIGHT_COMPONENTS}


WAKEUP_FAMILY = {"quick": 12, "thorough": 12, "search": 12, "runner": "test", "test": "TestWakeup", "timeout_s": 60,
                 "env": {"GODEBUG": "asyncpreemptoff=1", "GOMAXPROCS": "1"},
                 "components": ["mismatch", "monitor:C01+C20", "monitor:C04+C20", "monitor:C02+C20"]}
CHOREO_FAMILY = {"quick": 28, "thorough": 120, "search": 60, "runner": "test", "test": "TestChoreo", "timeout_s": 60,
                 "env": {"GODEBUG": "asyncpreemptoff=1", "GOMAXPROCS": "1"},
                 "components": ["mismatch", "monitor:C01+C20", "monitor:C02+C20+C10", "monitor:C18+C20"]}


RACESTRESS_FAMILY = {"quick": 0, "thorough": 2500, "search": 700, "runner": "test", "test": "TestRaceStress", "race": True,
                     "no_cases": True, "only": ["thorough", "search"], "search_first": True, "timeout_s": 400}


def sig_edge(rec):
    case = rec.get("case") or {}
    return "edge:%s:%s" % (case.get("kind"), case.get("url") or case.get("method") or "")


def sig_flight(rec):
    if rec.get("family") == "negotiate":
        return sig_resp(rec)
    if rec.get("family") == "edge":
        return sig_edge(rec)
    if rec.get("family") == "maxage":
        return sig_c03(rec)
    if rec.get("family") == "racestress":
        return "racestress:" + str((rec.get("case") or {}).get("kind"))
    case = rec.get("case") or {}
    if rec.get("source", "").startswith("harness:hang"):
        return "flight:hang " + json_short(case.get("ops_so_far"))
    if case.get("family") == "choreo" or "after_queue_drained" in case:
        return "choreo:%s:%s:%s" % (case.get("kind"), case.get("queue"), case.get("requests"))
    if "waiters" in case:
        return "wakeup:waiter-returns-fetching" if rec.get("source", "").endswith("monitor") or rec.get("source") == "harness" else "wakeup:mismatch"
    return "flight:" + json_short([f.get("op") for f in (case.get("frames") or [])[:12]])


def json_short(x):
    import json
    return json.dumps(x, sort_keys=True)[:200]


SYS_TRUST = [
    "model coq/Model/Sys.v is hand-written from cache/http_cache.go (Get/get/HitForPass/Cacheable/Age/initFromStore/saveToStore), server/cache.go (middleware incl. deferred HitForPass) and the dispatcher lookup/purge; one key per model instance, eviction/purge/restart/store loss as environment labels",
    "critical sections without blocking operations are atomic steps (sync.RWMutex gives mutual exclusion; the lock/field-access skeleton regenerated from the source is checked under C20; that lookup-or-create, purge and the completion of a fetch are ONE critical section each is checked per run by the verified analysis of coq/Proofs/Atomic.v under C01 / C18 / C02)",
    "tied to the code by the flight family (real middleware + dispatcher + fake store under testing/synctest, observation of every request at quiescence after every op) the wakeup family (choreographed wake-up/expiry window under GOMAXPROCS=1) and the choreo family (critical sections of the entry / shard lock forced into a chosen order through sync.Mutex's starvation-mode hand-off, every operation descheduled right after its Unlock; purge held inside store.Delete)",
    "Go runtime: channel rendezvous, deferred calls run on error return and panic, testing/synctest's fake clock and quiescence detection",
]

def sys_prop(assumptions, explanation, with_wakeup=False, quick=120, with_choreo=False, with_stress=False, extra=None):
    fams = {"flight": flight_family(quick, 1500, 300)}
    fams.update(extra or {})
    if with_wakeup:
        fams["wakeup"] = WAKEUP_FAMILY
    if with_choreo:
        fams["choreo"] = CHOREO_FAMILY
    if with_stress:
        fams["racestress"] = RACESTRESS_FAMILY
    return {"families": fams, "signature": sig_flight, "trusted_base": SYS_TRUST,
            "assumptions": assumptions, "explanation": explanation}


def sig_c20(rec):
    if rec.get("family") == "reload":
        case = rec.get("case") or {}
        return "reload:%s:%s:%s" % (case.get("kind"), case.get("client_accept_encoding"), case.get("which"))
    if rec.get("family") == "racestress":
        return "racestress:" + str((rec.get("case") or {}).get("kind"))
    if rec.get("family") == "negotiate":
        return sig_resp(rec)
    return sig_flight(rec)


CONFIG_TRUST = [
    "model coq/Model/Config.v is hand-written from config/config.go (Validate), the five Reset functions (compress, cache, upstream, location, server incl. NewServer/Update) and main.update; tied by the config and reconf families (real Validate, real Reset functions in update's order, exported getters, a fresh child process for the comparison)",
    "library-defined field validators (go-playground/validator built-ins, time.ParseDuration, humanize.ParseBytes, regexp, url.Parse) are validity bits per field; gopkg.in/yaml.v2 round trip is sampled only",
]

def sig_c15(rec):
    if rec.get("family") == "edge":
        case = rec.get("case") or {}
        return "edge:%s:%s" % (case.get("kind"), case.get("url") or case.get("method") or "")
    case = rec.get("case") or {}
    if rec.get("family") == "rewrite":
        return "rewrite:%s %s" % ("|".join(case.get("rules") or []), case.get("path"))
    if rec.get("family") == "respond":
        return "respond:%s age=%s %s" % (case.get("origin_headers"), case.get("measured_age"), case.get("label"))
    return "proxy:%s %s?%s [%s] %s" % (case.get("method"), case.get("path"), case.get("query"), case.get("label"), "|".join(case.get("client_headers") or []))[:200]


def sig_c12(rec):
    case = rec.get("case") or {}
    if case.get("kind") == "decoder" and case.get("codec") == "lz4" and case.get("size") == 0:
        return "lz4-empty-block"
    return "codecs:%s:%s:%s:%s" % (case.get("kind"), case.get("codec", case.get("path", case.get("what", ""))), case.get("size", case.get("configured", "")), case.get("body", case.get("block_hex", "")))


PROPS = {
    "C12": {
        "families": {"codecs": {"quick": 60, "thorough": 600, "search": 200}},
        "signature": sig_c12,
        "trusted_base": [
            "models coq/Model/Compress.v (level storage / clamps / dispatch) and coq/Model/LZ4.v (LZ4 block decoder with destination capacity, doLZ4Decode's retry rule) are hand-written; tied by the codecs family",
            "DEFLATE, Brotli, Zstandard, Snappy and pierrec/lz4's decoder are third-party: exercised against reference encoders/decoders on bodies up to 1 MiB and on mutated streams (testing, not proof)",
        ],
        "assumptions": ["LZ4 theorems are about well-formed byte strings (every element < 256)"],
        "explanation": "level legality for all configured values; dispatch; LZ4 expansion bound and completeness of the repaired decoder on every valid block.",
    },
    "C15": {
        "families": {"proxy": {"quick": 400, "thorough": 8000, "search": 2000},
                     "rewrite": {"quick": 600, "thorough": 20000, "search": 3000},
                     "respond": {"quick": 400, "thorough": 10000, "search": 2000}, "edge": {"quick": 2, "thorough": 40, "search": 6, "no_cases": True}},
        "signature": sig_c15,
        "trusted_base": [
            "model coq/Model/Proxy.v is hand-written from server/proxy.go (NewProxy) and location.go (AddRequestHeader/AddResponseHeader/AddQuery); tied by the proxy family (real middleware, real elton proxy + net/http transport, recording origin)",
            "the location's path rewriter is modelled (coq/Model/Rewrite.v: backtracking matcher for literal bytes and * wildcards, strings.Replacer for $d tokens) for patterns whose literal bytes are not regexp metacharacters, tied by the rewrite family; for the proxy family and for other patterns its image is a Section variable (observed and passed to the model); hop-by-hop stripping, X-Forwarded-For, User-Agent suppression, transport-added Accept-Encoding and URL retargeting are httputil.ReverseProxy / net/http behaviour outside the projection",
            "the origin answers 304/206/412 only to requests carrying the corresponding conditional or Range header (hypothesis of never_store_partial; the harness origin is http.ServeContent)",
        ],
        "assumptions": ["the location does not itself add conditional or Range request headers"],
        "explanation": "upstream_request / client_after / response theorems for all requests, labels, locations; never_store_partial for conforming origins.",
    },
    "C17": {
        "families": {"config": {"quick": 400, "thorough": 8000, "search": 2000},
                     # a running server re-bound to another cache by an accepted configuration must still resolve it
                     "reload": {"quick": 18, "thorough": 180, "search": 45, "no_cases": True}},
        "signature": lambda rec: "config:" + str((rec.get("case") or {}).get("kind", "")) + str((rec.get("case") or {}).get("config"))[:170],
        "trusted_base": CONFIG_TRUST,
        "assumptions": ["names are ASCII (max=20 counts runes; the model counts bytes)", "servers are not started (no sockets) when configurations are applied by the harness"],
        "explanation": "validate_closed + apply_resolves over any prior registry state.",
    },
    "C16": {
        "families": {"reconf": {"quick": 40, "thorough": 600, "search": 150, "components": ["mismatch", "monitor"]},
                     # requests in flight while each registry is re-applied keep being served correctly
                     "reload": {"quick": 45, "thorough": 900, "search": 225, "no_cases": True}},
        "signature": lambda rec: (sig_c20(rec) if rec.get("family") == "reload" else "reconf:" + json_short((rec.get("case") or {}).get("configs"))[:180]),
        "trusted_base": CONFIG_TRUST,
        "assumptions": ["listening sockets, graceful close timing and in-flight client traffic during an update are runtime behaviour (partial): the model covers what every request resolves at each intermediate step",
                        "size / hit-for-pass / store of a surviving cache, log format and the admin server are the documented restart-only settings"],
        "explanation": "live_equals_fresh for all histories; unchanged servers resolve at every sub-step; surviving caches retained; removed servers dropped.",
    },
    "C19": {
        "families": {"upstream": {"quick": 150, "thorough": 3000, "search": 600}},
        "signature": lambda rec: "upstream:" + json_short((rec.get("case") or {}).get("ops"))[:180],
        "trusted_base": [
            "model coq/Model/Upstream.v is hand-written from github.com/vicanso/upstream v0.2.0 (Next, policies, status rule of DoHealthCheck) and pike's newTargetPicker / NewUpstreamServer; tied by the upstream family (real library objects built by pike, real health-check rounds against local listeners)",
            "math/rand is an arbitrary value in the theorems; for the random policy the correspondence checks validity of the pick only",
        ],
        "assumptions": ["health-check timers, TCP/HTTP probing and settle time are runtime behaviour (partial): a round's ping results are inputs of the model",
                        "the round-robin window does not cross the uint32 wrap of the counter"],
        "explanation": "next_healthy / none_iff for all policies and status vectors; round-robin evenness by a closed form for residue counts; health rule.",
    },
    "C20": {
        "families": {"flight": flight_family(120, 1500, 300), "wakeup": WAKEUP_FAMILY, "choreo": CHOREO_FAMILY,
                     "negotiate": {"quick": 300, "thorough": 8000, "search": 3000, "components": NEGOTIATE_COMPONENTS},
                     "reload": {"quick": 90, "thorough": 1800, "search": 450, "no_cases": True},
                     "keys": {"quick": 120, "thorough": 600, "search": 200},
                     "racestress": RACESTRESS_FAMILY},
        "signature": sig_c20,
        "trusted_base": SYS_TRUST + [
            "harness/cmd/skeleton (go/ast) extracts, per function, the ordered lock operations, field reads/writes, calls and control structure; the verified analysis of coq/Proofs/Lockset.v runs on that term inside Coq on every run",
            "the lock policy coq/Model/LockPolicy.v (which mutex protects which field) is hand-written",
            "the Go memory model: accesses ordered by a held sync.RWMutex do not race",
        ],
        "assumptions": ["functions outside the listed set do not touch the protected fields (grep-level: the fields are unexported and only used in the listed files)",
                        "configuration reloads are covered by C16's model; race-detector stress runs are supporting evidence in the thorough tier"],
        "explanation": "lockset analysis proved sound once, evaluated per run on the regenerated skeletons; serve path write-set empty; Sys invariant + provenance over all schedules.",
    },
    "C04": sys_prop(["whole-second clock granularity (the code reads time.Now().Unix()); the store is not forged (lost / truncated / invalid records are allowed)",
                     "Age() is a second lock acquisition after Get(): the cross-epoch case is exhibited in the model and labelled partial"],
                    "hit_is_installed_and_fresh via the provenance invariant; hits do not extend; refetch after expiry; Age value.", with_wakeup=True,
                    # the lifetime T itself: what getCacheMaxAge hands to the cache for every header set (s-maxage / max-age minus the upstream's Age)
                    extra={"maxage": {"quick": 1500, "thorough": 30000, "search": 6000}}),
    "C07": sys_prop(["hit-for-pass period in whole seconds as converted by cache.convertConfigs"],
                    "step-level theorems: marks, immediate pass without queueing, own answer, lapse; three simultaneous passes exhibited.",
                    with_choreo=True, extra={"edge": {"quick": 2, "thorough": 40, "search": 6, "no_cases": True}}),
    "C08": sys_prop(["store Set/Get/Delete are atomic per key and Get returns the last successful Set or not-found (badger transactions: trusted); process start-up and badger recovery are runtime behaviour outside the model",
                     "restarts are exercised in-process at quiescent points (fresh dispatcher on the same store)"],
                    "provenance invariant with Crash anywhere in the label sequence; restored hit = original response, original creation time, within original expiry.", with_stress=True,
                    # many near-identical keys on a small store-backed dispatcher: what is rebuilt from the store is the key's own record
                    extra={"keys": {"quick": 30, "thorough": 300, "search": 60},
                           # entries restored from their record are served under every Accept-Encoding
                           "negotiate": {"quick": 150, "thorough": 4000, "search": 1500, "components": NEGOTIATE_COMPONENTS}}),
    "C10": sys_prop(["store calls return (possibly with an error): a call that never returns is a hang of the store client, not modelled"],
                    "C01/C02 theorems hold for all store choices; no immortal/empty hit; bad record = miss; memory hits need no store.", with_choreo=True),
    "C18": sys_prop(["a purge issued while a fetch is in flight does not cancel it: its result may be stored afterwards (stated caveat)"],
                    "purge_effective, next request refetches, absent-key no-op, never strands (measure unchanged, progress), other keys untouched (dispatcher frame).", with_choreo=True,
                    extra={"edge": {"quick": 2, "thorough": 40, "search": 6, "no_cases": True}}),
    "C02": sys_prop(["every upstream exchange eventually ends (the proxy timeout turns silence into a 504): upstream steps are always-enabled environment steps"],
                    "no_deadlock + strictly decreasing well-founded measure + final_clean over all label sequences.", with_wakeup=True, with_choreo=True,
                    # real parallelism: hits reading their age while other requests enter Get on the same entry
                    extra={"keys": {"quick": 30, "thorough": 300, "search": 60}, "edge": {"quick": 2, "thorough": 40, "search": 6, "no_cases": True}}),
    "C01": {
        "families": {"flight": flight_family(120, 1500, 300), "wakeup": WAKEUP_FAMILY, "choreo": CHOREO_FAMILY,
                     # requests on other keys: the shard a key maps to must not depend on concurrent traffic
                     "keys": {"quick": 30, "thorough": 300, "search": 60},
                     "racestress": RACESTRESS_FAMILY},
        "signature": sig_flight,
        "trusted_base": SYS_TRUST,
        "assumptions": ["the key's entry is not evicted/purged during the fetch (the property's own proviso) for the per-key reading"],
        "explanation": "single_flight and friends over all label sequences of the per-key small-step model.",
    },
    "C09": {
        "families": {"codec": {"quick": 60, "thorough": 1500, "search": 300},
                     # "an entry that behaves identically for every client": entries restored from their record are served
                     # under every Accept-Encoding (a third of the negotiate cases go through Bytes/FromBytes)
                     "negotiate": {"quick": 150, "thorough": 4000, "search": 1500, "components": NEGOTIATE_COMPONENTS}},
        "signature": sig_c09,
        "trusted_base": [
            "model coq/Model/Codec.v is hand-written from cache/cache.go, HTTPResponse.Bytes/FromBytes and httpCache.Bytes/FromBytes (bytes.Buffer.Next = min(n, remaining); field-by-field mutation); tied by the codec family (exact record bytes; decode result and error flag on full records, every prefix, mutants)",
            "encoding/json on http.Header and regexp.Compile are Section variables (oracles); the harness passes their observed answers",
        ],
        "assumptions": ["lengths and numeric fields below 2^32, a filter is a non-empty compilable source (hypotheses of the round-trip theorems)",
                        "allocation behaviour of the real decoder is observed (panic/hang watchdog), not proved"],
        "explanation": "resp/entry round trip, truncation detection for every oracle; model totality.",
    },
    "C13": {
        "families": {"negotiate": {"quick": 400, "thorough": 8000, "search": 3000,
                                   "components": NEGOTIATE_COMPONENTS}, "edge": {"quick": 2, "thorough": 40, "search": 6, "no_cases": True},
                     # the threshold and filter in force after reloads (set, changed, unset) are those of a fresh start
                     "reconf": {"quick": 20, "thorough": 300, "search": 80, "components": ["mismatch", "monitor"]}},
        "signature": sig_resp,
        "trusted_base": RESP_TRUST,
        "assumptions": ["Accept-Encoding is a plain list of codings (substring test = token membership on the standard tokens)"],
        "explanation": "negotiate_table: get_body equals the documented table for all inputs; compress_once for responses as produced by NewHTTPResponse.",
    },
    "C05": {
        "families": {"negotiate": {"quick": 400, "thorough": 8000, "search": 3000,
                                   "components": NEGOTIATE_COMPONENTS}, "edge": {"quick": 2, "thorough": 40, "search": 6, "no_cases": True}},
        "signature": sig_resp,
        "trusted_base": RESP_TRUST,
        "assumptions": ["upstream data is a valid stream of its declared encoding and non-empty unless the body is empty"],
        "explanation": "upstream answer -> consistent response -> (store) -> serve: decoded body, acceptable encoding, status and headers preserved, for all inputs and settings.",
    },
    "C06": {
        "families": {"keys": {"quick": 120, "thorough": 2500, "search": 800}, "edge": {"quick": 2, "thorough": 40, "search": 6, "no_cases": True},
                     "multi": {"quick": 15, "thorough": 300, "search": 100, "components": ["mismatch", "monitor:C11", "monitor:C06"]}},
        "signature": lambda rec: sig_c11(rec) if rec.get("family") == "multi" else ("edge:" + str((rec.get("case") or {}).get("kind"))) if rec.get("family") == "edge" else "keys:" + str((rec.get("case") or {}).get("same_key", (rec.get("case") or {}).get("first_requests")))[:160],
        "trusted_base": [
            "model coq/Model/Key.v (getKey) and Dispatcher.v are hand-written; tied by the keys family (exact key bytes; entry identity under forced shard collisions and evictions)",
            "space-free method and host are net/http's request-parsing guarantee (hypothesis of key_injective; shown necessary by C06_guard_needed)",
            "the zero-copy []byte->string aliasing of the key is memory safety, not expressible in the model",
        ],
        "assumptions": ["per-shard mutex gives atomic lookups"],
        "explanation": "key_injective + lookup_exact (any hash, any history); the system-level no-cross-serve statement is proved over the entry-protocol model (Properties/C01.v ff.).",
    },
    "C14": {
        "families": {"route": {"quick": 400, "thorough": 12000, "search": 4000}, "edge": {"quick": 2, "thorough": 40, "search": 6, "no_cases": True}},
        "signature": sig_c14,
        "trusted_base": [
            "model coq/Model/Location.v is hand-written from location/location.go (Match, getPriority, Set, Get); sort.Slice is modelled as *any* priority-ordered permutation in the theorems and as a stable insertion sort in the executable comparison (projected on found?/class)",
        ],
        "assumptions": ["the 503 answer and the absence of an upstream contact when no location matches are checked end to end under C15's proxy family"],
        "explanation": "get_best/get_none hold for every sorted permutation; per-run obligation: the weights regenerated from getPriority satisfy 0 < host < prefix.",
    },
    "C03": {
        "families": {"maxage": {"quick": 3000, "thorough": 60000, "search": 20000}, "flight": flight_family(120, 1500, 300), "edge": {"quick": 2, "thorough": 40, "search": 6, "no_cases": True}},
        "signature": sig_c03,
        "trusted_base": [
            "model coq/Model/MaxAge.v is hand-written from server/proxy.go getCacheMaxAge + server/cache.go; the three regexes are modelled as string scanners for the literals pinned per run; Go regexp / strconv.Atoi / http.Header semantics are part of the model and tied by the maxage family",
        ],
        "assumptions": ["net/http delivers canonical header keys; header values as received"],
        "explanation": "store_sound: for all methods and header sets, what the model stores satisfies the token-level reading of C03.",
    },
    "C11": {
        "families": {"lru": {"quick": 64, "thorough": 400, "search": 100,
                              "components": ["mismatch", "monitor", "monitor:C11", "mismatch:C11"]},
                     "multi": {"quick": 30, "thorough": 600, "search": 150, "components": ["mismatch", "monitor:C11", "monitor:C06"]}},
        "signature": sig_c11,
        "trusted_base": [
            "model coq/Model/LRU.v + Dispatcher.v is hand-written from groupcache/lru and cache/dispatcher.go; tied by the lru family (entry identity + per-op resident counts) and by the constants regenerated from NewDispatcher",
            "the composed model coq/Model/Multi.v (dispatcher + one entry protocol per key) is tied by the multi family: many keys through the real dispatcher and the real entries, one operation at a time (requests, completions incl. on evicted entries, purges)",
            "runtime memhash is an arbitrary function in the theorems; the harness passes the observed hash of every key to the model",
        ],
        "assumptions": ["sync.Mutex gives mutual exclusion per shard (ops modelled as atomic steps)",
                        "process memory is not modelled (entry count only)"],
        "explanation": "resident_bound is proved for every key type, hash, size and op sequence; per-run obligations instantiate it with the constants of NewDispatcher regenerated from the source.",
    },
}
