"""Per-property configuration of ./check: harness families, case counts,
signature functions for known findings, trusted-base notes."""


def sig_c11(rec):
    case = rec.get("case") or {}
    size = case.get("size")
    if isinstance(size, int) and 1 <= size <= 7:
        return "size-1..7-unlimited-shards"
    return "resident>size at size=%s" % size


PROPS = {
    "C11": {
        "families": {"lru": {"quick": 64, "thorough": 400, "search": 100,
                              "components": ["mismatch", "monitor"]}},
        "signature": sig_c11,
        "trusted_base": [
            "model coq/Model/LRU.v + Dispatcher.v is hand-written from groupcache/lru and cache/dispatcher.go; tied by the lru family (entry identity + per-op resident counts) and by the constants regenerated from NewDispatcher",
            "runtime memhash is an arbitrary function in the theorems; the harness passes the observed hash of every key to the model",
        ],
        "assumptions": ["sync.Mutex gives mutual exclusion per shard (ops modelled as atomic steps)",
                        "process memory is not modelled (entry count only)"],
        "explanation": "resident_bound is proved for every key type, hash, size and op sequence; per-run obligations instantiate it with the constants of NewDispatcher regenerated from the source.",
    },
}
