#!/usr/bin/env python3
"""Regenerates MANIFEST.json from checklib/props.py (claimed properties) and
the static texts below."""
import json, os, sys
sys.path.insert(0, os.path.join(os.path.dirname(os.path.abspath(__file__)), "checklib"))
from props import PROPS
from manifest_text import TEXT, NOT_APPLICABLE

checks = []
for pid in sorted(PROPS):
    t = TEXT[pid]
    checks.append({
        "property_id": pid,
        "quick_cmd": "./check %s --tier quick" % pid,
        "thorough_cmd": "./check %s --tier thorough" % pid,
        "evidence_file": "/verif/evidence/%s.json" % pid,
        "replay_cmd_template": "./check replay {path}",
        "engine": "rocq-proof+correspondence",
        "level_claimed": {"category": "proof", "text": t["level"], "design_ref": t.get("design_ref", "DESIGN.md §7")},
        "level_note": t["note"],
        "technique": t["technique"],
    })
m = {
    "version": 1,
    "setup_cmd": "./check setup",
    "hooks": {
        "guard": "verif",
        "enable": "go build -tags verif (harness module /verif/harness with replace github.com/vicanso/pike => /repo, go1.26.8, GOFLAGS=-mod=mod GOPROXY=off GOTOOLCHAIN=local)",
        "baseline_off_cmd": "cd /repo && go test -mod=mod -json -vet=off -count=1 -timeout 25m ./...",
        "source_commits": json.load(open(os.path.join(os.path.dirname(os.path.abspath(__file__)), "hooks.json")))["commits"],
        "add_only": True,
    },
    "engines": [{
        "name": "rocq-proof+correspondence", "path": "/verif/check",
        "serves_properties": sorted(PROPS),
        "kind_free_text": "Coq 8.16.1 theorems over hand-written executable models (coq/Model, coq/Proofs, coq/Properties); per-run obligations instantiated with constants/skeletons regenerated from /repo by harness/cmd/skeleton (go/ast); correspondence check = Go harness (harness/cmd/pikeharness, real code built with -tags verif) writes cases as Coq terms, coqc evaluates model + monitor with vm_compute",
    }],
    "checks": checks,
    "not_applicable": [{"property_id": k, "reason": v} for k, v in sorted(NOT_APPLICABLE.items()) if k not in PROPS],
    "notes": "See DESIGN.md. known_findings.json lists fixed/known defects. seeded/ holds independently written breaking changes and which checks catch them.",
}
json.dump(m, open(os.path.join(os.path.dirname(os.path.abspath(__file__)), "MANIFEST.json"), "w"), indent=1)
print("MANIFEST.json:", len(checks), "checks,", len(m["not_applicable"]), "not_applicable")
