// Package hx: helpers shared by the harness families: deterministic PRNG,
// Coq term printing, summary (evidence) bookkeeping.
package hx

import (
	"encoding/json"
	"fmt"
	"os"
	"path/filepath"
	"sort"
	"strings"
)

// ---------------------------------------------------------------- PRNG

// Rand is splitmix64: every random choice of a run derives from one seed.
type Rand struct{ s uint64 }

func NewRand(seed uint64) *Rand { return &Rand{s: seed*0x9E3779B97F4A7C15 + 0x1234567} }

func (r *Rand) U64() uint64 {
	r.s += 0x9E3779B97F4A7C15
	z := r.s
	z = (z ^ (z >> 30)) * 0xBF58476D1CE4E5B9
	z = (z ^ (z >> 27)) * 0x94D049BB133111EB
	return z ^ (z >> 31)
}
func (r *Rand) Intn(n int) int {
	if n <= 0 {
		return 0
	}
	return int(r.U64() % uint64(n))
}
func (r *Rand) Bool() bool        { return r.U64()&1 == 1 }
func (r *Rand) Chance(p int) bool { return r.Intn(100) < p }
func (r *Rand) Pick(xs []string) string {
	return xs[r.Intn(len(xs))]
}
func (r *Rand) Bytes(n int) []byte {
	b := make([]byte, n)
	for i := range b {
		b[i] = byte(r.U64())
	}
	return b
}

// ---------------------------------------------------------------- Coq terms

func N(v uint64) string { return fmt.Sprintf("%d%%N", v) }
func Nat(v int) string  { return fmt.Sprintf("%d", v) }
func Z(v int64) string {
	if v < 0 {
		return fmt.Sprintf("(%d)%%Z", v)
	}
	return fmt.Sprintf("%d%%Z", v)
}
func Bool(b bool) string {
	if b {
		return "true"
	}
	return "false"
}
func List(items []string) string { return "[" + strings.Join(items, "; ") + "]" }

// Bytes prints a byte string as a Coq [list N] (via the bs notation of
// Base/Bytes.v: a list of N literals).
func Bytes(b []byte) string {
	items := make([]string, len(b))
	for i, c := range b {
		items[i] = fmt.Sprintf("%d", c)
	}
	return "[" + strings.Join(items, ";") + "]%N"
}
func Str(s string) string { return Bytes([]byte(s)) }
func Opt(present bool, v string) string {
	if !present {
		return "None"
	}
	return "(Some " + v + ")"
}

// ---------------------------------------------------------------- output

// Summary is written next to the cases files; the orchestrator copies its
// fields into the evidence file.
type Summary struct {
	Family             string                 `json:"family"`
	Seed               uint64                 `json:"seed"`
	Evaluations        int                    `json:"evaluations"`
	DistinctNontrivial int                    `json:"distinct_nontrivial"`
	Rule               string                 `json:"rule"`
	Distribution       map[string]int         `json:"distribution"`
	Samples            []interface{}          `json:"samples"`
	CaseFiles          []string               `json:"case_files"`
	CaseIndex          [][]interface{}        `json:"case_index"` // per file: human-readable replay of each case
	Extra              map[string]interface{} `json:"extra,omitempty"`
	ImplViolations     []interface{}          `json:"impl_violations,omitempty"` // found by the harness itself
}

func NewSummary(family string, seed uint64) *Summary {
	return &Summary{Family: family, Seed: seed, Distribution: map[string]int{}, Extra: map[string]interface{}{}}
}
func (s *Summary) Count(k string) { s.Distribution[k]++ }
func (s *Summary) Sample(v interface{}) {
	if len(s.Samples) < 3 {
		s.Samples = append(s.Samples, v)
	}
}

// Distinct counts distinct non-trivial signatures.
type Distinct struct{ m map[string]struct{} }

func NewDistinct() *Distinct       { return &Distinct{m: map[string]struct{}{}} }
func (d *Distinct) Add(sig string) { d.m[sig] = struct{}{} }
func (d *Distinct) Len() int       { return len(d.m) }
func (d *Distinct) Keys() []string {
	k := make([]string, 0, len(d.m))
	for x := range d.m {
		k = append(k, x)
	}
	sort.Strings(k)
	return k
}

// CaseWriter shards Coq case terms over several files so that coqc can run
// them in parallel.
type CaseWriter struct {
	Dir, Family, Header, ListType, CheckExpr string
	PerFile                                  int
	cur                                      []string
	curIdx                                   []interface{}
	sum                                      *Summary
}

func NewCaseWriter(dir, family, header, listType, checkExpr string, perFile int, sum *Summary) *CaseWriter {
	return &CaseWriter{Dir: dir, Family: family, Header: header, ListType: listType, CheckExpr: checkExpr, PerFile: perFile, sum: sum}
}

func (w *CaseWriter) Add(term string, replay interface{}) {
	w.cur = append(w.cur, term)
	w.curIdx = append(w.curIdx, replay)
	if len(w.cur) >= w.PerFile {
		w.Flush()
	}
}

func (w *CaseWriter) Flush() {
	if len(w.cur) == 0 {
		return
	}
	name := fmt.Sprintf("cases_%s_%03d.v", w.Family, len(w.sum.CaseFiles))
	var b strings.Builder
	b.WriteString(w.Header)
	b.WriteString("\nDefinition cases : " + w.ListType + " := [\n")
	b.WriteString(strings.Join(w.cur, ";\n"))
	b.WriteString("\n].\n")
	b.WriteString("Definition result := Eval vm_compute in (" + w.CheckExpr + " cases).\nPrint result.\n")
	if err := os.WriteFile(filepath.Join(w.Dir, name), []byte(b.String()), 0o644); err != nil {
		panic(err)
	}
	w.sum.CaseFiles = append(w.sum.CaseFiles, name)
	w.sum.CaseIndex = append(w.sum.CaseIndex, w.curIdx)
	w.cur = nil
	w.curIdx = nil
}

func (s *Summary) Write(dir string) {
	data, err := json.MarshalIndent(s, "", " ")
	if err != nil {
		panic(err)
	}
	if err := os.WriteFile(filepath.Join(dir, s.Family+".json"), data, 0o644); err != nil {
		panic(err)
	}
}
