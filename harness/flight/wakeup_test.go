package flight

import (
	"fmt"
	"os"
	"runtime"
	"runtime/debug"
	"testing"
	"time"

	"github.com/vicanso/pike/cache"
	"pikeverif/internal/hx"
)

var spinSink uint64

// spinLoop burns CPU without any function call (so that, with asynchronous
// preemption disabled, the goroutine cannot be descheduled).
//
//go:noinline
func spinLoop(n uint64) {
	x := spinSink
	for i := uint64(0); i < n; i++ {
		x = x*6364136223846793005 + 1442695040888963407
	}
	spinSink = x
}

// calibrate returns loop iterations per millisecond.
func calibrate() uint64 {
	best := uint64(0)
	for k := 0; k < 3; k++ {
		const n = 200_000_000
		t0 := time.Now()
		spinLoop(n)
		el := time.Since(t0)
		per := uint64(float64(n) / (float64(el.Nanoseconds()) / 1e6))
		if per > best {
			best = per
		}
	}
	return best
}

type getResult struct {
	status cache.Status
	rid    int
}

func tobsOfGet(r getResult) string {
	switch r.status {
	case cache.StatusHit:
		if r.rid >= 0 {
			return fmt.Sprintf("(TDone LHit (Some %d) 0)", r.rid)
		}
		return "(TDone LHit None 0)"
	case cache.StatusFetching:
		return "(TUpstream LFetching)"
	case cache.StatusHitForPass:
		return "(TUpstream LHitForPass)"
	}
	return "TOther"
}

// TestWakeup is the `wakeup` family: needs GOMAXPROCS=1 and
// GODEBUG=asyncpreemptoff=1 (set by /verif/check) so that a goroutine that
// does not yield is never descheduled; the main goroutine lets real seconds
// pass by spinning on the wall clock.
func TestWakeup(t *testing.T) {
	out := os.Getenv("PV_OUT")
	if out == "" {
		t.Skip("PV_OUT not set")
	}
	runtime.GOMAXPROCS(1)
	defer debug.SetGCPercent(debug.SetGCPercent(-1)) // a GC cycle would ask the driver to yield inside the critical window
	seed := uint64(envInt("PV_SEED", 1))
	n := envInt("PV_N", 3)
	sum := hx.NewSummary("wakeup", seed)
	sum.Rule = "one case = fetcher + k parked waiters on a real httpCache entry; Cacheable(ttl) wakes the waiters (runnable, not yet running: GOMAXPROCS=1, no async preemption, the driver does not yield); the entry is aged by delay/1000 seconds through a verif hook (past the expiry in most cases), the driver (in 7 of 12 cases) calls Get again within microseconds (becoming the next fetcher if the entry expired), only then yields so that the waiters resume; then completes the second fetch; observation = what every waiter's Get returned / whether it parked again; non-trivial = delay beyond expiry; distinct by (k, ttl, delay, second get)"
	header := "From Coq Require Import List ZArith.\nImport ListNotations.\nFrom Pike Require Import Model.Sys Corr.SysCorr Corr.WakeCorr.\n"
	w := hx.NewCaseWriter(out, "wakeup", header, "list wk_case", "check_cases", 50, sum)
	distinct := hx.NewDistinct()
	type spec struct {
		waiters, ttl, delay int
		second              bool
	}
	specs := []spec{{1, 1, 2000, true}, {3, 1, 3000, true}, {2, 2, 1000, true}, {2, 1, 2000, false}, {4, 1, 5000, true}, {1, 2, 3000, false}, {3, 2, 0, true}, {2, 3, 3000, true},
		{3, 1, 4000, false}, {1, 1, 0, false}, {2, 2, 5000, false}, {1, 3, 2000, false}}
	for i := 0; i < n && i < len(specs); i++ {
		sp := specs[i]
		// if the implementation hangs in this case, the orchestrator finds the case here
		_ = os.WriteFile(out+"/inflight.json", []byte(fmt.Sprintf(`{"family":"wakeup","waiters":%d,"ttl":%d,"delay_ms":%d,"schedule":"fetcher + waiters parked; Cacheable(ttl); entry aged by delay; second Get; waiters resume; second Cacheable"}`, sp.waiters, sp.ttl, sp.delay)), 0o644)
		hc := cache.NewHTTPCache()
		st, _ := hc.Get()
		if st != cache.StatusFetching {
			t.Fatalf("first Get returned %v", st)
		}
		results := make([]chan getResult, sp.waiters)
		for k := range results {
			results[k] = make(chan getResult, 1)
			ch := results[k]
			go func() {
				s, r := hc.Get()
				ch <- getResult{s, ridOf(r)}
			}()
		}
		for y := 0; y < 20; y++ {
			runtime.Gosched() // let every waiter run until it parks on its channel
		}
		// keep clear of a wall-clock second boundary, then run the critical
		// section within microseconds: the runtime only asks a goroutine to
		// yield after it has been running for about 10 ms, so the woken
		// waiters cannot resume before the driver yields itself
		for time.Now().Nanosecond() > 700_000_000 {
		}
		runtime.Gosched()
		start := time.Now()
		hc.Cacheable(mkResp(1), sp.ttl)       // wakes the waiters (runnable, not running)
		hc.VerifAgeBy(int64(sp.delay / 1000)) // `delay` seconds pass
		st2, r2 := cache.Status(-1), (*cache.HTTPResponse)(nil)
		main2 := "TOther"
		if sp.second {
			st2, r2 = hc.Get() // next request: refetches if the entry expired
			main2 = tobsOfGet(getResult{st2, ridOf(r2)})
		}
		elapsed := time.Since(start)
		for y := 0; y < 20; y++ {
			runtime.Gosched() // now the waiters resume
		}
		collect := func() []string {
			var obs []string
			for k := range results {
				select {
				case r := <-results[k]:
					results[k] <- r // keep for later reads
					obs = append(obs, tobsOfGet(r))
				default:
					obs = append(obs, "TParked")
				}
			}
			return obs
		}
		after1 := collect()
		if st2 == cache.StatusFetching {
			hc.Cacheable(mkResp(2), 60)
		} else if !sp.second {
			for _, o := range after1 {
				if o == "(TUpstream LFetching)" { // a resumed waiter became the next fetcher: complete its fetch
					hc.Cacheable(mkResp(2), 60)
					break
				}
			}
		}
		for y := 0; y < 20; y++ {
			runtime.Gosched()
		}
		after2 := collect()
		term := fmt.Sprintf("{| wk_waiters := %d; wk_ttl := %d; wk_delay_ms := %d; wk_second := %s; wk_main2 := %s; wk_after_resume := %s; wk_after_second := %s |}",
			sp.waiters, sp.ttl, sp.delay, hx.Bool(sp.second), main2, hx.List(after1), hx.List(after2))
		_ = start
		rep := map[string]interface{}{"critical_section_us": elapsed.Microseconds(), "waiters": sp.waiters, "ttl": sp.ttl, "delay_ms": sp.delay, "second_get_before_resume": sp.second, "main_second_get": main2, "waiters_after_resume": after1, "waiters_after_second_fetch": after2}
		w.Add(term, rep)
		sum.Evaluations++
		if sp.delay > sp.ttl*1000+1000 {
			distinct.Add(fmt.Sprint(sp))
			sum.Count("delay-past-expiry")
		} else {
			sum.Count("delay-before-expiry")
		}
		for _, o := range after1 {
			if o == "(TUpstream LFetching)" && main2 == "(TUpstream LFetching)" {
				rep["property"] = "C01+C20"
				sum.ImplViolations = append(sum.ImplViolations, rep)
				break
			}
		}
		sum.Sample(rep)
	}
	_ = os.Remove(out + "/inflight.json")
	w.Flush()
	sum.DistinctNontrivial = distinct.Len()
	sum.Write(out)
}
