// Package flight holds the harness families that need testing/synctest
// (fake clock + quiescence detection): they are compiled with `go test -c`
// and driven through environment variables by /verif/check.
package flight

import (
	_ "embed"
	"encoding/json"
	"errors"
	"fmt"
	"net/http"
	"net/http/httptest"
	"os"
	"path/filepath"
	"strconv"
	"strings"
	"sync"
	"testing"
	"testing/synctest"
	"time"

	"github.com/vicanso/elton"
	"github.com/vicanso/pike/cache"
	"github.com/vicanso/pike/config"
	"github.com/vicanso/pike/server"
	"github.com/vicanso/pike/store"
	"pikeverif/internal/hx"
)

// ---------------------------------------------------------------- fake store

type fakeStore struct {
	mu                        sync.Mutex
	data                      map[string][]byte
	readErr, writeErr, delErr bool
	gets, sets, dels          int
}

func (s *fakeStore) Get(key []byte) ([]byte, error) {
	s.mu.Lock()
	defer s.mu.Unlock()
	s.gets++
	if s.readErr {
		return nil, errors.New("fake store: read error")
	}
	v, ok := s.data[string(key)]
	if !ok {
		return nil, store.ErrNotFound
	}
	return append([]byte{}, v...), nil
}
func (s *fakeStore) Set(key []byte, data []byte, ttl time.Duration) error {
	s.mu.Lock()
	defer s.mu.Unlock()
	s.sets++
	if s.writeErr {
		return errors.New("fake store: write error")
	}
	s.data[string(key)] = append([]byte{}, data...)
	return nil
}
func (s *fakeStore) Delete(key []byte) error {
	s.mu.Lock()
	defer s.mu.Unlock()
	s.dels++
	if s.delErr {
		return errors.New("fake store: delete error")
	}
	delete(s.data, string(key))
	return nil
}
func (s *fakeStore) Close() error { return nil }

// ---------------------------------------------------------------- ops

type outcome struct {
	Kind string `json:"kind"` // cacheable | uncacheable | fail-error | fail-nil | fail-panic
	TTL  int    `json:"ttl,omitempty"`
	RID  int    `json:"rid,omitempty"`
	Body int    `json:"body,omitempty"` // 0 plain, 1 compressible, 2 undecodable gzip
}

func (o outcome) coq() string {
	switch o.Kind {
	case "cacheable":
		return fmt.Sprintf("(OCacheable %s %d)", hx.Z(int64(o.TTL)), o.RID)
	case "uncacheable":
		return fmt.Sprintf("(OUncacheable %d)", o.RID)
	}
	return "OFail"
}

type op struct {
	Kind    string  `json:"op"`
	Pass    bool    `json:"pass,omitempty"`
	Thread  int     `json:"thread,omitempty"`
	Outcome outcome `json:"outcome,omitempty"`
	Ms      int     `json:"ms,omitempty"`
	DelOK   bool    `json:"del_ok,omitempty"`
	// AllCaches: purge without a cache name
	AllCaches bool   `json:"all_caches,omitempty"`
	Corrupt   string `json:"corrupt,omitempty"` // none | junk | st1 | immortal | expired | hit:<rid> | hfp
	ReadOK    bool   `json:"read_ok,omitempty"`
	WriteOK   bool   `json:"write_ok,omitempty"`
}

type thread struct {
	mu      sync.Mutex
	state   string // started | upstream | done
	label   string
	release chan outcome
	doneRID int // -1 = error reply
	age     int
}

type world struct {
	neverRequested []byte
	url            string // the request URL of this case (one key per case)
	key            []byte
	storeURL       string
	hasStore       bool
	fs             *fakeStore
	cfg            []config.CacheConfig
	srv            interface{ GetCache() string }
	handler        elton.Handler
	threads        []*thread
	filler         []byte
	t0             time.Time
}

var labelName = map[cache.Status]string{cache.StatusFetching: "LFetching", cache.StatusHitForPass: "LHitForPass", cache.StatusHit: "LHit", cache.StatusPassed: "LPassed", cache.StatusUnknown: "LUnknown"}

// the response identity travels in a header so that it survives whatever the
// cache does to the body variants
func ridOf(resp *cache.HTTPResponse) int {
	if resp == nil || resp.Header == nil {
		return -1
	}
	n, err := strconv.Atoi(resp.Header.Get("X-Rid"))
	if err != nil {
		return -1
	}
	// every response made by mkResp also carries an empty-valued and a multi-valued header: a response
	// that comes back without them (e.g. after a store round trip) is reported as a different response
	if e, ok := resp.Header["X-Empty"]; !ok || len(e) != 1 || e[0] != "" {
		return 900000 + n
	}
	if m := resp.Header["X-Multi"]; len(m) != 2 || m[0] != "a" || m[1] != "" {
		return 900000 + n
	}
	return n
}

func mkResp(rid int) *cache.HTTPResponse {
	h := http.Header{}
	h.Set("X-Rid", strconv.Itoa(rid))
	h["X-Empty"] = []string{""}
	h["X-Multi"] = []string{"a", ""}
	return &cache.HTTPResponse{StatusCode: 200, Header: h, RawBody: []byte(fmt.Sprintf("r%d", rid))}
}

// mkRespKind: body shapes that exercise Cacheable's pre-compress step
func mkRespKind(rid int, kind int) *cache.HTTPResponse {
	r := mkResp(rid)
	switch kind {
	case 1: // compressible text: gzip + br variants are produced when stored
		r.Header.Set("Content-Type", "text/html")
		r.RawBody = []byte(strings.Repeat("hello pike ", 8))
	case 3: // every response of this kind carries the same strong validator (an unchanged entity across refetch epochs)
		r.Header.Set("Etag", "\"unchanged\"")
		r.Header.Set("Content-Type", "text/html")
		r.RawBody = []byte(strings.Repeat("same entity ", 8))
	case 2: // labelled gzip but not a gzip stream, compressible type: Compress() fails when stored
		r.Header.Set("Content-Type", "text/html")
		r.RawBody = nil
		r.GzipBody = []byte("this is not a gzip stream at all")
	}
	return r
}

func (w *world) arrive(pass bool) {
	th := &thread{state: "started", release: make(chan outcome)}
	w.threads = append(w.threads, th)
	method := "GET"
	if pass {
		method = "POST"
	}
	req := httptest.NewRequest(method, w.url, nil)
	c := elton.NewContext(httptest.NewRecorder(), req)
	c.Next = func() error {
		th.mu.Lock()
		th.state = "upstream"
		th.label = labelName[server.VerifGetCacheStatus(c)]
		th.mu.Unlock()
		o := <-th.release
		switch o.Kind {
		case "cacheable":
			server.VerifSetHTTPResp(c, mkRespKind(o.RID, o.Body))
			server.VerifSetHTTPCacheMaxAge(c, o.TTL)
			return nil
		case "uncacheable":
			server.VerifSetHTTPResp(c, mkRespKind(o.RID, o.Body))
			return nil
		case "fail-nil":
			server.VerifSetHTTPCacheMaxAge(c, 60)
			return nil
		case "fail-panic":
			panic("upstream handler panic")
		}
		return errors.New("upstream error")
	}
	go func() {
		rid, age := -1, 0
		label := ""
		func() {
			defer func() {
				if r := recover(); r != nil {
					rid = -1
					label = labelName[server.VerifGetCacheStatus(c)]
				}
			}()
			err := w.handler(c)
			label = labelName[server.VerifGetCacheStatus(c)]
			if err == nil {
				rid = ridOf(server.VerifGetHTTPResp(c))
				age = server.VerifGetHTTPRespAge(c)
			}
		}()
		th.mu.Lock()
		th.state, th.label, th.doneRID, th.age = "done", label, rid, age
		th.mu.Unlock()
	}()
}

func (w *world) observe() (terms []string, rep []string) {
	for _, th := range w.threads {
		th.mu.Lock()
		switch th.state {
		case "started":
			terms = append(terms, "TParked")
			rep = append(rep, "parked")
		case "upstream":
			terms = append(terms, "(TUpstream "+th.label+")")
			rep = append(rep, "upstream:"+th.label)
		case "done":
			r := "None"
			if th.doneRID >= 0 {
				r = fmt.Sprintf("(Some %d)", th.doneRID)
			}
			terms = append(terms, fmt.Sprintf("(TDone %s %s %s)", th.label, r, hx.Z(int64(th.age))))
			rep = append(rep, fmt.Sprintf("done:%s:r%d:age%d", th.label, th.doneRID, th.age))
		}
		th.mu.Unlock()
	}
	return
}

var statusName = []string{"Unknown", "Fetching", "HitForPass", "Hit"}

func (w *world) observeStore() string {
	if !w.hasStore {
		return "SoNone"
	}
	w.fs.mu.Lock()
	b, ok := w.fs.data[string(w.key)]
	w.fs.mu.Unlock()
	if !ok {
		return "SoNone"
	}
	hc := cache.NewHTTPCache()
	if err := hc.FromBytes(b); err != nil {
		return "SoJunk"
	}
	sn := hc.VerifSnapshot()
	if sn.Status < 0 || sn.Status > 3 {
		return "SoJunk"
	}
	r := "None"
	if id := ridOf(sn.Response); id >= 0 {
		r = fmt.Sprintf("(Some %d)", id)
	}
	return fmt.Sprintf("(SoRec %s %s %s %s)", statusName[sn.Status], r, hx.Z(sn.CreatedAt), hx.Z(sn.ExpiredAt))
}

// corrupt overwrites the stored record; returns the Coq scontent term.
func (w *world) corrupt(kind string, now int64) string {
	w.fs.mu.Lock()
	defer w.fs.mu.Unlock()
	put := func(status int, rid int, created, expired int64) string {
		var resp *cache.HTTPResponse
		r := "None"
		if rid >= 0 {
			resp = mkResp(rid)
			r = fmt.Sprintf("(Some %d)", rid)
		}
		b, _ := cache.VerifNewEntry(status, resp, created, expired).Bytes()
		w.fs.data[string(w.key)] = b
		return fmt.Sprintf("(SRec {| sr_st := %s; sr_resp := %s; sr_created := %s; sr_expired := %s |})", statusName[status], r, hx.Z(created), hx.Z(expired))
	}
	switch kind {
	case "none":
		delete(w.fs.data, string(w.key))
		return "SNone"
	case "junk": // a valid hit record cut in the middle of the response
		b, _ := cache.VerifNewEntry(3, mkResp(7777), now, now+60).Bytes()
		w.fs.data[string(w.key)] = b[:len(b)-20]
		return "(SJunk Hit false)"
	case "junk8": // only status + size words
		b, _ := cache.VerifNewEntry(3, mkResp(7777), now, now+60).Bytes()
		w.fs.data[string(w.key)] = b[:8]
		return "(SJunk Hit false)"
	case "st1":
		return put(1, -1, now, now+60)
	}
	if strings.HasPrefix(kind, "cut:") || strings.HasPrefix(kind, "cuthfp:") {
		// a valid record short by k bytes, 1 <= k <= 15: the cut falls inside the two trailing 8-byte time fields
		var k int
		if strings.HasPrefix(kind, "cut:") {
			fmt.Sscanf(kind, "cut:%d", &k)
			b, _ := cache.VerifNewEntry(3, mkResp(7782), now, now+60).Bytes()
			w.fs.data[string(w.key)] = b[:len(b)-k]
			return "(SJunk Hit true)"
		}
		fmt.Sscanf(kind, "cuthfp:%d", &k)
		b, _ := cache.VerifNewEntry(2, nil, 0, now+60).Bytes()
		w.fs.data[string(w.key)] = b[:len(b)-k]
		return "(SJunk HitForPass false)"
	}
	switch kind {
	case "st0":
		return put(0, 7778, now, now+60)
	case "immortal":
		return put(3, 7779, now, 0)
	case "hit-nil":
		return put(3, -1, now, now+60)
	case "expired":
		return put(3, 7780, now-100, now-50)
	case "hfp":
		return put(2, -1, 0, now+3)
	default: // a valid, live hit from "another process"
		return put(3, 7781, now-1, now+4)
	}
}

// corpusCase: a recorded history (one that exposed a seeded or real defect) replayed before the random ones
type corpusCase struct {
	Name       string `json:"name"`
	HitForPass string `json:"hit_for_pass"`
	WithStore  bool   `json:"with_store"`
	Ops        []op   `json:"ops"`
	// Repeat: run the history this many times, each time on another key (default 1)
	Repeat int `json:"repeat,omitempty"`
}

func runCase(t *testing.T, rnd *hx.Rand, caseNo int, nops int, withStore bool, inflightPath string, script *corpusCase) (string, map[string]interface{}, map[string]int) {
	dist := map[string]int{}
	hfpCfg := []string{"2s", "2s", "3s", "0s", "-1s", "1s", "5m", "500ms"}[rnd.Intn(8)]
	if script != nil {
		hfpCfg, withStore = script.HitForPass, script.WithStore
	}
	d, _ := time.ParseDuration(hfpCfg)
	hfp := int(d.Seconds())
	name := fmt.Sprintf("c%d", caseNo)
	w := &world{url: fmt.Sprintf("http://example.com/res?x=%d", caseNo), hasStore: withStore, storeURL: fmt.Sprintf("fake://%s", name)}
	var frames []string
	var implViolations []map[string]interface{}
	var repFrames []interface{}
	var opsJSON []op
	var t0ms int64
	synctest.Test(t, func(t *testing.T) {
		w.t0 = time.Now()
		t0ms = w.t0.UnixMilli()
		// sizes 8..15: always 8 shards of one slot (the filler key evicts), but only 8 is a multiple of the shard count
		cc := config.CacheConfig{Name: name, Size: 8 + caseNo%8, HitForPass: hfpCfg}
		if withStore {
			w.fs = &fakeStore{data: map[string][]byte{}}
			store.VerifRegister(w.storeURL, w.fs)
			cc.Store = w.storeURL
		}
		// the cache under test sits between two others with different hit-for-pass periods
		w.cfg = []config.CacheConfig{{Name: name + "-before", Size: 8, HitForPass: "7s"}, cc, {Name: name + "-after", Size: 8, HitForPass: "9s"}}
		cache.ResetDispatchers(w.cfg)
		defer func() {
			cache.ResetDispatchers(nil)
			if withStore {
				store.VerifUnregister(w.storeURL)
			}
		}()
		s := server.NewServer(server.ServerOption{Cache: name})
		w.handler = server.NewCache(s)
		// the key as the middleware builds it
		req := httptest.NewRequest("GET", w.url, nil)
		w.key = append([]byte{}, server.VerifGetKey(req)...)
		// a filler key in the same shard (size 8 => 8 shards x 1 slot): looking it up evicts ours
		disp := cache.GetDispatcher(name)
		zones := disp.VerifZoneSize()
		for j := 0; ; j++ {
			f := []byte(fmt.Sprintf("GET example.com /filler/%d", j))
			if cache.MemHash(f)%zones == cache.MemHash(w.key)%zones {
				w.filler = f
				break
			}
		}
		// a key that is never requested, in the same shard too (purging it must not disturb ours)
		for j := 0; ; j++ {
			f := []byte(fmt.Sprintf("GET example.com /never-requested/%d", j))
			if cache.MemHash(f)%zones == cache.MemHash(w.key)%zones {
				w.neverRequested = f
				break
			}
		}
		nextRID := 1
		record := func(o op, term string) {
			synctest.Wait()
			obs, rep := w.observe()
			so := w.observeStore()
			frames = append(frames, fmt.Sprintf("{| f_op := %s; f_threads := %s; f_store := %s |}", term, hx.List(obs), so))
			repFrames = append(repFrames, map[string]interface{}{"op": o, "threads": rep, "store": so})
			opsJSON = append(opsJSON, o)
			if inflightPath != "" {
				b, _ := json.Marshal(map[string]interface{}{"case": caseNo, "hit_for_pass": hfpCfg, "with_store": withStore, "ops_so_far": opsJSON})
				_ = os.WriteFile(inflightPath, b, 0o644)
			}
		}
		upstreamThreads := func() []int {
			var r []int
			for i, th := range w.threads {
				th.mu.Lock()
				if th.state == "upstream" {
					r = append(r, i)
				}
				th.mu.Unlock()
			}
			return r
		}
		allDone := func() bool {
			for _, th := range w.threads {
				th.mu.Lock()
				dn := th.state == "done"
				th.mu.Unlock()
				if !dn {
					return false
				}
			}
			return true
		}
		release := func(i int, o outcome) {
			w.threads[i].release <- o
			record(op{Kind: "release", Thread: i, Outcome: o}, fmt.Sprintf("(OpRelease %d %s)", i, o.coq()))
			dist["release:"+o.Kind]++
		}
		genOutcome := func() outcome {
			switch rnd.Intn(10) {
			case 0, 1, 2, 3, 4:
				o := outcome{Kind: "cacheable", TTL: []int{1, 2, 3, 5}[rnd.Intn(4)], RID: nextRID, Body: []int{0, 0, 1, 2, 3, 3}[rnd.Intn(6)]}
				nextRID++
				return o
			case 5, 6:
				o := outcome{Kind: "uncacheable", RID: nextRID, Body: []int{0, 1, 2, 3}[rnd.Intn(4)]}
				nextRID++
				return o
			case 7:
				return outcome{Kind: "fail-error"}
			case 8:
				return outcome{Kind: "fail-nil"}
			default:
				return outcome{Kind: "fail-panic"}
			}
		}
		// one case in four is "calm": no purge, corruption or store faults, longer ticks — long undisturbed
		// lifetimes and hit-for-pass periods, evictions and restarts only
		calm := caseNo%4 == 3
		if calm {
			dist["calm-case"]++
		}
		// plan: the next operation of a random history (false = nothing applicable this round)
		plan := func() (op, bool) {
			ups := upstreamThreads()
			x := rnd.Intn(100)
			if calm {
				x = []int{10, 10, 10, 40, 40, 40, 60, 60, 60, 87, 90}[rnd.Intn(11)]
				if x == 90 && !allDone() {
					x = 87
				}
			}
			switch {
			case x < 34 && len(w.threads) < 14:
				return op{Kind: "arrive", Pass: rnd.Chance(6)}, true
			case x < 58 && len(ups) > 0:
				return op{Kind: "release", Thread: ups[rnd.Intn(len(ups))], Outcome: genOutcome()}, true
			case x < 78:
				ms := []int{200, 400, 600, 1000, 1000, 1500, 2000, 3000, 5000, 301000}[rnd.Intn(10)]
				if calm {
					ms = []int{1000, 2000, 4000, 8000, 8000, 20000, 100000, 250000}[rnd.Intn(8)]
				}
				return op{Kind: "tick", Ms: ms}, true
			case x < 80:
				return op{Kind: "purge-elsewhere:" + []string{"absent-cache", "neighbour-cache", "other-key"}[rnd.Intn(3)]}, true
			case x < 81:
				return op{Kind: "reapply"}, true
			case x < 84:
				return op{Kind: "purge", DelOK: !rnd.Chance(15) || !withStore, AllCaches: rnd.Bool()}, true
			case x < 89:
				return op{Kind: "evict"}, true
			case x < 92 && allDone():
				return op{Kind: "restart"}, true
			case x < 96 && withStore:
				kind := []string{"none", "junk", "junk8", "st1", "st0", "immortal", "hit-nil", "expired", "hfp", "hit", "cut", "cuthfp"}[rnd.Intn(12)]
				if kind == "cut" || kind == "cuthfp" {
					kind = fmt.Sprintf("%s:%d", kind, 1+rnd.Intn(15))
				}
				return op{Kind: "corrupt", Corrupt: kind}, true
			case withStore:
				return op{Kind: "faults", ReadOK: !rnd.Chance(40), WriteOK: !rnd.Chance(40)}, true
			}
			return op{}, false
		}
		// exec: run one operation (random or scripted) on the implementation and record the frame
		exec := func(o op) {
			switch {
			case o.Kind == "arrive":
				if len(w.threads) >= 20 {
					return
				}
				w.arrive(o.Pass)
				record(op{Kind: "arrive", Pass: o.Pass}, fmt.Sprintf("(OpArrive %s)", hx.Bool(o.Pass)))
				dist["arrive"]++
			case o.Kind == "release":
				inUpstream := false
				for _, u := range upstreamThreads() {
					if u == o.Thread {
						inUpstream = true
					}
				}
				if !inUpstream {
					return // scripted history that no longer applies at this point
				}
				if o.Outcome.Kind == "cacheable" || o.Outcome.Kind == "uncacheable" {
					if o.Outcome.RID >= nextRID {
						nextRID = o.Outcome.RID + 1
					}
				}
				release(o.Thread, o.Outcome)
			case o.Kind == "tick":
				time.Sleep(time.Duration(o.Ms) * time.Millisecond)
				record(op{Kind: "tick", Ms: o.Ms}, fmt.Sprintf("(OpTick %d)", o.Ms))
				dist["tick"]++
			case strings.HasPrefix(o.Kind, "purge-elsewhere"):
				// purges that must not touch this key in this cache: a cache name that does not exist, the same
				// key in a neighbouring cache, another key in this cache (the model sees a tick of 0 ms)
				resident := func() int {
					n := 0
					for _, l := range cache.GetDispatcher(name).VerifResident() {
						n += l
					}
					return n
				}
				stored := func() string {
					if !withStore {
						return ""
					}
					w.fs.mu.Lock()
					defer w.fs.mu.Unlock()
					return string(w.fs.data[string(w.key)])
				}
				r0, s0 := resident(), stored()
				variant := strings.TrimPrefix(o.Kind, "purge-elsewhere:")
				switch variant {
				case "absent-cache":
					cache.RemoveHTTPCache("no-such-cache", w.key)
				case "neighbour-cache":
					cache.RemoveHTTPCache(name+"-before", w.key)
				default:
					variant = "other-key"
					cache.RemoveHTTPCache(name, w.neverRequested)
				}
				if r1, s1 := resident(), stored(); r1 != r0 || s1 != s0 {
					implViolations = append(implViolations, map[string]interface{}{"property": "C18", "kind": "purge-elsewhere-touched-this-key", "variant": variant,
						"resident_before": r0, "resident_after": r1, "store_record_changed": s1 != s0, "ops_before": len(opsJSON)})
				}
				record(op{Kind: "purge-elsewhere:" + variant}, "(OpTick 0)")
				dist["purge-elsewhere"]++
			case o.Kind == "purge":
				delOK := o.DelOK || !withStore
				if withStore {
					w.fs.mu.Lock()
					w.fs.delErr = !delOK
					w.fs.mu.Unlock()
				}
				target := name
				if o.AllCaches {
					target = ""
				}
				cache.RemoveHTTPCache(target, w.key)
				if withStore {
					w.fs.mu.Lock()
					w.fs.delErr = false
					w.fs.mu.Unlock()
				}
				record(op{Kind: "purge", DelOK: delOK, AllCaches: o.AllCaches}, fmt.Sprintf("(OpPurge %s)", hx.Bool(delOK)))
				dist["purge"]++
			case o.Kind == "reapply":
				// the unchanged cache configuration applied again (any admin save does this): nothing may change
				cache.ResetDispatchers(w.cfg)
				record(op{Kind: "reapply"}, "(OpTick 0)")
				dist["reapply"]++
			case o.Kind == "evict":
				cache.GetDispatcher(name).GetHTTPCache(w.filler)
				record(op{Kind: "evict"}, "OpEvict")
				dist["evict"]++
			case o.Kind == "restart":
				if !allDone() {
					return
				}
				cache.ResetDispatchers(nil)
				cache.ResetDispatchers(w.cfg)
				record(op{Kind: "restart"}, "OpRestart")
				dist["restart"]++
			case o.Kind == "corrupt":
				if !withStore {
					return
				}
				term := w.corrupt(o.Corrupt, time.Now().Unix())
				record(op{Kind: "corrupt", Corrupt: o.Corrupt}, "(OpCorrupt "+term+")")
				dist["corrupt:"+strings.SplitN(o.Corrupt, ":", 2)[0]]++
			case o.Kind == "faults":
				if !withStore {
					return
				}
				w.fs.mu.Lock()
				w.fs.readErr, w.fs.writeErr = !o.ReadOK, !o.WriteOK
				w.fs.mu.Unlock()
				record(op{Kind: "faults", ReadOK: o.ReadOK, WriteOK: o.WriteOK}, fmt.Sprintf("(OpFaults %s %s)", hx.Bool(o.ReadOK), hx.Bool(o.WriteOK)))
				dist["faults"]++
			}
		}
		if script != nil {
			for _, o := range script.Ops {
				exec(o)
			}
		} else {
			for k := 0; k < nops; k++ {
				if o, ok := plan(); ok {
					exec(o)
				}
			}
		}
		// drain: release everything that is in the upstream until nothing is
		for guard := 0; guard < 200; guard++ {
			ups := upstreamThreads()
			if len(ups) == 0 {
				break
			}
			release(ups[0], outcome{Kind: "fail-error"})
		}
		synctest.Wait()
	})
	if inflightPath != "" {
		_ = os.Remove(inflightPath)
	}
	term := fmt.Sprintf("{| fc_t0 := %s; fc_hfp := %s; fc_store := %s; fc_frames := %s |}", hx.Z(t0ms), hx.Z(int64(hfp)), hx.Bool(withStore), hx.List(frames))
	rep := map[string]interface{}{"hit_for_pass": hfpCfg, "with_store": withStore, "frames": repFrames}
	if len(implViolations) > 0 {
		rep["impl_violations"] = implViolations
	}
	return term, rep, dist
}

func envInt(name string, def int) int {
	if v, err := strconv.Atoi(os.Getenv(name)); err == nil {
		return v
	}
	return def
}

// storeCannotOpen: caches whose persistent store cannot be opened (path below a regular file; a badger
// directory already locked by another cache under a differently spelled URL) must still serve from
// memory: miss -> fill -> hit -> purge -> miss, without a panic or a hang.
func storeCannotOpen(sum *hx.Summary) {
	dir, _ := os.MkdirTemp("", "pikeverif-badger-")
	defer os.RemoveAll(dir)
	file := filepath.Join(dir, "plainfile")
	_ = os.WriteFile(file, []byte("x"), 0o644)
	scenarios := []struct {
		what string
		cfg  []config.CacheConfig
		name string
	}{
		{"store path below a regular file", []config.CacheConfig{{Name: "so1", Size: 16, HitForPass: "5m", Store: "badger://" + file + "/sub"}}, "so1"},
		{"badger directory locked by another cache (same directory, two URL spellings)", []config.CacheConfig{
			{Name: "so2", Size: 16, HitForPass: "5m", Store: "badger://" + dir + "/db"},
			{Name: "so3", Size: 16, HitForPass: "5m", Store: "badger://" + dir + "/db/"}}, "so3"},
	}
	for _, sc := range scenarios {
		sum.Count("store-cannot-open-scenario")
		steps := make(chan string, 8)
		go func() {
			defer func() {
				if r := recover(); r != nil {
					steps <- fmt.Sprintf("panic: %v", r)
				}
			}()
			cache.ResetDispatchers(sc.cfg)
			s := server.NewServer(server.ServerOption{Cache: sc.name})
			handler := server.NewCache(s)
			do := func() string {
				req := httptest.NewRequest("GET", "http://so.example/x", nil)
				c := elton.NewContext(httptest.NewRecorder(), req)
				c.Next = func() error {
					server.VerifSetHTTPResp(c, mkResp(1))
					server.VerifSetHTTPCacheMaxAge(c, 60)
					return nil
				}
				if err := handler(c); err != nil {
					return "error: " + err.Error()
				}
				return server.VerifGetCacheStatus(c).String()
			}
			for _, want := range []string{"fetching", "hit"} {
				if got := do(); got != want {
					steps <- fmt.Sprintf("request answered %q, expected %q", got, want)
					return
				}
			}
			cache.RemoveHTTPCache(sc.name, []byte("GET so.example http://so.example/x"))
			if got := do(); got != "fetching" {
				steps <- fmt.Sprintf("after the purge the request answered %q, expected fetching", got)
				return
			}
			steps <- "ok"
		}()
		res := ""
		select {
		case res = <-steps:
		case <-time.After(8 * time.Second):
			res = "hang: a request never returned"
		}
		if res != "ok" {
			sum.ImplViolations = append(sum.ImplViolations, map[string]interface{}{"property": "C10", "kind": "store-cannot-open", "scenario": sc.what, "what": res})
		}
		cache.ResetDispatchers(nil)
	}
}

//go:embed corpus.json
var corpusJSON []byte

// TestFlight is the `flight` family entry point.
func TestFlight(t *testing.T) {
	out := os.Getenv("PV_OUT")
	if out == "" {
		t.Skip("PV_OUT not set")
	}
	seed := uint64(envInt("PV_SEED", 1))
	n := envInt("PV_N", 50)
	rnd := hx.NewRand(seed)
	sum := hx.NewSummary("flight", seed)
	sum.Rule = "one case = one history of 30-45 ops on one cache key through the real cache middleware (server.NewCache over a real size-8 dispatcher, fake store in half of the cases) under testing/synctest: arrive (GET, 6% POST) / release of an in-flight upstream exchange with outcome {cacheable ttl 1,2,3,5 | uncacheable | error | nil response | panic} / tick 200 ms..301 s / purge (named or all caches, delete ok or failing) / re-application of the unchanged cache configuration (must change nothing) / purge elsewhere (absent cache name, same key in a neighbouring cache, another key: must leave this key's resident entry and store record alone) / evict (filler key in the same 1-slot shard) / restart (fresh dispatcher on the same store) / store corruption (missing, truncated in the response / after 8 bytes / 1-15 bytes short inside the trailing time fields, status word 1 or 0, expiry 0, nil response, expired, hit-for-pass, foreign hit) / store read-write fault modes; every history ends by draining the upstream; before the histories, two scenarios with a store that cannot be opened (miss, fill, hit, purge, miss must work from memory) and the recorded histories of flight/corpus.json (each once exposed a defect or a seeded change); observation after each op at quiescence = state of every request (parked / in upstream with label / done with label, response id, age) and the decoded store record; non-trivial = history with at least one parked request or one hit; distinct by op sequence"
	header := "From Coq Require Import List ZArith.\nImport ListNotations.\nFrom Pike Require Import Model.Sys Corr.SysCorr.\n"
	w := hx.NewCaseWriter(out, "flight", header, "list fl_case", "check_cases", 6, sum)
	distinct := hx.NewDistinct()
	inflight := filepath.Join(out, "inflight.json")
	storeCannotOpen(sum)
	var corpus []corpusCase
	var loaded []corpusCase
	if err := json.Unmarshal(corpusJSON, &loaded); err != nil {
		t.Fatalf("corpus.json: %v", err)
	}
	for _, cc := range loaded {
		for k := 0; k < max(cc.Repeat, 1); k++ {
			corpus = append(corpus, cc)
		}
	}
	for i := -len(corpus); i < n; i++ {
		nops := 30 + rnd.Intn(16)
		withStore := i%2 == 1
		var script *corpusCase
		caseNo := i
		if i < 0 {
			script = &corpus[i+len(corpus)]
			caseNo = 100000 + i + len(corpus)
			sum.Count("corpus-case")
		}
		term, rep, dist := runCase(t, rnd, caseNo, nops, withStore, inflight, script)
		if script != nil {
			rep["corpus"] = script.Name
		}
		if ivs, ok := rep["impl_violations"].([]map[string]interface{}); ok {
			for _, iv := range ivs {
				iv["hit_for_pass"], iv["with_store"], iv["frames"] = rep["hit_for_pass"], rep["with_store"], rep["frames"]
				sum.ImplViolations = append(sum.ImplViolations, iv)
			}
			delete(rep, "impl_violations")
		}
		w.Add(term, rep)
		sum.Evaluations++
		for k, v := range dist {
			sum.Distribution[k] += v
		}
		b, _ := json.Marshal(rep)
		nontrivial := false
		for _, f := range rep["frames"].([]interface{}) {
			for _, s := range f.(map[string]interface{})["threads"].([]string) {
				if s == "parked" || (len(s) > 9 && s[:9] == "done:LHit") {
					nontrivial = true
				}
			}
		}
		if nontrivial {
			distinct.Add(string(b))
		}
		sum.Sample(map[string]interface{}{"hit_for_pass": rep["hit_for_pass"], "with_store": rep["with_store"], "first_frames": rep["frames"].([]interface{})[:min(6, len(rep["frames"].([]interface{})))]})
	}
	w.Flush()
	sum.DistinctNontrivial = distinct.Len()
	sum.Write(out)
}
