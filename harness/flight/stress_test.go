package flight

import (
	"bytes"
	"fmt"
	"net/http"
	"net/http/httptest"
	"os"
	"strings"
	"sync"
	"sync/atomic"
	"testing"
	"time"

	"github.com/vicanso/elton"
	"github.com/vicanso/pike/cache"
	"github.com/vicanso/pike/compress"
	"github.com/vicanso/pike/config"
	"github.com/vicanso/pike/location"
	"github.com/vicanso/pike/server"
	"github.com/vicanso/pike/store"
	"pikeverif/internal/hx"
)

// TestRaceStress is the `racestress` family: real goroutines (no bubble), built
// with -race by /verif/check.  Supporting evidence for C20 and the concrete
// failing schedule when the lock-discipline obligation breaks: a race report,
// a malformed reply or an over-full shard is an implementation violation.
func TestRaceStress(t *testing.T) {
	out := os.Getenv("PV_OUT")
	if out == "" {
		t.Skip("PV_OUT not set")
	}
	seed := uint64(envInt("PV_SEED", 1))
	n := envInt("PV_N", 4000) // iterations per worker
	sum := hx.NewSummary("racestress", seed)
	sum.Rule = "16 goroutines x n iterations of mixed traffic on a size-16 dispatcher with a persistent (fake) store (6 hot keys forced into one shard + 24 cold keys: constant eviction and reload from the store): lookup + Get; fetchers complete with Cacheable(1-3 s)/HitForPass(1 s); hits are served with Fill under random Accept-Encoding and the decoded body must name the key; purges; server.Reset/GetCompress/GetLocations and location.Reset/Get reloads; under the Go race detector; non-trivial = iterations that hit a resident entry; distinct not measured (schedules are not reproducible): counted conservatively as number of workers"
	const name = "stress"
	// persistent store behind the dispatcher: entries evicted from the 16 slots are reloaded from it
	fs := &fakeStore{data: map[string][]byte{}}
	store.VerifRegister("fake://stress", fs)
	cache.ResetDispatchers([]config.CacheConfig{{Name: name, Size: 16, HitForPass: "1s", Store: "fake://stress"}})
	defer cache.ResetDispatchers(nil)
	disp := cache.GetDispatcher(name)
	zones := disp.VerifZoneSize()
	var keys [][]byte
	for j := 0; len(keys) < 6; j++ { // hot keys in shard 0
		k := []byte(fmt.Sprintf("GET stress.example /hot/%d", j))
		if cache.MemHash(k)%zones == 0 {
			keys = append(keys, k)
		}
	}
	for j := 0; j < 24; j++ {
		keys = append(keys, []byte(fmt.Sprintf("GET stress.example /cold/%d", j)))
	}
	srvCfg := func(min string) []config.ServerConfig {
		return []config.ServerConfig{{Addr: ":7999", Locations: []string{"sl"}, Cache: name, CompressMinLength: min}}
	}
	server.Reset(srvCfg("1kb"))
	location.Reset([]config.LocationConfig{{Name: "sl", Upstream: "su"}})
	var malformed, hits, fetches atomic.Int64
	var firstBad atomic.Value
	var wg sync.WaitGroup
	start := time.Now()
	for g := 0; g < 16; g++ {
		wg.Add(1)
		go func(g int) {
			defer wg.Done()
			r := hx.NewRand(seed*1000 + uint64(g))
			for it := 0; it < n; it++ {
				key := keys[r.Intn(len(keys))]
				if r.Chance(70) {
					key = keys[r.Intn(6)]
				}
				switch x := r.Intn(100); {
				case x < 80:
					hc := disp.GetHTTPCache(key)
					st, resp := hc.Get()
					switch st {
					case cache.StatusFetching:
						fetches.Add(1)
						if r.Chance(75) {
							h := http.Header{}
							h.Set("Content-Type", "text/plain")
							body := bytes.Repeat(append(append([]byte{}, key...), '\n'), 8)
							hc.Cacheable(&cache.HTTPResponse{StatusCode: 200, Header: h, RawBody: body}, 1+r.Intn(3))
						} else {
							hc.HitForPass(1)
						}
					case cache.StatusHit:
						hits.Add(1)
						req := httptest.NewRequest("GET", "/", nil)
						req.Header.Set("Accept-Encoding", r.Pick([]string{"", "gzip", "br", "gzip, br"}))
						c := elton.NewContext(httptest.NewRecorder(), req)
						bad := ""
						if resp == nil {
							bad = "hit with nil response"
						} else if err := resp.Fill(c); err != nil {
							bad = "Fill: " + err.Error()
						} else {
							body := c.BodyBuffer.Bytes()
							var dec []byte
							var err error
							switch c.GetHeader("Content-Encoding") {
							case "gzip":
								dec, err = compress.Get("").Gunzip(body)
							case "br":
								dec, err = compress.Get("").BrotliDecode(body)
							default:
								dec = body
							}
							want := bytes.Repeat(append(append([]byte{}, key...), '\n'), 8)
							if err != nil || !bytes.Equal(dec, want) {
								bad = fmt.Sprintf("reply for %q decodes to %q (err %v)", key, firstLine(dec), err)
							}
							_ = hc.Age()
						}
						if bad != "" {
							malformed.Add(1)
							firstBad.CompareAndSwap(nil, bad)
						}
					}
				case x < 88:
					cache.RemoveHTTPCache(r.Pick([]string{name, ""}), key)
				case x < 94:
					server.Reset(srvCfg(r.Pick([]string{"1kb", "2kb", ""})))
					if s := server.Get(":7999"); s != nil {
						_, _, _ = s.GetCompress()
						_ = s.GetLocations()
						_ = s.GetCache()
					}
				default:
					location.Reset([]config.LocationConfig{{Name: "sl", Upstream: "su", Prefixes: [][]string{nil, {"/hot"}}[r.Intn(2)]}})
					_ = location.Get("stress.example", "/hot/1", "sl")
				}
			}
		}(g)
	}
	wg.Wait()
	resident := 0
	for _, l := range disp.VerifResident() {
		resident += l
	}
	sum.Evaluations = 16 * n
	sum.DistinctNontrivial = 16
	sum.Distribution["hits"] = int(hits.Load())
	sum.Distribution["fetches"] = int(fetches.Load())
	sum.Distribution["resident_at_end"] = resident
	sum.Extra["wall_ms"] = time.Since(start).Milliseconds()
	sum.Sample(map[string]interface{}{"workers": 16, "iterations_per_worker": n, "hits": hits.Load(), "fetches": fetches.Load(), "resident_at_end": resident})
	if malformed.Load() > 0 {
		sum.ImplViolations = append(sum.ImplViolations, map[string]interface{}{"property": "C20+C08+C05", "kind": "malformed-reply", "count": malformed.Load(), "first": firstBad.Load(), "workers": 16, "iterations": n, "seed": seed})
	}
	if resident > 16 {
		sum.ImplViolations = append(sum.ImplViolations, map[string]interface{}{"property": "C20+C11", "kind": "resident-exceeds-size", "resident": resident, "size": 16, "seed": seed})
	}
	sum.Write(out)
	if malformed.Load() > 0 || resident > 16 {
		t.Logf("violations recorded in %s", out)
	}
}

func firstLine(b []byte) string {
	s := string(b)
	if i := strings.IndexByte(s, '\n'); i >= 0 {
		s = s[:i]
	}
	if len(s) > 80 {
		s = s[:80]
	}
	return s
}
