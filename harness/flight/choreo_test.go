package flight

import (
	"fmt"
	"os"
	"runtime"
	"runtime/debug"
	"strings"
	"testing"
	"time"

	"github.com/vicanso/pike/cache"
	"github.com/vicanso/pike/config"
	"github.com/vicanso/pike/store"
	"pikeverif/internal/hx"
)

// fifoHandoff runs the given operations so that their critical sections on
// one mutex execute in the given order, each operation being descheduled
// right after it releases the mutex and before it does anything else.
//
// How: (GOMAXPROCS=1, no asynchronous preemption) `with` holds the mutex
// while the operations are started one by one and block on it (FIFO in the
// semaphore queue) for more than 1 ms; the holder releases and immediately
// re-acquires the mutex (barging), yields once so that the first waiter wakes
// up, finds the mutex taken after a long wait and switches it to starvation
// mode; from then on every Unlock hands the mutex to the next waiter and
// yields the processor to it (sync.Mutex's documented starvation mode).
func fifoHandoff(with func(func()), ops []func()) {
	with(func() {
		for _, op := range ops {
			go op()
			runtime.Gosched() // runs until it blocks on the mutex
		}
		t0 := time.Now()
		for time.Since(t0) < 2*time.Millisecond {
		}
	})
	with(func() { runtime.Gosched() })
}

func settle() {
	for y := 0; y < 50; y++ {
		runtime.Gosched()
	}
}

type chOp struct {
	kind string // get | cacheable | hfp
	ttl  int
	rid  int
}

func (o chOp) coq() string {
	switch o.kind {
	case "get":
		return "HGet"
	case "cacheable":
		return fmt.Sprintf("(HCache %d %d)", o.ttl, o.rid)
	}
	return "HHfp"
}

func collectGets(results []chan getResult) []string {
	var obs []string
	for k := range results {
		select {
		case r := <-results[k]:
			results[k] <- r
			obs = append(obs, tobsOfGet(r))
		default:
			obs = append(obs, "TParked")
		}
	}
	return obs
}

// blockingStore: Delete blocks until released (purge-window choreography)
type blockingStore struct {
	fakeStore
	gate    chan struct{}
	entered chan struct{}
}

// slowReadStore: Get of one key blocks until released
type slowReadStore struct {
	fakeStore
	slowKey string
	gate    chan struct{}
	entered chan struct{}
}

func (b *slowReadStore) Get(key []byte) ([]byte, error) {
	if string(key) == b.slowKey {
		b.entered <- struct{}{}
		<-b.gate
	}
	return b.fakeStore.Get(key)
}

// slowStoreRead: while the store takes its time over the read for one cold key, a key of the same shard that is
// cached in memory is still served (C10: "slow calls ... responses cached in memory keep being served")
func slowStoreRead(sum *hx.Summary) {
	const name = "slowread"
	url := "fake://" + name
	ss := &slowReadStore{fakeStore: fakeStore{data: map[string][]byte{}}, gate: make(chan struct{}), entered: make(chan struct{}, 1)}
	store.VerifRegister(url, ss)
	defer store.VerifUnregister(url)
	cache.ResetDispatchers([]config.CacheConfig{{Name: name, Size: 64, HitForPass: "300s", Store: url}})
	defer cache.ResetDispatchers(nil)
	d := cache.GetDispatcher(name)
	zones := d.VerifZoneSize()
	hot := []byte("GET slow.example /hot")
	var cold []byte
	for j := 0; ; j++ {
		cold = []byte(fmt.Sprintf("GET slow.example /cold/%d", j))
		if cache.MemHash(cold)%zones == cache.MemHash(hot)%zones {
			break
		}
	}
	hc := d.GetHTTPCache(hot)
	hc.Get()
	hc.Cacheable(mkResp(1), 60)
	ss.slowKey = string(cold)
	coldDone := make(chan struct{})
	go func() {
		d.GetHTTPCache(cold).Get()
		close(coldDone)
	}()
	select {
	case <-ss.entered: // the store read for the cold key is in progress
	case <-time.After(2 * time.Second):
		sum.Count("slow-store-read-scenario-skipped")
		close(ss.gate)
		return
	}
	hotRes := make(chan cache.Status, 1)
	go func() {
		st, _ := d.GetHTTPCache(hot).Get()
		hotRes <- st
	}()
	verdict := ""
	select {
	case st := <-hotRes:
		if st != cache.StatusHit {
			verdict = "the memory-cached key was answered " + st.String() + " instead of hit"
		}
	case <-time.After(2 * time.Second):
		verdict = "the request for the memory-cached key did not return within 2 s"
	}
	close(ss.gate)
	<-coldDone
	sum.Count("slow-store-read-scenario")
	if verdict != "" {
		sum.ImplViolations = append(sum.ImplViolations, map[string]interface{}{"property": "C10", "kind": "memory-hit-blocked-by-slow-store-read", "what": verdict, "hot_key": string(hot), "cold_key_same_shard": string(cold)})
	}
}

// slowWriteStore: Set takes 300 ms
type slowWriteStore struct{ fakeStore }

func (b *slowWriteStore) Set(key []byte, data []byte, ttl time.Duration) error {
	time.Sleep(300 * time.Millisecond)
	return b.fakeStore.Set(key, data, ttl)
}

// purgeAfterSlowWrite: a fetch completes (cacheable) on a store whose write takes 300 ms, THEN the key is purged;
// half a second later the store holds nothing for the key and the next request fetches again
func purgeAfterSlowWrite(sum *hx.Summary) {
	const name = "slowwrite"
	url := "fake://" + name
	ss := &slowWriteStore{fakeStore: fakeStore{data: map[string][]byte{}}}
	store.VerifRegister(url, ss)
	defer store.VerifUnregister(url)
	cache.ResetDispatchers([]config.CacheConfig{{Name: name, Size: 64, HitForPass: "300s", Store: url}})
	defer cache.ResetDispatchers(nil)
	d := cache.GetDispatcher(name)
	key := []byte("GET slow.example /purged-after-write")
	hc := d.GetHTTPCache(key)
	if st, _ := hc.Get(); st != cache.StatusFetching {
		return
	}
	hc.Cacheable(mkResp(7791), 60) // the request is answered when this returns
	d.RemoveHTTPCache(key)         // the purge completes
	time.Sleep(600 * time.Millisecond)
	ss.mu.Lock()
	_, still := ss.data[string(key)]
	ss.mu.Unlock()
	st, _ := d.GetHTTPCache(key).Get()
	sum.Count("purge-after-slow-write-scenario")
	if still || st != cache.StatusFetching {
		sum.ImplViolations = append(sum.ImplViolations, map[string]interface{}{"property": "C18+C10", "kind": "purged-entry-back-after-a-slow-store-write",
			"what": "fetch completed (cacheable) on a store whose write takes 300 ms, then the key was purged; 600 ms later", "record_in_store": still, "next_request": st.String(), "key": string(key)})
	}
}

// overlappingStoreReads: the store still holds a well-formed but expired record for a cold key and is slow to
// answer; four requests for that key arrive while the first read is in progress.  Exactly one of them becomes
// the fetcher, the others wait for it and are answered from its (cacheable) result.
func overlappingStoreReads(sum *hx.Summary, lapsedMarker bool) {
	name := "overlapread"
	if lapsedMarker {
		name = "overlapmarker"
	}
	url := "fake://" + name
	ss := &slowReadStore{fakeStore: fakeStore{data: map[string][]byte{}}, gate: make(chan struct{}), entered: make(chan struct{}, 16)}
	store.VerifRegister(url, ss)
	defer store.VerifUnregister(url)
	cache.ResetDispatchers([]config.CacheConfig{{Name: name, Size: 64, HitForPass: "300s", Store: url}})
	defer cache.ResetDispatchers(nil)
	d := cache.GetDispatcher(name)
	key := []byte("GET slow.example /stale-record")
	now := time.Now().Unix()
	rec, _ := cache.VerifNewEntry(3, mkResp(7790), now-100, now-50).Bytes()
	if lapsedMarker { // a hit-for-pass marker whose period ended 50 s ago: the key is to be probed again, by ONE request
		rec, _ = cache.VerifNewEntry(2, nil, 0, now-50).Bytes()
	}
	ss.data[string(key)] = rec
	ss.slowKey = string(key)
	const n = 4
	res := make(chan cache.Status, n)
	for i := 0; i < n; i++ {
		go func() {
			st, _ := d.GetHTTPCache(key).Get()
			res <- st
		}()
	}
	select {
	case <-ss.entered:
	case <-time.After(2 * time.Second):
		sum.Count("overlapping-store-reads-scenario-skipped")
		close(ss.gate)
		return
	}
	time.Sleep(100 * time.Millisecond) // the other three have arrived (parked on the entry, or reading the store themselves)
	close(ss.gate)
	var early []string
	deadline := time.After(400 * time.Millisecond)
collect:
	for {
		select {
		case st := <-res:
			early = append(early, st.String())
		case <-deadline:
			break collect
		}
	}
	fetchers := 0
	for _, st := range early {
		if st == cache.StatusFetching.String() {
			fetchers++
		}
	}
	// complete the fetch so that the parked requests return
	d.GetHTTPCache(key).Cacheable(mkResp(2), 60)
	var late []string
	deadline2 := time.After(2 * time.Second)
	for len(early)+len(late) < n {
		select {
		case st := <-res:
			late = append(late, st.String())
		case <-deadline2:
			late = append(late, "<never returned>")
		}
	}
	sum.Count("overlapping-store-reads-scenario")
	bad := fetchers != 1 || len(early) != 1
	for _, st := range late {
		if st != cache.StatusHit.String() {
			bad = true
		}
	}
	if bad {
		sum.ImplViolations = append(sum.ImplViolations, map[string]interface{}{"property": "C01+C07+C10", "kind": "several-fetchers-for-a-cold-key-with-a-stale-store-record", "lapsed_hit_for_pass_marker": lapsedMarker,
			"what": "four requests arrived for one cold key while the (slow) store read of its expired record (a hit, or a lapsed hit-for-pass marker) was in progress: expected one fetching request and three waiting for it and answered hit",
			"key":  string(key), "returned_before_the_fetch_completed": early, "returned_after": late})
	}
}

func (b *blockingStore) Delete(key []byte) error {
	if b.gate != nil {
		b.entered <- struct{}{}
		<-b.gate
	}
	return b.fakeStore.Delete(key)
}

// TestChoreo is the `choreo` family: choreographed schedules on the real
// entry / dispatcher under GOMAXPROCS=1 (set by /verif/check together with
// GODEBUG=asyncpreemptoff=1).
func TestChoreo(t *testing.T) {
	out := os.Getenv("PV_OUT")
	if out == "" {
		t.Skip("PV_OUT not set")
	}
	runtime.GOMAXPROCS(1)
	defer debug.SetGCPercent(debug.SetGCPercent(-1)) // a GC cycle would ask the driver to yield in the middle of a choreography
	seed := uint64(envInt("PV_SEED", 1))
	n := envInt("PV_N", 12)
	rnd := hx.NewRand(seed)
	sum := hx.NewSummary("choreo", seed)
	sum.Rule = "one case = one choreographed schedule (GOMAXPROCS=1, no async preemption). kind 0 entry-handoff: a fetcher holds the key; 2-5 operations (Get by new requests, the fetcher's completion Cacheable(ttl)/HitForPass) are queued on the entry lock in a chosen order and their critical sections run in that order, each operation descheduled between its Unlock and its next step (so a waiter is registered but not yet receiving when the completion runs); kind 1 zone-handoff: 2-6 requests for one cold key queued the same way on the shard lock (lookup-or-create), then each calls Get; kind 2 purge-window: a persisted hit; a purge whose store.Delete blocks; a request arrives meanwhile; Delete is released; a further request arrives after the purge returned; kind 3 lookup-purge-get: a fetch in flight with one parked request, a third request looks the entry up, the key is purged, and only then does the third request call Get on the entry it holds; then the fetch completes. Last, outside the forced schedules: a store whose read for one cold key blocks, while a key of the same shard that is cached in memory must still be served within 2 s. Observation = what every Get returned or whether it is still parked, before and after the remaining fetch is completed. non-trivial = every case; distinct by (kind, queue)"
	header := "From Coq Require Import List ZArith.\nImport ListNotations.\nFrom Pike Require Import Model.Sys Corr.SysCorr Corr.ChoreoCorr.\n"
	w := hx.NewCaseWriter(out, "choreo", header, "list ch_case", "check_cases", 50, sum)
	distinct := hx.NewDistinct()
	queues := [][]chOp{
		{{kind: "get"}, {kind: "cacheable", ttl: 60, rid: 1}},
		{{kind: "get"}, {kind: "hfp"}},
		{{kind: "get"}, {kind: "get"}, {kind: "cacheable", ttl: 60, rid: 1}},
		{{kind: "get"}, {kind: "cacheable", ttl: 60, rid: 1}, {kind: "get"}},
		{{kind: "cacheable", ttl: 60, rid: 1}, {kind: "get"}},
		{{kind: "hfp"}, {kind: "get"}, {kind: "get"}},
		{{kind: "get"}, {kind: "get"}, {kind: "get"}, {kind: "hfp"}},
	}
	for i := 0; i < n; i++ {
		kind := i % 4
		var q []chOp
		nreq := 0
		switch kind {
		case 0:
			if i/4 < len(queues) {
				q = queues[i/4]
			} else {
				k := 2 + rnd.Intn(4)
				done := false
				for j := 0; j < k; j++ {
					if !done && (rnd.Chance(30) || j == k-1) {
						done = true
						if rnd.Bool() {
							q = append(q, chOp{kind: "cacheable", ttl: 60, rid: 1})
						} else {
							q = append(q, chOp{kind: "hfp"})
						}
					} else {
						q = append(q, chOp{kind: "get"})
					}
				}
			}
		case 1:
			nreq = 2 + (i/4)%5
		case 2:
			nreq = 1 + (i/4)%2
		}
		var qs []string
		for _, o := range q {
			qs = append(qs, o.coq())
		}
		desc := fmt.Sprintf(`{"family":"choreo","kind":%d,"queue":"%s","requests":%d}`, kind, strings.Join(qs, " "), nreq)
		_ = os.WriteFile(out+"/inflight.json", []byte(desc), 0o644)
		var obs1, obs2 []string
		switch kind {
		case 0:
			hc := cache.NewHTTPCache()
			if st, _ := hc.Get(); st != cache.StatusFetching {
				t.Fatalf("first Get returned %v", st)
			}
			var results []chan getResult
			var ops []func()
			for _, o := range q {
				o := o
				switch o.kind {
				case "get":
					ch := make(chan getResult, 1)
					results = append(results, ch)
					ops = append(ops, func() {
						s, r := hc.Get()
						ch <- getResult{s, ridOf(r)}
					})
				case "cacheable":
					ops = append(ops, func() { hc.Cacheable(mkResp(o.rid), o.ttl) })
				default:
					ops = append(ops, func() { hc.HitForPass(300) })
				}
			}
			fifoHandoff(hc.VerifWithEntryLock, ops)
			settle()
			obs1 = collectGets(results)
			settle()
			obs2 = collectGets(results)
		case 1:
			name := fmt.Sprintf("choreo%d", i)
			cache.ResetDispatchers([]config.CacheConfig{{Name: name, Size: 64, HitForPass: "300s"}})
			d := cache.GetDispatcher(name)
			key := []byte(fmt.Sprintf("GET choreo.example /cold/%d", i))
			var results []chan getResult
			entries := make([]interface {
				Cacheable(*cache.HTTPResponse, int)
			}, nreq)
			var ops []func()
			for j := 0; j < nreq; j++ {
				j := j
				ch := make(chan getResult, 1)
				results = append(results, ch)
				ops = append(ops, func() {
					hc := d.GetHTTPCache(key)
					entries[j] = hc
					s, r := hc.Get()
					ch <- getResult{s, ridOf(r)}
				})
			}
			fifoHandoff(func(f func()) { d.VerifWithZoneLock(key, f) }, ops)
			settle()
			obs1 = collectGets(results)
			for j, o := range obs1 {
				if o == "(TUpstream LFetching)" {
					entries[j].Cacheable(mkResp(100), 60)
				}
			}
			settle()
			obs2 = collectGets(results)
			cache.ResetDispatchers(nil)
		case 3:
			// lookup - purge - get: a request that already holds the entry when the key is purged runs Get on it afterwards
			name := fmt.Sprintf("choreo%d", i)
			cache.ResetDispatchers([]config.CacheConfig{{Name: name, Size: 64, HitForPass: "300s"}})
			d := cache.GetDispatcher(name)
			key := []byte(fmt.Sprintf("GET choreo.example /held/%d", i))
			hc0 := d.GetHTTPCache(key)
			if st, _ := hc0.Get(); st != cache.StatusFetching {
				t.Fatalf("first Get returned %v", st)
			}
			results := []chan getResult{make(chan getResult, 1), make(chan getResult, 1)}
			go func() {
				s, r := d.GetHTTPCache(key).Get()
				results[0] <- getResult{s, ridOf(r)}
			}()
			settle()                    // parked behind the fetch
			held := d.GetHTTPCache(key) // looked up, Get not called yet
			d.RemoveHTTPCache(key)      // the purge lands in between
			go func() {
				s, r := held.Get()
				results[1] <- getResult{s, ridOf(r)}
			}()
			settle()
			obs1 = collectGets(results)
			hc0.Cacheable(mkResp(1), 60)
			settle()
			if o := collectGets(results); o[1] == "(TUpstream LFetching)" {
				held.Cacheable(mkResp(2), 60) // it became a second fetcher: let that fetch end too
				settle()
			}
			obs2 = collectGets(results)
			cache.ResetDispatchers(nil)
		case 2:
			name := fmt.Sprintf("choreo%d", i)
			url := "fake://" + name
			bs := &blockingStore{fakeStore: fakeStore{data: map[string][]byte{}}, entered: make(chan struct{}, 1)}
			store.VerifRegister(url, bs)
			cache.ResetDispatchers([]config.CacheConfig{{Name: name, Size: 64, HitForPass: "300s", Store: url}})
			d := cache.GetDispatcher(name)
			key := []byte(fmt.Sprintf("GET choreo.example /purged/%d", i))
			hc0 := d.GetHTTPCache(key)
			if st, _ := hc0.Get(); st != cache.StatusFetching {
				t.Fatalf("first Get returned %v", st)
			}
			hc0.Cacheable(mkResp(1), 60) // cached and persisted
			bs.gate = make(chan struct{})
			purged := make(chan struct{})
			go func() {
				d.RemoveHTTPCache(key)
				close(purged)
			}()
			<-bs.entered // the purge is inside store.Delete
			var results []chan getResult
			entries := make([]interface {
				Cacheable(*cache.HTTPResponse, int)
			}, nreq+1)
			req := func(j int) {
				ch := make(chan getResult, 1)
				results = append(results, ch)
				go func() {
					hc := d.GetHTTPCache(key)
					entries[j] = hc
					s, r := hc.Get()
					ch <- getResult{s, ridOf(r)}
				}()
			}
			for j := 0; j < nreq; j++ {
				req(j) // arrives while the purge is in progress
				settle()
			}
			close(bs.gate)
			<-purged
			settle()
			req(nreq) // arrives after the purge has returned
			settle()
			obs1 = collectGets(results)
			for j, o := range obs1 {
				if o == "(TUpstream LFetching)" {
					entries[j].Cacheable(mkResp(2), 60)
				}
			}
			settle()
			obs2 = collectGets(results)
			cache.ResetDispatchers(nil)
		}
		term := fmt.Sprintf("{| ch_kind := %d; ch_queue := %s; ch_requests := %d; ch_obs1 := %s; ch_obs2 := %s |}", kind, hx.List(qs), nreq, hx.List(obs1), hx.List(obs2))
		rep := map[string]interface{}{"kind": []string{"entry-handoff", "zone-handoff", "purge-window", "lookup-purge-get"}[kind], "queue": strings.Join(qs, " "), "requests": nreq, "after_queue_drained": obs1, "after_completion": obs2}
		w.Add(term, rep)
		sum.Evaluations++
		sum.Count(rep["kind"].(string))
		distinct.Add(fmt.Sprintf("%d|%s|%d", kind, strings.Join(qs, " "), nreq))
		// harness-side checks (concrete failing schedules)
		nf := 0
		for _, o := range obs1 {
			if o == "(TUpstream LFetching)" {
				nf++
			}
		}
		if kind == 1 && nf > 1 {
			rep["property"] = "C01"
			rep["what"] = fmt.Sprintf("%d concurrent fetchers for one cold key", nf)
			sum.ImplViolations = append(sum.ImplViolations, rep)
		}
		for _, o := range obs2 {
			if o == "TParked" {
				rep["property"] = "C02"
				rep["what"] = "a request is still parked although no fetch is in flight"
				sum.ImplViolations = append(sum.ImplViolations, rep)
				break
			}
		}
		if kind == 2 && len(obs2) > 0 && strings.Contains(obs2[len(obs2)-1], "LHit (Some 1)") {
			rep["property"] = "C18"
			rep["what"] = "the request that arrived after the purge returned is answered from the purged entry"
			sum.ImplViolations = append(sum.ImplViolations, rep)
		}
		sum.Sample(rep)
	}
	_ = os.Remove(out + "/inflight.json")
	runtime.GOMAXPROCS(4) // the last scenario needs real blocking, not a forced schedule
	slowStoreRead(sum)
	overlappingStoreReads(sum, false)
	overlappingStoreReads(sum, true)
	purgeAfterSlowWrite(sum)
	w.Flush()
	sum.DistinctNontrivial = distinct.Len()
	sum.Write(out)
}
