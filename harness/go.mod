module pikeverif

go 1.26.8

replace github.com/vicanso/pike => /repo

replace google.golang.org/grpc => google.golang.org/grpc v1.26.0

replace github.com/coreos/bbolt => go.etcd.io/bbolt v1.3.5

require (
	github.com/andybalholm/brotli v1.0.3
	github.com/golang/snappy v0.0.3
	github.com/klauspost/compress v1.13.1
	github.com/pierrec/lz4 v2.6.1+incompatible
	github.com/vicanso/elton v1.4.2
	github.com/vicanso/pike v0.0.0-00010101000000-000000000000
	github.com/vicanso/upstream v0.2.0
)

require (
	github.com/DataDog/zstd v1.4.1 // indirect
	github.com/aws/aws-sdk-go v1.34.28 // indirect
	github.com/cespare/xxhash v1.1.0 // indirect
	github.com/cespare/xxhash/v2 v2.1.1 // indirect
	github.com/coreos/etcd v3.3.25+incompatible // indirect
	github.com/coreos/go-semver v0.3.0 // indirect
	github.com/coreos/go-systemd v0.0.0-20190321100706-95778dfbb74e // indirect
	github.com/coreos/pkg v0.0.0-20180928190104-399ea9e2e55f // indirect
	github.com/dgraph-io/badger/v3 v3.2103.0 // indirect
	github.com/dgraph-io/ristretto v0.0.4-0.20210309073149-3836124cdc5a // indirect
	github.com/dgrijalva/jwt-go v3.2.0+incompatible // indirect
	github.com/dgryski/go-rendezvous v0.0.0-20200823014737-9f7001d12a5f // indirect
	github.com/dustin/go-humanize v1.0.0 // indirect
	github.com/fsnotify/fsnotify v1.4.9 // indirect
	github.com/go-playground/locales v0.13.0 // indirect
	github.com/go-playground/universal-translator v0.17.0 // indirect
	github.com/go-playground/validator/v10 v10.6.1 // indirect
	github.com/go-redis/redis/v8 v8.11.0 // indirect
	github.com/go-stack/stack v1.8.0 // indirect
	github.com/gogo/protobuf v1.3.2 // indirect
	github.com/golang/groupcache v0.0.0-20210331224755-41bb18bfe9da // indirect
	github.com/golang/protobuf v1.4.2 // indirect
	github.com/google/flatbuffers v1.12.0 // indirect
	github.com/google/uuid v1.2.0 // indirect
	github.com/jmespath/go-jmespath v0.4.0 // indirect
	github.com/leodido/go-urn v1.2.0 // indirect
	github.com/pkg/errors v0.9.1 // indirect
	github.com/shirou/gopsutil/v3 v3.21.5 // indirect
	github.com/tidwall/gjson v1.8.1 // indirect
	github.com/tidwall/match v1.0.3 // indirect
	github.com/tidwall/pretty v1.1.0 // indirect
	github.com/tklauser/go-sysconf v0.3.4 // indirect
	github.com/tklauser/numcpus v0.2.1 // indirect
	github.com/vicanso/elton-jwt v1.2.1 // indirect
	github.com/vicanso/hes v0.3.9 // indirect
	github.com/vicanso/intranet-ip v0.0.1 // indirect
	github.com/vicanso/keygrip v1.2.1 // indirect
	github.com/xdg-go/pbkdf2 v1.0.0 // indirect
	github.com/xdg-go/scram v1.0.2 // indirect
	github.com/xdg-go/stringprep v1.0.2 // indirect
	github.com/youmark/pkcs8 v0.0.0-20181117223130-1be2e3e5546d // indirect
	go.mongodb.org/mongo-driver v1.5.3 // indirect
	go.opencensus.io v0.22.5 // indirect
	go.uber.org/atomic v1.8.0 // indirect
	go.uber.org/multierr v1.6.0 // indirect
	go.uber.org/zap v1.18.1 // indirect
	golang.org/x/crypto v0.0.0-20200622213623-75b288015ac9 // indirect
	golang.org/x/net v0.0.0-20210614182718-04defd469f4e // indirect
	golang.org/x/sync v0.0.0-20201020160332-67f06af15bc9 // indirect
	golang.org/x/sys v0.0.0-20210423082822-04245dca01da // indirect
	golang.org/x/text v0.3.6 // indirect
	google.golang.org/genproto v0.0.0-20191108220845-16a3f7862a1a // indirect
	google.golang.org/grpc v1.23.0 // indirect
	google.golang.org/protobuf v1.23.0 // indirect
	gopkg.in/natefinch/lumberjack.v2 v2.0.0 // indirect
	gopkg.in/yaml.v2 v2.4.0 // indirect
)
