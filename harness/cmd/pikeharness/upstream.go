package main

import (
	"fmt"
	"net/http"
	"net/http/httptest"
	"sync/atomic"

	"github.com/vicanso/elton"
	"github.com/vicanso/elton/middleware"
	pup "github.com/vicanso/pike/upstream"
	us "github.com/vicanso/upstream"
	"pikeverif/internal/hx"
)

func init() { families["upstream"] = runUpstream }

var statusCoq = map[int32]string{us.UpstreamUnknown: "UUnknown", us.UpstreamSick: "USick", us.UpstreamHealthy: "UHealthy", us.UpstreamIgnored: "UIgnored"}

type upBackend struct {
	srv       *httptest.Server
	failsLeft atomic.Int32
}

// upstream family (C19): pike's NewUpstreamServer + target picker over the
// real vicanso/upstream library, with local listeners for health-check rounds.
func runUpstream(seed uint64, n int, tier string, out string, replay string) {
	rnd := hx.NewRand(seed)
	sum := hx.NewSummary("upstream", seed)
	sum.Rule = "one case = 1-4 upstream servers (random primary/backup mix, one of the four policies) built with pike's NewUpstreamServer against local HTTP listeners; ops: set a server healthy/sick/ignored through the library, pick a target through pike's target picker (batches of 3-12), finish a least-conn request, run one real DoHealthCheck round in which each listener fails a chosen number (0-5) of the 5 pings; a case is re-run if the library's background checker interfered; non-trivial = some pick happened while a primary was down or a backup was in use; distinct by op sequence"
	header := "From Coq Require Import List NArith ZArith.\nImport ListNotations.\nFrom Pike Require Import Model.Upstream Corr.C19Corr.\n"
	w := hx.NewCaseWriter(out, "upstream", header, "list u_case", "check_cases", 25, sum)
	distinct := hx.NewDistinct()
	policies := []string{us.PolicyFirst, us.PolicyRandom, us.PolicyRoundRobin, us.PolicyLeastconn, us.PolicyRoundRobin}
	polCoq := map[string]string{us.PolicyFirst: "PFirst", us.PolicyRandom: "PRandom", us.PolicyRoundRobin: "PRoundRobin", us.PolicyLeastconn: "PLeastConn"}
	for ci := 0; ci < n; ci++ {
		ns := 1 + rnd.Intn(4)
		policy := policies[rnd.Intn(len(policies))]
		backs := make([]*upBackend, ns)
		var cfgs []pup.UpstreamServerConfig
		var backupFlags []string
		urlIndex := map[string]int{}
		for i := 0; i < ns; i++ {
			b := &upBackend{}
			b.srv = httptest.NewServer(http.HandlerFunc(func(w http.ResponseWriter, r *http.Request) {
				if b.failsLeft.Add(-1) >= 0 {
					w.WriteHeader(500)
					return
				}
				w.WriteHeader(200)
			}))
			backs[i] = b
			backup := rnd.Chance(35)
			cfgs = append(cfgs, pup.UpstreamServerConfig{Addr: b.srv.URL, Backup: backup})
			backupFlags = append(backupFlags, hx.Bool(backup))
			urlIndex[b.srv.URL] = i
		}
		portCheck := rnd.Chance(40)
		healthPath := "/ping"
		if portCheck {
			healthPath = ""
			sum.Count("mode:port-check")
		} else {
			sum.Count("mode:http-ping")
		}
		var ops []string
		var rep []string
		nontrivial := false
		closed := make([]bool, ns)
		for attempt := 0; attempt < 5; attempt++ {
			ops, rep = nil, nil
			savedRnd := *rnd
			for _, b := range backs {
				b.failsLeft.Store(0)
			}
			srv := pup.NewUpstreamServer(pup.UpstreamServerOption{Name: fmt.Sprintf("u%d", ci), HealthCheck: healthPath, Policy: policy, Servers: cfgs})
			srv.Destroy()
			uh := srv.HTTPUpstream
			picker := pup.VerifNewTargetPicker(uh)
			list := uh.GetUpstreamList()
			expect := make([]int32, ns)
			interfered := false
			setStatus := func(i int, st int32) {
				switch st {
				case us.UpstreamHealthy:
					list[i].Healthy()
				case us.UpstreamSick:
					list[i].Sick()
				case us.UpstreamIgnored:
					list[i].Ignored()
				}
				expect[i] = st
				ops = append(ops, fmt.Sprintf("USet %d %s", i, statusCoq[st]))
				rep = append(rep, fmt.Sprintf("set %d %s", i, statusCoq[st]))
			}
			verify := func() {
				for i := range list {
					if list[i].Status() != expect[i] {
						interfered = true
					}
				}
			}
			for i := 0; i < ns; i++ {
				setStatus(i, []int32{us.UpstreamHealthy, us.UpstreamHealthy, us.UpstreamSick}[rnd.Intn(3)])
			}
			pending := map[int][]middleware.ProxyDone{}
			nops := 6 + rnd.Intn(10)
			for k := 0; k < nops && !interfered; k++ {
				x := rnd.Intn(100)
				switch {
				case x < 30:
					st := []int32{us.UpstreamHealthy, us.UpstreamSick, us.UpstreamSick, us.UpstreamHealthy, us.UpstreamIgnored}[rnd.Intn(5)]
					if st == us.UpstreamIgnored && !rnd.Chance(20) {
						st = us.UpstreamSick
					}
					setStatus(rnd.Intn(ns), st)
				case x < 80:
					batch := 3 + rnd.Intn(10)
					for j := 0; j < batch; j++ {
						verify()
						u, done, err := picker(&elton.Context{})
						verify()
						if err != nil || u == nil {
							ops = append(ops, "UPick None")
							rep = append(rep, "pick none")
							sum.Count("pick:none")
							continue
						}
						idx := urlIndex[u.String()]
						ops = append(ops, fmt.Sprintf("UPick (Some %d)", idx))
						rep = append(rep, fmt.Sprintf("pick %d", idx))
						sum.Count("pick:" + policy)
						if done != nil {
							pending[idx] = append(pending[idx], done)
						}
						if cfgs[idx].Backup {
							nontrivial = true
						}
						for i := range list {
							if !cfgs[i].Backup && expect[i] != us.UpstreamHealthy {
								nontrivial = true
							}
						}
					}
				case x < 88:
					for idx, ds := range pending {
						if len(ds) > 0 {
							ds[0](nil)
							pending[idx] = ds[1:]
							ops = append(ops, fmt.Sprintf("UDone %d", idx))
							rep = append(rep, fmt.Sprintf("done %d", idx))
							break
						}
					}
				default:
					var fails []string
					for i, b := range backs {
						f := []int{0, 0, 1, 2, 3, 5}[rnd.Intn(6)]
						if portCheck {
							// TCP port check: a listener that went down fails all five probes, and stays down
							if !closed[i] && rnd.Chance(30) && attempt == 0 {
								b.srv.Close()
								closed[i] = true
							}
							f = 0
							if closed[i] {
								f = 5
							}
						}
						if expect[i] == us.UpstreamIgnored {
							f = 0 // ignored servers are not pinged at all
						}
						b.failsLeft.Store(int32(f))
						fails = append(fails, fmt.Sprint(f))
					}
					verify()
					uh.DoHealthCheck()
					var after []string
					for i := range list {
						expect[i] = list[i].Status()
						after = append(after, statusCoq[expect[i]])
					}
					for _, b := range backs {
						b.failsLeft.Store(0)
					}
					ops = append(ops, fmt.Sprintf("UCheck %s %s", hx.List(fails), hx.List(after)))
					rep = append(rep, fmt.Sprintf("check fails=%v after=%v", fails, after))
					sum.Count("health-round")
				}
			}
			if !interfered {
				break
			}
			*rnd = savedRnd
			sum.Count("rerun-after-checker-interference")
		}
		for i, b := range backs {
			if !closed[i] {
				b.srv.Close()
			}
		}
		var opTerms []string
		for _, o := range ops {
			opTerms = append(opTerms, "("+o+")")
		}
		term := fmt.Sprintf("{| uc_policy := %s; uc_backup := %s; uc_ops := %s |}", polCoq[policy], hx.List(backupFlags), hx.List(opTerms))
		r := map[string]interface{}{"policy": policy, "backup": backupFlags, "ops": rep}
		w.Add(term, r)
		sum.Evaluations++
		if nontrivial {
			distinct.Add(fmt.Sprint(policy, backupFlags, rep))
		}
		sum.Sample(r)
	}
	w.Flush()
	sum.DistinctNontrivial = distinct.Len()
	sum.Write(out)
}
