package main

import (
	"fmt"
	"net"
	"net/http"
	"net/http/httptest"
	"sync/atomic"
	"time"

	"github.com/vicanso/elton"
	"github.com/vicanso/elton/middleware"
	"github.com/vicanso/pike/cache"
	"github.com/vicanso/pike/config"
	"github.com/vicanso/pike/location"
	"github.com/vicanso/pike/server"
	pup "github.com/vicanso/pike/upstream"
	us "github.com/vicanso/upstream"
	"pikeverif/internal/hx"
)

func init() { families["upstream"] = runUpstream }

var statusCoq = map[int32]string{us.UpstreamUnknown: "UUnknown", us.UpstreamSick: "USick", us.UpstreamHealthy: "UHealthy", us.UpstreamIgnored: "UIgnored"}

type upBackend struct {
	srv       *httptest.Server
	failsLeft atomic.Int32
}

// upstream family (C19): pike's NewUpstreamServer + target picker over the
// real vicanso/upstream library, with local listeners for health-check rounds.
func runUpstream(seed uint64, n int, tier string, out string, replay string) {
	rnd := hx.NewRand(seed)
	sum := hx.NewSummary("upstream", seed)
	sum.Rule = "one case = 1-4 upstream servers (random primary/backup mix, one of the four policies) built with pike's NewUpstreamServer against local HTTP listeners; ops: set a server healthy/sick/ignored through the library, pick a target through pike's target picker (batches of 3-12), finish a least-conn request, run one real DoHealthCheck round in which each listener fails a chosen number (0-5) of the 5 pings; a case is re-run if the library's background checker interfered; non-trivial = some pick happened while a primary was down or a backup was in use; distinct by op sequence; plus 6 end-to-end scenarios (one per policy and two more): primary + backup origins behind the upstream registry, requests through ONE long-lived proxy middleware, health driven through the origins' /ping answers and explicit DoHealthCheck rounds, with configuration reloads (upstream.Reset, same configuration) between the health changes: primary -> backup -> 5xx without contacting anyone -> backup -> primary; plus a one-server and a two-server upstream created while their servers are down, the servers coming up 300 ms later with nobody triggering a check: picks must succeed within 14 s"
	finishRecovery := recoversByItself(sum)
	header := "From Coq Require Import List NArith ZArith.\nImport ListNotations.\nFrom Pike Require Import Model.Upstream Corr.C19Corr.\n"
	w := hx.NewCaseWriter(out, "upstream", header, "list u_case", "check_cases", 25, sum)
	distinct := hx.NewDistinct()
	policies := []string{us.PolicyFirst, us.PolicyRandom, us.PolicyRoundRobin, us.PolicyLeastconn, us.PolicyRoundRobin}
	polCoq := map[string]string{us.PolicyFirst: "PFirst", us.PolicyRandom: "PRandom", us.PolicyRoundRobin: "PRoundRobin", us.PolicyLeastconn: "PLeastConn"}
	for ci := 0; ci < n; ci++ {
		ns := 1 + rnd.Intn(4)
		policy := policies[rnd.Intn(len(policies))]
		backs := make([]*upBackend, ns)
		var cfgs []pup.UpstreamServerConfig
		var backupFlags []string
		urlIndex := map[string]int{}
		for i := 0; i < ns; i++ {
			b := &upBackend{}
			b.srv = httptest.NewServer(http.HandlerFunc(func(w http.ResponseWriter, r *http.Request) {
				if b.failsLeft.Add(-1) >= 0 {
					w.WriteHeader(500)
					return
				}
				w.WriteHeader(200)
			}))
			backs[i] = b
			backup := rnd.Chance(35)
			cfgs = append(cfgs, pup.UpstreamServerConfig{Addr: b.srv.URL, Backup: backup})
			backupFlags = append(backupFlags, hx.Bool(backup))
			urlIndex[b.srv.URL] = i
		}
		portCheck := rnd.Chance(40)
		healthPath := "/ping"
		if portCheck {
			healthPath = ""
			sum.Count("mode:port-check")
		} else {
			sum.Count("mode:http-ping")
		}
		var ops []string
		var rep []string
		nontrivial := false
		closed := make([]bool, ns)
		for attempt := 0; attempt < 5; attempt++ {
			ops, rep = nil, nil
			savedRnd := *rnd
			for _, b := range backs {
				b.failsLeft.Store(0)
			}
			srv := pup.NewUpstreamServer(pup.UpstreamServerOption{Name: fmt.Sprintf("u%d", ci), HealthCheck: healthPath, Policy: policy, Servers: cfgs})
			srv.Destroy()
			uh := srv.HTTPUpstream
			picker := pup.VerifNewTargetPicker(uh)
			list := uh.GetUpstreamList()
			expect := make([]int32, ns)
			interfered := false
			setStatus := func(i int, st int32) {
				switch st {
				case us.UpstreamHealthy:
					list[i].Healthy()
				case us.UpstreamSick:
					list[i].Sick()
				case us.UpstreamIgnored:
					list[i].Ignored()
				}
				expect[i] = st
				ops = append(ops, fmt.Sprintf("USet %d %s", i, statusCoq[st]))
				rep = append(rep, fmt.Sprintf("set %d %s", i, statusCoq[st]))
			}
			verify := func() {
				for i := range list {
					if list[i].Status() != expect[i] {
						interfered = true
					}
				}
			}
			for i := 0; i < ns; i++ {
				setStatus(i, []int32{us.UpstreamHealthy, us.UpstreamHealthy, us.UpstreamSick}[rnd.Intn(3)])
			}
			pending := map[int][]middleware.ProxyDone{}
			nops := 6 + rnd.Intn(10)
			for k := 0; k < nops && !interfered; k++ {
				x := rnd.Intn(100)
				switch {
				case x < 30:
					st := []int32{us.UpstreamHealthy, us.UpstreamSick, us.UpstreamSick, us.UpstreamHealthy, us.UpstreamIgnored}[rnd.Intn(5)]
					if st == us.UpstreamIgnored && !rnd.Chance(20) {
						st = us.UpstreamSick
					}
					setStatus(rnd.Intn(ns), st)
				case x < 80:
					batch := 3 + rnd.Intn(10)
					for j := 0; j < batch; j++ {
						verify()
						u, done, err := picker(&elton.Context{})
						verify()
						if err != nil || u == nil {
							ops = append(ops, "UPick None")
							rep = append(rep, "pick none")
							sum.Count("pick:none")
							continue
						}
						idx := urlIndex[u.String()]
						ops = append(ops, fmt.Sprintf("UPick (Some %d)", idx))
						rep = append(rep, fmt.Sprintf("pick %d", idx))
						sum.Count("pick:" + policy)
						if done != nil {
							pending[idx] = append(pending[idx], done)
						}
						if cfgs[idx].Backup {
							nontrivial = true
						}
						for i := range list {
							if !cfgs[i].Backup && expect[i] != us.UpstreamHealthy {
								nontrivial = true
							}
						}
					}
				case x < 88:
					for idx, ds := range pending {
						if len(ds) > 0 {
							ds[0](nil)
							pending[idx] = ds[1:]
							ops = append(ops, fmt.Sprintf("UDone %d", idx))
							rep = append(rep, fmt.Sprintf("done %d", idx))
							break
						}
					}
				default:
					var fails []string
					for i, b := range backs {
						f := []int{0, 0, 1, 2, 3, 5}[rnd.Intn(6)]
						if portCheck {
							// TCP port check: a listener that went down fails all five probes, and stays down
							if !closed[i] && rnd.Chance(30) && attempt == 0 {
								b.srv.Close()
								closed[i] = true
							}
							f = 0
							if closed[i] {
								f = 5
							}
						}
						if expect[i] == us.UpstreamIgnored {
							f = 0 // ignored servers are not pinged at all
						}
						b.failsLeft.Store(int32(f))
						fails = append(fails, fmt.Sprint(f))
					}
					verify()
					uh.DoHealthCheck()
					var after []string
					for i := range list {
						expect[i] = list[i].Status()
						after = append(after, statusCoq[expect[i]])
					}
					for _, b := range backs {
						b.failsLeft.Store(0)
					}
					ops = append(ops, fmt.Sprintf("UCheck %s %s", hx.List(fails), hx.List(after)))
					rep = append(rep, fmt.Sprintf("check fails=%v after=%v", fails, after))
					sum.Count("health-round")
				}
			}
			if !interfered {
				break
			}
			*rnd = savedRnd
			sum.Count("rerun-after-checker-interference")
		}
		for i, b := range backs {
			if !closed[i] {
				b.srv.Close()
			}
		}
		var opTerms []string
		for _, o := range ops {
			opTerms = append(opTerms, "("+o+")")
		}
		term := fmt.Sprintf("{| uc_policy := %s; uc_backup := %s; uc_ops := %s |}", polCoq[policy], hx.List(backupFlags), hx.List(opTerms))
		r := map[string]interface{}{"policy": policy, "backup": backupFlags, "ops": rep}
		w.Add(term, r)
		sum.Evaluations++
		if nontrivial {
			distinct.Add(fmt.Sprint(policy, backupFlags, rep))
		}
		sum.Sample(r)
	}
	for k := 0; k < 6; k++ {
		if v := upstreamReloadE2E(rnd, k, sum); v != nil {
			sum.ImplViolations = append(sum.ImplViolations, v)
		}
	}
	w.Flush()
	sum.DistinctNontrivial = distinct.Len()
	finishRecovery()
	sum.Write(out)
}

// recoversByItself: upstreams with one and with two servers, created while every server is down; the servers
// come up 300 ms later and NOBODY triggers a health check: the library's periodic checker must notice, and
// picks must succeed again within 14 s ("traffic resumes by itself once a server recovers").  Returns the
// function that evaluates the outcome at the end of the family (the wait overlaps the other cases).
func recoversByItself(sum *hx.Summary) func() {
	type sc struct {
		name  string
		addrs []string
	}
	scs := []sc{{"one-server", []string{"127.0.0.1:39181"}}, {"two-servers", []string{"127.0.0.1:39182", "127.0.0.1:39183"}}}
	type live struct {
		sc     sc
		srv    interface{ Destroy() }
		picker func() bool
		lns    []net.Listener
	}
	var lives []*live
	for _, c := range scs {
		var cfgs []pup.UpstreamServerConfig
		for _, a := range c.addrs {
			cfgs = append(cfgs, pup.UpstreamServerConfig{Addr: "http://" + a})
		}
		srv := pup.NewUpstreamServer(pup.UpstreamServerOption{Name: "rec-" + c.name, HealthCheck: "/ping", Policy: "roundRobin", Servers: cfgs})
		pk := pup.VerifNewTargetPicker(srv.HTTPUpstream)
		l := &live{sc: c, srv: srv, picker: func() bool {
			u, done, err := pk(&elton.Context{})
			if done != nil {
				done(nil)
			}
			return err == nil && u != nil
		}}
		if l.picker() {
			sum.Count("recovery-scenario-skipped(port in use)")
			srv.Destroy()
			continue
		}
		lives = append(lives, l)
	}
	time.Sleep(300 * time.Millisecond)
	for _, l := range lives {
		for _, a := range l.sc.addrs {
			ln, err := net.Listen("tcp", a)
			if err != nil {
				continue
			}
			l.lns = append(l.lns, ln)
			go func() {
				_ = http.Serve(ln, http.HandlerFunc(func(rw http.ResponseWriter, r *http.Request) { _, _ = rw.Write([]byte("pong")) }))
			}()
		}
	}
	start := time.Now()
	return func() {
		for _, l := range lives {
			ok := false
			for time.Since(start) < 14*time.Second {
				if l.picker() {
					ok = true
					break
				}
				time.Sleep(250 * time.Millisecond)
			}
			sum.Count("recovery-scenario:" + l.sc.name)
			if !ok && len(l.lns) == len(l.sc.addrs) {
				sum.ImplViolations = append(sum.ImplViolations, map[string]interface{}{"property": "C19", "kind": "traffic-does-not-resume-after-recovery", "upstream": l.sc.name, "servers": l.sc.addrs,
					"what": "the upstream was created while its servers were down; they came up 300 ms later; 14 s later (health checks run every 5 s) no request can be forwarded yet"})
			}
			l.srv.Destroy()
			for _, ln := range l.lns {
				_ = ln.Close()
			}
		}
	}
}

// upstreamReloadE2E: a primary and a backup origin behind the upstream registry, requests through ONE
// long-lived proxy middleware (as a running server has), with configuration reloads (upstream.Reset with
// the same configuration) between health changes.  Health is driven through the origins' /ping answers
// and explicit DoHealthCheck rounds on the live upstream.
func upstreamReloadE2E(rnd *hx.Rand, k int, sum *hx.Summary) map[string]interface{} {
	type origin struct {
		srv  *httptest.Server
		sick atomic.Bool
		hits atomic.Int64
	}
	mk := func(name string) *origin {
		o := &origin{}
		o.srv = httptest.NewServer(http.HandlerFunc(func(rw http.ResponseWriter, r *http.Request) {
			if r.URL.Path == "/ping" {
				if o.sick.Load() {
					rw.WriteHeader(500)
				} else {
					rw.WriteHeader(200)
				}
				return
			}
			o.hits.Add(1)
			rw.Header().Set("X-Origin-Name", name)
			rw.WriteHeader(200)
			_, _ = rw.Write([]byte(name))
		}))
		return o
	}
	a, b := mk("primary"), mk("backup")
	defer a.srv.Close()
	defer b.srv.Close()
	policy := []string{"first", "roundRobin", "", "random"}[k%4]
	uname := fmt.Sprintf("ue%d", k)
	cfg := []config.UpstreamConfig{{Name: uname, HealthCheck: "/ping", Policy: policy,
		Servers: []config.UpstreamServerConfig{{Addr: a.srv.URL}, {Addr: b.srv.URL, Backup: true}}}}
	pup.Reset(cfg)
	defer pup.Reset(nil)
	location.Reset([]config.LocationConfig{{Name: "ul", Upstream: uname}})
	defer location.Reset(nil)
	mid := server.NewProxy(server.NewServer(server.ServerOption{Locations: []string{"ul"}}))
	request := func() string {
		req := httptest.NewRequest("GET", "http://ue.example/x", nil)
		req.RequestURI = "/x"
		c := elton.NewContext(httptest.NewRecorder(), req)
		c.Next = func() error { return nil }
		server.VerifSetCacheStatus(c, cache.StatusPassed)
		if err := mid(c); err != nil {
			return "error"
		}
		if resp := server.VerifGetHTTPResp(c); resp != nil {
			return resp.Header.Get("X-Origin-Name")
		}
		return "?"
	}
	var script []string
	fail := func(step, want, got string) map[string]interface{} {
		return map[string]interface{}{"property": "C19", "kind": "e2e-after-reload", "policy": policy, "script": script, "step": step, "expected": want, "answered_by": got}
	}
	expect := func(step, want string) map[string]interface{} {
		script = append(script, step+" -> expect "+want)
		for i := 0; i < 3; i++ {
			if got := request(); got != want {
				return fail(step, want, got)
			}
		}
		return nil
	}
	settle := func() {
		pup.Get(uname).HTTPUpstream.DoHealthCheck()
		_ = pup.Get(uname).GetServerStatusList() // what the admin page asks for; must be a pure query
	}
	reload := func() {
		if rnd.Chance(70) {
			pup.Reset(cfg)
			script = append(script, "reload (same configuration)")
		}
	}
	sum.Count("e2e-reload-scenario")
	if v := expect("start", "primary"); v != nil {
		return v
	}
	reload()
	a.sick.Store(true)
	settle()
	if v := expect("primary sick", "backup"); v != nil {
		return v
	}
	reload()
	b.sick.Store(true)
	settle()
	if v := expect("both sick", "error"); v != nil {
		return v
	}
	// no server healthy: concurrent requests for ONE url through the full chain (cache + proxy) must each get
	// their 5xx promptly — none may stay parked behind the failed fetch
	{
		cache.ResetDispatchers([]config.CacheConfig{{Name: "uc", Size: 100, HitForPass: "5m"}})
		s := server.NewServer(server.ServerOption{Locations: []string{"ul"}, Cache: "uc"})
		e := elton.New()
		e.Use(middleware.NewDefaultError())
		e.Use(server.NewResponder())
		e.Use(server.NewCache(s))
		e.Use(server.NewProxy(s))
		e.ALL("/*", func(c *elton.Context) error { return nil })
		codes := make(chan int, 8)
		for g := 0; g < 6; g++ {
			go func() {
				r := httptest.NewRequest("GET", "http://ue.example/all-down", nil)
				rec := httptest.NewRecorder()
				e.ServeHTTP(rec, r)
				codes <- rec.Code
			}()
		}
		script = append(script, "both sick: 6 concurrent GETs of one URL through cache+proxy -> expect six 5xx within 4 s")
		deadline := time.After(4 * time.Second)
		for got := 0; got < 6; got++ {
			select {
			case c := <-codes:
				if c < 500 {
					return fail("both sick, concurrent requests for one URL", "5xx", fmt.Sprint(c))
				}
			case <-deadline:
				return fail("both sick, concurrent requests for one URL", "six 5xx answers within 4 s", fmt.Sprintf("only %d of 6 requests were answered", got))
			}
		}
		cache.ResetDispatchers(nil)
	}
	if a.hits.Load()+b.hits.Load() != 6 {
		return fail("both sick", "no origin contacted", fmt.Sprintf("%d requests reached an origin", a.hits.Load()+b.hits.Load()-6))
	}
	reload()
	b.sick.Store(false)
	settle()
	if v := expect("backup recovered", "backup"); v != nil {
		return v
	}
	reload()
	a.sick.Store(false)
	settle()
	if v := expect("primary recovered", "primary"); v != nil {
		return v
	}
	return nil
}
