package main

import (
	"fmt"
	"net/http"
	"net/http/httptest"
	"strconv"

	"github.com/vicanso/elton"
	"github.com/vicanso/pike/cache"
	"github.com/vicanso/pike/server"
	"pikeverif/internal/hx"
)

func init() { families["respond"] = runRespond }

// respond family (C15, C04): the real responder middleware on generated responses.
func runRespond(seed uint64, n int, tier string, out string, replay string) {
	rnd := hx.NewRand(seed)
	sum := hx.NewSummary("respond", seed)
	sum.Rule = "one case = one response object (1-5 headers incl. multi-valued ones; the origin's own Age absent / '30' / '0' / non-numeric; sometimes an origin X-Status), an age measured by pike in {0, 0, 1, 59, 3600} and a cache-status label; the headers Fill alone produces are compared with what the real NewResponder produces; non-trivial = the origin sent Age or pike measured one; distinct by (headers, age, label)"
	header := "From Coq Require Import List NArith ZArith.\nImport ListNotations.\nFrom Pike Require Import Base.Bytes Model.MaxAge Model.Responder Corr.ResponderCorr.\n"
	w := hx.NewCaseWriter(out, "respond", header, "list rp_case", "check_cases", 100, sum)
	distinct := hx.NewDistinct()
	labels := []cache.Status{cache.StatusFetching, cache.StatusHitForPass, cache.StatusHit, cache.StatusPassed}
	for i := 0; i < n; i++ {
		h := http.Header{}
		nk := 1 + rnd.Intn(5)
		for k := 0; k < nk; k++ {
			key := rnd.Pick([]string{"Content-Type", "Etag", "X-Multi", "Cache-Control", "Vary", "X-Origin", "Age", "X-Status", "Age"})
			switch key {
			case "Age":
				h.Set("Age", rnd.Pick([]string{"30", "0", "abc", "7"}))
			case "X-Multi":
				h.Add("X-Multi", "a")
				h.Add("X-Multi", rnd.Pick([]string{"b", "", "a"}))
			default:
				h.Set(key, rnd.Pick([]string{"v1", "text/plain", "\"e\"", "max-age=60", "origin-says-hit"}))
			}
		}
		age := []int{0, 0, 1, 59, 3600}[rnd.Intn(5)]
		label := labels[rnd.Intn(len(labels))]
		mk := func() *cache.HTTPResponse {
			return &cache.HTTPResponse{StatusCode: 200, Header: h.Clone(), RawBody: []byte("body")}
		}
		// what Fill alone produces
		c1 := elton.NewContext(httptest.NewRecorder(), httptest.NewRequest("GET", "/", nil))
		if err := mk().Fill(c1); err != nil {
			panic(err)
		}
		filled := headerLines(c1.Header(), nil)
		// the responder
		c2 := elton.NewContext(httptest.NewRecorder(), httptest.NewRequest("GET", "/", nil))
		c2.Next = func() error { return nil }
		server.VerifSetHTTPResp(c2, mk())
		server.VerifSetHTTPRespAge(c2, age)
		server.VerifSetCacheStatus(c2, label)
		if err := server.NewResponder()(c2); err != nil {
			panic(err)
		}
		outLines := headerLines(c2.Header(), nil)
		ageTerm := "None"
		if age > 0 {
			ageTerm = "(Some " + hx.Str(strconv.Itoa(age)) + ")"
		}
		rep := map[string]interface{}{"origin_headers": fmt.Sprint(h), "measured_age": age, "label": label.String(), "client_headers": fmt.Sprint(c2.Header())}
		w.Add(fmt.Sprintf("{| rp_filled := %s; rp_age := %s; rp_label := %s; rp_out := %s |}", coqHeaders(filled), ageTerm, hx.Str(label.String()), coqHeaders(outLines)), rep)
		sum.Evaluations++
		if h.Get("Age") != "" || age > 0 {
			distinct.Add(fmt.Sprint(h, age, label))
		}
		sum.Count(fmt.Sprintf("age:%d", age))
		sum.Sample(rep)
	}
	w.Flush()
	sum.DistinctNontrivial = distinct.Len()
	sum.Write(out)
}
