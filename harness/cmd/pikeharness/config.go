package main

import (
	"encoding/json"
	"errors"
	"fmt"
	"net"
	"net/http"
	"net/http/httptest"
	"os"
	"os/exec"
	"path/filepath"
	"reflect"
	"sort"
	"strings"
	"sync"
	"time"

	"github.com/vicanso/pike/cache"
	"github.com/vicanso/pike/compress"
	"github.com/vicanso/pike/config"
	"github.com/vicanso/pike/location"
	"github.com/vicanso/pike/server"
	"github.com/vicanso/pike/store"
	"github.com/vicanso/pike/upstream"
	"pikeverif/internal/hx"
)

func init() {
	families["config"] = runConfig
	families["reconf"] = runReconf
	families["reconf-child"] = runReconfChild
}

// ---------------------------------------------------------------- generation

type genCfg struct {
	cfg config.PikeConfig
	// validity of the library-validated fields, as chosen by the generator
	adminOK bool
	cacheOK []([2]bool) // hfp, store
	upOK    []bool
	locOK   []bool
	srvOK   []bool
	srvMin  []int64
	srvFilt []string
}

var cfgNames = []string{"a", "b", "c", "d"}

func pickName(r *hx.Rand, allowBad bool) string {
	if allowBad && r.Chance(4) {
		return r.Pick([]string{"", "this-name-is-longer-than-20-chars"})
	}
	return cfgNames[r.Intn(len(cfgNames))]
}

// danglingName: a name that does not exist among the entries of the referenced kind: "nosuch", or (60% when
// there is one) the name of an entry of ANOTHER kind of the same configuration
func danglingName(r *hx.Rand, sum *hx.Summary, right []string, others ...[]string) string {
	var cand []string
	for _, o := range others {
		for _, n := range o {
			ok := n != ""
			for _, x := range right {
				if x == n {
					ok = false
				}
			}
			if ok {
				cand = append(cand, n)
			}
		}
	}
	if len(cand) > 0 && r.Chance(60) {
		sum.Count("bad:dangling-named-like-another-kind")
		return cand[r.Intn(len(cand))]
	}
	return "nosuch"
}

func genConfig(r *hx.Rand, valid bool, sum *hx.Summary) *genCfg {
	g := &genCfg{adminOK: true}
	namesOf := func() (comp, caches, ups, locs []string) {
		for _, c := range g.cfg.Compresses {
			comp = append(comp, c.Name)
		}
		for _, c := range g.cfg.Caches {
			caches = append(caches, c.Name)
		}
		for _, u := range g.cfg.Upstreams {
			ups = append(ups, u.Name)
		}
		for _, l := range g.cfg.Locations {
			locs = append(locs, l.Name)
		}
		return
	}
	bad := func(p int) bool { return !valid && r.Chance(p) }
	if r.Chance(30) {
		g.cfg.Admin = config.AdminConfig{User: "admin", Password: "123456"}
		if bad(5) {
			g.cfg.Admin.User = "ab"
			g.adminOK = false
			sum.Count("bad:admin")
		}
	}
	// compresses
	nc := r.Intn(3)
	for i := 0; i < nc; i++ {
		name := []string{"p1", "p2", "bestCompression"}[r.Intn(3)]
		if bad(3) {
			name = ""
		}
		lv := map[string]uint{}
		if r.Bool() {
			lv["gzip"] = uint([]int{1, 6, 9, 12}[r.Intn(4)])
		}
		if r.Bool() {
			lv["br"] = uint([]int{1, 5, 11}[r.Intn(3)])
		}
		if r.Chance(10) {
			lv["zstd"] = 3
		}
		g.cfg.Compresses = append(g.cfg.Compresses, config.CompressConfig{Name: name, Levels: lv})
	}
	// caches
	nca := 1 + r.Intn(2)
	for i := 0; i < nca; i++ {
		c := config.CacheConfig{Name: []string{"c1", "c2", "c3"}[r.Intn(3)], Size: 10 + r.Intn(100), HitForPass: "5m"}
		ok := [2]bool{true, true}
		if bad(4) {
			c.HitForPass = r.Pick([]string{"", "abc"})
			ok[0] = false
			sum.Count("bad:hitForPass")
		}
		if bad(3) {
			c.Store = "not a url"
			ok[1] = false
			sum.Count("bad:store")
		} else if valid {
			// reconf sequences: c1 and c2 share one persistent store, c3 has none (a cache keeps its store for the whole sequence: cache settings are restart-only)
			c.Store = map[string]string{"c1": "fake://shared", "c2": "fake://shared", "c3": ""}[c.Name]
		}
		if bad(3) {
			c.Size = 0
		}
		g.cfg.Caches = append(g.cfg.Caches, c)
		g.cacheOK = append(g.cacheOK, ok)
	}
	// upstreams
	nu := 1 + r.Intn(3)
	for i := 0; i < nu; i++ {
		uname := "u" + fmt.Sprint(r.Intn(4))
		if r.Chance(12) { // names that look like variable references are names like any other
			uname = r.Pick([]string{"$u1", "$", "${u2}", "$HOME"})
			sum.Count("upstream-name-with-dollar")
		}
		u := config.UpstreamConfig{Name: uname, HealthCheck: r.Pick([]string{"", "/ping"}),
			Policy: r.Pick([]string{"", "first", "roundRobin", "random", "leastconn"}), AcceptEncoding: r.Pick([]string{"", "gzip", "gzip, br"})}
		ok := true
		ns := 1 + r.Intn(2)
		for j := 0; j < ns; j++ {
			sv := config.UpstreamServerConfig{Addr: "http://127.0.0.1:1", Backup: r.Chance(30)}
			if bad(3) {
				// wrong or missing scheme, and addresses with the right scheme that do not parse as URLs
				sv.Addr = r.Pick([]string{"ftp://x", "", "http://10.0.0.1:808O", "http://a b.example:80", "http://[::1", "https://h.example/%zz", "http://h.example:port", "127.0.0.1:3015", "://nohost"})
				ok = false
				sum.Count("bad:addr")
			}
			u.Servers = append(u.Servers, sv)
		}
		if bad(3) {
			u.HealthCheck = "ping"
			ok = false
		}
		if bad(3) {
			u.Policy = "bogus"
			ok = false
		}
		if bad(2) {
			u.AcceptEncoding = "gzíp"
			ok = false
		}
		if bad(2) {
			u.Servers = nil
		}
		g.cfg.Upstreams = append(g.cfg.Upstreams, u)
		g.upOK = append(g.upOK, ok)
	}
	upNames := []string{}
	for _, u := range g.cfg.Upstreams {
		upNames = append(upNames, u.Name)
	}
	// locations
	nl := 1 + r.Intn(4)
	for i := 0; i < nl; i++ {
		l := config.LocationConfig{Name: "l" + fmt.Sprint(r.Intn(4)), Upstream: upNames[r.Intn(len(upNames))]}
		ok := true
		if r.Chance(40) {
			l.Hosts = [][]string{{"aa.com"}, {"bb.com", "aa.com"}}[r.Intn(2)]
		}
		if r.Chance(50) {
			l.Prefixes = [][]string{{"/api"}, {"/static", "/api/v1"}}[r.Intn(2)]
		}
		if r.Chance(20) {
			l.ProxyTimeout = "3s"
		}
		if r.Chance(20) {
			l.ReqHeaders = []string{"X-Req:1"}
			l.RespHeaders = []string{"X-Resp:2"}
		}
		if !valid && r.Chance(12) { // dangling upstream, more often on a later location
			comp, caches, ups, locs := namesOf()
			l.Upstream = danglingName(r, sum, ups, comp, caches, append(locs, l.Name))
			sum.Count("bad:dangling-upstream")
		}
		if bad(3) {
			l.Prefixes = []string{"api"}
			ok = false
		}
		if bad(3) {
			l.Rewrites = []string{"a:b:c"}
			ok = false
		}
		if bad(3) {
			l.Hosts = []string{"a b"}
			ok = false
		}
		if bad(3) {
			l.ProxyTimeout = "3"
			ok = false
		}
		g.cfg.Locations = append(g.cfg.Locations, l)
		g.locOK = append(g.locOK, ok)
	}
	locNames := []string{}
	for _, l := range g.cfg.Locations {
		locNames = append(locNames, l.Name)
	}
	// servers
	ns := 1 + r.Intn(3)
	for i := 0; i < ns; i++ {
		s := config.ServerConfig{Addr: fmt.Sprintf(":%d", 7000+r.Intn(4)), Cache: g.cfg.Caches[r.Intn(len(g.cfg.Caches))].Name}
		ok := true
		k := 1 + r.Intn(2)
		for j := 0; j < k; j++ {
			s.Locations = append(s.Locations, locNames[r.Intn(len(locNames))])
		}
		if len(g.cfg.Compresses) > 0 && r.Chance(50) {
			s.Compress = g.cfg.Compresses[r.Intn(len(g.cfg.Compresses))].Name
		}
		var minLen int64
		if r.Chance(50) {
			s.CompressMinLength = r.Pick([]string{"1kb", "500", "2KB"})
			minLen = map[string]int64{"1kb": 1000, "500": 500, "2KB": 2000}[s.CompressMinLength]
		}
		filt := ""
		if r.Chance(30) {
			filt = r.Pick([]string{"json", "text|xml"})
			s.CompressContentTypeFilter = filt
		}
		if !valid {
			switch r.Intn(14) {
			case 0:
				comp, caches, ups, locs := namesOf()
				s.Locations = append(s.Locations, danglingName(r, sum, locs, comp, caches, ups))
				sum.Count("bad:dangling-location")
			case 1:
				comp, caches, ups, locs := namesOf()
				s.Cache = danglingName(r, sum, caches, comp, ups, locs)
				sum.Count("bad:dangling-cache")
			case 2:
				comp, caches, ups, locs := namesOf()
				s.Compress = danglingName(r, sum, comp, caches, ups, locs)
				sum.Count("bad:dangling-compress")
			case 3:
				s.CompressMinLength = "abc"
				ok = false
			case 4:
				s.CompressContentTypeFilter = "("
				ok = false
			case 5:
				s.Addr = ""
			case 6:
				s.Locations = nil
			case 7:
				s.Cache = ""
			}
		}
		g.cfg.Servers = append(g.cfg.Servers, s)
		g.srvOK = append(g.srvOK, ok)
		g.srvMin = append(g.srvMin, minLen)
		g.srvFilt = append(g.srvFilt, filt)
	}
	return g
}

// ---------------------------------------------------------------- Coq terms

func coqOptZ(m map[string]uint, k string) string {
	v, ok := m[k]
	if !ok {
		return "None"
	}
	return "(Some " + hx.Z(int64(v)) + ")"
}

func (g *genCfg) coq() string {
	var comps, caches, ups, locs, srvs []string
	for _, c := range g.cfg.Compresses {
		comps = append(comps, fmt.Sprintf("{| cc_name := %s; cc_gzip := %s; cc_br := %s |}", hx.Str(c.Name), coqOptZ(c.Levels, "gzip"), coqOptZ(c.Levels, "br")))
	}
	for i, c := range g.cfg.Caches {
		caches = append(caches, fmt.Sprintf("{| ca_name := %s; ca_size := %s; ca_hfp_ok := %s; ca_store_ok := %s |}", hx.Str(c.Name), hx.Z(int64(c.Size)), hx.Bool(g.cacheOK[i][0]), hx.Bool(g.cacheOK[i][1])))
	}
	for i, u := range g.cfg.Upstreams {
		var flags []string
		for _, s := range u.Servers {
			flags = append(flags, hx.Bool(s.Backup))
		}
		ups = append(ups, fmt.Sprintf("{| up_name := %s; up_fields_ok := %s; up_servers := %d; up_policy := %s; up_accept := %s; up_backup_flags := %s |}",
			hx.Str(u.Name), hx.Bool(g.upOK[i]), len(u.Servers), hx.Str(u.Policy), hx.Str(u.AcceptEncoding), hx.List(flags)))
	}
	for i, l := range g.cfg.Locations {
		locs = append(locs, fmt.Sprintf("{| lo_name := %s; lo_upstream := %s; lo_fields_ok := %s; lo_hosts := %s; lo_prefixes := %s |}",
			hx.Str(l.Name), hx.Str(l.Upstream), hx.Bool(g.locOK[i]), strList(l.Hosts), strList(l.Prefixes)))
	}
	for i, s := range g.cfg.Servers {
		srvs = append(srvs, fmt.Sprintf("{| sv_addr := %s; sv_fields_ok := %s; sv_locations := %s; sv_cache := %s; sv_compress := %s; sv_min_length := %s; sv_filter := %s |}",
			hx.Str(s.Addr), hx.Bool(g.srvOK[i]), strList(s.Locations), hx.Str(s.Cache), hx.Str(s.Compress), hx.Z(g.srvMin[i]), coqOptBytes(g.srvFilt[i] != "", g.srvFilt[i])))
	}
	return fmt.Sprintf("{| pc_admin_ok := %s; pc_compresses := %s; pc_caches := %s; pc_upstreams := %s; pc_locations := %s; pc_servers := %s |}",
		hx.Bool(g.adminOK), hx.List(comps), hx.List(caches), hx.List(ups), hx.List(locs), hx.List(srvs))
}

func verdictOf(err error) string {
	switch {
	case err == nil:
		return "VOk"
	case errors.Is(err, config.ErrUpstreamNotFound):
		return "VUpstream"
	case errors.Is(err, config.ErrLocationNotFound):
		return "VLocation"
	case errors.Is(err, config.ErrCacheNotFound):
		return "VCache"
	case errors.Is(err, config.ErrCompressNotFound):
		return "VCompress"
	}
	return "VField"
}

// applyConfig applies a configuration through the five exported Reset
// functions in main.update's order (servers are not started: no sockets).
func applyConfig(c *config.PikeConfig) {
	compress.Reset(c.Compresses)
	cache.ResetDispatchers(c.Caches)
	upstream.Reset(c.Upstreams)
	location.Reset(c.Locations)
	server.Reset(c.Servers)
}

// resolves: what a request on that server needs at run time.
func serverResolves(addr string) bool {
	s := server.Get(addr)
	if s == nil {
		return false
	}
	if cache.GetDispatcher(s.GetCache()) == nil {
		return false
	}
	names := s.GetLocations()
	// every listed location name must be present, and every location carrying one of these names must have its upstream
	for _, n := range names {
		found := false
		for _, h := range []string{"aa.com", "bb.com", "zz.com"} {
			for _, u := range []string{"/", "/api/v1/x", "/static/y", "/api"} {
				if l := location.Get(h, u, n); l != nil {
					found = true
					if upstream.Get(l.Upstream) == nil {
						return false
					}
				}
			}
		}
		if !found {
			return false
		}
	}
	return true
}

// config family (C17)
func runConfig(seed uint64, n int, tier string, out string, replay string) {
	rnd := hx.NewRand(seed)
	sum := hx.NewSummary("config", seed)
	sum.Rule = "one case = one generated configuration (0-2 compress profiles, 1-2 caches, 1-3 upstreams, 1-4 locations, 1-3 servers; names drawn from small pools so duplicates occur); 45% valid (of which 15% then get exactly one malformed upstream field: health path, policy or an address — wrong scheme, or right scheme but not parseable as a URL); the others carry 1-3 defects: each kind of dangling reference (upstream on any location incl. later ones, location / cache / compress on a server; the dangling name is 'nosuch' or the name of an entry of another kind) and each kind of malformed field (durations, sizes, regexps, addresses, url paths, divide pairs, hostnames, policy, names too long or empty, empty required lists); Validate's verdict is compared, accepted configurations are applied through the five Reset functions and every server is probed; every accepted configuration also goes through Write/Read (YAML file client) with every remark field set to a string from a pool of 35 that need quoting (multi-line with and without final newline, leading/trailing blanks, YAML keywords, numbers, indicators, unicode, CRLF) and is compared field by field (directly, and again through the admin GET /config handler with the upstreams live), twice in a row through the same client (second document: other remarks, sometimes fewer sections); a Write or Read error on an accepted configuration is reported too; non-trivial = rejected for a reference error or accepted with >= 2 servers; distinct by configuration"
	header := "From Coq Require Import List NArith ZArith.\nImport ListNotations.\nFrom Pike Require Import Base.Bytes Model.Config Corr.ConfigCorr.\n"
	w := hx.NewCaseWriter(out, "config", header, "list cf_case", "check_cases", 60, sum)
	distinct := hx.NewDistinct()
	tmpdir, _ := os.MkdirTemp("", "pikeverif-cfg-")
	defer os.RemoveAll(tmpdir)
	for i := 0; i < n; i++ {
		valid := rnd.Chance(45)
		g := genConfig(rnd, valid, sum)
		if valid && rnd.Chance(15) && len(g.cfg.Upstreams) > 0 {
			// an otherwise valid configuration with exactly ONE malformed field in one upstream
			ui := rnd.Intn(len(g.cfg.Upstreams))
			u := &g.cfg.Upstreams[ui]
			switch rnd.Intn(4) {
			case 0:
				u.HealthCheck = "ping"
			case 1:
				u.Policy = "bogus"
			default:
				if len(u.Servers) > 0 {
					u.Servers[rnd.Intn(len(u.Servers))].Addr = rnd.Pick([]string{"ftp://x", "", "http://10.0.0.1:808O", "http://a b.example:80", "http://[::1", "https://h.example/%zz", "http://h.example:port", "127.0.0.1:3015", "://nohost", "HTTPS://Upper.example:1x"})
				} else {
					u.Policy = "bogus"
				}
			}
			g.upOK[ui] = false
			sum.Count("single-defect:upstream-field")
		}
		err := g.cfg.Validate()
		v := verdictOf(err)
		var resolved []string
		rep := map[string]interface{}{"verdict": v}
		b, _ := json.Marshal(g.cfg)
		rep["config"] = string(b)
		if err == nil {
			applyConfig(&g.cfg)
			seen := map[string]bool{}
			for _, s := range g.cfg.Servers {
				if seen[s.Addr] {
					continue
				}
				seen[s.Addr] = true
				ok := serverResolves(s.Addr)
				resolved = append(resolved, fmt.Sprintf("(%s, %s)", hx.Str(s.Addr), hx.Bool(ok)))
				if !ok {
					rep["unresolved_server"] = s.Addr
				}
			}
			{ // YAML round trip through the file client: the accepted configuration, its free-text fields set to values that need YAML quoting
				file := filepath.Join(tmpdir, fmt.Sprintf("c%d.yml", i))
				if e := config.InitDefaultClient(file); e == nil {
					cp := deepCopyCfg(&g.cfg)
					decorateRemarks(cp, rnd)
					want := deepCopyCfg(cp)
					fail := func(kind string, err error) {
						y, _ := json.Marshal(want)
						sum.ImplViolations = append(sum.ImplViolations, map[string]interface{}{"property": "C17", "kind": kind, "error": fmt.Sprint(err), "config": string(y)})
					}
					// saved twice through the same client (the second document has other remarks, usually a
					// different length, and in half of the cases fewer sections), read back after each save
					for round := 0; round < 2; round++ {
						if round == 1 {
							cp = deepCopyCfg(&g.cfg)
							decorateRemarks(cp, rnd)
							if rnd.Bool() && len(cp.Compresses) > 0 {
								used := map[string]bool{}
								for _, sv := range cp.Servers {
									used[sv.Compress] = true
								}
								keep := cp.Compresses[:0:0]
								for _, c := range cp.Compresses {
									if used[c.Name] {
										keep = append(keep, c)
									}
								}
								cp.Compresses = keep
							}
							want = deepCopyCfg(cp)
						}
						if e := config.Write(cp); e != nil {
							fail(fmt.Sprintf("yaml-write-error (save %d)", round+1), e)
							break
						} else if back, e2 := config.Read(); e2 != nil {
							fail(fmt.Sprintf("yaml-read-error (save %d)", round+1), e2)
							break
						} else {
							back.YAML, back.Version = "", ""
							want.YAML, want.Version = "", ""
							if !reflect.DeepEqual(normalizeCfg(back), normalizeCfg(want)) {
								fail(fmt.Sprintf("yaml-roundtrip (save %d)", round+1), nil)
								break
							}
							sum.Count("yaml-roundtrip")
							// the same saved document read through the admin API (GET /config, which decorates the
							// live upstreams with their health): apart from the health flag it is the saved configuration
							if viaAdmin := adminReadConfig(); viaAdmin != nil {
								for ui := range viaAdmin.Upstreams {
									for si := range viaAdmin.Upstreams[ui].Servers {
										viaAdmin.Upstreams[ui].Servers[si].Healthy = false
									}
								}
								viaAdmin.YAML = ""
								if !strings.HasPrefix(viaAdmin.Version, "<admin") {
									viaAdmin.Version = ""
								}
								if !reflect.DeepEqual(normalizeCfg(viaAdmin), normalizeCfg(want)) {
									fail(fmt.Sprintf("admin-read-differs-from-saved (save %d)", round+1), nil)
									break
								}
								sum.Count("admin-roundtrip")
							}
						}
					}
					_ = config.Close()
				}
			}
		}
		w.Add(fmt.Sprintf("{| cf_cfg := %s; cf_impl := %s; cf_resolved := %s |}", g.coq(), v, hx.List(resolved)), rep)
		sum.Evaluations++
		sum.Count("verdict:" + v)
		if (v != "VOk" && v != "VField") || (v == "VOk" && len(g.cfg.Servers) >= 2) {
			distinct.Add(string(b))
		}
		sum.Sample(rep)
	}
	w.Flush()
	sum.DistinctNontrivial = distinct.Len()
	sum.Write(out)
}

const cfgAdminAddr = "127.0.0.1:39177"

var cfgAdminOnce sync.Once

// adminReadConfig: GET /config on an admin server without login; nil when the server cannot be reached
func adminReadConfig() *config.PikeConfig {
	cfgAdminOnce.Do(func() {
		go func() { _ = server.StartAdminServer(server.AdminServerConfig{Addr: cfgAdminAddr}) }()
		for i := 0; i < 100; i++ {
			if c, err := net.DialTimeout("tcp", cfgAdminAddr, 100*time.Millisecond); err == nil {
				c.Close()
				break
			}
			time.Sleep(20 * time.Millisecond)
		}
	})
	resp, err := http.Get("http://" + cfgAdminAddr + "/config")
	if err != nil {
		return nil
	}
	defer resp.Body.Close()
	var c config.PikeConfig
	if resp.StatusCode != 200 || json.NewDecoder(resp.Body).Decode(&c) != nil {
		return &config.PikeConfig{Version: fmt.Sprintf("<admin answered %d or an undecodable body>", resp.StatusCode)} // differs from every saved configuration
	}
	return &c
}

func normalizeCfg(c *config.PikeConfig) *config.PikeConfig {
	// nil vs empty slices/maps are the same configuration
	b, _ := json.Marshal(c)
	var x config.PikeConfig
	_ = json.Unmarshal(b, &x)
	return &x
}

// ---------------------------------------------------------------- reconf (C16)

type robs struct {
	Servers []string
	Ups     []string
	Caches  []string
	Levels  []string
	Route   []string
	Extra   map[string]interface{} // compared live vs fresh on the Go side only
}

// reconfProbeBody: 24 KB of text whose gzip / brotli sizes differ between levels
var reconfProbeBody = func() []byte {
	var b []byte
	for i := 0; len(b) < 24000; i++ {
		b = append(b, []byte(fmt.Sprintf("line %d: the quick brown fox jumps over the lazy dog %d times; ", i, i*i%97))...)
	}
	return b
}()

func observeRegistries(addrs, upNames, cacheNames, profNames, locNames []string) robs {
	var o robs
	for _, a := range addrs {
		s := server.Get(a)
		if s == nil {
			o.Servers = append(o.Servers, fmt.Sprintf("{| so_addr := %s; so_present := false; so_locs := []; so_cache := []%%N; so_compress := []%%N; so_min := 0%%Z; so_filter := None |}", hx.Str(a)))
			continue
		}
		name, min, filt := s.GetCompress()
		f := "None"
		if filt != nil {
			f = "(Some " + hx.Str(filt.String()) + ")"
		}
		o.Servers = append(o.Servers, fmt.Sprintf("{| so_addr := %s; so_present := true; so_locs := %s; so_cache := %s; so_compress := %s; so_min := %s; so_filter := %s |}",
			hx.Str(a), strList(s.GetLocations()), hx.Str(s.GetCache()), hx.Str(name), hx.Z(int64(min)), f))
	}
	for _, n := range upNames {
		u := upstream.Get(n)
		if u == nil {
			o.Ups = append(o.Ups, fmt.Sprintf("{| uo_name := %s; uo_present := false; uo_policy := []%%N; uo_accept := []%%N; uo_backup := [] |}", hx.Str(n)))
			continue
		}
		var flags []string
		for _, sv := range u.Option.Servers {
			flags = append(flags, hx.Bool(sv.Backup))
		}
		o.Ups = append(o.Ups, fmt.Sprintf("{| uo_name := %s; uo_present := true; uo_policy := %s; uo_accept := %s; uo_backup := %s |}",
			hx.Str(n), hx.Str(u.Option.Policy), hx.Str(u.Option.AcceptEncoding), hx.List(flags)))
	}
	o.Extra = map[string]interface{}{}
	for _, n := range upNames {
		if u := upstream.Get(n); u != nil {
			var sv []string
			for _, x := range u.Option.Servers {
				sv = append(sv, fmt.Sprintf("%s backup=%v", x.Addr, x.Backup))
			}
			var pool []string
			for _, x := range u.HTTPUpstream.GetUpstreamList() {
				pool = append(pool, fmt.Sprintf("%s backup=%v", x.URL.String(), x.Backup))
			}
			o.Extra["upstream:"+n] = map[string]interface{}{"health": u.Option.HealthCheck, "policy": u.Option.Policy, "h2c": u.Option.EnableH2C, "accept": u.Option.AcceptEncoding, "servers": sv, "pool": pool}
		}
	}
	for _, n := range cacheNames {
		o.Caches = append(o.Caches, fmt.Sprintf("(%s, %s)", hx.Str(n), hx.Bool(cache.GetDispatcher(n) != nil)))
		if n == "c1" || n == "c2" {
			o.Extra["cache-store:"+n] = persistProbe(n)
		}
	}
	for _, n := range profNames {
		srv := compress.Get(n)
		o.Levels = append(o.Levels, fmt.Sprintf("(%s, (%s, %s))", hx.Str(n), hx.Z(int64(srv.GetLevel("gzip"))), hx.Z(int64(srv.GetLevel("br")))))
		// what the profile's encoders actually produce for a fixed body (the level in effect shows in the size)
		gz, _ := srv.Gzip(reconfProbeBody)
		br, _ := srv.Brotli(reconfProbeBody)
		o.Extra["encoded-probe:"+n] = map[string]interface{}{"gzip_len": len(gz), "br_len": len(br)}
	}
	for _, h := range []string{"aa.com", "bb.com", "zz.com"} {
		for _, u := range []string{"/", "/api/v1/x", "/static/y"} {
			for _, n := range locNames {
				l := location.Get(h, u, n)
				r := "None"
				if l != nil {
					r = "(Some " + hx.Str(l.Upstream) + ")"
				}
				o.Route = append(o.Route, fmt.Sprintf("(%s, %s, %s, %s)", hx.Str(h), hx.Str(u), hx.Str(n), r))
				if l != nil {
					req := httptest.NewRequest("GET", "http://"+h+u+"?q=1", nil)
					if l.URLRewriter != nil {
						l.URLRewriter(req)
					}
					o.Extra["route:"+h+u+":"+n] = map[string]interface{}{"name": l.Name, "upstream": l.Upstream, "prefixes": l.Prefixes, "rewrites": l.Rewrites, "hosts": l.Hosts,
						"timeout": l.ProxyTimeout.String(), "resp": l.ResponseHeader, "req": l.RequestHeader, "query": l.Query, "rewritten": req.URL.Path}
				}
			}
		}
	}
	return o
}

func (o robs) coq() string {
	return fmt.Sprintf("{| ro_servers := %s; ro_ups := %s; ro_caches := %s; ro_levels := %s; ro_route := %s |}",
		hx.List(o.Servers), hx.List(o.Ups), hx.List(o.Caches), hx.List(o.Levels), hx.List(o.Route))
}

type reconfProbe struct {
	Addrs, Ups, Caches, Profiles, Locs []string
}

func unionNames(cfgs []*genCfg) reconfProbe {
	set := func() map[string]bool { return map[string]bool{} }
	a, u, c, p, l := set(), set(), set(), set(), set()
	for _, g := range cfgs {
		for _, s := range g.cfg.Servers {
			a[s.Addr] = true
		}
		for _, x := range g.cfg.Upstreams {
			u[x.Name] = true
		}
		for _, x := range g.cfg.Caches {
			c[x.Name] = true
		}
		if g == cfgs[len(cfgs)-1] { // profiles of earlier configurations are never deleted but cannot be named by the final one
			for _, x := range g.cfg.Compresses {
				p[x.Name] = true
			}
		}
		for _, x := range g.cfg.Locations {
			l[x.Name] = true
		}
	}
	p["bestCompression"] = true
	keys := func(m map[string]bool) []string {
		var k []string
		for x := range m {
			k = append(k, x)
		}
		sort.Strings(k)
		return k
	}
	return reconfProbe{keys(a), keys(u), keys(c), keys(p), keys(l)}
}

// reconf-child: apply ONE configuration to a fresh process and print the observations.
func runReconfChild(seed uint64, n int, tier string, out string, replay string) {
	b, err := os.ReadFile(replay)
	if err != nil {
		panic(err)
	}
	var in struct {
		Config config.PikeConfig
		Probe  reconfProbe
	}
	if err := json.Unmarshal(b, &in); err != nil {
		panic(err)
	}
	registerFakeStores()
	applyConfig(&in.Config)
	o := observeRegistries(in.Probe.Addrs, in.Probe.Ups, in.Probe.Caches, in.Probe.Profiles, in.Probe.Locs)
	fmt.Println("ROBS " + o.coq())
	xb, _ := json.Marshal(o.Extra)
	fmt.Println("XOBS " + string(xb))
}

func runReconf(seed uint64, n int, tier string, out string, replay string) {
	rnd := hx.NewRand(seed)
	sum := hx.NewSummary("reconf", seed)
	sum.Rule = "one case = a sequence of 2-5 valid configurations (sections added / removed / modified, optional fields set and unset: compress levels, min length, filter, upstream options, location constraints; profile named bestCompression overridden and dropped) applied through the five Reset functions in main.update's order to one process, observed through the exported getters (server bindings and thresholds, upstream options, dispatcher presence and identity, compress levels per profile name, routing probes over 3 hosts x 3 URIs x location names; Go-side additionally (caches c1 and c2 share one persistent store) whether a response cached through each surviving store-backed cache reaches the store, every upstream's full option set and server pool, and for every routing probe the chosen location's rewrites, added headers/query, timeout and the rewritten path) ; at the start the file watcher gets two saves in quick succession (the second while the first reload is being applied: the last one must be reloaded) and four really listening servers are reduced to one by a single update and, 12 s later, the three removed addresses must refuse connections while the survivor accepts) and compared with a FRESH child process that applies only the last configuration; non-trivial = the last configuration differs from the previous one in some section; distinct by the sequence"
	header := "From Coq Require Import List NArith ZArith.\nImport ListNotations.\nFrom Pike Require Import Base.Bytes Model.Config Corr.ConfigCorr.\n"
	w := hx.NewCaseWriter(out, "reconf", header, "list rc_case", "check_reconf", 10, sum)
	distinct := hx.NewDistinct()
	self, _ := os.Executable()
	registerFakeStores()
	tmpdir, _ := os.MkdirTemp("", "pikeverif-reconf-")
	defer os.RemoveAll(tmpdir)
	if n >= 40 {
		if v := savesInQuickSuccession(tmpdir); v != nil {
			sum.ImplViolations = append(sum.ImplViolations, v)
		}
		sum.Count("watch-scenario")
	}
	finishListeners := func() {}
	if n >= 40 { // the listener scenario takes 12 s: only in runs of C16's size
		finishListeners = removedServersStopListening(sum)
	}
	for i := 0; i < n; i++ {
		k := 2 + rnd.Intn(4)
		var seq []*genCfg
		for len(seq) < k {
			g := genConfig(rnd, true, sum)
			if g.cfg.Validate() == nil {
				seq = append(seq, g)
			}
		}
		if rnd.Chance(55) { // the last configuration is a small edit of the previous one: optional fields unset, one-field edits of upstreams (a backup flag, policy, accept-encoding, health path, server order) and locations (rewrites, headers, query, timeout)
			prev := seq[len(seq)-2]
			b, _ := json.Marshal(prev.cfg)
			var c2 config.PikeConfig
			_ = json.Unmarshal(b, &c2)
			g2 := *prev
			g2.cfg = c2
			g2.srvMin = append([]int64{}, prev.srvMin...)
			g2.srvFilt = append([]string{}, prev.srvFilt...)
			for j := range g2.cfg.Servers {
				if rnd.Bool() {
					g2.cfg.Servers[j].CompressMinLength = ""
					g2.srvMin[j] = 0
				}
				if rnd.Bool() {
					g2.cfg.Servers[j].CompressContentTypeFilter = ""
					g2.srvFilt[j] = ""
				}
			}
			for j := range g2.cfg.Upstreams { // one-field edits of an upstream that keeps its name and addresses
				u := &g2.cfg.Upstreams[j]
				switch rnd.Intn(6) {
				case 0:
					k := rnd.Intn(len(u.Servers))
					u.Servers[k].Backup = !u.Servers[k].Backup
					sum.Count("edit:upstream-backup-flag")
				case 1:
					u.Policy = rnd.Pick([]string{"", "first", "roundRobin", "random", "leastconn"})
					sum.Count("edit:upstream-policy")
				case 2:
					u.AcceptEncoding = rnd.Pick([]string{"", "gzip", "gzip, br"})
					sum.Count("edit:upstream-accept")
				case 3:
					u.HealthCheck = rnd.Pick([]string{"", "/ping", "/health"})
					sum.Count("edit:upstream-health")
				case 4:
					if len(u.Servers) > 1 {
						u.Servers[0], u.Servers[1] = u.Servers[1], u.Servers[0]
						sum.Count("edit:upstream-server-order")
					}
				}
			}
			for j := range g2.cfg.Locations { // one-field edits of a location
				l := &g2.cfg.Locations[j]
				switch rnd.Intn(7) {
				case 0:
					l.Rewrites = pickL(rnd, [][]string{nil, {"/api/*:/$1"}, {"/api/*:/v2/$1", "/static/*:/s/$1"}})
					sum.Count("edit:location-rewrites")
				case 1:
					l.RespHeaders = pickL(rnd, [][]string{nil, {"X-R:1"}, {"X-R:2", "X-S:3"}})
					sum.Count("edit:location-resp-headers")
				case 2:
					l.ReqHeaders = pickL(rnd, [][]string{nil, {"X-Q:1"}, {"X-Q:2"}})
					sum.Count("edit:location-req-headers")
				case 3:
					l.QueryStrings = pickL(rnd, [][]string{nil, {"a:1"}, {"a:2", "b:3"}})
					sum.Count("edit:location-query")
				case 4:
					l.ProxyTimeout = rnd.Pick([]string{"", "1s", "30s"})
					sum.Count("edit:location-timeout")
				}
			}
			for j := range g2.cfg.Compresses {
				if rnd.Bool() {
					lv := map[string]uint{}
					for kk, vv := range g2.cfg.Compresses[j].Levels {
						if rnd.Bool() {
							lv[kk] = vv
						}
					}
					g2.cfg.Compresses[j].Levels = lv
				}
			}
			if rnd.Chance(30) && len(g2.cfg.Compresses) > 0 {
				// drop a profile nobody references
				keep := g2.cfg.Compresses[:0:0]
				for _, c := range g2.cfg.Compresses {
					used := false
					for _, s := range g2.cfg.Servers {
						if s.Compress == c.Name {
							used = true
						}
					}
					if used || rnd.Bool() {
						keep = append(keep, c)
					}
				}
				g2.cfg.Compresses = keep
			}
			if g2.cfg.Validate() == nil {
				seq[len(seq)-1] = &g2
				sum.Count("last-is-edit-of-previous")
			}
		}
		probe := unionNames(seq)
		// live process: apply the sequence
		before := map[string]interface{}{}
		for j, g := range seq {
			if j == len(seq)-1 {
				for _, cn := range probe.Caches {
					if d := cache.GetDispatcher(cn); d != nil {
						before[cn] = d
					}
				}
			}
			applyConfig(&g.cfg)
			// the running instance serves compressed responses under every configuration of the sequence
			for _, pn := range probe.Profiles {
				if sv := compress.Get(pn); sv != nil {
					_, _ = sv.Gzip(reconfProbeBody)
					_, _ = sv.Brotli(reconfProbeBody)
				}
			}
		}
		live := observeRegistries(probe.Addrs, probe.Ups, probe.Caches, probe.Profiles, probe.Locs)
		var retained []string
		for _, cn := range probe.Caches {
			if d0, ok := before[cn]; ok {
				if d1 := cache.GetDispatcher(cn); d1 != nil {
					retained = append(retained, fmt.Sprintf("(%s, %s)", hx.Str(cn), hx.Bool(interface{}(d1) == d0)))
				}
			}
		}
		// fresh process
		in := map[string]interface{}{"Config": seq[len(seq)-1].cfg, "Probe": probe}
		b, _ := json.Marshal(in)
		file := filepath.Join(tmpdir, fmt.Sprintf("in%d.json", i))
		_ = os.WriteFile(file, b, 0o644)
		cmd := exec.Command(self, "reconf-child", "--replay", file)
		outb, err := cmd.Output()
		fresh := ""
		freshExtra := ""
		for _, line := range strings.Split(string(outb), "\n") {
			if strings.HasPrefix(line, "ROBS ") {
				fresh = strings.TrimPrefix(line, "ROBS ")
			}
			if strings.HasPrefix(line, "XOBS ") {
				freshExtra = strings.TrimPrefix(line, "XOBS ")
			}
		}
		liveExtraB, _ := json.Marshal(live.Extra)
		if err != nil || fresh == "" {
			panic(fmt.Sprintf("reconf child failed: %v %s", err, string(outb)))
		}
		var cfgTerms []string
		var cfgJSON []string
		for _, g := range seq {
			cfgTerms = append(cfgTerms, g.coq())
			jb, _ := json.Marshal(g.cfg)
			cfgJSON = append(cfgJSON, string(jb))
		}
		rep := map[string]interface{}{"configs": cfgJSON, "live_equals_fresh": live.coq() == fresh && string(liveExtraB) == freshExtra}
		if string(liveExtraB) != freshExtra {
			var fe map[string]interface{}
			_ = json.Unmarshal([]byte(freshExtra), &fe)
			var le map[string]interface{}
			_ = json.Unmarshal(liveExtraB, &le)
			diff := map[string]interface{}{}
			for k, v := range le {
				if !reflect.DeepEqual(v, fe[k]) {
					diff[k] = map[string]interface{}{"live": v, "fresh": fe[k]}
				}
			}
			for k, v := range fe {
				if _, ok := le[k]; !ok {
					diff[k] = map[string]interface{}{"live": nil, "fresh": v}
				}
			}
			sum.ImplViolations = append(sum.ImplViolations, map[string]interface{}{"property": "C16", "kind": "live-differs-from-fresh", "differences": diff, "configs": cfgJSON})
		}
		w.Add(fmt.Sprintf("{| rc_cfgs := %s; rc_live := %s; rc_fresh := %s; rc_retained := %s |}", hx.List(cfgTerms), live.coq(), fresh, hx.List(retained)), rep)
		sum.Evaluations++
		if cfgJSON[len(cfgJSON)-1] != cfgJSON[len(cfgJSON)-2] {
			distinct.Add(strings.Join(cfgJSON, "\n"))
		}
		sum.Count(fmt.Sprintf("sequence-length-%d", len(seq)))
		sum.Sample(map[string]interface{}{"configs": cfgJSON[:1], "sequence_length": len(seq), "live_equals_fresh": rep["live_equals_fresh"]})
	}
	finishListeners()
	w.Flush()
	sum.DistinctNontrivial = distinct.Len()
	sum.Write(out)
}

// savesInQuickSuccession: the file client's watcher with a reload callback that takes 300 ms (reading the
// file first, like main.update): a second save that lands while the first reload is still being applied must
// be picked up too — the running instance ends up with the LAST saved configuration
func savesInQuickSuccession(tmpdir string) map[string]interface{} {
	file := filepath.Join(tmpdir, "watched.yml")
	if err := config.InitDefaultClient(file); err != nil {
		return nil
	}
	defer func() { _ = config.Close() }()
	mk := func(remark string) *config.PikeConfig {
		return &config.PikeConfig{Caches: []config.CacheConfig{{Name: "wc", Size: 10, HitForPass: "5m", Remark: remark}}}
	}
	if err := config.Write(mk("initial")); err != nil {
		return nil
	}
	seen := make(chan string, 64)
	go config.Watch(func() {
		c, err := config.Read()
		got := "<unreadable>"
		if err == nil && len(c.Caches) == 1 {
			got = c.Caches[0].Remark
		}
		seen <- got
		time.Sleep(300 * time.Millisecond) // applying the configuration takes a while (health checks)
	})
	time.Sleep(150 * time.Millisecond) // the watcher is armed
	_ = config.Write(mk("first"))
	waitFor := func(want string, d time.Duration) bool {
		deadline := time.After(d)
		for {
			select {
			case got := <-seen:
				if got == want {
					return true
				}
			case <-deadline:
				return false
			}
		}
	}
	if !waitFor("first", 3*time.Second) {
		return nil // no notification at all on this file system: nothing to judge
	}
	time.Sleep(50 * time.Millisecond) // inside the 300 ms during which the first reload is applied
	_ = config.Write(mk("second"))
	if !waitFor("second", 4*time.Second) {
		return map[string]interface{}{"property": "C16", "kind": "last-configuration-update-lost", "what": "a save that landed while the previous reload was being applied was never reloaded: the instance keeps the earlier configuration although the file holds the final one"}
	}
	return nil
}

// removedServersStopListening: four servers really listening on local ports; one update removes three
// of them (and keeps one); after the graceful-close delay the removed addresses must refuse connections
// and the surviving one must still accept.  Returns the function that evaluates the outcome (called at
// the end of the family so that the 10 s close delay overlaps the other cases).
func removedServersStopListening(sum *hx.Summary) func() {
	addrs := []string{"127.0.0.1:39171", "127.0.0.1:39172", "127.0.0.1:39173", "127.0.0.1:39174"}
	var opts []server.ServerOption
	for _, a := range addrs {
		opts = append(opts, server.ServerOption{Addr: a, Locations: []string{"nl"}, Cache: "nc"})
	}
	ss := server.NewServers(opts)
	_ = ss.Start()
	dial := func(a string) bool {
		c, err := net.DialTimeout("tcp", a, 300*time.Millisecond)
		if err != nil {
			return false
		}
		_ = c.Close()
		return true
	}
	deadline := time.Now().Add(3 * time.Second)
	for _, a := range addrs {
		for !dial(a) && time.Now().Before(deadline) {
			time.Sleep(20 * time.Millisecond)
		}
	}
	for _, a := range addrs {
		if !dial(a) {
			sum.Count("listener-scenario-skipped(port busy)")
			_ = ss.Close
			return func() {}
		}
	}
	ss.Reset(opts[:1]) // removes three servers in ONE update
	t0 := time.Now()
	return func() {
		if d := 12*time.Second - time.Since(t0); d > 0 {
			time.Sleep(d)
		}
		sum.Count("listener-scenario")
		var still []string
		// the graceful close waits 10 s; on a loaded machine allow up to 25 s before calling it a violation
		for deadline := t0.Add(25 * time.Second); ; time.Sleep(500 * time.Millisecond) {
			still = nil
			for _, a := range addrs[1:] {
				if dial(a) {
					still = append(still, a)
				}
			}
			if len(still) == 0 || time.Now().After(deadline) {
				break
			}
		}
		kept := dial(addrs[0])
		if len(still) > 0 || !kept {
			sum.ImplViolations = append(sum.ImplViolations, map[string]interface{}{"property": "C16", "kind": "removed-servers-still-listening", "removed_in_one_update": addrs[1:], "still_accepting_after_25s": still, "surviving_server_accepts": kept})
		}
		go func() { _ = ss.Close() }()
	}
}

var _ = httptest.NewRecorder

func deepCopyCfg(c *config.PikeConfig) *config.PikeConfig {
	b, _ := json.Marshal(c)
	out := &config.PikeConfig{}
	_ = json.Unmarshal(b, out)
	return out
}

// free text that needs YAML quoting or block scalars
var trickyText = []string{"", "plain", "first line\nsecond line\n", "note\n\n", "two\nlines", " leading space", "trailing space ", "yes", "null", "~", "123", "1e3", "0x10",
	"key: value", "# not a comment", "- item", "'single'", "\"double\"", "a\tb", "| pipe", "> fold", "%percent", "@at", "!!str tag", "&anchor *alias", "{a: b}", "[1, 2]", "caf\u00e9 \u4e2d\u6587", "\n", "  ", "line\r\nwin", "back\\slash", "?q", "trailing colon:", "\u2028sep"}

func decorateRemarks(c *config.PikeConfig, r *hx.Rand) {
	pick := func() string { return trickyText[r.Intn(len(trickyText))] }
	c.Admin.Remark = pick()
	for i := range c.Compresses {
		c.Compresses[i].Remark = pick()
	}
	for i := range c.Caches {
		c.Caches[i].Remark = pick()
	}
	for i := range c.Upstreams {
		c.Upstreams[i].Remark = pick()
	}
	for i := range c.Locations {
		c.Locations[i].Remark = pick()
	}
	for i := range c.Servers {
		c.Servers[i].Remark = pick()
	}
}

func pickL(r *hx.Rand, xs [][]string) []string { return xs[r.Intn(len(xs))] }

// closableStore: in-memory store.Store that refuses everything once closed
type closableStore struct {
	mu     sync.Mutex
	data   map[string][]byte
	closed bool
}

func (m *closableStore) Get(key []byte) ([]byte, error) {
	m.mu.Lock()
	defer m.mu.Unlock()
	if m.closed {
		return nil, errors.New("store is closed")
	}
	v, ok := m.data[string(key)]
	if !ok {
		return nil, store.ErrNotFound
	}
	return append([]byte{}, v...), nil
}
func (m *closableStore) Set(key []byte, data []byte, ttl time.Duration) error {
	m.mu.Lock()
	defer m.mu.Unlock()
	if m.closed {
		return errors.New("store is closed")
	}
	m.data[string(key)] = append([]byte{}, data...)
	return nil
}
func (m *closableStore) Delete(key []byte) error {
	m.mu.Lock()
	defer m.mu.Unlock()
	if m.closed {
		return errors.New("store is closed")
	}
	delete(m.data, string(key))
	return nil
}
func (m *closableStore) Close() error {
	m.mu.Lock()
	defer m.mu.Unlock()
	m.closed = true
	return nil
}

var sharedStore = &closableStore{data: map[string][]byte{}}

func registerFakeStores() { store.VerifRegister("fake://shared", sharedStore) }

// persistProbe: does a cacheable response stored through this cache reach its persistent store?
func persistProbe(name string) string {
	d := cache.GetDispatcher(name)
	if d == nil {
		return "absent"
	}
	key := []byte("GET probe.example /persist/" + name)
	hc := d.GetHTTPCache(key)
	if st, _ := hc.Get(); st == cache.StatusFetching {
		hc.Cacheable(&cache.HTTPResponse{StatusCode: 200, Header: http.Header{"X-P": []string{name}}, RawBody: []byte("p")}, 60)
	}
	_, err := sharedStore.Get(key)
	return fmt.Sprintf("persisted=%v", err == nil)
}
