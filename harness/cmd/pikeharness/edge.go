package main

import (
	"bytes"
	"fmt"
	"net/http"
	"net/http/httptest"
	"net/url"
	"strings"
	"sync"
	"sync/atomic"
	"time"

	"github.com/vicanso/elton"
	"github.com/vicanso/elton/middleware"
	"github.com/vicanso/pike/cache"
	"github.com/vicanso/pike/compress"
	"github.com/vicanso/pike/config"
	"github.com/vicanso/pike/location"
	"github.com/vicanso/pike/server"
	"github.com/vicanso/pike/upstream"
	"pikeverif/internal/hx"
)

func init() { families["edge"] = runEdge }

// edge family (Go-side only; C03 C05 C06 C07 C13 C15): end-to-end scenarios through the full middleware
// chain and the real HTTP transport against origins with unusual but legal behaviour.
func runEdge(seed uint64, n int, tier string, out string, replay string) {
	sum := hx.NewSummary("edge", seed)
	sum.Rule = "scenarios through the full chain (error, fresh, responder, cache, proxy) and the real transport: (9) multi-line Vary / Link headers and an origin X-Status under every encoding, labels checked against origin contacts; (10) queries with ';' and malformed escapes reach the origin unchanged; (11) an origin that never answers: the 300 ms proxy timeout ends the fetch and the key is served afterwards; (12) hosts ending in digits or carrying a port route by the host as sent; (1) an origin that itself sends Age: every end-to-end header incl. Age reaches the client on fetch, pass and hit; (2) responses without a body (HEAD, 204, empty 200) right after a response with a body for another URL: no foreign body, no foreign Content-Length; (3) an origin that reads a request and drops the connection: every non-GET/HEAD client request reaches the origin exactly once; (4) 64 simultaneous requests on a hit-for-pass key are all at the origin at the same time; (6) keys whose URI contains percent-escapes are purged through the admin endpoint DELETE /cache (named and unnamed): the next request refetches, the un-escaped sibling URL stays a hit; (5) chunked origin responses (no Content-Length) obey the server's compress threshold and content-type filter like sized ones; n repetitions with different URLs; non-trivial = every scenario"
	var reqCount sync.Map // path -> *atomic.Int64
	count := func(p string) *atomic.Int64 {
		v, _ := reqCount.LoadOrStore(p, new(atomic.Int64))
		return v.(*atomic.Int64)
	}
	var lastQuery sync.Map // "METHOD path" -> raw query as the origin received it
	hangCh := make(chan struct{})
	var barrierN atomic.Int64
	barrier := make(chan struct{})
	var barrierOnce sync.Once
	bigText := bytes.Repeat([]byte("edge scenario body, compressible text. "), 200) // ~7.8 KB
	origin := httptest.NewServer(http.HandlerFunc(func(rw http.ResponseWriter, r *http.Request) {
		count(r.URL.Path).Add(1)
		switch {
		case strings.HasPrefix(r.URL.Path, "/drop/") && count(r.URL.Path).Load() == 1:
			// the request was read in full; the connection dies before any response byte
			if hj, ok := rw.(http.Hijacker); ok {
				conn, _, _ := hj.Hijack()
				_ = conn.Close()
				return
			}
		case strings.HasPrefix(r.URL.Path, "/multi/"), strings.HasPrefix(r.URL.Path, "/multinostore/"):
			// several header lines of one name, and an X-Status header of the origin's own (e.g. another pike instance)
			rw.Header().Add("Vary", "Origin")
			rw.Header().Add("Vary", "Accept-Language")
			rw.Header().Add("Link", "</a.css>; rel=preload")
			rw.Header().Add("Link", "</b.js>; rel=preload")
			rw.Header().Set("Content-Type", "text/plain")
			if strings.HasPrefix(r.URL.Path, "/multi/") {
				rw.Header().Set("Cache-Control", "max-age=60")
				rw.Header().Set("X-Status", "fetching")
			} else {
				rw.Header().Set("Cache-Control", "no-store")
				rw.Header().Set("X-Status", "hit")
			}
			_, _ = rw.Write(append([]byte("multi-line headers "+r.URL.Path+"\n"), bigText...))
			return
		case strings.HasPrefix(r.URL.Path, "/oddquery/"):
			lastQuery.Store(r.Method+" "+r.URL.Path, r.URL.RawQuery)
			rw.Header().Set("Cache-Control", "no-cache")
			_, _ = rw.Write([]byte("q"))
			return
		case strings.HasPrefix(r.URL.Path, "/hang/") && count(r.URL.Path).Load() == 1:
			// accepts the request and never answers (until the family ends)
			select {
			case <-hangCh:
			case <-time.After(20 * time.Second):
			}
			return
		case strings.HasPrefix(r.URL.Path, "/aged/"):
			rw.Header().Set("Age", "30")
			rw.Header().Set("Cache-Control", "max-age=60")
			rw.Header().Set("X-Origin-Header", "kept")
			rw.Header().Set("Content-Type", "text/plain")
			_, _ = rw.Write([]byte("aged body " + r.URL.Path))
			return
		case strings.HasPrefix(r.URL.Path, "/agednostore/"):
			rw.Header().Set("Age", "30")
			rw.Header().Set("Cache-Control", "no-store")
			rw.Header().Set("X-Origin-Header", "kept")
			_, _ = rw.Write([]byte("aged body " + r.URL.Path))
			return
		case strings.HasPrefix(r.URL.Path, "/private/"):
			rw.Header().Set("Cache-Control", []string{"private", "no-store", "no-cache, max-age=0"}[int(count(r.URL.Path).Load())%3])
			rw.Header().Set("Content-Type", "text/plain")
			_, _ = rw.Write([]byte(fmt.Sprintf("private answer %d for %s", count(r.URL.Path).Load(), r.URL.Path)))
			return
		case strings.HasPrefix(r.URL.Path, "/write/"):
			rw.Header().Set("Etag", "\"v1\"")
			rw.Header().Set("Last-Modified", "Mon, 02 Jan 2006 15:04:05 GMT")
			rw.WriteHeader(201)
			_, _ = rw.Write([]byte("written by " + r.Method))
			return
		case strings.HasPrefix(r.URL.Path, "/empty204/"):
			rw.Header().Set("Cache-Control", "max-age=60")
			rw.WriteHeader(204)
			return
		case strings.HasPrefix(r.URL.Path, "/empty200/"):
			rw.Header().Set("Cache-Control", "max-age=60")
			rw.Header().Set("Content-Length", "0")
			rw.WriteHeader(200)
			return
		case strings.HasPrefix(r.URL.Path, "/burst/"):
			rw.Header().Set("Cache-Control", "no-cache")
			if r.Header.Get("X-Hold") == "1" {
				if barrierN.Add(1) >= 64 {
					barrierOnce.Do(func() { close(barrier) })
				}
				select {
				case <-barrier:
				case <-time.After(5 * time.Second):
				}
			}
			_, _ = rw.Write([]byte("uncacheable"))
			return
		case strings.HasPrefix(r.URL.Path, "/chunked/"):
			rw.Header().Set("Cache-Control", r.URL.Query().Get("cc"))
			rw.Header().Set("Content-Type", r.URL.Query().Get("ct"))
			body := bigText
			if r.URL.Query().Get("small") == "1" {
				body = []byte("tiny chunked body")
			}
			fl, _ := rw.(http.Flusher)
			for i := 0; i < len(body); i += 1000 { // flushing forces chunked transfer: no Content-Length
				_, _ = rw.Write(body[i:min(i+1000, len(body))])
				if fl != nil {
					fl.Flush()
				}
			}
			return
		}
		rw.Header().Set("Cache-Control", "max-age=60")
		rw.Header().Set("Content-Type", "text/plain")
		if r.Method != "HEAD" {
			_, _ = rw.Write([]byte("body of " + r.Method + " " + r.URL.Path))
		}
	}))
	defer origin.Close()
	defer close(hangCh)
	cache.ResetDispatchers([]config.CacheConfig{{Name: "ec", Size: 2000, HitForPass: "5m"}})
	defer cache.ResetDispatchers(nil)
	upstream.Reset([]config.UpstreamConfig{{Name: "eu", Servers: []config.UpstreamServerConfig{{Addr: origin.URL}}}})
	defer upstream.Reset(nil)
	location.Reset([]config.LocationConfig{{Name: "el", Upstream: "eu"},
		{Name: "elcc", Upstream: "eu", Prefixes: []string{"/private"}, RespHeaders: []string{"Cache-Control:public, max-age=300", "X-Loc:cc"}},
		{Name: "elto", Upstream: "eu", Prefixes: []string{"/hang"}, ProxyTimeout: "300ms"},
		{Name: "elnode", Upstream: "eu", Hosts: []string{"node"}, RespHeaders: []string{"X-Loc:node"}},
		{Name: "elshop", Upstream: "eu", Hosts: []string{"shop80"}, RespHeaders: []string{"X-Loc:shop80"}}})
	defer location.Reset(nil)
	server.Reset([]config.ServerConfig{{Addr: ":7997", Locations: []string{"el", "elcc", "elto", "elnode", "elshop"}, Cache: "ec", CompressMinLength: "1kb", CompressContentTypeFilter: "text|json"}})
	defer server.Reset(nil)
	s := server.Get(":7997")
	e := elton.New()
	e.Use(middleware.NewDefaultError())
	e.Use(middleware.NewDefaultFresh())
	e.Use(server.NewResponder())
	e.Use(server.NewCache(s))
	e.Use(server.NewProxy(s))
	e.ALL("/*", func(c *elton.Context) error { return nil })
	var hold atomic.Bool
	host := "edge.example"
	do := func(method, target, acc string) *httptest.ResponseRecorder {
		r := httptest.NewRequest(method, "http://"+host+target, nil)
		r.Host = host
		r.RequestURI = target
		if hold.Load() {
			r.Header.Set("X-Hold", "1")
		}
		if acc != "" {
			r.Header.Set("Accept-Encoding", acc)
		}
		rec := httptest.NewRecorder()
		e.ServeHTTP(rec, r)
		return rec
	}
	bad := func(props, kind string, detail map[string]interface{}) {
		detail["property"], detail["kind"] = props, kind
		sum.ImplViolations = append(sum.ImplViolations, detail)
	}
	for i := 0; i < max(n, 1); i++ {
		// (1) the origin's own Age header and other end-to-end headers reach the client
		for _, pfx := range []string{"/aged/", "/agednostore/"} {
			p := fmt.Sprintf("%s%d", pfx, i)
			for step, method := range []string{"GET", "GET", "POST"} {
				rec := do(method, p, "")
				age := rec.Header().Get("Age")
				if rec.Code != 200 || rec.Header().Get("X-Origin-Header") != "kept" || age == "" || age == "0" {
					bad("C15+C05", "origin-age-header-lost", map[string]interface{}{"url": p, "request_no": step + 1, "method": method, "status": rec.Code, "age_header": age, "x_status": rec.Header().Get("X-Status"), "x_origin_header": rec.Header().Get("X-Origin-Header")})
				}
			}
		}
		sum.Count("scenario:origin-age")
		// (9) multi-line Vary / Link and an X-Status header of the origin's own: every header line reaches the client
		// under every encoding, and the cache-status label stays pike's own (truthful against the origin's contact count)
		for _, pfx := range []string{"/multi/", "/multinostore/"} {
			p := fmt.Sprintf("%s%d", pfx, i)
			for step, rq := range [][2]string{{"GET", "gzip"}, {"GET", "gzip"}, {"GET", "br"}, {"GET", ""}, {"POST", "gzip"}} {
				before := count(p).Load()
				rec := do(rq[0], p, rq[1])
				contacted := count(p).Load() - before
				vary := strings.Join(rec.Header().Values("Vary"), ", ")
				link := strings.Join(rec.Header().Values("Link"), ", ")
				if rec.Code != 200 || !strings.Contains(vary, "Origin") || !strings.Contains(vary, "Accept-Language") || !strings.Contains(link, "a.css") || !strings.Contains(link, "b.js") {
					bad("C05+C15", "multi-line-header-lost", map[string]interface{}{"url": p, "request_no": step + 1, "method": rq[0], "accept_encoding": rq[1], "status": rec.Code, "vary": vary, "link": link, "content_encoding": rec.Header().Get("Content-Encoding")})
				}
				label := rec.Header().Get("X-Status")
				wantHit := pfx == "/multi/" && rq[0] == "GET" && step > 0
				if (label == "hit") != wantHit || (contacted == 0) != wantHit || contacted > 1 {
					bad("C03", "cache-status-label-not-truthful", map[string]interface{}{"url": p, "request_no": step + 1, "method": rq[0], "x_status": rec.Header().Values("X-Status"), "origin_contacts_for_this_request": contacted, "the_origin_sends_its_own_x_status": true})
				}
			}
		}
		sum.Count("scenario:multi-line-headers+origin-x-status")
		// (10) queries with ';' and malformed escapes reach the origin byte for byte (GET, HEAD, POST; cold and hit-for-pass)
		for _, q := range []string{"b=2;a=1&z=3", "q=100%&page=2&lang=en", "a=%zz&b=1", "plain=1&x=2"} {
			for _, method := range []string{"GET", "GET", "HEAD", "POST"} {
				p := fmt.Sprintf("/oddquery/%d", i)
				do(method, p+"?"+q, "")
				got, _ := lastQuery.Load(method + " " + p)
				if got != q {
					bad("C15", "query-changed-on-the-way-to-the-origin", map[string]interface{}{"url": p, "method": method, "client_query": q, "origin_saw": got})
				}
			}
		}
		sum.Count("scenario:odd-queries")
		// (11) an origin that accepts the fetching request and never answers: the location's proxy timeout (300 ms)
		// ends the fetch with a 5xx, and the key is served normally afterwards
		{
			p := fmt.Sprintf("/hang/%d", i)
			first := make(chan int, 1)
			go func() { first <- do("GET", p, "").Code }()
			select {
			case code := <-first:
				if code < 500 {
					bad("C02", "hung-origin-answered-without-5xx", map[string]interface{}{"url": p, "status": code})
				}
				second := make(chan int, 1)
				go func() { second <- do("GET", p, "").Code }()
				select {
				case code2 := <-second:
					if code2 != 200 {
						bad("C02", "key-not-served-normally-after-a-timed-out-fetch", map[string]interface{}{"url": p, "status": code2})
					}
				case <-time.After(4 * time.Second):
					bad("C02", "request-after-a-timed-out-fetch-never-returned", map[string]interface{}{"url": p})
				}
			case <-time.After(4 * time.Second):
				bad("C02", "fetching-request-still-pending-4s-after-a-300ms-proxy-timeout", map[string]interface{}{"url": p, "proxy_timeout": "300ms"})
			}
		}
		sum.Count("scenario:hung-origin")
		// (12) routing uses the request's host as sent: hosts ending in '8', '0' (and a port) are not shortened
		for _, hc := range [][2]string{{"node", "node"}, {"node8", ""}, {"shop80", "shop80"}, {"shop", ""}, {"node:8080", ""}} {
			host = hc[0]
			rec := do("GET", fmt.Sprintf("/byhost/%d", i), "")
			host = "edge.example"
			if rec.Code != 200 || rec.Header().Get("X-Loc") != hc[1] {
				bad("C14+C06", "routed-on-an-altered-host", map[string]interface{}{"url": fmt.Sprintf("/byhost/%d", i), "host": hc[0], "status": rec.Code, "location_marker_got": rec.Header().Get("X-Loc"), "location_marker_want": hc[1]})
			}
		}
		sum.Count("scenario:hosts-ending-in-digits")
		// (7) a location that adds a default "Cache-Control: public, max-age=300" cannot make an answer the
		// origin marked private / no-store / no-cache shareable: every request reaches the origin
		{
			p := fmt.Sprintf("/private/%d", i)
			for step := 0; step < 3; step++ {
				rec := do("GET", p, "")
				if got := count(p).Load(); got != int64(step+1) || rec.Header().Get("X-Status") == "hit" {
					bad("C03", "private-origin-answer-shared", map[string]interface{}{"url": p, "request_no": step + 1, "origin_contacts": got, "x_status": rec.Header().Get("X-Status"), "body": rec.Body.String()[:min(rec.Body.Len(), 60)], "location_adds": "Cache-Control: public, max-age=300"})
				}
			}
			sum.Count("scenario:location-cache-control")
		}
		// (8) writes that carry validators get the origin's own answer (status and body), not a 304
		for _, c := range []struct{ method, hk, hv string }{{"PUT", "If-None-Match", "*"}, {"POST", "If-None-Match", "\"v1\""}, {"DELETE", "If-Modified-Since", "Mon, 02 Jan 2006 15:04:05 GMT"}, {"PATCH", "If-None-Match", "\"v1\""}} {
			p := fmt.Sprintf("/write/%s/%d", c.method, i)
			r := httptest.NewRequest(c.method, "http://edge.example"+p, nil)
			r.RequestURI = p
			r.Header.Set(c.hk, c.hv)
			rec := httptest.NewRecorder()
			e.ServeHTTP(rec, r)
			if rec.Code != 201 || rec.Body.String() != "written by "+c.method {
				bad("C15+C05", "write-with-validators-not-answered-by-origin", map[string]interface{}{"method": c.method, "url": p, "validator": c.hk + ": " + c.hv, "status": rec.Code, "body": rec.Body.String()[:min(rec.Body.Len(), 60)], "expected": "201 written by " + c.method})
			}
		}
		sum.Count("scenario:writes-with-validators")
		// (2) body-less responses after a response with a body for another URL
		_ = do("GET", fmt.Sprintf("/withbody/%d", i), "")
		for _, c := range []struct{ method, path string }{{"HEAD", fmt.Sprintf("/head/%d", i)}, {"GET", fmt.Sprintf("/empty204/%d", i)}, {"GET", fmt.Sprintf("/empty200/%d", i)}} {
			for step := 0; step < 2; step++ { // fetch, then hit
				_ = do("GET", fmt.Sprintf("/withbody/%d?again=%d", i, step), "")
				rec := do(c.method, c.path, "")
				cl := rec.Header().Get("Content-Length")
				if rec.Body.Len() != 0 || (cl != "" && cl != "0") {
					bad("C06+C05+C20", "foreign-body-on-bodyless-response", map[string]interface{}{"method": c.method, "url": c.path, "request_no": step + 1, "status": rec.Code, "body": rec.Body.String()[:min(rec.Body.Len(), 80)], "content_length": cl, "x_status": rec.Header().Get("X-Status")})
				}
			}
		}
		sum.Count("scenario:bodyless")
		// (3) connection dropped after the request was read: exactly one contact per client request
		// (GET/HEAD are left out: Go's HTTP transport itself re-sends an idempotent request when a reused
		// connection dies before any response byte, as RFC 7230 6.3.1 allows)
		for _, method := range []string{"DELETE", "POST", "PUT", "PATCH"} {
			p := fmt.Sprintf("/drop/%s/%d", method, i)
			rec := do(method, p, "")
			if got := count(p).Load(); got != 1 {
				bad("C03+C15", "request-forwarded-more-than-once", map[string]interface{}{"method": method, "url": p, "origin_contacts": got, "client_status": rec.Code})
			}
		}
		sum.Count("scenario:dropped-connection")
		// (6) keys whose URI contains percent-escapes are purged through the admin endpoint DELETE /cache (named and unnamed): the next request refetches, the un-escaped sibling URL stays a hit; (7) a location adding a default Cache-Control cannot make a private / no-store / no-cache origin answer shareable; (8) PUT / POST / DELETE / PATCH carrying validators get the origin's own status and body; (5) chunked origin responses obey threshold and filter
		for _, c := range []struct {
			q    string
			want string
			what string
		}{
			{"small=1&ct=text/plain&cc=max-age=60", "", "body below the 1 KiB threshold, cacheable"},
			{"small=1&ct=text/plain&cc=no-cache", "", "body below the 1 KiB threshold, uncacheable"},
			{"ct=image/png&cc=max-age=60", "", "content type outside the server's filter, cacheable"},
			{"ct=image/png&cc=no-cache", "", "content type outside the server's filter, uncacheable"},
			{"ct=text/plain&cc=max-age=60", "br", "large text, cacheable"},
		} {
			p := fmt.Sprintf("/chunked/%d?%s", i, c.q)
			for step := 0; step < 2; step++ {
				rec := do("GET", p, "gzip, br")
				if ce := rec.Header().Get("Content-Encoding"); ce != c.want || rec.Code != 200 {
					bad("C13+C05", "chunked-upstream-response-negotiated-differently", map[string]interface{}{"url": p, "case": c.what, "request_no": step + 1, "status": rec.Code, "content_encoding": ce, "expected": c.want, "x_status": rec.Header().Get("X-Status")})
				}
			}
		}
		sum.Count("scenario:chunked")
		sum.Evaluations++
	}
	// (6) purge through the admin endpoint (DELETE /cache?key=...&cache=...) of keys whose URI contains escapes
	{
		adminAddr := "127.0.0.1:39176"
		go func() { _ = server.StartAdminServer(server.AdminServerConfig{Addr: adminAddr, Prefix: ""}) }()
		up := false
		for t0 := time.Now(); time.Since(t0) < 3*time.Second && !up; time.Sleep(30 * time.Millisecond) {
			if resp, err := http.Get("http://" + adminAddr + "/ping"); err == nil {
				_ = resp.Body.Close()
				up = true
			}
		}
		if !up {
			sum.Count("scenario:admin-purge-skipped(port busy)")
		} else {
			sum.Count("scenario:admin-purge")
			for k, pair := range [][2]string{{"/files/a%2Fb", "/files/a/b"}, {"/search?q=a%2Bb", "/search?q=a+b"}, {"/p/100%25", "/p/100%"}} {
				escaped, sibling := fmt.Sprintf("/adm%d", k)+pair[0], fmt.Sprintf("/adm%d", k)+pair[1]
				fill := func(target string) string {
					_ = do("GET", target, "")
					return do("GET", target, "").Header().Get("X-Status")
				}
				okSibling := !strings.Contains(sibling, "%") || strings.Contains(sibling, "%25")
				if st := fill(escaped); st != "hit" {
					bad("C18", "admin-purge-setup", map[string]interface{}{"url": escaped, "x_status_second_request": st})
					continue
				}
				if okSibling {
					_ = fill(sibling)
				}
				named := k%2 == 0
				q := "key=" + url.QueryEscape("GET edge.example "+escaped)
				if named {
					q += "&cache=ec"
				}
				req, _ := http.NewRequest("DELETE", "http://"+adminAddr+"/cache?"+q, nil)
				resp, err := http.DefaultClient.Do(req)
				code := 0
				if err == nil {
					code = resp.StatusCode
					_ = resp.Body.Close()
				}
				after := do("GET", escaped, "").Header().Get("X-Status")
				sib := "hit"
				if okSibling {
					sib = do("GET", sibling, "").Header().Get("X-Status")
				}
				if code != 204 || after != "fetching" || sib != "hit" {
					bad("C18", "admin-purge-of-escaped-key", map[string]interface{}{"purged_url": escaped, "named_cache": named, "admin_status": code, "next_request_x_status": after, "expected": "fetching",
						"sibling_url": sibling, "sibling_x_status": sib, "sibling_expected": "hit"})
				}
			}
		}
	}
	// (4) 64 simultaneous requests on a hit-for-pass key
	{
		p := "/burst/key"
		if r1 := do("GET", p, ""); r1.Header().Get("X-Status") != "fetching" {
			bad("C07", "burst-setup", map[string]interface{}{"first_request_x_status": r1.Header().Get("X-Status")})
		}
		var wg sync.WaitGroup
		var notPassed atomic.Int64
		hold.Store(true) // same URL (same key); a request header asks the origin to hold the request until all 64 are there
		t0 := time.Now()
		for g := 0; g < 64; g++ {
			wg.Add(1)
			go func(g int) {
				defer wg.Done()
				if rec := do("GET", p, ""); rec.Header().Get("X-Status") != "hitForPass" {
					notPassed.Add(1)
				}
			}(g)
		}
		wg.Wait()
		hold.Store(false)
		el := time.Since(t0)
		if barrierN.Load() < 64 || el > 4*time.Second || notPassed.Load() > 0 {
			bad("C07", "hit-for-pass-burst-queued", map[string]interface{}{"requests": 64, "at_the_origin_simultaneously": barrierN.Load(), "burst_seconds": el.Seconds(), "not_labelled_hit_for_pass": notPassed.Load()})
		}
		sum.Count("scenario:hfp-burst")
	}
	_ = compress.BestCompression
	sum.DistinctNontrivial = sum.Evaluations
	sum.Write(out)
}
