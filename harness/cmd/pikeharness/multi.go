package main

import (
	"fmt"
	"net/http"
	"strconv"

	"github.com/vicanso/pike/cache"
	"pikeverif/internal/hx"
)

func init() { families["multi"] = runMulti }

type entryAPI interface {
	Get() (cache.Status, *cache.HTTPResponse)
	Cacheable(resp *cache.HTTPResponse, ttl int)
	HitForPass(ttl int)
}

type openFetch struct {
	entry entryAPI
	key   int
	tid   int
}

// multi family (C11 C06 C01): MANY keys through the real dispatcher AND the real entry protocol, one operation
// at a time, against the composed model (coq/Model/Multi.v).  Operations: a request for a key (dispatcher
// get-or-create, then Get() unless a fetch the harness itself started is still open on that entry object --
// Get would park), the completion of an open fetch (cacheable or not; also of entries that were evicted or
// purged meanwhile), a purge.  Observed: whether the lookup created a new entry, the label Get returned, the
// response a hit carries, the number of resident entries after every operation.
func runMulti(seed uint64, n int, tier string, out string, replay string) {
	rnd := hx.NewRand(seed)
	sum := hx.NewSummary("multi", seed)
	sum.Rule = "one case = one dispatcher size S in {1..12, 16, 24, 64 (keys sampled into 2 shards)} with 60-400 operations on 2S+6 keys (half of the requests on a hot fifth): 70% request (lookup + Get unless the harness's own fetch is open on the returned entry), 22% completion of a random open fetch (60% cacheable for 300 s, 40% not: hit-for-pass 300 s; orphaned entries included), 8% purge; no clock steps; non-trivial = some key got a second entry (after an eviction or purge); distinct by (S, #ops, #entries created)"
	header := "From Coq Require Import List NArith ZArith.\nImport ListNotations.\nFrom Pike Require Import Model.Sys Model.Dispatcher Corr.C11Corr Corr.MultiCorr.\nFrom PikeRun Require Import Consts.\n"
	w := hx.NewCaseWriter(out, "multi", header, "list mu_case", "mu_check_cases Consts.disp_consts", 6, sum)
	distinct := hx.NewDistinct()
	sizes := []int{1, 2, 3, 4, 5, 6, 7, 8, 9, 10, 11, 12, 16, 24, 64}
	for c := 0; c < n; c++ {
		size := sizes[c%len(sizes)]
		d := cache.NewDispatcher(cache.DispatcherOption{Size: size, HitForPass: 300})
		zones := int(d.VerifZoneSize())
		pop := 2*size + 6
		var keys [][]byte
		if size <= 24 {
			for i := 0; i < pop; i++ {
				keys = append(keys, []byte(fmt.Sprintf("GET multi%d.example /k/%d/%d", i%2, c, i)))
			}
		} else {
			want := map[uint64]int{0: 0, uint64(zones - 1): 0}
			per := size/zones + 3
			for i := 0; len(keys) < 2*per && i < 1000000; i++ {
				k := []byte(fmt.Sprintf("GET multi.example /k/%d/%d", c, i))
				sh := cache.MemHash(k) % uint64(zones)
				if cnt, ok := want[sh]; ok && cnt < per {
					want[sh] = cnt + 1
					keys = append(keys, k)
				}
			}
			pop = len(keys)
		}
		hashes := make([]uint64, pop)
		for i := range keys {
			hashes[i] = cache.MemHash(keys[i])
		}
		nops := 60 + rnd.Intn(341)
		seen := map[interface{}]bool{}
		keep := []interface{}{}
		open := []openFetch{}
		openOn := map[interface{}]bool{}
		perKey := make([]int, pop)
		var ops []string
		var repOps []interface{}
		nextRid := 1
		interesting := false
		created := 0
		resident := func() int {
			r := 0
			for _, l := range d.VerifResident() {
				r += l
			}
			return r
		}
		keyTerm := func(k int) string { return fmt.Sprintf("(%s, %s)", hx.N(uint64(k)), hx.N(hashes[k])) }
		for j := 0; j < nops; j++ {
			p := rnd.Intn(100)
			switch {
			case p < 22 && len(open) > 0:
				x := rnd.Intn(len(open))
				f := open[x]
				open = append(open[:x], open[x+1:]...)
				delete(openOn, f.entry)
				var o string
				if rnd.Chance(60) {
					rid := nextRid
					nextRid++
					h := http.Header{}
					h.Set("X-Rid", strconv.Itoa(rid))
					f.entry.Cacheable(&cache.HTTPResponse{StatusCode: 200, Header: h, RawBody: []byte(fmt.Sprintf("r%d", rid))}, 300)
					o = fmt.Sprintf("(OCacheable 300 %d)", rid)
				} else {
					rid := nextRid
					nextRid++
					f.entry.HitForPass(300)
					o = fmt.Sprintf("(OUncacheable %d)", rid)
				}
				ops = append(ops, fmt.Sprintf("MoComplete %s %d %s %d", keyTerm(f.key), f.tid, o, resident()))
				repOps = append(repOps, map[string]interface{}{"op": "complete", "key": string(keys[f.key]), "request": f.tid, "outcome": o})
				sum.Count("op:complete")
			case p < 30:
				k := rnd.Intn(pop)
				d.RemoveHTTPCache(keys[k])
				ops = append(ops, fmt.Sprintf("MoPurge %s %d", keyTerm(k), resident()))
				repOps = append(repOps, map[string]interface{}{"op": "purge", "key": string(keys[k])})
				sum.Count("op:purge")
			default:
				var k int
				if rnd.Bool() {
					k = rnd.Intn(pop/5 + 1)
				} else {
					k = rnd.Intn(pop)
				}
				hc := d.GetHTTPCache(keys[k])
				fresh := !seen[hc]
				if fresh {
					seen[hc] = true
					keep = append(keep, hc)
					created++
					if perKey[k] > 0 {
						interesting = true
					}
				}
				tid := perKey[k]
				perKey[k]++
				label, rid := "None", "None"
				if !openOn[hc] {
					st, resp := hc.Get()
					switch st {
					case cache.StatusFetching:
						label = "(Some LFetching)"
						open = append(open, openFetch{entry: hc, key: k, tid: tid})
						openOn[hc] = true
					case cache.StatusHit:
						label = "(Some LHit)"
						if resp != nil {
							rid = "(Some " + resp.Header.Get("X-Rid") + ")"
						}
					case cache.StatusHitForPass:
						label = "(Some LHitForPass)"
					default:
						label = "(Some LPassed)" // never expected
					}
					sum.Count("op:request")
				} else {
					sum.Count("op:lookup-only(fetch open)")
				}
				ops = append(ops, fmt.Sprintf("MoReq %s %s %s %s %d", keyTerm(k), hx.Bool(fresh), label, rid, resident()))
				repOps = append(repOps, map[string]interface{}{"op": "request", "key": string(keys[k]), "new_entry": fresh, "label": label, "response": rid})
			}
		}
		_ = keep
		for i := range ops {
			ops[i] = "(" + ops[i] + ")"
		}
		term := fmt.Sprintf("{| mu_size := %s; mu_ops := %s |}", hx.Z(int64(size)), hx.List(ops))
		if len(repOps) > 60 {
			repOps = repOps[:60]
		}
		rep := map[string]interface{}{"size": size, "ops": nops, "keys": pop, "entries_created": created, "first_ops": repOps}
		w.Add(term, rep)
		sum.Evaluations++
		if interesting {
			distinct.Add(fmt.Sprintf("%d/%d/%d", size, nops, created))
		}
		sum.Distribution["ops"] += nops
		sum.Sample(map[string]interface{}{"size": size, "ops": nops, "entries_created": created})
	}
	w.Flush()
	sum.DistinctNontrivial = distinct.Len()
	sum.Write(out)
}
