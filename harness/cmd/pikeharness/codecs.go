package main

import (
	"bytes"
	stdgzip "compress/gzip"
	"encoding/json"
	"fmt"
	"io"
	"os"
	"path/filepath"
	"strings"
	"sync"
	"time"

	"github.com/andybalholm/brotli"
	"github.com/golang/snappy"
	"github.com/klauspost/compress/zstd"
	"github.com/pierrec/lz4"
	"github.com/vicanso/pike/compress"
	"github.com/vicanso/pike/config"
	"pikeverif/internal/hx"
)

func init() { families["codecs"] = runCodecs }

func refGzip(data []byte, level int) []byte {
	var b bytes.Buffer
	w, err := stdgzip.NewWriterLevel(&b, level)
	if err != nil {
		return nil
	}
	_, _ = w.Write(data)
	_ = w.Close()
	return b.Bytes()
}
func refGunzip(data []byte) ([]byte, error) {
	r, err := stdgzip.NewReader(bytes.NewReader(data))
	if err != nil {
		return nil, err
	}
	return io.ReadAll(r)
}
func refBrotli(data []byte, level int) []byte {
	var b bytes.Buffer
	w := brotli.NewWriterLevel(&b, level)
	_, _ = w.Write(data)
	_ = w.Close()
	return b.Bytes()
}
func refBrotliDecode(data []byte) ([]byte, error) {
	return io.ReadAll(brotli.NewReader(bytes.NewReader(data)))
}

type guarded struct {
	out      []byte
	err      error
	panicked bool
	hung     bool
}

// codecsOut: where a hang is reported (inflight.json); set by runCodecs
var codecsOut string

// lastInput: description of the stream being decoded (for the hang report)
var lastInput string

func guard(f func() ([]byte, error)) guarded {
	ch := make(chan guarded, 1)
	go func() {
		var g guarded
		defer func() {
			if r := recover(); r != nil {
				g.panicked = true
			}
			ch <- g
		}()
		g.out, g.err = f()
	}()
	select {
	case g := <-ch:
		return g
	case <-time.After(8 * time.Second):
		// a decoder that does not return keeps its goroutine (and whatever it allocates) for the rest of the
		// process: report the input and stop the family here — the orchestrator turns this into the replay
		if codecsOut != "" {
			b, _ := json.Marshal(map[string]interface{}{"family": "codecs", "kind": "hang", "what": "a decode did not return within 8 s", "input": lastInput})
			_ = os.WriteFile(filepath.Join(codecsOut, "inflight.json"), b, 0o644)
			os.Exit(3)
		}
		return guarded{hung: true}
	}
}

func bodyKinds(r *hx.Rand, size int) map[string][]byte {
	text := []byte(strings.Repeat("The quick brown fox jumps over the lazy dog. ", size/45+1))[:size]
	pat := bytes.Repeat([]byte{1, 2, 3, 4, 5, 6, 7}, size/7+1)[:size]
	return map[string][]byte{"random": r.Bytes(size), "text": text, "zeros": make([]byte, size), "pattern": pat}
}

// lz4 blocks with a chosen number of length-extension bytes: one literal, then an offset-1 match
func highRatioBlock(exts int, last byte) []byte {
	b := []byte{0x1F, 'a', 1, 0}
	for i := 0; i < exts; i++ {
		b = append(b, 255)
	}
	return append(b, last)
}

// codecs family (C12)
func runCodecs(seed uint64, n int, tier string, out string, replay string) {
	codecsOut = out
	rnd := hx.NewRand(seed)
	sum := hx.NewSummary("codecs", seed)
	sum.Rule = "Coq-evaluated cases: (a) level handling — a profile configured with each value of {0..13, 99, 2^31-1, 2^31, 2^32-1, 2^32+5} through compress.Reset; pike's gzip/brotli output for a probe body is compared with the reference encoders at every level to identify the level in effect; (b) decoder dispatch for the five documented encodings, identity and unsupported names; (c) LZ4 blocks — encoder outputs for n small bodies, hand-made high-ratio blocks (0..6 length-extension bytes: up to 1.5 KiB from 11 bytes), truncated blocks — pike's LZ4Decode vs the block-decoder model. Go-side only (volume): round trips of bodies 0 B..1 MiB (random, text, zeros, pattern) through pike's gzip/brotli at levels -1..12 decoded by pike AND by the reference decoders; all five pike decoders on reference-encoded streams incl. 1 MiB of zeros; 200 mutated streams per decoder under recover + 20 s watchdog; structured valid streams (multi-member / header-field / stored / huffman-only gzip, multi-frame and checksummed zstd, streamed zstd frames at the four encoder levels and with explicit windows up to 128 MiB, a hand-made 16 MiB-window frame, brotli at several qualities and window sizes and with flushes, literal-only snappy, LZ4 HC block) must be restored in full; every length 0..2048 of three one-byte-repeated payloads through snappy, zstd and lz4; ~90 crafted malformed streams (extreme declared sizes and flag combinations in zstd / snappy / gzip / brotli / lz4 framing) under recover + watchdog; 24 goroutines x 12 concurrent gzip+brotli encodes at shared levels, each stream decoded by the reference decoders. non-trivial = level case outside 1..9 or block with ratio > 10; distinct by case content"
	header := "From Coq Require Import List NArith ZArith.\nImport ListNotations.\nFrom Pike Require Import Base.Bytes Model.Compress Model.LZ4 Corr.C12Corr.\n"
	w := hx.NewCaseWriter(out, "codecs", header, "list c12_case", "check_cases", 60, sum)
	distinct := hx.NewDistinct()
	probe := []byte(strings.Repeat("pike probe body: aaaaabbbbbcccccdddddeeeee 0123456789 ", 40))

	// (a) levels
	values := []uint64{0, 1, 2, 3, 4, 5, 6, 7, 8, 9, 10, 11, 12, 13, 99, 2147483647, 2147483648, 4294967295, 4294967301}
	for _, v := range values {
		compress.Reset([]config.CompressConfig{{Name: "lv", Levels: map[string]uint{"gzip": uint(v), "br": uint(v)}}})
		srv := compress.Get("lv")
		g, _ := srv.Gzip(probe)
		b, _ := srv.Brotli(probe)
		var gm, bm []string
		for l := -1; l <= 9; l++ {
			if l == 0 {
				continue
			}
			if bytes.Equal(refGzip(probe, l), g) {
				gm = append(gm, hx.Z(int64(l)))
			}
		}
		for l := 0; l <= 11; l++ {
			if bytes.Equal(refBrotli(probe, l), b) {
				bm = append(bm, hx.Z(int64(l)))
			}
		}
		rep := map[string]interface{}{"kind": "level", "configured": v, "gzip_matches_reference_levels": gm, "br_matches_reference_levels": bm}
		w.Add(fmt.Sprintf("CLevel %s %s %s", hx.Z(int64(v)), hx.List(gm), hx.List(bm)), rep)
		sum.Evaluations++
		sum.Count("level-case")
		if v == 0 || v > 9 {
			distinct.Add(fmt.Sprint("level", v))
		}
		sum.Sample(rep)
		// decoders restore what pike encoded at this level
		for name, enc := range map[string][]byte{"gzip": g, "br": b} {
			d, err := compress.Get("").Decompress(name, enc)
			if err != nil || !bytes.Equal(d, probe) {
				sum.ImplViolations = append(sum.ImplViolations, map[string]interface{}{"property": "C12", "kind": "roundtrip", "codec": name, "configured_level": v})
			}
		}
	}
	// (b) dispatch
	orig := []byte("dispatch sample dispatch sample dispatch sample")
	lzb, _ := compress.VerifLZ4Encode(orig)
	zsb, _ := compress.VerifZSTDEncode(orig, 2)
	samples := map[string][]byte{"gzip": refGzip(orig, 6), "br": refBrotli(orig, 5), "lz4": lzb, "snz": compress.VerifSnappyEncode(orig), "zst": zsb, "": orig}
	kindCoq := map[string]string{"gzip": "DGzip", "br": "DBr", "lz4": "DLz4", "snz": "DSnappy", "zst": "DZstd", "": "DIdentity"}
	for enc, data := range samples {
		d, err := compress.Get("").Decompress(enc, data)
		ok := err == nil && bytes.Equal(d, orig)
		w.Add(fmt.Sprintf("CDispatch %s %s %s", hx.Str(enc), kindCoq[enc], hx.Bool(ok)), map[string]interface{}{"kind": "dispatch", "encoding": enc, "restored": ok})
		sum.Evaluations++
		sum.Count("dispatch-case")
	}
	for _, enc := range []string{"GZIP", "deflate", "zstd", "snappy", "gzip ", "x"} {
		g := guard(func() ([]byte, error) { return compress.Get("").Decompress(enc, samples["gzip"]) })
		if g.panicked || g.hung {
			sum.ImplViolations = append(sum.ImplViolations, map[string]interface{}{"property": "C12", "kind": "panic-or-hang", "encoding": enc})
		}
		w.Add(fmt.Sprintf("CDispatch %s DUnsupported %s", hx.Str(enc), hx.Bool(g.err != nil)), map[string]interface{}{"kind": "dispatch", "encoding": enc, "rejected": g.err != nil})
		sum.Evaluations++
		sum.Count("dispatch-case")
	}
	// (c) lz4 blocks vs the model
	lz4Case := func(block []byte, what string) {
		lastInput = fmt.Sprintf("lz4 block: %x", block[:min(len(block), 96)])
		g := guard(func() ([]byte, error) { return compress.Get("").LZ4Decode(block) })
		if g.panicked || g.hung {
			sum.ImplViolations = append(sum.ImplViolations, map[string]interface{}{"property": "C12", "kind": "panic-or-hang", "codec": "lz4", "block_hex": fmt.Sprintf("%x", block)})
			return
		}
		impl := "None"
		if g.err == nil {
			impl = "(Some " + hx.Bytes(g.out) + ")"
		}
		rep := map[string]interface{}{"kind": "lz4", "what": what, "block_hex": fmt.Sprintf("%x", block), "decoded_len": len(g.out), "error": fmt.Sprint(g.err)}
		w.Add(fmt.Sprintf("CLz4 %s %s", hx.Bytes(block), impl), rep)
		sum.Evaluations++
		sum.Count("lz4:" + what)
		if len(block) > 0 && len(g.out) > 10*len(block) {
			distinct.Add("lz4" + fmt.Sprintf("%x", block))
		}
	}
	for e := 0; e <= 6; e++ {
		lz4Case(highRatioBlock(e, byte(rnd.Intn(255))), "high-ratio")
	}
	for i := 0; i < n; i++ {
		size := []int{1, 5, 20, 60, 150, 300}[rnd.Intn(6)]
		var body []byte
		switch rnd.Intn(3) {
		case 0:
			body = bytes.Repeat([]byte{byte('a' + rnd.Intn(3))}, size)
		case 1:
			body = []byte(strings.Repeat("abcab", size/5+1))[:size]
		default:
			body = rnd.Bytes(size)
		}
		buf := make([]byte, lz4.CompressBlockBound(len(body)))
		nn, err := lz4.CompressBlock(body, buf, nil)
		if err != nil || nn == 0 {
			continue // incompressible: the block encoder emits nothing
		}
		block := buf[:nn]
		lz4Case(block, "encoder-output")
		if rnd.Chance(30) && len(block) > 3 {
			lz4Case(block[:len(block)-1-rnd.Intn(2)], "truncated")
		}
	}
	// ---- Go-side volume: round trips and reference streams
	sizes := []int{0, 1, 100, 4096, 65536}
	if tier == "thorough" {
		sizes = append(sizes, 1<<20)
	}
	rt := 0
	for _, size := range sizes {
		for kind, body := range bodyKinds(rnd, size) {
			for _, lvl := range []int{-1, 0, 1, 5, 9, 11, 12} {
				g, e1 := compress.VerifGzip(body, lvl)
				b, e2 := compress.VerifBrotli(body, lvl)
				if e1 != nil || e2 != nil {
					sum.ImplViolations = append(sum.ImplViolations, map[string]interface{}{"property": "C12", "kind": "encode-error", "level": lvl, "size": size})
					continue
				}
				for _, chk := range []struct {
					name string
					dec  func() ([]byte, error)
				}{
					{"gzip/pike", func() ([]byte, error) { return compress.Get("").Gunzip(g) }},
					{"gzip/reference", func() ([]byte, error) { return refGunzip(g) }},
					{"br/pike", func() ([]byte, error) { return compress.Get("").BrotliDecode(b) }},
					{"br/reference", func() ([]byte, error) { return refBrotliDecode(b) }},
				} {
					d, err := chk.dec()
					rt++
					if err != nil || !bytes.Equal(d, body) {
						sum.ImplViolations = append(sum.ImplViolations, map[string]interface{}{"property": "C12", "kind": "roundtrip", "path": chk.name, "level": lvl, "size": size, "body": kind, "got_len": len(d), "error": fmt.Sprint(err)})
					}
				}
			}
			// every pike decoder on reference-encoded streams of this body (any ratio)
			zw, _ := zstd.NewWriter(nil)
			refs := map[string][]byte{"gzip": refGzip(body, 9), "br": refBrotli(body, 11), "snz": snappy.Encode(nil, body), "zst": zw.EncodeAll(body, nil)}
			lzbuf := make([]byte, lz4.CompressBlockBound(len(body)))
			if nn, err := lz4.CompressBlock(body, lzbuf, nil); err == nil && nn > 0 {
				refs["lz4"] = lzbuf[:nn]
			}
			for enc, stream := range refs {
				if size == 0 && (enc == "br") {
					// an empty brotli stream is not empty input; fine
				}
				d, err := compress.Get("").Decompress(enc, stream)
				rt++
				if err != nil || !bytes.Equal(d, body) {
					sum.ImplViolations = append(sum.ImplViolations, map[string]interface{}{"property": "C12", "kind": "decoder", "codec": enc, "size": size, "body": kind, "stream_len": len(stream), "got_len": len(d), "error": fmt.Sprint(err)})
				}
				// mutated streams: no panic, no hang
				for m := 0; m < 10 && len(stream) > 4; m++ {
					mut := append([]byte{}, stream...)
					mut[rnd.Intn(len(mut))] ^= byte(1 << uint(rnd.Intn(8)))
					if rnd.Bool() {
						mut = mut[:rnd.Intn(len(mut))]
					}
					lastInput = fmt.Sprintf("mutated %s stream: %x", enc, mut[:min(len(mut), 96)])
					g := guard(func() ([]byte, error) { return compress.Get("").Decompress(enc, mut) })
					if g.panicked || g.hung {
						sum.ImplViolations = append(sum.ImplViolations, map[string]interface{}{"property": "C12", "kind": "panic-or-hang", "codec": enc, "stream_hex": fmt.Sprintf("%x", mut[:min(len(mut), 64)])})
					}
				}
			}
		}
	}
	// ---- structured valid streams of each format (what an origin may legally send): every one must be
	// restored to the concatenation of its parts by pike's decoder for that format
	parts := [][]byte{bodyKinds(rnd, 5200)["text"], {}, bodyKinds(rnd, 65536)["random"], []byte("tail")}
	var whole []byte
	for _, p := range parts {
		whole = append(whole, p...)
	}
	gzMember := func(data []byte, level int, name, comment string, extra []byte) []byte {
		var b bytes.Buffer
		zw, _ := stdgzip.NewWriterLevel(&b, level)
		zw.Name, zw.Comment, zw.Extra = name, comment, extra
		_, _ = zw.Write(data)
		_ = zw.Close()
		return b.Bytes()
	}
	type vstream struct {
		codec, shape string
		stream, want []byte
	}
	var vs []vstream
	{
		var multi []byte
		for i, p := range parts {
			multi = append(multi, gzMember(p, []int{6, 1, 9, 0}[i%4], "", "", nil)...)
		}
		vs = append(vs, vstream{"gzip", "multi-member(4, one empty)", multi, whole})
		vs = append(vs, vstream{"gzip", "two-members", append(gzMember(parts[0], 6, "", "", nil), gzMember(parts[3], 6, "", "", nil)...), append(append([]byte{}, parts[0]...), parts[3]...)})
		vs = append(vs, vstream{"gzip", "header name+comment+extra", gzMember(parts[0], 6, "a.txt", "c", []byte{1, 2, 3, 4}), parts[0]})
		vs = append(vs, vstream{"gzip", "stored blocks (level 0)", gzMember(parts[2], 0, "", "", nil), parts[2]})
		vs = append(vs, vstream{"gzip", "huffman only", gzMember(parts[0], -2, "", "", nil), parts[0]})
		zw1, _ := zstd.NewWriter(nil, zstd.WithEncoderLevel(zstd.SpeedFastest))
		zw2, _ := zstd.NewWriter(nil, zstd.WithEncoderLevel(zstd.SpeedBestCompression), zstd.WithEncoderCRC(true))
		var zmulti []byte
		for i, p := range parts {
			if i%2 == 0 {
				zmulti = zw1.EncodeAll(p, zmulti)
			} else {
				zmulti = zw2.EncodeAll(p, zmulti)
			}
		}
		vs = append(vs, vstream{"zst", "multi-frame(4)", zmulti, whole})
		vs = append(vs, vstream{"zst", "best+crc", zw2.EncodeAll(parts[2], nil), parts[2]})
		{ // streamed zstd frames (not single-segment) at every encoder level: the frame header declares the level's window (4 / 8 / 16 / 32 MiB), a 300 KiB body spans several blocks
			big := make([]byte, 0, 300<<10)
			for i := 0; len(big) < 300<<10; i++ {
				big = append(big, []byte(fmt.Sprintf("streamed zstd body line %d of a text that repeats itself; ", i%977))...)
			}
			for _, lv := range []zstd.EncoderLevel{zstd.SpeedFastest, zstd.SpeedDefault, zstd.SpeedBetterCompression, zstd.SpeedBestCompression} {
				var b bytes.Buffer
				zw, _ := zstd.NewWriter(&b, zstd.WithEncoderLevel(lv))
				_, _ = zw.Write(big[:100<<10])
				_, _ = zw.Write(big[100<<10:])
				_ = zw.Close()
				vs = append(vs, vstream{"zst", "streamed " + lv.String(), b.Bytes(), big})
			}
			for _, lg := range []uint{20, 24, 26, 27} { // explicit windows of 1, 16, 64 and 128 MiB
				var b bytes.Buffer
				zw, err := zstd.NewWriter(&b, zstd.WithWindowSize(1<<lg))
				if err != nil {
					continue
				}
				_, _ = zw.Write(big)
				_ = zw.Close()
				vs = append(vs, vstream{"zst", fmt.Sprintf("streamed window 2^%d", lg), b.Bytes(), big})
			}
			// hand-made frame: magic, descriptor 0 (window descriptor follows, no content size), window descriptor 0x70 (16 MiB), one last raw block "hello"
			vs = append(vs, vstream{"zst", "hand-made frame, 16 MiB window, raw block", []byte{0x28, 0xb5, 0x2f, 0xfd, 0x00, 0x70, 0x29, 0x00, 0x00, 'h', 'e', 'l', 'l', 'o'}, []byte("hello")})
		}
		for _, q := range []int{0, 1, 11} {
			for _, lgwin := range []int{10, 16, 24} {
				var b bytes.Buffer
				bw := brotli.NewWriterOptions(&b, brotli.WriterOptions{Quality: q, LGWin: lgwin})
				_, _ = bw.Write(whole)
				_ = bw.Close()
				vs = append(vs, vstream{"br", fmt.Sprintf("quality %d lgwin %d", q, lgwin), b.Bytes(), whole})
			}
		}
		{
			var b bytes.Buffer
			bw := brotli.NewWriterLevel(&b, 5)
			for _, p := range parts {
				_, _ = bw.Write(p)
				_ = bw.Flush() // several meta-blocks
			}
			_ = bw.Close()
			vs = append(vs, vstream{"br", "flushed after every part", b.Bytes(), whole})
		}
		vs = append(vs, vstream{"snz", "incompressible (literals only)", snappy.Encode(nil, parts[2]), parts[2]})
		hc := make([]byte, lz4.CompressBlockBound(len(whole)))
		if nn, err := lz4.CompressBlockHC(whole, hc, 0); err == nil && nn > 0 {
			vs = append(vs, vstream{"lz4", "HC block", hc[:nn], whole})
		}
	}
	for _, v := range vs {
		d, err := compress.Get("").Decompress(v.codec, v.stream)
		rt++
		sum.Count("valid-stream:" + v.codec)
		if err != nil || !bytes.Equal(d, v.want) {
			sum.ImplViolations = append(sum.ImplViolations, map[string]interface{}{"property": "C12", "kind": "valid-stream-not-restored", "codec": v.codec, "shape": v.shape, "stream_len": len(v.stream), "want_len": len(v.want), "got_len": len(d), "error": fmt.Sprint(err)})
		}
	}
	// ---- every length 0..2048 of three repetitive payloads through the block / frame codecs: exact lengths
	// at which a block's first bytes coincide with another format's magic must not matter
	{
		zw, _ := zstd.NewWriter(nil)
		for _, fill := range []byte{0x00, 'a', 0xff} {
			for size := 0; size <= 2048; size++ {
				body := bytes.Repeat([]byte{fill}, size)
				streams := map[string][]byte{"snz": snappy.Encode(nil, body), "zst": zw.EncodeAll(body, nil)}
				if size > 0 {
					lzbuf := make([]byte, lz4.CompressBlockBound(size))
					if nn, err := lz4.CompressBlock(body, lzbuf, nil); err == nil && nn > 0 {
						streams["lz4"] = lzbuf[:nn]
					}
				}
				for enc, stream := range streams {
					d, err := compress.Get("").Decompress(enc, stream)
					rt++
					if err != nil || !bytes.Equal(d, body) {
						sum.ImplViolations = append(sum.ImplViolations, map[string]interface{}{"property": "C12", "kind": "valid-stream-not-restored", "codec": enc, "shape": fmt.Sprintf("%d x %#x", size, fill), "stream_len": len(stream), "want_len": size, "got_len": len(d), "error": fmt.Sprint(err)})
					}
				}
			}
		}
		sum.Count("repetitive-length-sweep")
	}
	// ---- crafted malformed streams: well-formed framing with extreme declared sizes / flag combinations
	// (random bit flips almost never produce these); none may panic or hang a decoder
	{
		le := func(v uint64, n int) []byte {
			b := make([]byte, n)
			for i := 0; i < n; i++ {
				b[i] = byte(v >> (8 * uint(i)))
			}
			return b
		}
		type crafted struct {
			codec, what string
			data        []byte
		}
		var cs []crafted
		zmagic := []byte{0x28, 0xB5, 0x2F, 0xFD}
		zw, _ := zstd.NewWriter(nil)
		zvalid := zw.EncodeAll(bytes.Repeat([]byte("zstd "), 40), nil)
		for _, sz := range []uint64{1 << 63, 1<<64 - 1, 1<<63 + 12345, 1 << 62, 1 << 40, 1 << 32, 0} {
			// descriptor 0xE0: 8-byte Frame_Content_Size, single segment; then one raw block "a" marked last
			cs = append(cs, crafted{"zst", fmt.Sprintf("frame content size %d, single segment", sz), append(append(append([]byte{}, zmagic...), append([]byte{0xE0}, le(sz, 8)...)...), 0x09, 0x00, 0x00, 'a')})
			// descriptor 0xC0: 8-byte size + window descriptor
			cs = append(cs, crafted{"zst", fmt.Sprintf("frame content size %d, windowed", sz), append(append(append([]byte{}, zmagic...), append([]byte{0xC0, 0x50}, le(sz, 8)...)...), 0x09, 0x00, 0x00, 'a')})
		}
		for _, d := range []byte{0x20, 0x40, 0x60, 0x80, 0xA0, 0xC0, 0xE0, 0xFF, 0x08, 0x04, 0x03} {
			m := append([]byte{}, zvalid...)
			if len(m) > 12 {
				m[4] |= d
				cs = append(cs, crafted{"zst", fmt.Sprintf("valid stream with descriptor |= %#x", d), m})
				m2 := append([]byte{}, m...)
				for k := 5; k < 13 && k < len(m2); k++ {
					m2[k] = 0xFF
				}
				cs = append(cs, crafted{"zst", fmt.Sprintf("descriptor |= %#x and the 8 following bytes 0xFF", d), m2})
			}
		}
		uv := func(v uint64) []byte {
			var b []byte
			for v >= 0x80 {
				b = append(b, byte(v)|0x80)
				v >>= 7
			}
			return append(b, byte(v))
		}
		for _, sz := range []uint64{1 << 28, 1<<32 + 1, 1 << 40, 1<<64 - 1, 0} {
			cs = append(cs, crafted{"snz", fmt.Sprintf("declared length %d, one literal", sz), append(uv(sz), 0x00, 'a')})
		}
		cs = append(cs, crafted{"snz", "length varint that never ends", bytes.Repeat([]byte{0xFF}, 12)})
		cs = append(cs, crafted{"snz", "copy with offset 0", append(uv(8), 0x00, 'a', 0x01|(4<<2), 0x00)})
		g := refGzip(bytes.Repeat([]byte("gzip "), 40), 6)
		for _, fl := range []byte{0x02, 0x04, 0x08, 0x10, 0x1C, 0xE0, 0xFF} {
			m := append([]byte{}, g...)
			m[3] = fl
			cs = append(cs, crafted{"gzip", fmt.Sprintf("header flags %#x", fl), m})
		}
		{
			m := append([]byte{}, g[:10]...) // header, then FEXTRA with a huge XLEN
			m[3] = 0x04
			m = append(m, 0xFF, 0xFF, 1, 2, 3)
			cs = append(cs, crafted{"gzip", "FEXTRA with XLEN 65535 and 3 bytes", m})
			m3 := append([]byte{}, g...)
			copy(m3[len(m3)-4:], le(1<<32-1, 4))
			cs = append(cs, crafted{"gzip", "ISIZE 2^32-1", m3})
			cs = append(cs, crafted{"gzip", "stored block LEN/NLEN mismatch", append(append([]byte{}, g[:10]...), 0x01, 0xFF, 0xFF, 0x12, 0x34, 'x')})
		}
		for _, first := range []byte{0x00, 0x01, 0x0F, 0x11, 0x21, 0x3F, 0x7F, 0x81, 0xFF} {
			cs = append(cs, crafted{"br", fmt.Sprintf("first byte %#x then 0xFF x 16", first), append([]byte{first}, bytes.Repeat([]byte{0xFF}, 16)...)})
		}
		for _, exts := range []int{1, 100, 5000} {
			cs = append(cs, crafted{"lz4", fmt.Sprintf("literal length with %d extension bytes and no literals", exts), append([]byte{0xF0}, bytes.Repeat([]byte{0xFF}, exts)...)})
			cs = append(cs, crafted{"lz4", fmt.Sprintf("match length with %d extension bytes", exts), append([]byte{0x1F, 'a', 1, 0}, bytes.Repeat([]byte{0xFF}, exts)...)})
		}
		for _, c := range cs {
			c := c
			lastInput = fmt.Sprintf("crafted %s stream (%s): %x", c.codec, c.what, c.data[:min(len(c.data), 96)])
			g := guard(func() ([]byte, error) { return compress.Get("").Decompress(c.codec, c.data) })
			sum.Count("crafted-malformed:" + c.codec)
			rt++
			if g.panicked || g.hung {
				sum.ImplViolations = append(sum.ImplViolations, map[string]interface{}{"property": "C12", "kind": "panic-or-hang", "codec": c.codec, "what": c.what, "panicked": g.panicked, "hung": g.hung, "stream_hex": fmt.Sprintf("%x", c.data[:min(len(c.data), 64)])})
			}
		}
	}
	// ---- concurrent encoders: many goroutines compress different bodies at the same levels at once;
	// every stream must be complete and restore its own body (reference decoders), no panic
	{
		var wg sync.WaitGroup
		var mu sync.Mutex
		bad := 0
		var first map[string]interface{}
		for g := 0; g < 24; g++ {
			wg.Add(1)
			go func(g int) {
				defer wg.Done()
				r := hx.NewRand(seed*7919 + uint64(g))
				for it := 0; it < 12; it++ {
					body := bodyKinds(r, []int{0, 900, 5000, 70000}[r.Intn(4)])[[]string{"random", "text", "zeros", "pattern"}[r.Intn(4)]]
					lvl := []int{1, 6, 9}[r.Intn(3)]
					res := func() (res string) {
						defer func() {
							if p := recover(); p != nil {
								res = fmt.Sprintf("panic: %v", p)
							}
						}()
						gz, e1 := compress.VerifGzip(body, lvl)
						br, e2 := compress.VerifBrotli(body, lvl)
						if e1 != nil || e2 != nil {
							return fmt.Sprintf("encode error: %v %v", e1, e2)
						}
						if d, err := refGunzip(gz); err != nil || !bytes.Equal(d, body) {
							return fmt.Sprintf("gzip stream does not restore its body (err %v, %d of %d bytes)", err, len(d), len(body))
						}
						if d, err := refBrotliDecode(br); err != nil || !bytes.Equal(d, body) {
							return fmt.Sprintf("brotli stream does not restore its body (err %v, %d of %d bytes)", err, len(d), len(body))
						}
						return ""
					}()
					mu.Lock()
					rt += 2
					if res != "" {
						bad++
						if first == nil {
							first = map[string]interface{}{"property": "C12", "kind": "concurrent-encode", "what": res, "level": lvl, "size": len(body), "goroutines": 24}
						}
					}
					mu.Unlock()
				}
			}(g)
		}
		wg.Wait()
		sum.Distribution["concurrent_encodes"] = 24 * 12 * 2
		if first != nil {
			first["count"] = bad
			sum.ImplViolations = append(sum.ImplViolations, first)
		}
	}
	sum.Distribution["go_side_roundtrips"] = rt
	w.Flush()
	sum.DistinctNontrivial = distinct.Len()
	sum.Write(out)
}
