package main

import (
	"bytes"
	"fmt"
	"net/http"
	"net/http/httptest"
	"regexp"
	"sort"

	"github.com/vicanso/elton"
	"github.com/vicanso/pike/cache"
	"github.com/vicanso/pike/compress"
	"github.com/vicanso/pike/config"
	"pikeverif/internal/hx"
)

func init() { families["negotiate"] = runNegotiate }

func coqOptBytes(present bool, s string) string {
	if !present {
		return "None"
	}
	return "(Some " + hx.Str(s) + ")"
}

type tbl2 struct {
	seen  map[string]bool
	items []string
}

func (t *tbl2) add(n string, x []byte, y []byte) {
	k := n + "\x00" + string(x)
	if t.seen == nil {
		t.seen = map[string]bool{}
	}
	if t.seen[k] {
		return
	}
	t.seen[k] = true
	t.items = append(t.items, fmt.Sprintf("(%s, %s, %s)", hx.Str(n), hx.Bytes(x), hx.Bytes(y)))
}

type tbl1 struct {
	seen  map[string]bool
	items []string
}

func (t *tbl1) add(x []byte, y []byte, ok bool) {
	if t.seen == nil {
		t.seen = map[string]bool{}
	}
	if t.seen[string(x)] {
		return
	}
	t.seen[string(x)] = true
	v := "None"
	if ok {
		v = "(Some " + hx.Bytes(y) + ")"
	}
	t.items = append(t.items, fmt.Sprintf("(%s, %s)", hx.Bytes(x), v))
}

func sortedHeaderLines(h http.Header) []hline {
	var ls []hline
	for k, vs := range h {
		for _, v := range vs {
			ls = append(ls, hline{k, v})
		}
	}
	sort.Slice(ls, func(i, j int) bool {
		if ls[i].k != ls[j].k {
			return ls[i].k < ls[j].k
		}
		return ls[i].v < ls[j].v
	})
	return ls
}

var negAccepts = []string{"", "gzip", "br", "gzip, br", "br, gzip", "deflate", "identity", "zstd, gzip", "gzip, deflate, br", "br;q=1.0, gzip;q=0.8", "*", "x-gzip", "compress", "deflate, br"}

func genBody(r *hx.Rand, min int) []byte {
	if r.Chance(8) {
		// a body that is itself a gzip file (a .gz download served with identity encoding)
		g, _ := compress.VerifGzip(bytes.Repeat([]byte("inner text of the gz file "), 3+r.Intn(6)), 6)
		return g
	}
	switch r.Intn(9) {
	case 8:
		return bytes.Repeat([]byte("z"), 300) // compressible far beyond 10x
	case 0:
		return []byte{}
	case 1:
		return []byte("x")
	case 2:
		return bytes.Repeat([]byte("a"), max(min-1, 0))
	case 3:
		return bytes.Repeat([]byte("b"), min)
	case 4:
		return bytes.Repeat([]byte("c"), min+1)
	case 5:
		return r.Bytes(20 + r.Intn(40))
	case 6:
		return bytes.Repeat([]byte("hello world "), 5+r.Intn(8))
	default:
		return []byte(fmt.Sprintf("{\"id\":%d,\"name\":\"n%d\"}", r.Intn(1000), r.Intn(1000)))
	}
}

// negotiate family (C13, C05): real NewHTTPResponse / Cacheable / persistence
// round trip / Fill vs the model, with codec and regexp answers as tables.
func runNegotiate(seed uint64, n int, tier string, out string, replay string) {
	rnd := hx.NewRand(seed)
	sum := hx.NewSummary("negotiate", seed)
	sum.Rule = "one case = one upstream answer (status, headers, one of the six documented encodings or a malformed stream, body from {empty, 1 B, min-1, min, min+1, random, repetitive, json, a gzip file as the body itself}) x server settings (profile name registered/unregistered/best, min length 0/1/16/64, filter default/custom/non-matching; the same content types are reused under different filters within the process) x {not stored, stored via Cacheable, stored + persistence round trip}, served under 5 Accept-Encoding values drawn from 14 plain coding lists; non-trivial = compressible response (some variant above the threshold and type matches); distinct by (encoding, body, settings, path); Go-side only: 4 large highly compressible bodies (20 KB-300 KiB, LZ4 ratios 198-254) in each of the six upstream encodings (gzip also as a two-member stream) through NewHTTPResponse -> Cacheable -> Fill under 4 Accept-Encoding values, decoded with reference decoders"
	header := "From Coq Require Import List NArith ZArith.\nImport ListNotations.\nFrom Pike Require Import Base.Bytes Model.MaxAge Model.Resp Corr.RespCorr.\n"
	w := hx.NewCaseWriter(out, "negotiate", header, "list rs_case", "check_cases", 40, sum)
	distinct := hx.NewDistinct()
	compress.Reset([]config.CompressConfig{
		{Name: "p1", Levels: map[string]uint{"gzip": 1, "br": 1}},
		{Name: "p9", Levels: map[string]uint{"gzip": 9, "br": 11}},
		{Name: "pbad", Levels: map[string]uint{"gzip": 99, "br": 99}},
	})
	defFilter := regexp.MustCompile(cache.VerifDefaultFilterSource())
	cts := []string{"text/html; charset=utf-8", "application/json", "image/png", "", "application/octet-stream", "font/woff2"}
	filters := []string{"", "", "", "json", "image|octet", "^$", "text"}
	type pending struct {
		resp         *cache.HTTPResponse
		head, tail   string
		serves       []string
		serveRep     []interface{}
		gun, brd     *tbl1
		rep          map[string]interface{}
		gunAt, brdAt int
	}
	var pend []*pending
	doServe := func(resp *cache.HTTPResponse, acc string, gun, brd *tbl1) (string, interface{}, string) {
		req := httptest.NewRequest("GET", "/", nil)
		if acc != "" {
			req.Header.Set("Accept-Encoding", acc)
		}
		c := elton.NewContext(httptest.NewRecorder(), req)
		ferr := resp.Fill(c)
		var body []byte
		if c.BodyBuffer != nil {
			body = append([]byte{}, c.BodyBuffer.Bytes()...)
		}
		ce := c.GetHeader("Content-Encoding")
		if ferr == nil {
			switch ce {
			case "gzip":
				d, e := compress.Get("").Gunzip(body)
				gun.add(body, d, e == nil)
			case "br":
				d, e := compress.Get("").BrotliDecode(body)
				brd.add(body, d, e == nil)
			}
		}
		return fmt.Sprintf("{| so_accept := %s; so_ok := %s; so_status := %s; so_headers := %s; so_encoding := %s; so_body := %s |}",
				hx.Str(acc), hx.Bool(ferr == nil), hx.Z(int64(c.StatusCode)), coqHeaders(sortedHeaderLines(c.Header())), hx.Str(ce), hx.Bytes(body)),
			map[string]interface{}{"accept": acc, "ok": ferr == nil, "status": c.StatusCode, "content_encoding": ce, "body_len": len(body)}, ce
	}
	for i := 0; i < n; i++ {
		min := []int{0, 1, 16, 64, 16, 16}[rnd.Intn(6)]
		orig := genBody(rnd, min)
		enc := []string{"", "", "gzip", "br", "lz4", "snz", "zst", "gzip", "br"}[rnd.Intn(9)]
		valid := true
		var data []byte
		switch enc {
		case "":
			data = orig
		case "gzip":
			data, _ = compress.VerifGzip(orig, 1+rnd.Intn(9))
		case "br":
			data, _ = compress.VerifBrotli(orig, 1+rnd.Intn(11))
		case "lz4":
			if len(orig) == 0 {
				enc, data = "", orig
			} else {
				var err error
				data, err = compress.VerifLZ4Encode(orig)
				if err != nil || len(data) == 0 { // incompressible block: lz4.CompressBlock returns 0
					enc, data = "", orig
				}
			}
		case "snz":
			data = compress.VerifSnappyEncode(orig)
		case "zst":
			data, _ = compress.VerifZSTDEncode(orig, 2)
		}
		if rnd.Chance(4) && enc != "" && len(data) > 4 { // malformed stream
			data = append([]byte{}, data...)
			data[len(data)/2] ^= 0x5a
			data = data[:len(data)-2]
			valid = false
		}
		if enc != "" && len(data) == 0 {
			valid = false
		}
		ct := cts[rnd.Intn(len(cts))]
		status := []int{200, 200, 200, 404, 500, 203, 301}[rnd.Intn(7)]
		uph := http.Header{}
		if ct != "" {
			uph.Set("Content-Type", ct)
		}
		if enc != "" {
			uph.Set("Content-Encoding", enc)
		}
		uph.Set("Content-Length", fmt.Sprint(len(data)))
		if rnd.Bool() {
			uph.Set("Date", "Mon, 02 Jan 2006 15:04:05 GMT")
		}
		if rnd.Chance(30) {
			uph.Set("Connection", "keep-alive")
		}
		if rnd.Chance(50) {
			uph.Set("Etag", fmt.Sprintf("\"%d\"", rnd.Intn(100)))
		}
		if rnd.Chance(30) {
			uph.Add("X-Multi", "a")
			uph.Add("X-Multi", "b")
		}
		if rnd.Chance(30) {
			uph.Set("Cache-Control", "max-age=60")
		}
		upLines := sortedHeaderLines(uph)
		srv := []string{"", "p1", "p9", "pbad", "bestCompression", "nosuch"}[rnd.Intn(6)]
		fsrc := filters[rnd.Intn(len(filters))]
		var freg *regexp.Regexp
		if fsrc != "" {
			freg = regexp.MustCompile(fsrc)
		}
		path := rnd.Intn(3) // 0 not stored, 1 cacheable, 2 cacheable + persist
		var gz, br tbl2
		var gun, brd tbl1
		var oth tbl2
		resp, err := cache.NewHTTPResponse(status, uph.Clone(), enc, data)
		newOK := err == nil
		if enc != "" && enc != "gzip" && enc != "br" {
			if d, e := compress.Get("").Decompress(enc, data); e == nil {
				oth.add(enc, data, d)
			}
		}
		var stored [3][]byte
		var serves []string
		var serveRep []interface{}
		nontrivial := false
		if newOK {
			resp.CompressSrv = srv
			resp.CompressMinLength = min
			resp.CompressContentTypeFilter = freg
			if path >= 1 {
				hc := cache.NewHTTPCache()
				hc.Get()
				hc.Cacheable(resp, 60)
				if path == 2 {
					b, e := hc.Bytes()
					if e != nil {
						panic(e)
					}
					hc2 := cache.NewHTTPCache()
					if e := hc2.FromBytes(b); e != nil {
						panic(e)
					}
					_, resp = hc2.Get()
					if resp == nil {
						panic("restored entry is not a hit")
					}
				}
			}
			nontrivial = resp.VerifShouldCompressed()
			stored = [3][]byte{resp.GzipBody, resp.BrBody, resp.RawBody}
			// oracle answers for everything the model may ask
			raw, rawErr := resp.GetRawBody()
			for _, name := range []string{srv, "bestCompression"} {
				for _, x := range [][]byte{orig, raw} {
					if g, e := compress.Get(name).Gzip(x); e == nil {
						gz.add(name, x, g)
						d, e2 := compress.Get("").Gunzip(g)
						gun.add(g, d, e2 == nil)
					}
					if b, e := compress.Get(name).Brotli(x); e == nil {
						br.add(name, x, b)
						d, e2 := compress.Get("").BrotliDecode(b)
						brd.add(b, d, e2 == nil)
					}
				}
			}
			_ = rawErr
			for _, x := range [][]byte{data, resp.GzipBody} {
				d, e := compress.Get("").Gunzip(x)
				gun.add(x, d, e == nil)
			}
			for _, x := range [][]byte{data, resp.BrBody} {
				d, e := compress.Get("").BrotliDecode(x)
				brd.add(x, d, e == nil)
			}
			for k := 0; k < 5; k++ {
				acc := negAccepts[rnd.Intn(len(negAccepts))]
				t, r, ce := doServe(resp, acc, &gun, &brd)
				serves = append(serves, t)
				serveRep = append(serveRep, r)
				sum.Count("served:" + ce)
			}
		}
		// filter oracle: every (filter, content type) pair of this case
		var ftab []string
		reg := defFilter
		if freg != nil {
			reg = freg
		}
		ftab = append(ftab, fmt.Sprintf("(%s, %s, %s)", coqOptBytes(fsrc != "", fsrc), hx.Str(ct), hx.Bool(reg.MatchString(ct))))
		origForModel := orig
		if !valid {
			origForModel = nil
		}
		stored0 := [3][]byte{append([]byte{}, stored[0]...), append([]byte{}, stored[1]...), append([]byte{}, stored[2]...)}
		headT := fmt.Sprintf("{| rc_status := %s; rc_up_headers := %s; rc_up_encoding := %s; rc_up_data := %s; rc_orig := %s; rc_srv := %s; rc_min := %s; rc_filter := %s; rc_cacheable := %s; rc_new_ok := %s; rc_stored := (%s, %s, %s); rc_gzip_t := %s; rc_br_t := %s; ",
			hx.Z(int64(status)), coqHeaders(upLines), hx.Str(enc), hx.Bytes(data), hx.Bytes(origForModel), hx.Str(srv), hx.Z(int64(min)), coqOptBytes(fsrc != "", fsrc),
			hx.Bool(path >= 1), hx.Bool(newOK), hx.Bytes(stored0[0]), hx.Bytes(stored0[1]), hx.Bytes(stored0[2]),
			hx.List(gz.items), hx.List(br.items))
		tailT := fmt.Sprintf("rc_other_t := %s; rc_filter_t := %s; rc_valid := %s; ", hx.List(oth.items), hx.List(ftab), hx.Bool(valid))
		rep := map[string]interface{}{"status": status, "upstream_encoding": enc, "valid_stream": valid, "body_len": len(orig), "body": string(orig), "content_type": ct, "profile": srv, "min_length": min, "filter": fsrc,
			"path": []string{"not-stored", "cacheable", "cacheable+persist"}[path]}
		gunC, brdC := gun, brd
		pd := &pending{head: headT, tail: tailT, serves: serves, serveRep: serveRep, gun: &gunC, brd: &brdC, rep: rep}
		if newOK {
			pd.resp = resp
		}
		pend = append(pend, pd)
		sum.Evaluations++
		sum.Count("upstream:" + enc)
		sum.Count("path:" + []string{"not-stored", "cacheable", "cacheable+persist"}[path])
		if !valid {
			sum.Count("malformed-stream")
		}
		if nontrivial {
			distinct.Add(fmt.Sprintf("%s|%x|%s|%d|%s|%s|%d", enc, orig, srv, min, fsrc, ct, path))
		}
		sum.Sample(rep)
	}
	// late serves: every response is served again after all the other cases ran
	// (stored variants must not have been disturbed by later compressions)
	for _, pd := range pend {
		if pd.resp != nil {
			for _, acc := range []string{"gzip", "br", ""} {
				t, r, _ := doServe(pd.resp, acc, pd.gun, pd.brd)
				pd.serves = append(pd.serves, t)
				rm := r.(map[string]interface{})
				rm["late"] = true
				pd.serveRep = append(pd.serveRep, rm)
			}
			sum.Count("late-serves")
		}
		pd.rep["serves"] = pd.serveRep
		term := pd.head + fmt.Sprintf("rc_gunzip_t := %s; rc_brdec_t := %s; ", hx.List(pd.gun.items), hx.List(pd.brd.items)) + pd.tail + "rc_serves := " + hx.List(pd.serves) + " |}"
		w.Add(term, pd.rep)
		sum.Sample(pd.rep)
	}
	// ---- Go-side only: large, highly compressible bodies in every upstream encoding (too big for Coq terms):
	// fetch -> store -> serve under several Accept-Encoding values; decoded body must equal the origin's
	bigs := map[string][]byte{
		"20000 x 'a' (lz4 ratio ~198)":             bytes.Repeat([]byte("a"), 20000),
		"'hello world, ' x 10000 (lz4 ratio ~239)": bytes.Repeat([]byte("hello world, "), 10000),
		"300 KiB zeros (lz4 ratio ~254)":           make([]byte, 300<<10),
		"64-byte pattern x 3000":                   bytes.Repeat(rnd.Bytes(64), 3000),
	}
	for name, orig := range bigs {
		for _, enc := range []string{"", "gzip", "gzip-2-members", "br", "lz4", "snz", "zst"} {
			var data []byte
			switch enc {
			case "":
				data = orig
			case "gzip-2-members": // a gzip body made of two members (cat a.gz b.gz): still one valid gzip stream
				a, _ := compress.VerifGzip(orig[:len(orig)/3], 6)
				b, _ := compress.VerifGzip(orig[len(orig)/3:], 9)
				data = append(append([]byte{}, a...), b...)
				enc = "gzip"
			case "gzip":
				data, _ = compress.VerifGzip(orig, 6)
			case "br":
				data, _ = compress.VerifBrotli(orig, 6)
			case "lz4":
				data, _ = compress.VerifLZ4Encode(orig)
			case "snz":
				data = compress.VerifSnappyEncode(orig)
			case "zst":
				data, _ = compress.VerifZSTDEncode(orig, 2)
			}
			if len(data) == 0 {
				continue
			}
			sum.Count("big-body:" + enc)
			uph := http.Header{}
			uph.Set("Content-Type", "text/plain")
			uph.Set("X-End-To-End", "kept")
			if enc != "" {
				uph.Set("Content-Encoding", enc)
			}
			fail := func(stage string, detail string) {
				sum.ImplViolations = append(sum.ImplViolations, map[string]interface{}{"property": "C05", "kind": "big-body", "body": name, "upstream_encoding": enc, "stream_len": len(data), "body_len": len(orig), "stage": stage, "detail": detail})
			}
			resp, err := cache.NewHTTPResponse(200, uph, enc, data)
			if err != nil {
				fail("NewHTTPResponse", err.Error())
				continue
			}
			resp.CompressSrv = "bestCompression"
			resp.CompressMinLength = 1024
			hc := cache.NewHTTPCache()
			hc.Get()
			hc.Cacheable(resp, 60)
			_, stored := hc.Get()
			if stored == nil {
				fail("Cacheable", "entry is not a hit")
				continue
			}
			for _, acc := range []string{"", "gzip", "br", "gzip, br"} {
				req := httptest.NewRequest("GET", "/", nil)
				if acc != "" {
					req.Header.Set("Accept-Encoding", acc)
				}
				c := elton.NewContext(httptest.NewRecorder(), req)
				if err := stored.Fill(c); err != nil {
					fail("Fill "+acc, err.Error())
					continue
				}
				body := c.BodyBuffer.Bytes()
				var dec []byte
				var derr error
				switch ce := c.GetHeader("Content-Encoding"); ce {
				case "gzip":
					dec, derr = refGunzip(body)
				case "br":
					dec, derr = refBrotliDecode(body)
				case "":
					dec = body
				default:
					derr = fmt.Errorf("unexpected Content-Encoding %q", ce)
				}
				if derr != nil || !bytes.Equal(dec, orig) || c.StatusCode != 200 || c.GetHeader("X-End-To-End") != "kept" {
					fail("serve "+acc, fmt.Sprintf("decoded %d bytes, err %v, status %d", len(dec), derr, c.StatusCode))
				}
			}
		}
	}
	w.Flush()
	sum.DistinctNontrivial = distinct.Len()
	sum.Write(out)
}
