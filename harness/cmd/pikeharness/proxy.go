package main

import (
	"bytes"
	"fmt"
	"io"
	"net/http"
	"net/http/httptest"
	"net/url"
	"sort"
	"strings"
	"sync"
	"time"

	"github.com/vicanso/elton"
	"github.com/vicanso/elton/middleware"
	"github.com/vicanso/pike/cache"
	"github.com/vicanso/pike/config"
	"github.com/vicanso/pike/location"
	"github.com/vicanso/pike/server"
	"github.com/vicanso/pike/upstream"
	"pikeverif/internal/hx"
)

func init() { families["proxy"] = runProxy }

type seenReq struct {
	method, path, query string
	header              http.Header
	body                []byte
	status              int
	respHeader          http.Header
}

var originBody = []byte(strings.Repeat("0123456789abcdef", 12) + "the-end") // 199 bytes

func headerLines(h http.Header, drop func(string) bool) []hline {
	var ls []hline
	for k, vs := range h {
		if drop != nil && drop(k) {
			continue
		}
		for _, v := range vs {
			ls = append(ls, hline{k, v})
		}
	}
	sort.SliceStable(ls, func(i, j int) bool { return ls[i].k < ls[j].k })
	return ls
}

func coqPrequest(method, path, query string, h []hline, body []byte) string {
	return fmt.Sprintf("{| rq_method := %s; rq_path := %s; rq_query := %s; rq_headers := %s; rq_body := %s |}",
		hx.Str(method), hx.Str(path), hx.Str(query), coqHeaders(h), hx.Bytes(body))
}

// proxy family (C15): real NewProxy against a recording, conforming origin.
func runProxy(seed uint64, n int, tier string, out string, replay string) {
	rnd := hx.NewRand(seed)
	sum := hx.NewSummary("proxy", seed)
	sum.Rule = "one case = one client request (methods GET/HEAD/POST/PUT/DELETE, paths with and without rewrite matches, queries incl. repeated keys, ';', bad escapes and empty, header sets with multi-valued and custom headers, conditional headers with matching / non-matching ETag and Last-Modified, Range / If-Range / If-Match / If-Unmodified-Since, bodies) under a cache label in {fetching, hitForPass, passed}, through the real NewProxy with a location drawn from 6 shapes (path rewrite of the documented * forms, added request / response headers, added query parameters, upstream Accept-Encoding) against a local origin that records the request and answers like http.ServeContent with ETag, Last-Modified and max-age; then the full middleware chain (error, fresh, responder, cache, proxy) serves the same new key twice more; non-trivial = request carries a conditional or range header, or the location modifies something; distinct by request + location"
	header := "From Coq Require Import List NArith ZArith.\nImport ListNotations.\nFrom Pike Require Import Base.Bytes Model.MaxAge Model.Proxy Corr.C15Corr.\n"
	w := hx.NewCaseWriter(out, "proxy", header, "list px_case", "check_cases", 40, sum)
	distinct := hx.NewDistinct()

	var mu sync.Mutex
	var last *seenReq
	modTime := time.Date(2020, 1, 2, 3, 4, 5, 0, time.UTC)
	origin := httptest.NewServer(http.HandlerFunc(func(rw http.ResponseWriter, r *http.Request) {
		b, _ := io.ReadAll(r.Body)
		s := &seenReq{method: r.Method, path: r.URL.Path, query: r.URL.RawQuery, header: r.Header.Clone(), body: b}
		rec := httptest.NewRecorder()
		rec.Header().Set("Etag", "\"v1\"")
		rec.Header().Set("Cache-Control", "max-age=60")
		rec.Header().Set("X-Origin", "o1")
		rec.Header().Add("X-Origin-Multi", "m1")
		rec.Header().Add("X-Origin-Multi", "m2")
		rec.Header().Set("Content-Type", "text/plain")
		if r.Method == "GET" || r.Method == "HEAD" {
			http.ServeContent(rec, r, "", modTime, bytes.NewReader(originBody))
		} else {
			rec.WriteHeader(200)
			_, _ = rec.Write([]byte("posted"))
		}
		s.status = rec.Code
		s.respHeader = rec.Header().Clone()
		for k, vs := range rec.Header() {
			for _, v := range vs {
				rw.Header().Add(k, v)
			}
		}
		rw.WriteHeader(rec.Code)
		_, _ = rw.Write(rec.Body.Bytes())
		mu.Lock()
		last = s
		mu.Unlock()
	}))
	defer origin.Close()

	type locShape struct {
		cfg   config.LocationConfig
		reqH  []hline
		respH []hline
		query string
	}
	shapes := []locShape{
		{cfg: config.LocationConfig{}},
		{cfg: config.LocationConfig{Rewrites: []string{"/api/*:/$1"}}},
		{cfg: config.LocationConfig{ReqHeaders: []string{"X-Req-A:1", "X-Req-B:2"}, RespHeaders: []string{"X-Resp-A:r1"}}, reqH: []hline{{"X-Req-A", "1"}, {"X-Req-B", "2"}}, respH: []hline{{"X-Resp-A", "r1"}}},
		{cfg: config.LocationConfig{QueryStrings: []string{"added:1"}}, query: "added=1"},
		{cfg: config.LocationConfig{QueryStrings: []string{"k b:v&w", "a:1"}, Rewrites: []string{"/v1/*/x/*:/$2/$1"}, ReqHeaders: []string{"X-Client:dup"}}, query: "a=1&k+b=v%26w", reqH: []hline{{"X-Client", "dup"}}},
		{cfg: config.LocationConfig{RespHeaders: []string{"Cache-Control:no-store"}}, respH: []hline{{"Cache-Control", "no-store"}}},
	}
	cache.ResetDispatchers([]config.CacheConfig{{Name: "pc", Size: 1000, HitForPass: "5m"}})
	defer cache.ResetDispatchers(nil)
	keyN := 0
	for i := 0; i < n; i++ {
		sh := shapes[rnd.Intn(len(shapes))]
		upAccept := []string{"", "", "gzip", "gzip, br"}[rnd.Intn(4)]
		upstream.Reset([]config.UpstreamConfig{{Name: "pu", AcceptEncoding: upAccept, Servers: []config.UpstreamServerConfig{{Addr: origin.URL}}}})
		lc := sh.cfg
		lc.Name, lc.Upstream = "pl", "pu"
		location.Reset([]config.LocationConfig{lc})
		s := server.NewServer(server.ServerOption{Locations: []string{"pl"}, Cache: "pc"})
		// request
		method := []string{"GET", "GET", "GET", "HEAD", "POST", "PUT", "DELETE"}[rnd.Intn(7)]
		keyN++
		path := []string{"/res", "/api/items/7", "/v1/aa/x/bb", "/a b", "/api/", "/deep/api/z"}[rnd.Intn(6)] + fmt.Sprintf("/k%d", keyN)
		query := []string{"", "x=1", "z=1&a=2", "a=1&a=2&b", "z=1&a=2;b=3&bad=%zz", "q=a+b%20c", "=&&"}[rnd.Intn(7)]
		var body []byte
		if method == "POST" || method == "PUT" {
			body = []byte(fmt.Sprintf("payload-%d", rnd.Intn(1000)))
		}
		target := "http://example.com" + (&url.URL{Path: path}).EscapedPath()
		if query != "" {
			target += "?" + query
		}
		req := httptest.NewRequest(method, target, bytes.NewReader(body))
		req.Header.Set("X-Client", "c1")
		if rnd.Chance(40) {
			req.Header.Add("X-Client-Multi", "a")
			req.Header.Add("X-Client-Multi", "b")
		}
		if rnd.Chance(50) {
			req.Header.Set("Accept-Encoding", []string{"gzip", "br", "identity"}[rnd.Intn(3)])
		}
		if rnd.Chance(40) {
			req.Header.Set("User-Agent", "verif/1")
		}
		condKind := rnd.Intn(10)
		switch condKind {
		case 0:
			req.Header.Set("If-None-Match", "\"v1\"")
		case 1:
			req.Header.Set("If-None-Match", "\"other\"")
		case 2:
			req.Header.Set("If-Modified-Since", modTime.Format(http.TimeFormat))
		case 3:
			req.Header.Set("If-None-Match", "\"v1\"")
			req.Header.Set("If-Modified-Since", modTime.Format(http.TimeFormat))
		case 4:
			req.Header.Set("Range", "bytes=0-9")
		case 5:
			req.Header.Set("Range", "bytes=10-")
			req.Header.Set("If-Range", "\"v1\"")
		case 6:
			req.Header.Set("If-Match", "\"nope\"")
		case 7:
			req.Header.Set("If-Unmodified-Since", "Mon, 02 Jan 2006 15:04:05 GMT")
		}
		label := []cache.Status{cache.StatusFetching, cache.StatusFetching, cache.StatusHitForPass, cache.StatusPassed}[rnd.Intn(4)]
		if method != "GET" && method != "HEAD" {
			label = cache.StatusPassed
		}
		clientBefore := headerLines(req.Header, nil)
		c := elton.NewContext(httptest.NewRecorder(), req)
		c.Next = func() error { return nil }
		server.VerifSetCacheStatus(c, label)
		mu.Lock()
		last = nil
		mu.Unlock()
		err := server.NewProxy(s)(c)
		mu.Lock()
		seen := last
		mu.Unlock()
		if err != nil || seen == nil {
			panic(fmt.Sprintf("proxy failed: %v", err))
		}
		resp := server.VerifGetHTTPResp(c)
		offered := server.VerifGetHTTPCacheMaxAge(c)
		// the rewriter's image (oracle): apply the location's rewriter to a copy
		loc := location.Get("example.com", path, "pl")
		rewritten := path
		if loc != nil && loc.URLRewriter != nil {
			r2 := httptest.NewRequest("GET", "http://x"+(&url.URL{Path: path}).EscapedPath(), nil)
			r2.URL.Path = path
			loc.URLRewriter(r2)
			rewritten = r2.URL.Path
		}
		dropHost := func(k string) bool { return k == "Host" }
		afterLines := headerLines(c.Request.Header, nil)
		// full chain on the same (so far uncached) key
		var follow []string
		var followRep []string
		if method == "GET" {
			e := elton.New()
			e.Use(middleware.NewDefaultError())
			e.Use(middleware.NewDefaultFresh())
			e.Use(server.NewResponder())
			e.Use(server.NewCache(s))
			e.Use(server.NewProxy(s))
			e.ALL("/*", func(c *elton.Context) error { return nil })
			for step := 0; step < 3; step++ {
				r2 := httptest.NewRequest("GET", target+"&chain=1", nil)
				if query == "" {
					r2 = httptest.NewRequest("GET", target+"?chain=1", nil)
				}
				cond := false
				if step == 0 { // the first request on the new key carries this case's conditional / range headers
					for _, k := range []string{"If-None-Match", "If-Modified-Since", "Range", "If-Range", "If-Match", "If-Unmodified-Since"} {
						if v := req.Header.Get(k); v != "" {
							r2.Header.Set(k, v)
							cond = true
						}
					}
				}
				rec := httptest.NewRecorder()
				e.ServeHTTP(rec, r2)
				follow = append(follow, fmt.Sprintf("(%s, %s, %s, %s)", hx.Bool(cond), hx.Z(int64(rec.Code)), hx.Z(int64(rec.Body.Len())), hx.Bool(rec.Header().Get("X-Status") == "hit")))
				followRep = append(followRep, fmt.Sprintf("cond=%v status=%d len=%d x-status=%s", cond, rec.Code, rec.Body.Len(), rec.Header().Get("X-Status")))
			}
		}
		term := fmt.Sprintf("{| px_fetching := %s; px_loc := {| pl_req_headers := %s; pl_resp_headers := %s; pl_query := %s |}; px_up_accept := %s; px_request := %s; px_rewritten := %s; px_seen := %s; px_after := %s; px_origin_status := %s; px_origin_headers := %s; px_resp_status := %s; px_resp_headers := %s; px_offered := %s; px_followups := %s; px_full_len := %s |}",
			hx.Bool(label == cache.StatusFetching), coqHeaders(sh.reqH), coqHeaders(sh.respH), hx.Str(sh.query), hx.Str(upAccept),
			coqPrequest(method, path, query, clientBefore, body), hx.Str(rewritten),
			coqPrequest(seen.method, seen.path, seen.query, headerLines(seen.header, dropHost), seen.body),
			coqPrequest(method, c.Request.URL.Path, c.Request.URL.RawQuery, afterLines, body),
			hx.Z(int64(seen.status)), coqHeaders(headerLines(seen.respHeader, nil)),
			hx.Z(int64(resp.StatusCode)), coqHeaders(headerLines(resp.Header, nil)), hx.Z(int64(offered)), hx.List(follow), hx.Z(int64(len(originBody))))
		rep := map[string]interface{}{"method": method, "path": path, "query": query, "label": labelName[label], "client_headers": lines2json(clientBefore), "location": fmt.Sprintf("%+v", lc), "upstream_accept_encoding": upAccept,
			"origin_saw": fmt.Sprintf("%s %s?%s", seen.method, seen.path, seen.query), "origin_saw_headers": lines2json(headerLines(seen.header, dropHost)), "origin_status": seen.status, "offered_max_age": offered, "followups": followRep}
		w.Add(term, rep)
		sum.Evaluations++
		sum.Count("label:" + labelName[label])
		sum.Count(fmt.Sprintf("cond:%d", condKind))
		if condKind <= 7 || len(sh.reqH) > 0 || sh.query != "" || len(sh.cfg.Rewrites) > 0 {
			distinct.Add(fmt.Sprint(method, path, query, clientBefore, sh.cfg, labelName[label]))
		}
		sum.Sample(rep)
	}
	w.Flush()
	sum.DistinctNontrivial = distinct.Len()
	sum.Write(out)
}

var labelName = map[cache.Status]string{cache.StatusFetching: "fetching", cache.StatusHitForPass: "hitForPass", cache.StatusHit: "hit", cache.StatusPassed: "passed"}
