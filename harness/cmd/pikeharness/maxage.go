package main

import (
	"fmt"
	"net/http"
	"strings"

	"github.com/vicanso/pike/server"
	"pikeverif/internal/hx"
)

func init() { families["maxage"] = runMaxAge }

var maMethods = []string{"GET", "GET", "HEAD", "POST", "PUT", "PATCH", "DELETE", "OPTIONS", "TRACE", "CONNECT", "get", "Head", "", "PURGE", "PROPFIND", "GETS"}

type hline struct{ k, v string }

func coqHeaders(lines []hline) string {
	items := make([]string, len(lines))
	for i, l := range lines {
		items[i] = "(" + hx.Str(l.k) + ", " + hx.Str(l.v) + ")"
	}
	return hx.List(items)
}

func caseVariant(r *hx.Rand, s string) string {
	switch r.Intn(6) {
	case 0:
		return strings.ToUpper(s)
	case 1:
		return strings.Title(s)
	case 2: // mixed
		b := []byte(s)
		for i := range b {
			if r.Bool() && b[i] >= 'a' && b[i] <= 'z' {
				b[i] -= 32
			}
		}
		return string(b)
	case 3: // U+017F for one 's' (Go's (?i) folds it to s)
		if i := strings.IndexByte(s, 's'); i >= 0 && r.Chance(50) {
			return s[:i] + "ſ" + s[i+1:]
		}
		return s
	default:
		return s
	}
}

var numValues = []string{"0", "1", "5", "60", "300", "86400", "2147483647", "2147483648", "9223372036854775807",
	"9223372036854775808", "99999999999999999999999", "007", "", "abc", "-5", "60abc", "\"60\"", " 60", "6 0"}

func genDirective(r *hx.Rand, sum *hx.Summary) string {
	switch r.Intn(16) {
	case 0:
		sum.Count("dir:public")
		return caseVariant(r, "public")
	case 1:
		sum.Count("dir:private")
		return caseVariant(r, "private")
	case 2:
		sum.Count("dir:no-cache")
		return caseVariant(r, "no-cache")
	case 3:
		sum.Count("dir:no-store")
		return caseVariant(r, "no-store")
	case 4, 5, 6:
		sum.Count("dir:max-age")
		return caseVariant(r, "max-age") + "=" + r.Pick(numValues)
	case 7, 8:
		sum.Count("dir:s-maxage")
		return caseVariant(r, "s-maxage") + "=" + r.Pick(numValues)
	case 9:
		sum.Count("dir:qualified-forbidden")
		return r.Pick([]string{"no-cache=\"Set-Cookie\"", "private=\"x-a\"", "Private=\"x\"", "no-cache =x"})
	case 10:
		sum.Count("dir:near-miss")
		return r.Pick([]string{"x-max-age=60", "xs-maxage=60", "min-max-age=10", "max-age =60", "max-age= 60", "s-max-age=60", "smax-age=60",
			"xprivate", "privateer", "no-cached", "nocache", "no_store", "x=\"max-age=60\"", "max-age", "s-maxage"})
	case 11:
		sum.Count("dir:other")
		return r.Pick([]string{"must-revalidate", "proxy-revalidate", "immutable", "stale-while-revalidate=60", "stale-if-error=86400", "no-transform", ""})
	case 12:
		sum.Count("dir:empty")
		return ""
	default:
		sum.Count("dir:max-age")
		return "max-age=" + r.Pick([]string{"1", "10", "60", "3600"})
	}
}

func genHeaderSet(r *hx.Rand, sum *hx.Summary) []hline {
	var lines []hline
	// noise
	if r.Chance(40) {
		lines = append(lines, hline{"Content-Type", "text/html"})
	}
	if r.Chance(20) {
		lines = append(lines, hline{"Expires", "Thu, 01 Dec 2094 16:00:00 GMT"})
	}
	if r.Chance(10) {
		lines = append(lines, hline{"Pragma", "no-cache"})
	}
	// Cache-Control lines
	nl := []int{0, 1, 1, 1, 1, 1, 2, 2, 3}[r.Intn(9)]
	for i := 0; i < nl; i++ {
		nd := 1 + r.Intn(4)
		var parts []string
		for j := 0; j < nd; j++ {
			parts = append(parts, genDirective(r, sum))
		}
		sep := r.Pick([]string{", ", ",", " , ", ",\t", ",  ", ", "})
		v := strings.Join(parts, sep)
		if r.Chance(10) {
			v = r.Pick([]string{" ", "\t", ","}) + v
		}
		if r.Chance(3) { // raw byte noise
			p := r.Intn(len(v) + 1)
			v = v[:p] + string(r.Bytes(1+r.Intn(2))) + v[p:]
		}
		lines = append(lines, hline{"Cache-Control", v})
	}
	// Set-Cookie
	switch r.Intn(12) {
	case 0:
		sum.Count("cookie:value")
		lines = append(lines, hline{"Set-Cookie", "a=b"})
	case 1:
		sum.Count("cookie:empty")
		lines = append(lines, hline{"Set-Cookie", ""})
	case 2:
		sum.Count("cookie:empty+value")
		lines = append(lines, hline{"Set-Cookie", ""}, hline{"Set-Cookie", "sid=1"})
	case 3:
		sum.Count("cookie:two")
		lines = append(lines, hline{"Set-Cookie", "a=b"}, hline{"Set-Cookie", "c=d"})
	default:
		sum.Count("cookie:none")
	}
	// Age
	switch r.Intn(10) {
	case 0, 1, 2, 3:
		sum.Count("age:none")
	default:
		a := r.Pick([]string{"0", "1", "5", "30", "60", "61", "-5", "+5", " 5", "5 ", "abc", "", "1e3", "9223372036854775807",
			"-9223372036854775808", "99999999999999999999", "-99999999999999999999", "-", "+", "0x10", "1_0"})
		sum.Count("age:" + a)
		lines = append(lines, hline{"Age", a})
		if r.Chance(10) {
			lines = append(lines, hline{"Age", "7"})
		}
	}
	// shuffle
	for i := len(lines) - 1; i > 0; i-- {
		j := r.Intn(i + 1)
		lines[i], lines[j] = lines[j], lines[i]
	}
	return lines
}

// corpus of hand-made header sets that always run first (minimised earlier failures)
var maxageCorpus = [][]hline{
	{{"Cache-Control", "Private, max-age=60"}},
	{{"Set-Cookie", ""}, {"Set-Cookie", "a=b"}, {"Cache-Control", "max-age=60"}},
	{{"Cache-Control", "x-max-age=60"}},
	{{"Cache-Control", "public"}, {"Age", "-5"}},
	{{"Cache-Control", "max-age=10"}, {"Age", "-5"}},
	{{"Cache-Control", "max-age=300, s-maxage=0"}},
	{{"Cache-Control", "S-MaxAge=0, max-age=60"}},
	{{"Cache-Control", "max-age=60"}, {"Cache-Control", "NO-STORE"}},
	{{"Cache-Control", "max-age=99999999999999999999"}, {"Age", "1"}},
	{{"Cache-Control", "ſ-maxage=5, max-age=60"}},
	{{"Cache-Control", "no-ſtore, max-age=60"}},
	{{"Cache-Control", "max-age=60,s-maxage=30"}, {"Age", "30"}},
	{{"Cache-Control", "max-age=60"}, {"Age", "60"}},
	{{"Cache-Control", "max-age=60"}, {"Age", ""}, {"Age", "5"}},
}

func runMaxAge(seed uint64, n int, tier string, out string, replay string) {
	rnd := hx.NewRand(seed)
	sum := hx.NewSummary("maxage", seed)
	sum.Rule = "one case = one upstream header set (0-3 Cache-Control lines of 1-4 directives with casing/spacing variants incl. U+017F, near-miss names, qualified forms, numeric corner values; Set-Cookie absent/empty/value/several; Age valid/negative/signed/non-numeric/huge; noise headers; shuffled), run through the real getCacheMaxAge, and one request method from a pool of 15 (GET/HEAD, the other standard methods, case variants, extension methods, empty) through requestIsPass; hand-made corpus first; non-trivial = has a Cache-Control line; distinct by the exact header lines"
	header := "From Coq Require Import List NArith ZArith.\nImport ListNotations.\nFrom Pike Require Import Base.Bytes Model.MaxAge Corr.C03Corr.\n"
	w := hx.NewCaseWriter(out, "maxage", header, "list ma_case", "check_cases", 250, sum)
	distinct := hx.NewDistinct()
	one := func(lines []hline) {
		h := http.Header{}
		for _, l := range lines {
			h.Add(l.k, l.v)
		}
		got := server.VerifGetCacheMaxAge(h)
		method := maMethods[rnd.Intn(len(maMethods))]
		pass := server.VerifRequestIsPass(&http.Request{Method: method})
		term := fmt.Sprintf("{| ma_headers := %s; ma_impl := %s; ma_method := %s; ma_pass := %s |}", coqHeaders(lines), hx.Z(int64(got)), hx.Str(method), hx.Bool(pass))
		rep := map[string]interface{}{"headers": lines2json(lines), "impl_max_age": got, "method": method, "request_is_pass": pass}
		sum.Count("method:" + method)
		w.Add(term, rep)
		sum.Evaluations++
		hasCC := false
		sig := ""
		for _, l := range lines {
			if l.k == "Cache-Control" {
				hasCC = true
			}
			sig += l.k + ":" + l.v + "\n"
		}
		if hasCC {
			distinct.Add(sig)
		}
		if got > 0 {
			sum.Count("result:positive")
		} else {
			sum.Count("result:not-stored")
		}
		sum.Sample(rep)
	}
	for _, c := range maxageCorpus {
		one(c)
	}
	for i := 0; i < n; i++ {
		one(genHeaderSet(rnd, sum))
	}
	w.Flush()
	sum.DistinctNontrivial = distinct.Len()
	sum.Write(out)
}

func lines2json(lines []hline) []string {
	r := make([]string, len(lines))
	for i, l := range lines {
		r[i] = fmt.Sprintf("%s: %q", l.k, l.v)
	}
	return r
}
