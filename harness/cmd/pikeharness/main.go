// pikeharness runs one scenario family against the real pike code (built from
// /repo with -tags verif) and writes Coq case files plus a JSON summary.
package main

import (
	"flag"
	"fmt"
	"os"
)

type family func(seed uint64, n int, tier string, out string, replay string)

var families = map[string]family{}

func main() {
	if len(os.Args) < 2 {
		fmt.Fprintln(os.Stderr, "usage: pikeharness <family> [flags]")
		os.Exit(2)
	}
	fam := os.Args[1]
	fs := flag.NewFlagSet(fam, flag.ExitOnError)
	seed := fs.Uint64("seed", 1, "PRNG seed")
	n := fs.Int("n", 100, "number of cases")
	tier := fs.String("tier", "quick", "quick|thorough")
	out := fs.String("out", ".", "output directory")
	replay := fs.String("replay", "", "replay file (family-specific JSON)")
	_ = fs.Parse(os.Args[2:])
	f, ok := families[fam]
	if !ok {
		fmt.Fprintln(os.Stderr, "unknown family", fam)
		os.Exit(2)
	}
	f(*seed, *n, *tier, *out, *replay)
}
