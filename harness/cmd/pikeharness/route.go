package main

import (
	"fmt"
	"net/http"
	"net/http/httptest"
	"strings"
	"sync/atomic"

	"github.com/vicanso/elton"
	"github.com/vicanso/pike/cache"
	"github.com/vicanso/pike/config"
	"github.com/vicanso/pike/location"
	"github.com/vicanso/pike/server"
	"github.com/vicanso/pike/upstream"
	"pikeverif/internal/hx"
)

// routeE2E: five origins u0..u4 behind the real upstream registry; servers and
// their proxy middleware are kept across cases (one per location-name list) while
// the location registry is re-applied for every case, as a configuration reload does.
type routeE2E struct {
	origins  []*httptest.Server
	contacts []atomic.Int64
	servers  map[string]elton.Handler
}

func newRouteE2E() *routeE2E {
	e := &routeE2E{servers: map[string]elton.Handler{}}
	e.contacts = make([]atomic.Int64, 5)
	var ups []config.UpstreamConfig
	for i := 0; i < 5; i++ {
		i := i
		o := httptest.NewServer(http.HandlerFunc(func(rw http.ResponseWriter, r *http.Request) {
			e.contacts[i].Add(1)
			rw.Header().Set("X-Origin-Index", fmt.Sprint(i))
			rw.WriteHeader(200)
			_, _ = rw.Write([]byte("ok"))
		}))
		e.origins = append(e.origins, o)
		ups = append(ups, config.UpstreamConfig{Name: fmt.Sprintf("u%d", i), Servers: []config.UpstreamServerConfig{{Addr: o.URL}}})
	}
	upstream.Reset(ups)
	return e
}

func (e *routeE2E) close() {
	for _, o := range e.origins {
		o.Close()
	}
	upstream.Reset(nil)
	location.Reset(nil)
}

// request returns the index of the origin that answered, or -1 when the proxy
// middleware failed without contacting any origin (-2: failed but an origin was contacted)
func (e *routeE2E) request(names []string, host, uri string) (int, string) {
	key := strings.Join(names, ",")
	mid, ok := e.servers[key]
	if !ok {
		mid = server.NewProxy(server.NewServer(server.ServerOption{Locations: names}))
		e.servers[key] = mid
	}
	before := int64(0)
	for i := range e.contacts {
		before += e.contacts[i].Load()
	}
	req := httptest.NewRequest("GET", "http://"+host+uri, nil)
	req.Host = host
	req.RequestURI = uri // origin-form, as a real server receives it
	c := elton.NewContext(httptest.NewRecorder(), req)
	c.Next = func() error { return nil }
	server.VerifSetCacheStatus(c, cache.StatusPassed)
	err := mid(c)
	after := int64(0)
	for i := range e.contacts {
		after += e.contacts[i].Load()
	}
	if err != nil {
		if after != before {
			return -2, err.Error()
		}
		return -1, err.Error()
	}
	resp := server.VerifGetHTTPResp(c)
	idx := -3
	if resp != nil {
		fmt.Sscanf(resp.Header.Get("X-Origin-Index"), "%d", &idx)
	}
	return idx, ""
}

func init() { families["route"] = runRoute }

var rtHosts = []string{"a.com", "b.com", "c.com"}
var rtURIs = []string{"/", "/api", "/api/v1/users?x=1", "/static/x.js", "/apix", "/api/zones", "/apiary", "/users", "/user/7", "/api/users/1", "/s", "/api/internal/reports/monthly-summary/2026?x=1", "/static/assets/javascript/vendor/bundles/application/main.js"}
var rtPrefixPool = []string{"/", "/api", "/api/users", "/api/v1", "/apix", "/user", "/users", "/static", "/s", "/api/", "/api/internal/reports/monthly-summary", "/static/assets/javascript/vendor/bundles/application/"}
var rtHostLists = [][]string{nil, {"a.com"}, {"b.com", "c.com"}, {"a.com", "b.com"}}
var rtPrefixLists = [][]string{nil, {"/api"}, {"/static", "/api/v1"}, {"/"}}
var rtNames = []string{"l0", "l1", "l2", "l3", "zz"}

func strList(xs []string) string {
	items := make([]string, len(xs))
	for i, x := range xs {
		items[i] = hx.Str(x)
	}
	return hx.List(items)
}

// route family (C14): real NewLocations/Set/Get vs the model.
func runRoute(seed uint64, n int, tier string, out string, replay string) {
	rnd := hx.NewRand(seed)
	sum := hx.NewSummary("route", seed)
	sum.Rule = "one case = one location set (1-5 locations; host list and prefix list drawn from 4 fixed shapes or (60%) 1-4 related prefixes from a pool of 12 in any order (nested prefixes, duplicates, two prefixes of 37 and 52 bytes); names possibly shared or unlisted; declaration order random) queried with every (host, URI) of a 3x13 universe under 3 server location lists asked in both orders (all, a subset, a single name; then single, subset, all); observable = which configured location the real Locations.Get returns; 6% of the queries are also sent through a long-lived server's proxy middleware (kept across cases while the location registry is re-applied for every case, as a reload does) to five recording origins: the answering origin must be the chosen location's upstream, and none may be contacted when no location matches; non-trivial = at least two eligible locations of different classes for some query; distinct by the location set"
	header := "From Coq Require Import List NArith ZArith.\nImport ListNotations.\nFrom Pike Require Import Base.Bytes Model.Location Corr.C14Corr.\nFrom PikeRun Require Import Consts.\n"
	w := hx.NewCaseWriter(out, "route", header, "list rt_case", "check_cases Consts.loc_pconsts", 60, sum)
	distinct := hx.NewDistinct()
	e2e := newRouteE2E()
	defer e2e.close()
	for i := 0; i < n; i++ {
		nl := 1 + rnd.Intn(5)
		opts := make([]location.Location, nl)
		var locTerms []string
		sig := ""
		for j := 0; j < nl; j++ {
			hl := rtHostLists[rnd.Intn(len(rtHostLists))]
			pl := rtPrefixLists[rnd.Intn(len(rtPrefixLists))]
			if rnd.Chance(60) {
				// free-form list: related prefixes (one extending another), any order, 1-4 entries
				k := 1 + rnd.Intn(4)
				pl = nil
				for len(pl) < k {
					pl = append(pl, rtPrefixPool[rnd.Intn(len(rtPrefixPool))])
				}
			}
			name := rtNames[rnd.Intn(4)]
			if rnd.Chance(70) {
				name = rtNames[j%4]
			}
			opts[j] = location.Location{Name: name, Upstream: fmt.Sprintf("u%d", j), Hosts: hl, Prefixes: pl}
			locTerms = append(locTerms, fmt.Sprintf("{| l_name := %s; l_hosts := %s; l_prefixes := %s; l_tag := %s |}", hx.Str(name), strList(hl), strList(pl), hx.N(uint64(j))))
			sig += fmt.Sprintf("%s|%v|%v;", name, hl, pl)
		}
		ls := location.NewLocations(opts...)
		var lcfg []config.LocationConfig
		for j := 0; j < nl; j++ {
			lcfg = append(lcfg, config.LocationConfig{Name: opts[j].Name, Upstream: opts[j].Upstream, Hosts: opts[j].Hosts, Prefixes: opts[j].Prefixes})
		}
		location.Reset(lcfg) // the registry the running servers route with (a reload between cases)
		nameLists := [][]string{}
		all := []string{}
		for j := 0; j < nl; j++ {
			all = append(all, opts[j].Name)
		}
		nameLists = append(nameLists, all)
		sub := []string{}
		for j := 0; j < nl; j++ {
			if rnd.Bool() {
				sub = append(sub, opts[j].Name)
			}
		}
		nameLists = append(nameLists, sub, []string{rtNames[rnd.Intn(5)]})
		var qTerms []string
		var qRep []interface{}
		nontrivial := false
		// the three lists, then the same three in reverse order: what a lookup for one server's list answers
		// must not depend on which other server asked before
		for k := len(nameLists) - 1; k >= 0; k-- {
			nameLists = append(nameLists, nameLists[k])
		}
		for _, names := range nameLists {
			for _, h := range rtHosts {
				for _, u := range rtURIs {
					got := ls.Get(h, u, names...)
					impl := "None"
					idx := -1
					if got != nil {
						fmt.Sscanf(got.Upstream, "u%d", &idx)
						impl = fmt.Sprintf("(Some %d)", idx)
					}
					if rnd.Chance(6) && len(names) > 0 {
						// the same query through a long-lived server's proxy middleware and the real upstream registry
						if seen, errText := e2e.request(names, h, u); seen != idx {
							_ = errText
							sum.ImplViolations = append(sum.ImplViolations, map[string]interface{}{"property": "C14", "kind": "routed-elsewhere", "host": h, "uri": u, "server_locations": strings.Join(names, ","),
								"locations": sig, "expected_origin": idx, "answered_by": seen, "error": errText, "legend": "-1 = error without contacting an origin, -2 = error after contacting one"})
						}
						sum.Count("e2e-request")
					}
					qTerms = append(qTerms, fmt.Sprintf("{| rq_host := %s; rq_url := %s; rq_names := %s; rq_impl := %s |}", hx.Str(h), hx.Str(u), strList(names), impl))
					if len(qRep) < 12 {
						qRep = append(qRep, map[string]interface{}{"host": h, "uri": u, "names": strings.Join(names, ","), "impl_location": idx})
					}
					// count eligible classes
					classes := map[int]bool{}
					for j := 0; j < nl; j++ {
						listed := false
						for _, nm := range names {
							if nm == opts[j].Name {
								listed = true
							}
						}
						if listed && opts[j].Match(h, u) {
							c := 0
							if len(opts[j].Prefixes) == 0 {
								c += 2
							}
							if len(opts[j].Hosts) == 0 {
								c++
							}
							classes[c] = true
						}
					}
					if len(classes) >= 2 {
						nontrivial = true
					}
					if got == nil {
						sum.Count("answer:none")
					} else {
						sum.Count("answer:found")
					}
				}
			}
		}
		rep := map[string]interface{}{"locations": sig, "first_queries": qRep}
		w.Add(fmt.Sprintf("{| rt_locs := %s; rt_queries := %s |}", hx.List(locTerms), hx.List(qTerms)), rep)
		sum.Evaluations++
		if nontrivial {
			distinct.Add(sig)
		}
		sum.Sample(rep)
	}
	w.Flush()
	sum.DistinctNontrivial = distinct.Len()
	sum.Write(out)
}
