package main

import (
	"fmt"
	"strings"

	"github.com/vicanso/pike/location"
	"pikeverif/internal/hx"
)

func init() { families["route"] = runRoute }

var rtHosts = []string{"a.com", "b.com", "c.com"}
var rtURIs = []string{"/", "/api", "/api/v1/users?x=1", "/static/x.js", "/apix", "/api/zones", "/apiary", "/users", "/user/7", "/api/users/1", "/s"}
var rtPrefixPool = []string{"/", "/api", "/api/users", "/api/v1", "/apix", "/user", "/users", "/static", "/s", "/api/"}
var rtHostLists = [][]string{nil, {"a.com"}, {"b.com", "c.com"}, {"a.com", "b.com"}}
var rtPrefixLists = [][]string{nil, {"/api"}, {"/static", "/api/v1"}, {"/"}}
var rtNames = []string{"l0", "l1", "l2", "l3", "zz"}

func strList(xs []string) string {
	items := make([]string, len(xs))
	for i, x := range xs {
		items[i] = hx.Str(x)
	}
	return hx.List(items)
}

// route family (C14): real NewLocations/Set/Get vs the model.
func runRoute(seed uint64, n int, tier string, out string, replay string) {
	rnd := hx.NewRand(seed)
	sum := hx.NewSummary("route", seed)
	sum.Rule = "one case = one location set (1-5 locations; host list and prefix list drawn from 4 fixed shapes or (60%) 1-4 related prefixes from a pool of 10 in any order (nested prefixes, duplicates); names possibly shared or unlisted; declaration order random) queried with every (host, URI) of a 3x11 universe under 3 server location lists; observable = which configured location the real Locations.Get returns; non-trivial = at least two eligible locations of different classes for some query; distinct by the location set"
	header := "From Coq Require Import List NArith ZArith.\nImport ListNotations.\nFrom Pike Require Import Base.Bytes Model.Location Corr.C14Corr.\nFrom PikeRun Require Import Consts.\n"
	w := hx.NewCaseWriter(out, "route", header, "list rt_case", "check_cases Consts.loc_pconsts", 60, sum)
	distinct := hx.NewDistinct()
	for i := 0; i < n; i++ {
		nl := 1 + rnd.Intn(5)
		opts := make([]location.Location, nl)
		var locTerms []string
		sig := ""
		for j := 0; j < nl; j++ {
			hl := rtHostLists[rnd.Intn(len(rtHostLists))]
			pl := rtPrefixLists[rnd.Intn(len(rtPrefixLists))]
			if rnd.Chance(60) {
				// free-form list: related prefixes (one extending another), any order, 1-4 entries
				k := 1 + rnd.Intn(4)
				pl = nil
				for len(pl) < k {
					pl = append(pl, rtPrefixPool[rnd.Intn(len(rtPrefixPool))])
				}
			}
			name := rtNames[rnd.Intn(4)]
			if rnd.Chance(70) {
				name = rtNames[j%4]
			}
			opts[j] = location.Location{Name: name, Upstream: fmt.Sprintf("u%d", j), Hosts: hl, Prefixes: pl}
			locTerms = append(locTerms, fmt.Sprintf("{| l_name := %s; l_hosts := %s; l_prefixes := %s; l_tag := %s |}", hx.Str(name), strList(hl), strList(pl), hx.N(uint64(j))))
			sig += fmt.Sprintf("%s|%v|%v;", name, hl, pl)
		}
		ls := location.NewLocations(opts...)
		nameLists := [][]string{}
		all := []string{}
		for j := 0; j < nl; j++ {
			all = append(all, opts[j].Name)
		}
		nameLists = append(nameLists, all)
		sub := []string{}
		for j := 0; j < nl; j++ {
			if rnd.Bool() {
				sub = append(sub, opts[j].Name)
			}
		}
		nameLists = append(nameLists, sub, []string{rtNames[rnd.Intn(5)]})
		var qTerms []string
		var qRep []interface{}
		nontrivial := false
		for _, names := range nameLists {
			for _, h := range rtHosts {
				for _, u := range rtURIs {
					got := ls.Get(h, u, names...)
					impl := "None"
					idx := -1
					if got != nil {
						fmt.Sscanf(got.Upstream, "u%d", &idx)
						impl = fmt.Sprintf("(Some %d)", idx)
					}
					qTerms = append(qTerms, fmt.Sprintf("{| rq_host := %s; rq_url := %s; rq_names := %s; rq_impl := %s |}", hx.Str(h), hx.Str(u), strList(names), impl))
					if len(qRep) < 12 {
						qRep = append(qRep, map[string]interface{}{"host": h, "uri": u, "names": strings.Join(names, ","), "impl_location": idx})
					}
					// count eligible classes
					classes := map[int]bool{}
					for j := 0; j < nl; j++ {
						listed := false
						for _, nm := range names {
							if nm == opts[j].Name {
								listed = true
							}
						}
						if listed && opts[j].Match(h, u) {
							c := 0
							if len(opts[j].Prefixes) == 0 {
								c += 2
							}
							if len(opts[j].Hosts) == 0 {
								c++
							}
							classes[c] = true
						}
					}
					if len(classes) >= 2 {
						nontrivial = true
					}
					if got == nil {
						sum.Count("answer:none")
					} else {
						sum.Count("answer:found")
					}
				}
			}
		}
		rep := map[string]interface{}{"locations": sig, "first_queries": qRep}
		w.Add(fmt.Sprintf("{| rt_locs := %s; rt_queries := %s |}", hx.List(locTerms), hx.List(qTerms)), rep)
		sum.Evaluations++
		if nontrivial {
			distinct.Add(sig)
		}
		sum.Sample(rep)
	}
	w.Flush()
	sum.DistinctNontrivial = distinct.Len()
	sum.Write(out)
}
