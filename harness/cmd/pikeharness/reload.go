package main

import (
	"bytes"
	"fmt"
	"net/http"
	"net/http/httptest"
	"os"
	"strings"
	"sync"
	"sync/atomic"

	"github.com/vicanso/elton"
	"github.com/vicanso/elton/middleware"
	"github.com/vicanso/pike/cache"
	"github.com/vicanso/pike/compress"
	"github.com/vicanso/pike/config"
	"github.com/vicanso/pike/location"
	"github.com/vicanso/pike/server"
	"github.com/vicanso/pike/upstream"
	"pikeverif/internal/hx"
)

func init() { families["reload"] = runReload }

// reload family (C20, Go-side only): a configuration reload, purge or second request lands while a
// request is parked inside the origin; afterwards every response must be well-formed for ITS client and
// equal to what the origin produced for its URL, also on the following hit.
func runReload(seed uint64, n int, tier string, out string, replay string) {
	rnd := hx.NewRand(seed)
	sum := hx.NewSummary("reload", seed)
	sum.Rule = "first: 16 goroutines route tenant hosts continuously (host-restricted location with 48 hosts + catch-all; each lookup must return the tenants location) while the location registry is re-applied 20000+100n times, alternately with and without one more, more specific location (a runtime crash is caught through inflight.json); then 32 goroutines concurrently cold-fetch keys of their own with compressible bodies (GetHTTPCache, Get, Cacheable) and read them back as hits under gzip / br / identity, each body compared with what was stored; then one case = one request through the full middleware chain (error, fresh, responder, cache, proxy) to an origin that parks it; while it is parked one of: upstream.Reset with the upstream's Accept-Encoding added / removed / changed, location.Reset with other added headers, server.Reset with another compress threshold, compress.Reset with other levels, a purge of the key, the server re-bound to another cache while its old cache profile is dropped, nothing; then the origin answers (gzip when asked for it) and a second client repeats the request (hit); both responses must carry a Content-Encoding their own client accepts, decode to the origin's body for that URL and have status 200; non-trivial = something happened while parked; distinct by (event, encodings)"
	distinct := hx.NewDistinct()
	var mu sync.Mutex
	gate := map[string]chan struct{}{}
	entered := make(chan string, 16)
	bodyFor := func(path string) []byte { return bytes.Repeat([]byte("origin body for "+path+"\n"), 60) }
	origin := httptest.NewServer(http.HandlerFunc(func(rw http.ResponseWriter, r *http.Request) {
		mu.Lock()
		g := gate[r.URL.Path]
		mu.Unlock()
		if g != nil {
			entered <- r.URL.Path
			<-g
		}
		body := bodyFor(r.URL.Path)
		rw.Header().Set("Content-Type", "text/plain")
		rw.Header().Set("Cache-Control", "max-age=60")
		if strings.Contains(r.Header.Get("Accept-Encoding"), "gzip") {
			gz, _ := compress.VerifGzip(body, 6)
			rw.Header().Set("Content-Encoding", "gzip")
			rw.WriteHeader(200)
			_, _ = rw.Write(gz)
			return
		}
		rw.WriteHeader(200)
		_, _ = rw.Write(body)
	}))
	defer origin.Close()
	upCfg := func(ae string) []config.UpstreamConfig {
		return []config.UpstreamConfig{{Name: "ru", AcceptEncoding: ae, Servers: []config.UpstreamServerConfig{{Addr: origin.URL}}}}
	}
	locCfg := func(h string) []config.LocationConfig {
		lc := config.LocationConfig{Name: "rl", Upstream: "ru"}
		if h != "" {
			lc.RespHeaders = []string{"X-Added:" + h}
		}
		return []config.LocationConfig{lc}
	}
	srvCfg := func(min string) []config.ServerConfig {
		return []config.ServerConfig{{Addr: ":7998", Locations: []string{"rl"}, Cache: "rc", CompressMinLength: min}}
	}
	cache.ResetDispatchers([]config.CacheConfig{{Name: "rc", Size: 1000, HitForPass: "5m"}})
	defer cache.ResetDispatchers(nil)
	defer upstream.Reset(nil)
	defer location.Reset(nil)
	defer server.Reset(nil)
	// routing right after a reload: every reload builds fresh location objects; the first requests that
	// reach them arrive concurrently
	var tenantHosts []string
	for k := 0; k < 48; k++ {
		tenantHosts = append(tenantHosts, fmt.Sprintf("tenant%d.example", k))
	}
	{
		_ = os.WriteFile(out+"/inflight.json", []byte(`{"family":"reload","event":"16 goroutines route tenant hosts continuously (location.Get on a host-restricted location with 48 hosts + a catch-all) while the location registry is re-applied 20000+ times, alternately with and without one more (more specific) location"}`), 0o644)
		lcfg := []config.LocationConfig{{Name: "tenants", Upstream: "ru", Hosts: tenantHosts}, {Name: "catchall", Upstream: "other"}}
		location.Reset(lcfg)
		var wg sync.WaitGroup
		var wrong, lookups atomic.Int64
		var stop atomic.Bool
		for g := 0; g < 16; g++ {
			wg.Add(1)
			go func(g int) {
				defer wg.Done()
				for k := 0; !stop.Load(); k++ {
					h := tenantHosts[(g*7+k*5)%len(tenantHosts)]
					if l := location.Get(h, "/x", "tenants", "catchall"); l == nil || l.Upstream != "ru" {
						wrong.Add(1)
					}
					lookups.Add(1)
				}
			}(g)
		}
		// the registry alternates between two configurations: a more specific location ("special", one host +
		// one prefix, sorted first) comes and goes; the tenants and catch-all locations never change
		withSpecial := append([]config.LocationConfig{{Name: "special", Upstream: "sp", Hosts: []string{"special.example"}, Prefixes: []string{"/special"}}}, lcfg...)
		for round := 0; round < 20000+100*n; round++ {
			if round%2 == 0 {
				location.Reset(withSpecial)
			} else {
				location.Reset(lcfg)
			}
			for spin := 0; spin < 2000; spin++ {
				_ = spin
			}
		}
		stop.Store(true)
		wg.Wait()
		sum.Distribution["route_lookups_during_reloads"] = int(lookups.Load())
		if wrong.Load() > 0 {
			sum.ImplViolations = append(sum.ImplViolations, map[string]interface{}{"property": "C20+C14+C16", "kind": "misrouted-during-reloads", "count": wrong.Load(), "lookups": lookups.Load()})
		}
		_ = os.Remove(out + "/inflight.json")
	}
	// concurrent cold fetches: 32 goroutines each fetch their own key (get-or-create, fetching, Cacheable with a
	// compressible body of its own), then read it back as a hit under gzip, br and identity; every body must
	// decode to what that goroutine stored (a runtime crash is caught through inflight.json / recover)
	{
		_ = os.WriteFile(out+"/inflight.json", []byte(`{"family":"reload","event":"32 goroutines concurrently: cold fetch of a key of their own with a compressible body (GetHTTPCache, Get, Cacheable), then a hit served under gzip / br / identity"}`), 0o644)
		d := cache.GetDispatcher("rc")
		const workers, rounds = 32, 6
		var wg sync.WaitGroup
		var vmu sync.Mutex
		var bad []map[string]interface{}
		report := func(v map[string]interface{}) {
			vmu.Lock()
			if len(bad) < 5 {
				bad = append(bad, v)
			}
			vmu.Unlock()
		}
		for wkr := 0; wkr < workers; wkr++ {
			wg.Add(1)
			go func(wkr int) {
				defer wg.Done()
				for round := 0; round < rounds; round++ {
					key := []byte(fmt.Sprintf("GET parallel.example /w%d/r%d", wkr, round))
					var body []byte
					for k := 0; len(body) < 6000+wkr*300; k++ {
						body = append(body, []byte(fmt.Sprintf("{\"worker\":%d,\"round\":%d,\"line\":%d,\"text\":\"compressible json body\"},\n", wkr, round, k))...)
					}
					func() {
						defer func() {
							if r := recover(); r != nil {
								report(map[string]interface{}{"property": "C20+C05", "kind": "panic-in-concurrent-cold-fetch", "key": string(key), "panic": fmt.Sprint(r)})
							}
						}()
						hc := d.GetHTTPCache(key)
						if st, _ := hc.Get(); st != cache.StatusFetching {
							report(map[string]interface{}{"property": "C20", "kind": "cold-key-not-fetching", "key": string(key), "status": st.String()})
							return
						}
						h := http.Header{}
						h.Set("Content-Type", "application/json")
						resp, err := cache.NewHTTPResponse(200, h, "", append([]byte{}, body...))
						if err != nil {
							return
						}
						resp.CompressMinLength = 1000
						hc.Cacheable(resp, 60)
						for _, acc := range []string{"gzip", "br", ""} {
							st, stored := d.GetHTTPCache(key).Get()
							if st != cache.StatusHit || stored == nil {
								report(map[string]interface{}{"property": "C20", "kind": "stored-key-not-hit", "key": string(key), "status": st.String()})
								return
							}
							req := httptest.NewRequest("GET", "/", nil)
							if acc != "" {
								req.Header.Set("Accept-Encoding", acc)
							}
							c := elton.NewContext(httptest.NewRecorder(), req)
							if err := stored.Fill(c); err != nil || c.BodyBuffer == nil {
								report(map[string]interface{}{"property": "C20+C05", "kind": "hit-not-served", "key": string(key), "accept": acc, "error": fmt.Sprint(err)})
								return
							}
							got := c.BodyBuffer.Bytes()
							var derr error
							switch c.GetHeader("Content-Encoding") {
							case "gzip":
								got, derr = refGunzip(got)
							case "br":
								got, derr = refBrotliDecode(got)
							}
							if derr != nil || !bytes.Equal(got, body) {
								report(map[string]interface{}{"property": "C20+C05", "kind": "hit-body-differs-from-what-was-stored", "key": string(key), "accept": acc,
									"content_encoding": c.GetHeader("Content-Encoding"), "decode_error": fmt.Sprint(derr), "want_len": len(body), "got_len": len(got)})
								return
							}
						}
					}()
				}
			}(wkr)
		}
		wg.Wait()
		sum.Distribution["concurrent_cold_fetches"] = workers * rounds
		for _, v := range bad {
			sum.ImplViolations = append(sum.ImplViolations, v)
		}
		_ = os.Remove(out + "/inflight.json")
	}
	events := []string{"server-cache-rebound", "none", "upstream-ae-removed", "upstream-ae-added", "upstream-ae-changed", "location-headers", "server-threshold", "compress-levels", "purge", "upstream-same"}
	accepts := []string{"", "gzip", "br", "gzip, br", "identity"}
	for i := 0; i < n; i++ {
		ev := events[i%len(events)]
		ae0 := []string{"gzip", "", "gzip", "gzip, br"}[rnd.Intn(4)]
		switch ev {
		case "upstream-ae-removed", "upstream-ae-changed":
			ae0 = "gzip"
		case "upstream-ae-added":
			ae0 = ""
		}
		cache.ResetDispatchers([]config.CacheConfig{{Name: "rc", Size: 1000, HitForPass: "5m"}})
		upstream.Reset(upCfg(ae0))
		location.Reset(locCfg(""))
		server.Reset(srvCfg("1kb"))
		compress.Reset(nil)
		s := server.Get(":7998")
		if s == nil {
			panic("server :7998 missing")
		}
		e := elton.New()
		e.Use(middleware.NewDefaultError())
		e.Use(middleware.NewDefaultFresh())
		e.Use(server.NewResponder())
		e.Use(server.NewCache(s))
		e.Use(server.NewProxy(s))
		e.ALL("/*", func(c *elton.Context) error { return nil })
		path := fmt.Sprintf("/reload/%d", i)
		g := make(chan struct{})
		mu.Lock()
		gate[path] = g
		mu.Unlock()
		acc1, acc2 := accepts[rnd.Intn(len(accepts))], accepts[rnd.Intn(len(accepts))]
		do := func(acc string) *httptest.ResponseRecorder {
			r := httptest.NewRequest("GET", "http://reload.example"+path, nil)
			if acc != "" {
				r.Header.Set("Accept-Encoding", acc)
			}
			rec := httptest.NewRecorder()
			e.ServeHTTP(rec, r)
			return rec
		}
		done := make(chan *httptest.ResponseRecorder, 1)
		go func() { done <- do(acc1) }()
		<-entered // parked inside the origin
		switch ev {
		case "upstream-ae-removed":
			upstream.Reset(upCfg(""))
		case "upstream-ae-added":
			upstream.Reset(upCfg("gzip"))
		case "upstream-ae-changed":
			upstream.Reset(upCfg("gzip, br"))
		case "upstream-same":
			upstream.Reset(upCfg(ae0))
		case "location-headers":
			location.Reset(locCfg("v2"))
		case "server-threshold":
			server.Reset(srvCfg("64kb"))
		case "compress-levels":
			compress.Reset([]config.CompressConfig{{Name: "bestCompression", Levels: map[string]uint{"gzip": 1, "br": 1}}})
		case "server-cache-rebound":
			// the server now names another cache and the old cache profile is gone (a closed configuration)
			cache.ResetDispatchers([]config.CacheConfig{{Name: "rc2", Size: 1000, HitForPass: "5m"}})
			server.Reset([]config.ServerConfig{{Addr: ":7998", Locations: []string{"rl"}, Cache: "rc2", CompressMinLength: "1kb"}})
		case "purge":
			cache.RemoveHTTPCache("", []byte("GET reload.example http://reload.example"+path))
			cache.RemoveHTTPCache("rc", []byte("GET reload.example "+path))
		}
		mu.Lock()
		delete(gate, path)
		mu.Unlock()
		close(g)
		rec1 := <-done
		rec2 := do(acc2)
		check := func(which string, acc string, rec *httptest.ResponseRecorder) {
			ce := rec.Header().Get("Content-Encoding")
			var dec []byte
			var err error
			switch ce {
			case "":
				dec = rec.Body.Bytes()
			case "gzip":
				dec, err = refGunzip(rec.Body.Bytes())
			case "br":
				dec, err = refBrotliDecode(rec.Body.Bytes())
			default:
				err = fmt.Errorf("unknown Content-Encoding %q", ce)
			}
			accepted := ce == "" || strings.Contains(acc, ce)
			if rec.Code != 200 || !accepted || err != nil || !bytes.Equal(dec, bodyFor(path)) {
				prop := "C20+C16"
				if ev == "server-cache-rebound" {
					prop = "C20+C16+C17" // an accepted (closed) configuration whose server cannot resolve its cache
				}
				sum.ImplViolations = append(sum.ImplViolations, map[string]interface{}{"property": prop, "kind": "malformed-after-" + ev, "which": which, "event_while_parked": ev,
					"upstream_accept_encoding_before": ae0, "client_accept_encoding": acc, "status": rec.Code, "content_encoding": ce, "x_status": rec.Header().Get("X-Status"),
					"decode_error": fmt.Sprint(err), "decoded_len": len(dec), "want_len": len(bodyFor(path))})
			}
		}
		check("first request (parked during the event)", acc1, rec1)
		check("second request", acc2, rec2)
		sum.Evaluations++
		sum.Count("event:" + ev)
		if ev != "none" {
			distinct.Add(fmt.Sprint(ev, ae0, acc1, acc2))
		}
		sum.Sample(map[string]interface{}{"event_while_parked": ev, "upstream_accept_encoding": ae0, "client_1": acc1, "client_2": acc2,
			"first":  fmt.Sprintf("%d %s %s", rec1.Code, rec1.Header().Get("Content-Encoding"), rec1.Header().Get("X-Status")),
			"second": fmt.Sprintf("%d %s %s", rec2.Code, rec2.Header().Get("Content-Encoding"), rec2.Header().Get("X-Status"))})
	}
	sum.DistinctNontrivial = distinct.Len()
	sum.Write(out)
}
