package main

import (
	"encoding/json"
	"fmt"
	"net/http"
	"net/http/httptest"
	"net/url"
	"os"
	"path/filepath"
	"strings"
	"sync"
	"sync/atomic"
	"time"

	"github.com/vicanso/elton"
	"github.com/vicanso/pike/config"

	"github.com/vicanso/pike/cache"
	"github.com/vicanso/pike/server"
	"github.com/vicanso/pike/store"
	"pikeverif/internal/hx"
)

func init() { families["keys"] = runKeys }

type keyReq struct{ m, h, ru, us string }

func genKeyGroup(r *hx.Rand) []keyReq {
	methods := []string{"GET", "HEAD", "GET", "GET"}
	hosts := []string{"a.com", "b.com", "a.com:8080", "a.co", "a.comm", ""}
	base := fmt.Sprintf("/p%d", r.Intn(50))
	uris := []string{base, base + "/", base + "?x=1", base + "?x=10", base + "?x=1&y=2", base + "?y=2&x=1", base + "%20", base + " ", base + "?x=1 ", "/", base + "/a b", base + "?q=a+b"}
	var out []keyReq
	for i := 0; i < 24; i++ {
		k := keyReq{m: r.Pick(methods), h: r.Pick(hosts), ru: r.Pick(uris)}
		if r.Chance(10) { // RequestURI empty: URL.String() is used
			u := &url.URL{Path: base, RawQuery: r.Pick([]string{"", "x=1", "a=b&c=d"})}
			if r.Bool() {
				u.Scheme, u.Host = "http", "a.com"
			}
			k.ru, k.us = "", u.String()
		}
		out = append(out, k)
	}
	return out
}

// keys family (C06): real getKey on near-colliding requests, and the real
// dispatcher driven with those keys forced into one shard of a tiny cache.
func runKeys(seed uint64, n int, tier string, out string, replay string) {
	rnd := hx.NewRand(seed)
	sum := hx.NewSummary("keys", seed)
	sum.Rule = "one case = a group of 24 near-identical requests (methods GET/HEAD, hosts differing by port/one byte/empty, URIs differing by one byte, by query order, by trailing space or slash; 10% with empty RequestURI so URL.String() is used) run through the real getKey, plus one dispatcher run (size 8..24) over those keys rejection-sampled into a single shard with 150 mixed lookups/removals; non-trivial = the group contains two requests differing only in one component; distinct by the group's key bytes; plus 50 near-identical keys of 8-9000 bytes (last byte / middle byte / method / host / only letter case differ) requested at random on a 16-slot store-backed dispatcher (constant eviction and rebuild from the persisted copy); and 16 goroutines hashing 4000 keys at once must get the shard hash a single goroutine gets; 16 goroutines x 400 requests over 24 URLs through one cache middleware in parallel: own answers, one upstream fetch per URL, termination"
	header := "From Coq Require Import List NArith ZArith.\nImport ListNotations.\nFrom Pike Require Import Base.Bytes Model.Key Model.Dispatcher Corr.C11Corr Corr.C06Corr.\nFrom PikeRun Require Import Consts.\n"
	w := hx.NewCaseWriter(out, "keys", header, "list c06_case", "check_cases Consts.disp_consts", 12, sum)
	distinct := hx.NewDistinct()
	for i := 0; i < n; i++ {
		group := genKeyGroup(rnd)
		var kterms []string
		var realKeys [][]byte
		sig := ""
		var rep []interface{}
		seen := map[string]keyReq{}
		for _, k := range group {
			req := &http.Request{Method: k.m, Host: k.h, RequestURI: k.ru}
			if k.ru == "" {
				u, _ := url.Parse(k.us)
				req.URL = u
				k.us = u.String()
			}
			key := server.VerifGetKey(req)
			kterms = append(kterms, fmt.Sprintf("{| kc_method := %s; kc_host := %s; kc_request_uri := %s; kc_url_string := %s; kc_impl := %s |}",
				hx.Str(k.m), hx.Str(k.h), hx.Str(k.ru), hx.Str(k.us), hx.Bytes(key)))
			realKeys = append(realKeys, append([]byte{}, key...))
			sig += string(key) + "\n"
			if len(rep) < 6 {
				rep = append(rep, map[string]string{"method": k.m, "host": k.h, "request_uri": k.ru, "url": k.us, "impl_key": string(key)})
			}
			eff := keyReq{m: k.m, h: k.h, ru: k.ru}
			if eff.ru == "" {
				eff.ru = k.us
			}
			if prev, ok := seen[string(key)]; ok && prev != eff {
				sum.ImplViolations = append(sum.ImplViolations, map[string]interface{}{"property": "C06", "same_key": string(key), "a": fmt.Sprint(prev), "b": fmt.Sprint(k)})
			}
			seen[string(key)] = eff
		}
		// dispatcher run: size small, keys extended with suffixes until enough fall in shard 0
		size := 8 + rnd.Intn(17)
		d := cache.NewDispatcher(cache.DispatcherOption{Size: size})
		zones := d.VerifZoneSize()
		var pool [][]byte
		for j := 0; len(pool) < 10 && j < 100000; j++ {
			k := append(append([]byte{}, realKeys[j%len(realKeys)]...), []byte(fmt.Sprintf("&z=%d", j))...)
			if cache.MemHash(k)%zones == 0 {
				pool = append(pool, k)
			}
		}
		inPool := map[string]bool{}
		for _, k := range pool {
			inPool[string(k)] = true
		}
		for _, k := range realKeys[:6] {
			if !inPool[string(k)] {
				inPool[string(k)] = true
				pool = append(pool, k)
			}
		}
		ids := map[interface{}]uint64{}
		var keep []interface{}
		var ops []string
		for j := 0; j < 150; j++ {
			ki := rnd.Intn(len(pool))
			isGet := !rnd.Chance(10)
			var id uint64
			if isGet {
				hc := d.GetHTTPCache(pool[ki])
				v, ok := ids[hc]
				if !ok {
					v = uint64(len(ids))
					ids[hc] = v
					keep = append(keep, hc)
				}
				id = v
			} else {
				d.RemoveHTTPCache(pool[ki])
			}
			res := 0
			for _, l := range d.VerifResident() {
				res += l
			}
			ops = append(ops, fmt.Sprintf("{| lo_get := %s; lo_key := (%s, %s); lo_id := %s; lo_resident := %d |}", hx.Bool(isGet), hx.N(uint64(ki)), hx.N(cache.MemHash(pool[ki])), hx.N(id), res))
		}
		_ = keep
		dterm := fmt.Sprintf("{| lc_size := %s; lc_ops := %s |}", hx.Z(int64(size)), hx.List(ops))
		w.Add(fmt.Sprintf("{| c6_keys := %s; c6_disp := [%s] |}", hx.List(kterms), dterm),
			map[string]interface{}{"first_requests": rep, "dispatcher_size": size, "entries_created": len(ids)})
		sum.Evaluations++
		distinct.Add(sig)
		sum.Count(fmt.Sprintf("disp-size-%d", size/8*8))
		sum.Sample(map[string]interface{}{"first_requests": rep[:2], "dispatcher_size": size, "entries_created": len(ids)})
	}
	// end to end through the cache middleware: many same-length keys, each
	// requested twice; every reply must be the one produced for its own key
	crossServed := manyKeysThroughMiddleware(8000+n*20, sum)
	if crossServed != nil {
		sum.ImplViolations = append(sum.ImplViolations, crossServed)
	}
	for _, v := range parallelKeysThroughMiddleware(out, sum) {
		sum.ImplViolations = append(sum.ImplViolations, v)
	}
	if v := hashStableUnderConcurrency(sum); v != nil {
		sum.ImplViolations = append(sum.ImplViolations, v)
	}
	if v := longKeysWithStore(hx.NewRand(seed+77), 400+n*2, sum); v != nil {
		sum.ImplViolations = append(sum.ImplViolations, v)
	}
	w.Flush()
	sum.DistinctNontrivial = distinct.Len()
	sum.Write(out)
}

// parallelKeysThroughMiddleware: 16 goroutines send 24 URLs through ONE cache middleware at the same
// time (no eviction, no purge, lifetime 300 s): every answer is the one made for its URL, every URL costs
// exactly one upstream fetch, and the whole run ends (a deadlock between a hit reading its age and a
// request entering Get is reported through inflight.json).
func parallelKeysThroughMiddleware(out string, sum *hx.Summary) []map[string]interface{} {
	const name = "parkeys"
	cache.ResetDispatchers([]config.CacheConfig{{Name: name, Size: 51200, HitForPass: "5m"}})
	defer cache.ResetDispatchers(nil)
	s := server.NewServer(server.ServerOption{Cache: name})
	handler := server.NewCache(s)
	const nkeys = 24
	var fetches [nkeys]atomic.Int64
	var wrong, requests atomic.Int64
	var firstWrong atomic.Value
	done := make(chan struct{})
	go func() {
		var wg sync.WaitGroup
		for g := 0; g < 16; g++ {
			wg.Add(1)
			go func(g int) {
				defer wg.Done()
				r := hx.NewRand(uint64(1000 + g))
				for it := 0; it < 400; it++ {
					k := r.Intn(nkeys)
					host := []string{"par-a.example", "par-b.example"}[k%2]
					uri := fmt.Sprintf("/parallel/%02d?v=%d", k, k%3)
					req := httptest.NewRequest("GET", "http://"+host+uri, nil)
					c := elton.NewContext(httptest.NewRecorder(), req)
					want := host + uri
					c.Next = func() error {
						fetches[k].Add(1)
						h := http.Header{}
						h.Set("X-Made-For", want)
						server.VerifSetHTTPResp(c, &cache.HTTPResponse{StatusCode: 200, Header: h, RawBody: []byte(want)})
						server.VerifSetHTTPCacheMaxAge(c, 300)
						return nil
					}
					requests.Add(1)
					if err := handler(c); err != nil {
						continue
					}
					if resp := server.VerifGetHTTPResp(c); resp == nil || resp.Header.Get("X-Made-For") != want {
						wrong.Add(1)
						firstWrong.CompareAndSwap(nil, "request for "+want+" was answered with another key's response")
					}
				}
			}(g)
		}
		wg.Wait()
		close(done)
	}()
	select {
	case <-done:
	case <-time.After(20 * time.Second):
		b, _ := json.Marshal(map[string]interface{}{"family": "keys", "kind": "hang", "what": "16 goroutines x 400 requests over 24 URLs through one cache middleware did not finish within 20 s (requests parked for ever)", "requests_started": requests.Load()})
		_ = os.WriteFile(filepath.Join(out, "inflight.json"), b, 0o644)
		os.Exit(3)
	}
	sum.Distribution["parallel_middleware_requests"] = int(requests.Load())
	var vs []map[string]interface{}
	if wrong.Load() > 0 {
		vs = append(vs, map[string]interface{}{"property": "C06+C01+C20", "kind": "cross-served-under-parallel-traffic", "count": wrong.Load(), "first": firstWrong.Load(), "same_key": "parallel traffic on 24 keys"})
	}
	for k := 0; k < nkeys; k++ {
		if n := fetches[k].Load(); n != 1 {
			vs = append(vs, map[string]interface{}{"property": "C01+C06", "kind": "upstream-fetches-per-key-under-parallel-traffic", "key_index": k, "upstream_fetches": n, "expected": 1, "same_key": "parallel traffic on 24 keys, nothing evicted or purged, lifetime 300 s"})
			break
		}
	}
	return vs
}

// hashStableUnderConcurrency: the shard of a key is a function of the key alone — 16 goroutines hashing
// 4000 keys at once must get the values a single goroutine gets (a request whose key hashes elsewhere
// misses its resident entry: a second entry, a second fetch, another key's neighbourhood)
func hashStableUnderConcurrency(sum *hx.Summary) map[string]interface{} {
	var keys [][]byte
	for k := 0; k < 4000; k++ {
		keys = append(keys, []byte(fmt.Sprintf("GET hash%d.example /stable/%d?k=%d", k%7, k, k*31)))
	}
	want := make([]uint64, len(keys))
	for i, k := range keys {
		want[i] = cache.MemHash(k)
	}
	var wg sync.WaitGroup
	var mu sync.Mutex
	wrong := 0
	first := ""
	startAll := make(chan struct{}) // all sixteen start hashing at the same moment
	for g := 0; g < 16; g++ {
		wg.Add(1)
		go func(g int) {
			defer wg.Done()
			defer func() {
				if r := recover(); r != nil {
					mu.Lock()
					wrong++
					if first == "" {
						first = fmt.Sprintf("panic while hashing: %v", r)
					}
					mu.Unlock()
				}
			}()
			<-startAll
			for round := 0; round < 40; round++ {
				for i := g; i < len(keys); i += 1 + g%3 {
					if h := cache.MemHash(keys[i]); h != want[i] {
						mu.Lock()
						wrong++
						if first == "" {
							first = fmt.Sprintf("MemHash(%q) = %d under concurrency, %d alone", keys[i], h, want[i])
						}
						mu.Unlock()
					}
				}
			}
		}(g)
	}
	close(startAll)
	wg.Wait()
	sum.Count("concurrent-hash-check")
	if wrong > 0 {
		return map[string]interface{}{"property": "C06+C01", "kind": "shard-hash-differs-under-concurrency", "count": wrong, "first": first, "same_key": "the key's shard depends on what other requests do at the same time"}
	}
	return nil
}

// memStore: in-memory store.Store (copies what it is given)
type memStore struct {
	mu   sync.Mutex
	data map[string][]byte
}

func (m *memStore) Get(key []byte) ([]byte, error) {
	m.mu.Lock()
	defer m.mu.Unlock()
	v, ok := m.data[string(key)]
	if !ok {
		return nil, store.ErrNotFound
	}
	return append([]byte{}, v...), nil
}
func (m *memStore) Set(key []byte, data []byte, ttl time.Duration) error {
	m.mu.Lock()
	defer m.mu.Unlock()
	m.data[string(key)] = append([]byte{}, data...)
	return nil
}
func (m *memStore) Delete(key []byte) error {
	m.mu.Lock()
	defer m.mu.Unlock()
	delete(m.data, string(key))
	return nil
}
func (m *memStore) Close() error { return nil }

// longKeysWithStore: families of near-identical keys of every length from a
// few bytes to several KiB (differing in the last byte, in one middle byte, in
// the method or in the host) on a 16-slot dispatcher backed by a store, so
// that entries are constantly evicted and rebuilt from their persisted copy;
// every reply must be the one produced for its own key.
func longKeysWithStore(rnd *hx.Rand, nreq int, sum *hx.Summary) map[string]interface{} {
	const name = "longkeys"
	const url = "fake://longkeys"
	ms := &memStore{data: map[string][]byte{}}
	store.VerifRegister(url, ms)
	defer store.VerifUnregister(url)
	cache.ResetDispatchers([]config.CacheConfig{{Name: name, Size: 16, HitForPass: "5m", Store: url}})
	defer cache.ResetDispatchers(nil)
	s := server.NewServer(server.ServerOption{Cache: name})
	handler := server.NewCache(s)
	type kreq struct{ method, host, uri string }
	var keys []kreq
	for _, l := range []int{8, 60, 250, 500, 512, 520, 700, 1024, 2000, 4000, 4096, 5000, 9000} {
		base := "/" + strings.Repeat("p", l) + "?page="
		mid := []byte(base)
		mid[len(mid)/2] = 'q'
		keys = append(keys,
			kreq{"GET", "long.example", base + "1"}, kreq{"GET", "long.example", base + "2"},
			kreq{"GET", "long.example", string(mid) + "1"}, kreq{"HEAD", "long.example", base + "1"},
			kreq{"GET", "lonh.example", base + "1"})
	}
	// keys that differ only in letter case (path and query are case-sensitive)
	keys = append(keys, kreq{"GET", "long.example", "/Docs/Readme?Page=A"}, kreq{"GET", "long.example", "/docs/readme?page=a"},
		kreq{"GET", "long.example", "/DOCS/README?PAGE=A"}, kreq{"GET", "long.example", "/docs/readme?page=A"})
	wrong, hits := 0, 0
	var first string
	seenKey := map[string]bool{}
	for i := 0; i < nreq; i++ {
		k := keys[rnd.Intn(len(keys))]
		req := httptest.NewRequest(k.method, "http://"+k.host+k.uri, nil)
		c := elton.NewContext(httptest.NewRecorder(), req)
		want := fmt.Sprintf("%s %s len=%d sum=%x", k.method, k.host, len(k.uri), cache.MemHash([]byte(k.uri)))
		c.Next = func() error {
			h := http.Header{}
			h.Set("X-Made-For", want)
			server.VerifSetHTTPResp(c, &cache.HTTPResponse{StatusCode: 200, Header: h, RawBody: []byte(want)})
			server.VerifSetHTTPCacheMaxAge(c, 300)
			return nil
		}
		if err := handler(c); err != nil {
			continue
		}
		resp := server.VerifGetHTTPResp(c)
		if server.VerifGetCacheStatus(c) == cache.StatusHit {
			hits++
		}
		if resp == nil || resp.Header.Get("X-Made-For") != want {
			wrong++
			if first == "" {
				got := "<nil>"
				if resp != nil {
					got = resp.Header.Get("X-Made-For")
				}
				first = fmt.Sprintf("request %s %s (URI of %d bytes) was answered with the response made for %q", k.method, k.host, len(k.uri), got)
			}
		}
		// a key that was never requested before has no entry anywhere: its first request is the fetcher
		sk := k.method + " " + k.host + " " + k.uri
		if !seenKey[sk] {
			seenKey[sk] = true
			if st := server.VerifGetCacheStatus(c); st != cache.StatusFetching {
				wrong++
				if first == "" {
					first = fmt.Sprintf("the first request ever for %s %s (URI of %d bytes) was labelled %s instead of fetching", k.method, k.host, len(k.uri), st.String())
				}
			}
		}
	}
	sum.Distribution["longkey_requests"] = nreq
	sum.Distribution["longkey_hits"] = hits
	if wrong > 0 {
		return map[string]interface{}{"property": "C06+C08", "kind": "cross-served-long-keys", "count": wrong, "first": first, "same_key": "cross-served after reload from the store"}
	}
	return nil
}

func manyKeysThroughMiddleware(nkeys int, sum *hx.Summary) map[string]interface{} {
	const name = "manykeys"
	cache.ResetDispatchers([]config.CacheConfig{{Name: name, Size: 51200, HitForPass: "5m"}})
	defer cache.ResetDispatchers(nil)
	s := server.NewServer(server.ServerOption{Cache: name})
	handler := server.NewCache(s)
	wrong := 0
	var first string
	hits := 0
	for pass := 0; pass < 2; pass++ {
		for k := 0; k < nkeys; k++ {
			method := "GET"
			if k%5 == 0 {
				method = "HEAD"
			}
			host := []string{"aa.example", "bb.example"}[k%2]
			uri := fmt.Sprintf("/many/%06d?v=%d", k/2, k%3)
			req := httptest.NewRequest(method, "http://"+host+uri, nil)
			c := elton.NewContext(httptest.NewRecorder(), req)
			want := method + " " + host + " " + uri
			c.Next = func() error {
				h := http.Header{}
				h.Set("X-Made-For", want)
				server.VerifSetHTTPResp(c, &cache.HTTPResponse{StatusCode: 200, Header: h, RawBody: []byte(want)})
				server.VerifSetHTTPCacheMaxAge(c, 300)
				return nil
			}
			if err := handler(c); err != nil {
				continue
			}
			resp := server.VerifGetHTTPResp(c)
			if server.VerifGetCacheStatus(c) == cache.StatusHit {
				hits++
			}
			if resp == nil || resp.Header.Get("X-Made-For") != want {
				wrong++
				if first == "" {
					got := "<nil>"
					if resp != nil {
						got = resp.Header.Get("X-Made-For")
					}
					first = fmt.Sprintf("request %q was answered with the response made for %q (pass %d)", want, got, pass)
				}
			}
		}
	}
	sum.Distribution["middleware_requests"] = 2 * nkeys
	sum.Distribution["middleware_hits"] = hits
	if wrong > 0 {
		return map[string]interface{}{"property": "C06+C20", "kind": "cross-served", "count": wrong, "first": first, "keys": nkeys, "same_key": "cross-served through the cache middleware"}
	}
	return nil
}
