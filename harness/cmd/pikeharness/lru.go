package main

import (
	"fmt"

	"github.com/vicanso/pike/cache"
	"github.com/vicanso/pike/config"
	"pikeverif/internal/hx"
)

func init() { families["lru"] = runLRU }

// lru family (C11): drive the real dispatcher with lookups and removals,
// observe entry identity (numbered in creation order) and resident counts.
func runLRU(seed uint64, n int, tier string, out string, replay string) {
	rnd := hx.NewRand(seed)
	sum := hx.NewSummary("lru", seed)
	sum.Rule = "one case = one dispatcher size S with a generated op sequence (92% get-or-create / 8% remove; half of the accesses on a hot tenth of the population; 60% of the new entries are left mid-fetch); sizes: every S in 1..n plus boundary sizes (1023,1024,1025, <=0 defaults); for large S the key population is rejection-sampled into 3 shards so that evictions occur; non-trivial = more entries were created than were ever resident (an eviction or removal + re-creation happened); distinct by (S, #ops, #entries created); plus 8 reload scenarios (a registered cache re-applied under the same name with a smaller / larger / equal size, then 3x the larger size + 500 distinct keys: resident keys must stay within the larger size) and 5 configurations with 2-4 caches of different sizes in every order (each cache keeps to its own size)"
	header := "From Coq Require Import List NArith ZArith.\nImport ListNotations.\nFrom Pike Require Import Model.Dispatcher Corr.C11Corr.\nFrom PikeRun Require Import Consts.\n"
	w := hx.NewCaseWriter(out, "lru", header, "list lru_case", "check_cases Consts.disp_consts", 8, sum)
	distinct := hx.NewDistinct()

	sizes := []int{}
	for s := 1; s <= n; s++ {
		sizes = append(sizes, s)
	}
	sizes = append(sizes, 1023, 1024, 1025, 0, -1)
	if tier == "thorough" {
		sizes = append(sizes, 511, 2047, 2048, 4096, 12800, 51200)
	}
	for _, size := range sizes {
		d := cache.NewDispatcher(cache.DispatcherOption{Size: size})
		zones := int(d.VerifZoneSize())
		eff := size
		if eff <= 0 {
			eff = 12800
		}
		perShard := eff / zones
		if perShard < 1 {
			perShard = 1
		}
		var keys [][]byte
		var nops int
		mk := func(i int) []byte {
			return []byte(fmt.Sprintf("GET host%d /path/%d?x=%d", i%3, i, rnd.Intn(1000)))
		}
		if eff <= 64 {
			// whole-dispatcher pressure
			pop := eff*2 + 20
			nops = eff*3 + 50
			for i := 0; i < pop; i++ {
				keys = append(keys, mk(i))
			}
		} else {
			// concentrate on 3 shards: 2*perShard+4 keys for each
			want := map[uint64]int{0: 0, uint64(zones / 2): 0, uint64(zones - 1): 0}
			need := 2*perShard + 4
			for i := 0; len(keys) < 3*need && i < 4000000; i++ {
				k := mk(i)
				sh := cache.MemHash(k) % uint64(zones)
				if c, ok := want[sh]; ok && c < need {
					want[sh] = c + 1
					keys = append(keys, k)
				}
			}
			nops = 3*need*3 + 30
			if nops > 1500 {
				nops = 1500
			}
		}
		pop := len(keys)
		hashes := make([]uint64, pop)
		for i := range keys {
			hashes[i] = cache.MemHash(keys[i])
		}
		ids := map[interface{}]uint64{}
		keep := []interface{}{} // keep every entry alive so that addresses are never reused
		ops := make([]string, 0, nops)
		maxRes := 0
		var replayOps []interface{}
		for j := 0; j < nops; j++ {
			var k int
			if rnd.Chance(50) {
				k = rnd.Intn(pop/10 + 1)
			} else {
				k = rnd.Intn(pop)
			}
			isGet := !rnd.Chance(8)
			var id uint64
			if isGet {
				hc := d.GetHTTPCache(keys[k])
				v, ok := ids[hc]
				if !ok {
					v = uint64(len(ids))
					ids[hc] = v
					keep = append(keep, hc)
					if rnd.Chance(60) {
						// the first request on a new entry becomes its fetcher and the fetch stays in flight:
						// entries that are mid-fetch are evicted like any other
						_, _ = hc.Get()
					}
				}
				id = v
			} else {
				d.RemoveHTTPCache(keys[k])
			}
			res := 0
			for _, l := range d.VerifResident() {
				res += l
			}
			if res > maxRes {
				maxRes = res
			}
			ops = append(ops, fmt.Sprintf("{| lo_get := %s; lo_key := (%s, %s); lo_id := %s; lo_resident := %d |}", hx.Bool(isGet), hx.N(uint64(k)), hx.N(hashes[k]), hx.N(id), res))
			if len(replayOps) < 40 {
				replayOps = append(replayOps, map[string]interface{}{"get": isGet, "key": string(keys[k]), "id": id, "resident": res})
			}
		}
		_ = keep
		term := fmt.Sprintf("{| lc_size := %s; lc_ops := %s |}", hx.Z(int64(size)), hx.List(ops))
		rep := map[string]interface{}{"size": size, "ops": nops, "population": pop, "entries_created": len(ids), "max_resident": maxRes, "first_ops": replayOps}
		w.Add(term, rep)
		sum.Evaluations++
		if len(ids) > maxRes {
			distinct.Add(fmt.Sprintf("%d/%d/%d", size, nops, len(ids)))
		}
		switch {
		case eff < 8:
			sum.Count("size<8")
		case eff < 1024:
			sum.Count("size 8..1023")
		default:
			sum.Count("size>=1024")
		}
		sum.Distribution["ops"] += nops
		if maxRes > eff {
			rep["property"] = "C11"
			sum.ImplViolations = append(sum.ImplViolations, rep)
		}
		sum.Sample(map[string]interface{}{"size": size, "ops": nops, "entries_created": len(ids), "max_resident": maxRes})
	}
	// a cache reloaded under the same name with another size (cache settings are documented as restart-only:
	// the running dispatcher may keep its size, but the number of resident keys must stay within the larger
	// of the sizes it was ever configured with)
	for _, p := range [][2]int{{64, 6}, {2048, 100}, {64, 16}, {8, 3}, {16, 1024}, {100, 100}, {1024, 7}, {6, 64}} {
		cache.ResetDispatchers(nil) // drop the cache of the previous scenario
		cache.ResetDispatchers([]config.CacheConfig{{Name: "rz", Size: p[0], HitForPass: "5m"}})
		d := cache.GetDispatcher("rz")
		for k := 0; k < 2*p[0]; k++ {
			d.GetHTTPCache([]byte(fmt.Sprintf("GET warm.example /w/%d", k)))
		}
		cache.ResetDispatchers([]config.CacheConfig{{Name: "rz", Size: p[1], HitForPass: "5m"}})
		d = cache.GetDispatcher("rz")
		bound := p[0]
		if p[1] > bound {
			bound = p[1]
		}
		worst := 0
		for k := 0; k < 3*bound+500; k++ {
			d.GetHTTPCache([]byte(fmt.Sprintf("GET after.example /a/%d", k)))
			res := 0
			for _, l := range d.VerifResident() {
				res += l
			}
			if res > worst {
				worst = res
			}
		}
		sum.Count("reload-resize")
		if worst > bound {
			sum.ImplViolations = append(sum.ImplViolations, map[string]interface{}{"property": "C11", "kind": "resident-exceeds-size-after-reload", "size_before": p[0], "size_after": p[1], "max_resident": worst, "requests_after_reload": 3*bound + 500})
		}
	}
	// several caches in ONE configuration, sizes in every order: each must keep to its own size
	for _, sizes := range [][]int{{1, 2000}, {8, 64, 2000}, {2000, 8}, {100, 3, 1000, 16}, {16, 16, 16}} {
		cache.ResetDispatchers(nil)
		var cfg []config.CacheConfig
		for i, sz := range sizes {
			cfg = append(cfg, config.CacheConfig{Name: fmt.Sprintf("mc%d", i), Size: sz, HitForPass: "5m"})
		}
		cache.ResetDispatchers(cfg)
		for i, sz := range sizes {
			d := cache.GetDispatcher(fmt.Sprintf("mc%d", i))
			worst := 0
			for k := 0; k < 3*sz+300; k++ {
				d.GetHTTPCache([]byte(fmt.Sprintf("GET multi.example /m/%d/%d", i, k)))
				res := 0
				for _, l := range d.VerifResident() {
					res += l
				}
				if res > worst {
					worst = res
				}
			}
			sum.Count("multi-cache-config")
			if worst > sz {
				sum.ImplViolations = append(sum.ImplViolations, map[string]interface{}{"property": "C11", "kind": "resident-exceeds-own-size-in-multi-cache-config", "sizes_in_config": sizes, "cache_index": i, "size_before": sz, "size_after": sz, "max_resident": worst})
			}
		}
	}
	cache.ResetDispatchers(nil)
	w.Flush()
	sum.DistinctNontrivial = distinct.Len()
	sum.Write(out)
}
