package main

import (
	"fmt"
	"net/http/httptest"
	"strings"

	"github.com/vicanso/pike/config"
	"github.com/vicanso/pike/location"
	"pikeverif/internal/hx"
)

func init() { families["rewrite"] = runRewrite }

// rewrite family (C15): the location's URL rewriter on generated rules and paths.
func runRewrite(seed uint64, n int, tier string, out string, replay string) {
	rnd := hx.NewRand(seed)
	sum := hx.NewSummary("rewrite", seed)
	sum.Rule = "one case = 1-3 rewrite rules 'pattern:target' (patterns from path segments and 0-3 wildcards; targets from literals and $1..$9 tokens in every position: followed by '/', '.', '-', '_', letters, digits, another token, end of string; tokens beyond the number of groups; rules with zero or two colons) applied by the real location.URLRewriter (through location.Reset/Get) to a path that matches some, none or several of them (blanks, repeated segments, match not at the start); observable = the rewritten path; non-trivial = some rule matches; distinct by (rules, path)"
	header := "From Coq Require Import List NArith ZArith.\nImport ListNotations.\nFrom Pike Require Import Base.Bytes Model.Rewrite Corr.RewriteCorr.\n"
	w := hx.NewCaseWriter(out, "rewrite", header, "list rw_case", "check_cases", 100, sum)
	distinct := hx.NewDistinct()
	segs := []string{"api", "v1", "users", "files", "thumb", "x", "items", "rest", "user"}
	corpus := []struct {
		rules []string
		path  string
	}{
		{[]string{"/api/*:/$1"}, "/api/users/1"},
		{[]string{"/rest/*/user/*:/$1/$2"}, "/rest/a/user/b/c"},
		{[]string{"/files/*/thumb:/thumbs/$1_small"}, "/files/abc/thumb"},
		{[]string{"/v/*/items/*:/api/v$1/item$2s"}, "/v/2/items/book"},
		{[]string{"/api/*:/$1$1$2"}, "/api/z"},
		{[]string{"/api/*:/$10"}, "/api/q"},
		{[]string{"/api/*:/v2/$1", "/v2/*:/final/$1"}, "/api/k"},
		{[]string{"/api:/plain"}, "/x/api/y"},
		{[]string{"/api/*:/$1"}, "/deep/api/tail here"},
		{[]string{"nocolon"}, "/api/x"},
		{[]string{"/a:/b:/c"}, "/a"},
	}
	for i := 0; i < n; i++ {
		var rules []string
		var path string
		if i < len(corpus) {
			rules, path = corpus[i].rules, corpus[i].path
		} else {
			nr := 1 + rnd.Intn(3)
			for j := 0; j < nr; j++ {
				var pat strings.Builder
				stars := 0
				np := 1 + rnd.Intn(4)
				for k := 0; k < np; k++ {
					pat.WriteString("/")
					if rnd.Chance(35) && stars < 3 {
						pat.WriteString("*")
						stars++
					} else {
						pat.WriteString(segs[rnd.Intn(len(segs))])
						if rnd.Chance(10) && stars < 3 {
							pat.WriteString("*") // wildcard glued to a literal
							stars++
						}
					}
				}
				var tgt strings.Builder
				nt := 1 + rnd.Intn(4)
				for k := 0; k < nt; k++ {
					switch rnd.Intn(8) {
					case 0, 1, 2:
						tgt.WriteString(fmt.Sprintf("/$%d", 1+rnd.Intn(stars+1)))
					case 3:
						tgt.WriteString(fmt.Sprintf("/p$%d%s", 1+rnd.Intn(3), rnd.Pick([]string{"_small", "s", "9", ".json", "-x", "$1", ""})))
					case 4:
						tgt.WriteString("/$0$")
					default:
						tgt.WriteString("/" + segs[rnd.Intn(len(segs))])
					}
				}
				rule := pat.String() + ":" + tgt.String()
				if rnd.Chance(4) {
					rule = pat.String() // no colon: skipped by the code
				}
				rules = append(rules, rule)
			}
			// a path: often an instance of the first rule's pattern
			var p strings.Builder
			if rnd.Chance(25) {
				p.WriteString("/" + segs[rnd.Intn(len(segs))])
			}
			src := strings.SplitN(rules[rnd.Intn(len(rules))], ":", 2)[0]
			if rnd.Chance(20) {
				src = "/" + segs[rnd.Intn(len(segs))] + "/" + segs[rnd.Intn(len(segs))]
			}
			for _, ch := range src {
				if ch == '*' {
					p.WriteString(rnd.Pick([]string{"", "a", "abc", "a/b", "7", "x_y", "a b", "api"}))
				} else {
					p.WriteRune(ch)
				}
			}
			if rnd.Chance(30) {
				p.WriteString(rnd.Pick([]string{"/tail", "/", " x", "/api/z"}))
			}
			path = p.String()
		}
		location.Reset([]config.LocationConfig{{Name: "rw", Upstream: "u", Rewrites: rules}})
		loc := location.Get("example.com", "/", "rw")
		image := path
		if loc != nil && loc.URLRewriter != nil {
			req := httptest.NewRequest("GET", "http://example.com/", nil)
			req.URL.Path = path
			loc.URLRewriter(req)
			image = req.URL.Path
		}
		var rt []string
		for _, r := range rules {
			rt = append(rt, hx.Str(r))
		}
		rep := map[string]interface{}{"rules": rules, "path": path, "image": image}
		w.Add(fmt.Sprintf("{| rw_rules := %s; rw_path := %s; rw_image := %s |}", hx.List(rt), hx.Str(path), hx.Str(image)), rep)
		sum.Evaluations++
		if image != path {
			distinct.Add(strings.Join(rules, "|") + "|" + path)
			sum.Count("rewritten")
		} else {
			sum.Count("unchanged")
		}
		sum.Sample(rep)
	}
	location.Reset(nil)
	w.Flush()
	sum.DistinctNontrivial = distinct.Len()
	sum.Write(out)
}
