package main

import (
	"bytes"
	"encoding/binary"
	"encoding/json"
	"fmt"
	"net/http"
	"os"
	"path/filepath"
	"regexp"
	"runtime"
	"time"

	"github.com/vicanso/pike/cache"
	"pikeverif/internal/hx"
)

func init() { families["codec"] = runCodec }

func coqOHdr(h http.Header) string {
	if h == nil {
		return "None"
	}
	return "(Some " + coqHeaders(sortedHeaderLines(h)) + ")"
}

func coqPresp(r *cache.HTTPResponse) string {
	if r == nil {
		return "None"
	}
	f := "None"
	if r.CompressContentTypeFilter != nil {
		f = "(Some " + hx.Str(r.CompressContentTypeFilter.String()) + ")"
	}
	return fmt.Sprintf("(Some {| p_srv := %s; p_min := %s; p_filter := %s; p_header := %s; p_status := %s; p_gzip := %s; p_br := %s; p_raw := %s |})",
		hx.Str(r.CompressSrv), hx.Z(int64(r.CompressMinLength)), f, coqOHdr(r.Header), hx.Z(int64(r.StatusCode)),
		hx.Bytes(r.GzipBody), hx.Bytes(r.BrBody), hx.Bytes(r.RawBody))
}

func coqPentry(status int, r *cache.HTTPResponse, created, expired int64) string {
	return fmt.Sprintf("{| pe_status := %s; pe_resp := %s; pe_created := %s; pe_expired := %s |}", hx.Z(int64(status)), coqPresp(r), hx.Z(created), hx.Z(expired))
}

// segments replicates the record layout with bytes.Buffer.Next semantics to
// find the byte ranges handed to regexp.Compile and json.Unmarshal.
func segments(data []byte) (filter []byte, hasF bool, hdr []byte, hasH bool) {
	buf := bytes.NewBuffer(data)
	var v uint32
	if binary.Read(buf, binary.BigEndian, &v) != nil {
		return
	}
	if binary.Read(buf, binary.BigEndian, &v) != nil {
		return
	}
	rb := buf.Next(int(v))
	if len(rb) == 0 {
		return
	}
	b := bytes.NewBuffer(rb)
	if binary.Read(b, binary.BigEndian, &v) != nil {
		return
	}
	b.Next(int(v))
	if binary.Read(b, binary.BigEndian, &v) != nil {
		return
	}
	if binary.Read(b, binary.BigEndian, &v) != nil {
		return
	}
	filter = b.Next(int(v))
	hasF = true
	if len(filter) != 0 {
		if _, err := regexp.Compile(string(filter)); err != nil {
			return
		}
	}
	if binary.Read(b, binary.BigEndian, &v) != nil {
		return
	}
	hdr = b.Next(int(v))
	hasH = true
	return
}

type codecOracles struct {
	hdrDec, regex []string
	seenH, seenR  map[string]bool
}

func (o *codecOracles) observe(data []byte) {
	f, hasF, h, hasH := segments(data)
	if hasF && len(f) != 0 && !o.seenR[string(f)] {
		o.seenR[string(f)] = true
		_, err := regexp.Compile(string(f))
		o.regex = append(o.regex, fmt.Sprintf("(%s, %s)", hx.Bytes(f), hx.Bool(err == nil)))
	}
	if hasH && !o.seenH[string(h)] {
		o.seenH[string(h)] = true
		var hh http.Header
		err := json.Unmarshal(h, &hh)
		v := "None"
		if err == nil {
			v = "(Some " + coqOHdr(hh) + ")"
		}
		o.hdrDec = append(o.hdrDec, fmt.Sprintf("(%s, %s)", hx.Bytes(h), v))
	}
}

// allocBound: what a decode of n input bytes may allocate ("a small multiple of the input size")
func allocBound(n int) uint64 { return uint64(64*n + 256<<10) }

// lengthFields: offsets of the 4-byte length fields of a well-formed record (entry response size;
// inside the response: profile name, filter, header, gzip, br, raw)
func lengthFields(rec []byte) []int {
	var offs []int
	u32 := func(p int) int {
		return int(rec[p])<<24 | int(rec[p+1])<<16 | int(rec[p+2])<<8 | int(rec[p+3])
	}
	if len(rec) < 8 {
		return nil
	}
	offs = append(offs, 4) // response size
	if u32(4) == 0 {
		return offs
	}
	p := 8
	field := func(withData bool) bool {
		if p+4 > len(rec) {
			return false
		}
		if withData {
			offs = append(offs, p)
			p += 4 + u32(p)
		} else {
			p += 4
		}
		return p <= len(rec)
	}
	_ = field(true) && field(false) && field(true) && field(true) && field(false) && field(true) && field(true) && field(true)
	return offs
}

type decodeResult struct {
	alloc    uint64
	ok       bool
	panicked bool
	hung     bool
	snap     cache.VerifEntry
}

// codecOut: where a hang is reported; recentInputs: the last few decoded inputs (a hang may be the
// consequence of an earlier input)
var codecOut string
var recentInputs []string

func safeDecode(data []byte) decodeResult {
	recentInputs = append(recentInputs, fmt.Sprintf("%x", data[:min(len(data), 120)]))
	if len(recentInputs) > 6 {
		recentInputs = recentInputs[1:]
	}
	ch := make(chan decodeResult, 1)
	go func() {
		var res decodeResult
		defer func() {
			if r := recover(); r != nil {
				res.panicked = true
			}
			ch <- res
		}()
		hc := cache.NewHTTPCache()
		var m0, m1 runtime.MemStats
		runtime.ReadMemStats(&m0)
		err := hc.FromBytes(data)
		runtime.ReadMemStats(&m1)
		res.alloc = m1.TotalAlloc - m0.TotalAlloc
		res.ok = err == nil
		res.snap = hc.VerifSnapshot()
	}()
	select {
	case r := <-ch:
		return r
	case <-time.After(5 * time.Second):
		// a decode that does not return (a leaked lock, an endless loop) poisons the rest of the process:
		// report the input and stop the family here — the orchestrator turns this into the replay
		if codecOut != "" {
			b, _ := json.Marshal(map[string]interface{}{"family": "codec", "kind": "hang", "what": "FromBytes did not return within 5 s", "data_hex": fmt.Sprintf("%x", data[:min(len(data), 200)]), "record_len": len(data),
				"previous_inputs_hex": recentInputs})
			_ = os.WriteFile(filepath.Join(codecOut, "inflight.json"), b, 0o644)
			os.Exit(3)
		}
		return decodeResult{hung: true}
	}
}

func genHeader(r *hx.Rand, sum *hx.Summary) (http.Header, bool) {
	nonUTF8 := false
	switch r.Intn(10) {
	case 0:
		sum.Count("header:nil")
		return nil, false
	case 1:
		sum.Count("header:empty")
		return http.Header{}, false
	}
	h := http.Header{}
	nk := 1 + r.Intn(5)
	for i := 0; i < nk; i++ {
		k := r.Pick([]string{"Content-Type", "Etag", "X-Multi", "Cache-Control", "X-Café", "x-lower", "Vary", "Link"})
		nv := 1 + r.Intn(3)
		if r.Chance(15) { // a header that is present with an empty value (one or two of them)
			h[k] = []string{""}
			if r.Chance(30) {
				h[k] = []string{"", ""}
			}
			sum.Count("header:empty-valued-key")
			continue
		}
		for j := 0; j < nv; j++ {
			v := r.Pick([]string{"text/html; charset=utf-8", "", "\"abc\"", "a, b", "<x>&y", "café", " line", "max-age=60", "日本語", "tab\there", "q\"uote\\",
				"del\x7f", "ctl\x01\x1f", "bell\a\v\f", "tag\U000E0067\U000E007F", "max\U0010FFFF", "para\u2029", "nbsp\u00a0", "\ufeffbom", "emoji\U0001F3F4"})
			if r.Chance(3) {
				v = "caf\xe9" // Latin-1 byte: legal obs-text, not valid UTF-8
				nonUTF8 = true
			}
			h.Add(k, v)
		}
	}
	if nonUTF8 {
		sum.Count("header:non-utf8")
	} else {
		sum.Count("header:utf8")
	}
	return h, nonUTF8
}

func genVariant(r *hx.Rand) []byte {
	switch r.Intn(7) {
	case 0, 1:
		return nil
	case 2:
		return []byte{0}
	case 3:
		return r.Bytes(255)
	case 4:
		return r.Bytes(256)
	default:
		return r.Bytes(1 + r.Intn(40))
	}
}

// codec family (C09): Bytes / FromBytes of structured entries, every
// truncation offset, and a mutation stream, vs the model.
func runCodec(seed uint64, n int, tier string, out string, replay string) {
	codecOut = out
	rnd := hx.NewRand(seed)
	sum := hx.NewSummary("codec", seed)
	sum.Rule = "one case = one structured entry (status 0..4 and out-of-range, nil/empty/multi-valued/non-ASCII/HTML-escaped/non-UTF-8 headers, body variants of length 0,1,255,256,random, profile name, min length, filter nil/compiled, timestamps incl. 0, negative, max) encoded with the real Bytes(), decoded with the real FromBytes on a fresh entry: the full record, EVERY strict prefix, and 6 mutants (bit flips, length-field edits incl. 0xFFFFFFFF, splices, garbage); each decode under recover + 5 s timeout; json/regexp answers recorded as oracle tables; non-trivial = entry with a response; distinct by record bytes; every decode is measured (runtime TotalAlloc) against 64 x input + 256 KiB; additionally each 4-byte length field of every record is set to 64 MiB, 2^31-1, 2^32-1, len and len+1 and decoded (no panic, no hang, allocation within the bound)"
	header := "From Coq Require Import List NArith ZArith.\nImport ListNotations.\nFrom Pike Require Import Base.Bytes Model.MaxAge Model.Resp Model.Codec Corr.C09Corr.\n"
	w := hx.NewCaseWriter(out, "codec", header, "list c9_case", "check_cases", 12, sum)
	distinct := hx.NewDistinct()
	filters := []*regexp.Regexp{nil, nil, regexp.MustCompile("json"), regexp.MustCompile("text|xml"), regexp.MustCompile("^a(b+)c$")}
	for i := 0; i < n; i++ {
		status := []int{0, 1, 2, 3, 3, 3, 4, 7, 255}[rnd.Intn(9)]
		var resp *cache.HTTPResponse
		nonUTF8 := false
		if !rnd.Chance(15) {
			h, nu := genHeader(rnd, sum)
			nonUTF8 = nu
			resp = &cache.HTTPResponse{
				CompressSrv:               rnd.Pick([]string{"", "bestCompression", "p1", "名前"}),
				CompressMinLength:         []int{0, 1, 1024, 65536, 4294967295}[rnd.Intn(5)],
				CompressContentTypeFilter: filters[rnd.Intn(len(filters))],
				Header:                    h,
				StatusCode:                []int{200, 404, 0, 599}[rnd.Intn(4)],
				GzipBody:                  genVariant(rnd),
				BrBody:                    genVariant(rnd),
				RawBody:                   genVariant(rnd),
			}
		} else {
			sum.Count("response:nil")
		}
		created := []int64{0, 1600000000, 946684800, -1, 9223372036854775807, -9223372036854775808}[rnd.Intn(6)]
		expired := []int64{0, 1600000060, 946684801, -5, 9223372036854775807}[rnd.Intn(5)]
		hc := cache.VerifNewEntry(status, resp, created, expired)
		data, err := hc.Bytes()
		if err != nil {
			panic(err)
		}
		// the record handed out for one entry must not change when other entries are encoded afterwards
		// (a store may still be holding it): encode two smaller entries, then compare
		snapshot := append([]byte{}, data...)
		for _, other := range []*cache.HTTPResponse{nil, {StatusCode: 204, Header: http.Header{"X-Other": []string{"o"}}, RawBody: []byte("other")}} {
			_, _ = cache.VerifNewEntry(3, other, 1, 2).Bytes()
		}
		if !bytes.Equal(snapshot, data) {
			sum.ImplViolations = append(sum.ImplViolations, map[string]interface{}{"property": "C09+C08", "kind": "record-changed-by-later-encode", "record_len": len(data), "record_hex": fmt.Sprintf("%x", snapshot[:min(len(snapshot), 48)])})
			data = snapshot
		}
		or := &codecOracles{seenH: map[string]bool{}, seenR: map[string]bool{}}
		var hdrEnc []string
		if resp != nil {
			jb, _ := json.Marshal(resp.Header)
			hdrEnc = append(hdrEnc, fmt.Sprintf("(%s, %s)", coqOHdr(resp.Header), hx.Bytes(jb)))
		}
		// decodes
		inputs := [][]byte{data}
		for m := 0; m < 6; m++ {
			d := append([]byte{}, data...)
			switch rnd.Intn(5) {
			case 0: // bit flip
				if len(d) > 0 {
					d[rnd.Intn(len(d))] ^= 1 << uint(rnd.Intn(8))
				}
				sum.Count("mutant:bitflip")
			case 1: // length field edit
				pos := []int{4, 8}[rnd.Intn(2)]
				if len(d) >= pos+4 {
					binary.BigEndian.PutUint32(d[pos:], []uint32{0, 1, 0xFFFFFFFF, uint32(len(d)), uint32(rnd.Intn(300))}[rnd.Intn(5)])
				}
				sum.Count("mutant:length-edit")
			case 2: // status word edit
				binary.BigEndian.PutUint32(d[0:], uint32(rnd.Intn(6)))
				sum.Count("mutant:status-edit")
			case 3: // splice
				if len(d) > 10 {
					p := rnd.Intn(len(d) - 5)
					d = append(append(append([]byte{}, d[:p]...), rnd.Bytes(1+rnd.Intn(4))...), d[p+3:]...)
				}
				sum.Count("mutant:splice")
			default:
				d = rnd.Bytes(rnd.Intn(60))
				sum.Count("mutant:garbage")
			}
			inputs = append(inputs, d)
		}
		// directed: every length field of the record set to huge / boundary values
		for _, off := range lengthFields(data) {
			for _, v := range []uint32{0x04000000, 0x7fffffff, 0xffffffff, uint32(len(data)), uint32(len(data)) + 1} {
				d := append([]byte{}, data...)
				d[off], d[off+1], d[off+2], d[off+3] = byte(v>>24), byte(v>>16), byte(v>>8), byte(v)
				res := safeDecode(d)
				sum.Count("mutant:length-field")
				if res.panicked || res.hung || res.alloc > allocBound(len(d)) {
					sum.ImplViolations = append(sum.ImplViolations, map[string]interface{}{"property": "C09", "kind": "length-field", "panicked": res.panicked, "hung": res.hung,
						"allocated": res.alloc, "bound": allocBound(len(d)), "field_offset": off, "field_value": v, "record_len": len(d), "data_hex": fmt.Sprintf("%x", d[:min(len(d), 96)])})
				}
			}
		}
		var decs []string
		var fullOK bool
		var fullSnap cache.VerifEntry
		for k, d := range inputs {
			or.observe(d)
			res := safeDecode(d)
			if !res.panicked && !res.hung && res.alloc > allocBound(len(d)) {
				sum.ImplViolations = append(sum.ImplViolations, map[string]interface{}{"property": "C09", "kind": "allocation", "allocated": res.alloc, "bound": allocBound(len(d)), "record_len": len(d), "data_hex": fmt.Sprintf("%x", d[:min(len(d), 96)])})
			}
			if res.panicked || res.hung {
				sum.ImplViolations = append(sum.ImplViolations, map[string]interface{}{"property": "C09", "kind": map[bool]string{true: "panic", false: "hang"}[res.panicked], "data_hex": fmt.Sprintf("%x", d)})
				continue
			}
			if k == 0 {
				fullOK, fullSnap = res.ok, res.snap
			}
			decs = append(decs, fmt.Sprintf("{| cd_data := %s; cd_ok := %s; cd_after := %s |}", hx.Bytes(d), hx.Bool(res.ok),
				coqPentry(res.snap.Status, res.snap.Response, res.snap.CreatedAt, res.snap.ExpiredAt)))
		}
		// every strict prefix
		var prefOK []string
		prefixAccepted := -1
		for k := 0; k < len(data); k++ {
			or.observe(data[:k])
			res := safeDecode(data[:k])
			if res.panicked || res.hung {
				sum.ImplViolations = append(sum.ImplViolations, map[string]interface{}{"property": "C09", "kind": "panic/hang on prefix", "prefix_len": k, "data_hex": fmt.Sprintf("%x", data)})
			}
			prefOK = append(prefOK, hx.Bool(res.ok))
			if res.ok && prefixAccepted < 0 {
				prefixAccepted = k
			}
		}
		sum.Distribution["prefixes"] += len(data)
		term := fmt.Sprintf("{| c9_entry := Some %s; c9_bytes := %s; c9_hdr_enc := %s; c9_hdr_dec := %s; c9_regex := %s; c9_decodes := %s; c9_prefix_ok := %s |}",
			coqPentry(status, resp, created, expired), hx.Bytes(data), hx.List(hdrEnc), hx.List(or.hdrDec), hx.List(or.regex), hx.List(decs), hx.List(prefOK))
		rep := map[string]interface{}{"status": status, "has_response": resp != nil, "non_utf8_header": nonUTF8, "record_hex": fmt.Sprintf("%x", data), "record_len": len(data),
			"created": created, "expired": expired, "full_decode_ok": fullOK, "decoded_status": fullSnap.Status, "first_prefix_accepted": prefixAccepted}
		if resp != nil {
			rep["min_length"] = resp.CompressMinLength
		}
		w.Add(term, rep)
		sum.Evaluations++
		if resp != nil {
			distinct.Add(string(data))
		}
		sum.Count(fmt.Sprintf("status:%d", status))
		sum.Sample(rep)
	}
	w.Flush()
	sum.DistinctNontrivial = distinct.Len()
	sum.Write(out)
}
