// skeleton regenerates, from the Go sources under a pike checkout, the Coq
// files the per-run proof obligations are instantiated with:
//
//	Consts.v   — literals the model depends on
//	Skeleton.v — ordered lock/field-access event lists of selected functions
//
// It uses go/ast only (no type checking), so it runs in well under a second.
package main

import (
	"fmt"
	"go/ast"
	"go/parser"
	"go/token"
	"os"
	"path/filepath"
	"strconv"
	"strings"
)

var fset = token.NewFileSet()
var problems []string

func problem(format string, args ...interface{}) {
	problems = append(problems, fmt.Sprintf(format, args...))
}

func parse(repo, rel string) *ast.File {
	f, err := parser.ParseFile(fset, filepath.Join(repo, rel), nil, parser.ParseComments)
	if err != nil {
		fmt.Fprintln(os.Stderr, "skeleton: parse error:", err)
		os.Exit(3)
	}
	return f
}

func findFunc(f *ast.File, recv, name string) *ast.FuncDecl {
	for _, d := range f.Decls {
		fd, ok := d.(*ast.FuncDecl)
		if !ok || fd.Name.Name != name {
			continue
		}
		r := ""
		if fd.Recv != nil && len(fd.Recv.List) == 1 {
			t := fd.Recv.List[0].Type
			if st, ok := t.(*ast.StarExpr); ok {
				t = st.X
			}
			if id, ok := t.(*ast.Ident); ok {
				r = id.Name
			}
		}
		if r == recv {
			return fd
		}
	}
	return nil
}

// topValue finds `const/var name = <expr>` at top level.
func topValue(f *ast.File, name string) ast.Expr {
	for _, d := range f.Decls {
		gd, ok := d.(*ast.GenDecl)
		if !ok {
			continue
		}
		for _, s := range gd.Specs {
			vs, ok := s.(*ast.ValueSpec)
			if !ok {
				continue
			}
			for i, n := range vs.Names {
				if n.Name == name && i < len(vs.Values) {
					return vs.Values[i]
				}
			}
		}
	}
	return nil
}

func intLit(e ast.Expr) (int64, bool) {
	switch v := e.(type) {
	case *ast.BasicLit:
		if v.Kind == token.INT {
			n, err := strconv.ParseInt(v.Value, 0, 64)
			return n, err == nil
		}
	case *ast.ParenExpr:
		return intLit(v.X)
	case *ast.UnaryExpr:
		if v.Op == token.SUB {
			n, ok := intLit(v.X)
			return -n, ok
		}
	}
	return 0, false
}

func strLit(e ast.Expr) (string, bool) {
	if v, ok := e.(*ast.BasicLit); ok && v.Kind == token.STRING {
		s, err := strconv.Unquote(v.Value)
		return s, err == nil
	}
	return "", false
}

func topInt(f *ast.File, name string, def int64) int64 {
	e := topValue(f, name)
	if e != nil {
		if n, ok := intLit(e); ok {
			return n
		}
	}
	problem("constant %s not found as an integer literal", name)
	return def
}

func isIdent(e ast.Expr, name string) bool {
	id, ok := e.(*ast.Ident)
	return ok && id.Name == name
}

func coqBytes(s string) string {
	items := make([]string, len(s))
	for i := 0; i < len(s); i++ {
		items[i] = strconv.Itoa(int(s[i]))
	}
	return "[" + strings.Join(items, ";") + "]%N"
}

func z(n int64) string {
	if n < 0 {
		return fmt.Sprintf("(%d)%%Z", n)
	}
	return fmt.Sprintf("%d%%Z", n)
}

func main() {
	if len(os.Args) < 3 {
		fmt.Fprintln(os.Stderr, "usage: skeleton <repo> <outdir>")
		os.Exit(2)
	}
	repo, out := os.Args[1], os.Args[2]
	var b strings.Builder
	b.WriteString("(* Generated from " + repo + " by /verif/harness/cmd/skeleton — do not edit. *)\n")
	b.WriteString("From Coq Require Import List NArith ZArith Bool String.\nImport ListNotations.\n")
	b.WriteString("From Pike Require Import Model.Dispatcher.\n\n")
	genDispatcher(repo, &b)
	for _, g := range extraGens {
		g(repo, &b)
	}
	b.WriteString("\n(* extraction problems: the per-run obligations require this list to be empty *)\n")
	b.WriteString("Definition extraction_problems : nat := " + strconv.Itoa(len(problems)) + ".\n")
	for _, p := range problems {
		b.WriteString("(* PROBLEM: " + strings.ReplaceAll(p, "*)", "* )") + " *)\n")
	}
	if err := os.WriteFile(filepath.Join(out, "Consts.v"), []byte(b.String()), 0o644); err != nil {
		panic(err)
	}
	for _, p := range problems {
		fmt.Println("PROBLEM:", p)
	}
}

var extraGens []func(repo string, b *strings.Builder)

// NewDispatcher: zoneSize := defaultZoneSize; if Size <= 0 { size = zoneSize * M };
// if size < B { zoneSize = Z }; [if size < zoneSize { zoneSize = size }]
func genDispatcher(repo string, b *strings.Builder) {
	f := parse(repo, "cache/dispatcher.go")
	big := topInt(f, "defaultZoneSize", 128)
	var mult, below, small int64 = -1, -1, -1
	floor := false
	fd := findFunc(f, "", "NewDispatcher")
	if fd == nil {
		problem("NewDispatcher not found")
	} else {
		ast.Inspect(fd.Body, func(n ast.Node) bool {
			switch s := n.(type) {
			case *ast.AssignStmt:
				if len(s.Lhs) == 1 && len(s.Rhs) == 1 && isIdent(s.Lhs[0], "size") {
					if be, ok := s.Rhs[0].(*ast.BinaryExpr); ok && be.Op == token.MUL && isIdent(be.X, "zoneSize") {
						if v, ok := intLit(be.Y); ok {
							mult = v
						}
					}
				}
			case *ast.IfStmt:
				if be, ok := s.Cond.(*ast.BinaryExpr); ok && be.Op == token.LSS && isIdent(be.X, "size") {
					if v, ok := intLit(be.Y); ok && len(s.Body.List) == 1 {
						if as, ok := s.Body.List[0].(*ast.AssignStmt); ok && len(as.Lhs) == 1 && isIdent(as.Lhs[0], "zoneSize") {
							if sv, ok := intLit(as.Rhs[0]); ok {
								below, small = v, sv
							}
						}
					}
					if isIdent(be.Y, "zoneSize") && len(s.Body.List) == 1 {
						if as, ok := s.Body.List[0].(*ast.AssignStmt); ok && len(as.Lhs) == 1 && isIdent(as.Lhs[0], "zoneSize") && isIdent(as.Rhs[0], "size") {
							floor = true
						}
					}
				}
			}
			return true
		})
	}
	if mult < 0 {
		problem("NewDispatcher: `size = zoneSize * <int>` not found")
		mult = 100
	}
	if below < 0 {
		problem("NewDispatcher: `if size < <int> { zoneSize = <int> }` not found")
		below, small = 1024, 8
	}
	fmt.Fprintf(b, "Definition disp_consts : dconsts :=\n  {| zone_big := %d; zone_small := %d; small_below := %s; default_mult := %s |}.\n", big, small, z(below), z(mult))
	fmt.Fprintf(b, "(* `if size < zoneSize { zoneSize = size }` present in NewDispatcher *)\nDefinition disp_zone_floor : bool := %v.\n", floor)
}
