package main

import (
	"fmt"
	"go/ast"
	"strings"
)

func init() { extraGens = append(extraGens, genMainUpdate) }

// main.update: the ordered list of package-level Reset/Start calls.
func genMainUpdate(repo string, b *strings.Builder) {
	f := parse(repo, "main.go")
	fd := findFunc(f, "", "update")
	var calls []string
	if fd == nil {
		problem("main.update not found")
	} else {
		for _, st := range fd.Body.List {
			var call *ast.CallExpr
			switch v := st.(type) {
			case *ast.ExprStmt:
				call, _ = v.X.(*ast.CallExpr)
			case *ast.ReturnStmt:
				if len(v.Results) == 1 {
					call, _ = v.Results[0].(*ast.CallExpr)
				}
			}
			if call == nil {
				continue
			}
			if sel, ok := call.Fun.(*ast.SelectorExpr); ok {
				if id, ok := sel.X.(*ast.Ident); ok {
					switch id.Name {
					case "compress", "cache", "upstream", "location", "server":
						calls = append(calls, "\""+id.Name+"."+sel.Sel.Name+"\"%string")
					}
				}
			}
		}
	}
	fmt.Fprintf(b, "Definition update_order : list string := [%s].\n", strings.Join(calls, "; "))
}
