package main

import (
	"fmt"
	"go/ast"
	"go/token"
	"strings"
)

func init() { extraGens = append(extraGens, genSkeleton) }

// Skeleton events are emitted as Coq terms of type [event] (Proofs/Lockset.v).

type skFunc struct{ file, recv, name string }

var skFuncs = []skFunc{
	{"cache/http_cache.go", "httpCache", "Get"},
	{"cache/http_cache.go", "httpCache", "get"},
	{"cache/http_cache.go", "httpCache", "HitForPass"},
	{"cache/http_cache.go", "httpCache", "Cacheable"},
	{"cache/http_cache.go", "httpCache", "Age"},
	{"cache/http_cache.go", "httpCache", "GetStatus"},
	{"cache/http_cache.go", "httpCache", "IsExpired"},
	{"cache/http_cache.go", "httpCache", "initFromStore"},
	{"cache/http_cache.go", "httpCache", "saveToStore"},
	{"cache/http_cache.go", "httpCache", "Bytes"},
	{"cache/dispatcher.go", "dispatcher", "GetHTTPCache"},
	{"cache/dispatcher.go", "dispatcher", "RemoveHTTPCache"},
	{"cache/http_response.go", "HTTPResponse", "Fill"},
	{"cache/http_response.go", "HTTPResponse", "getBodyByAcceptEncoding"},
	{"cache/http_response.go", "HTTPResponse", "GetRawBody"},
	{"cache/http_response.go", "HTTPResponse", "shouldCompressed"},
	{"cache/http_response.go", "HTTPResponse", "Bytes"},
	{"cache/http_response.go", "HTTPResponse", "Compress"},
	{"server/server.go", "server", "Update"},
	{"server/server.go", "server", "GetCache"},
	{"server/server.go", "server", "GetLocations"},
	{"server/server.go", "server", "GetCompress"},
	{"location/location.go", "Locations", "Set"},
	{"location/location.go", "Locations", "GetLocations"},
	{"server/cache.go", "", "NewCache"},
	{"server/responder.go", "", "NewResponder"},
}

func q(s string) string { return "\"" + s + "\"%string" }

func isMutexSel(e ast.Expr) (string, bool) {
	sel, ok := e.(*ast.SelectorExpr)
	if !ok {
		return "", false
	}
	if sel.Sel.Name != "mu" && sel.Sel.Name != "mutex" {
		return "", false
	}
	if id, ok := sel.X.(*ast.Ident); ok {
		return id.Name + "." + sel.Sel.Name, true
	}
	return "", false
}

type skGen struct{ recvVar string }

// exprEvents: reads and calls inside an expression, in evaluation order (approximately source order).
func (g *skGen) exprEvents(e ast.Expr) []string {
	var evs []string
	if e == nil {
		return evs
	}
	switch v := e.(type) {
	case *ast.CallExpr:
		if sel, ok := v.Fun.(*ast.SelectorExpr); ok {
			// mutex operations
			if m, ok := isMutexSel(sel.X); ok {
				switch sel.Sel.Name {
				case "Lock":
					return []string{"Lock " + q(m)}
				case "Unlock":
					return []string{"Unlock " + q(m)}
				case "RLock":
					return []string{"RLock " + q(m)}
				case "RUnlock":
					return []string{"RUnlock " + q(m)}
				}
			}
			for _, a := range v.Args {
				evs = append(evs, g.exprEvents(a)...)
			}
			if id, ok := sel.X.(*ast.Ident); ok {
				evs = append(evs, "Call "+q(id.Name+"."+sel.Sel.Name))
				return evs
			}
			evs = append(evs, g.exprEvents(sel.X)...)
			evs = append(evs, "Call "+q("_."+sel.Sel.Name))
			return evs
		}
		for _, a := range v.Args {
			evs = append(evs, g.exprEvents(a)...)
		}
		if fl, ok := v.Fun.(*ast.FuncLit); ok {
			// an immediately invoked closure (defer func() { ... }()): its body runs at the call
			return append(evs, g.stmtsEvents(fl.Body.List)...)
		}
		if id, ok := v.Fun.(*ast.Ident); ok {
			switch id.Name {
			case "len", "cap", "append", "make", "new", "int", "int64", "string", "copy", "delete", "panic", "uint32", "uint64":
			default:
				evs = append(evs, "Call "+q(id.Name))
			}
		}
		return evs
	case *ast.SelectorExpr:
		if id, ok := v.X.(*ast.Ident); ok {
			if v.Sel.Name == "mu" || v.Sel.Name == "mutex" {
				return evs
			}
			return []string{"Read " + q(id.Name+"."+v.Sel.Name)}
		}
		return g.exprEvents(v.X)
	case *ast.UnaryExpr:
		if v.Op == token.ARROW {
			return append(g.exprEvents(v.X), "Recv")
		}
		return g.exprEvents(v.X)
	case *ast.BinaryExpr:
		return append(g.exprEvents(v.X), g.exprEvents(v.Y)...)
	case *ast.ParenExpr:
		return g.exprEvents(v.X)
	case *ast.StarExpr:
		return g.exprEvents(v.X)
	case *ast.IndexExpr:
		return append(g.exprEvents(v.X), g.exprEvents(v.Index)...)
	case *ast.SliceExpr:
		evs = append(evs, g.exprEvents(v.X)...)
		evs = append(evs, g.exprEvents(v.Low)...)
		evs = append(evs, g.exprEvents(v.High)...)
		return evs
	case *ast.TypeAssertExpr:
		return g.exprEvents(v.X)
	case *ast.CompositeLit:
		for _, el := range v.Elts {
			if kv, ok := el.(*ast.KeyValueExpr); ok {
				evs = append(evs, g.exprEvents(kv.Value)...)
			} else {
				evs = append(evs, g.exprEvents(el)...)
			}
		}
		return evs
	case *ast.KeyValueExpr:
		return g.exprEvents(v.Value)
	case *ast.FuncLit:
		// closures run later (deferred / callbacks): their body is summarised as one block
		return []string{"Block " + coqList(g.stmtsEvents(v.Body.List))}
	}
	return evs
}

func coqList(items []string) string {
	parts := make([]string, len(items))
	for i, it := range items {
		if strings.Contains(it, " ") {
			parts[i] = "(" + it + ")"
		} else {
			parts[i] = it
		}
	}
	return "[" + strings.Join(parts, "; ") + "]"
}

func (g *skGen) lhsEvents(e ast.Expr) []string {
	switch v := e.(type) {
	case *ast.SelectorExpr:
		if id, ok := v.X.(*ast.Ident); ok {
			return []string{"Write " + q(id.Name+"."+v.Sel.Name)}
		}
		return g.exprEvents(v.X)
	case *ast.IndexExpr:
		return append(g.exprEvents(v.Index), g.lhsEvents(v.X)...)
	case *ast.StarExpr:
		return g.exprEvents(v.X)
	}
	return nil
}

func (g *skGen) stmtsEvents(list []ast.Stmt) []string {
	var evs []string
	for _, s := range list {
		evs = append(evs, g.stmtEvents(s)...)
	}
	return evs
}

func (g *skGen) stmtEvents(s ast.Stmt) []string {
	var evs []string
	switch v := s.(type) {
	case *ast.ExprStmt:
		return g.exprEvents(v.X)
	case *ast.AssignStmt:
		for _, r := range v.Rhs {
			evs = append(evs, g.exprEvents(r)...)
		}
		for _, l := range v.Lhs {
			if v.Tok != token.ASSIGN && v.Tok != token.DEFINE { // op-assign reads too
				evs = append(evs, g.exprEvents(l)...)
			}
			evs = append(evs, g.lhsEvents(l)...)
		}
		return evs
	case *ast.IncDecStmt:
		evs = append(evs, g.exprEvents(v.X)...)
		return append(evs, g.lhsEvents(v.X)...)
	case *ast.DeclStmt:
		if gd, ok := v.Decl.(*ast.GenDecl); ok {
			for _, sp := range gd.Specs {
				if vs, ok := sp.(*ast.ValueSpec); ok {
					for _, x := range vs.Values {
						evs = append(evs, g.exprEvents(x)...)
					}
				}
			}
		}
		return evs
	case *ast.SendStmt:
		evs = append(evs, g.exprEvents(v.Chan)...)
		evs = append(evs, g.exprEvents(v.Value)...)
		return append(evs, "Send")
	case *ast.ReturnStmt:
		for _, r := range v.Results {
			evs = append(evs, g.exprEvents(r)...)
		}
		return append(evs, "Return")
	case *ast.DeferStmt:
		if sel, ok := v.Call.Fun.(*ast.SelectorExpr); ok {
			if m, ok := isMutexSel(sel.X); ok {
				switch sel.Sel.Name {
				case "Unlock":
					return []string{"DeferUnlock " + q(m)}
				case "RUnlock":
					return []string{"DeferRUnlock " + q(m)}
				}
			}
		}
		inner := g.exprEvents(v.Call)
		return []string{"Defer " + coqList(inner)}
	case *ast.GoStmt:
		return []string{"Go " + coqList(g.exprEvents(v.Call))}
	case *ast.IfStmt:
		if v.Init != nil {
			evs = append(evs, g.stmtEvents(v.Init)...)
		}
		evs = append(evs, g.exprEvents(v.Cond)...)
		thenEvs := g.stmtsEvents(v.Body.List)
		var elseEvs []string
		if v.Else != nil {
			switch e := v.Else.(type) {
			case *ast.BlockStmt:
				elseEvs = g.stmtsEvents(e.List)
			default:
				elseEvs = g.stmtEvents(e)
			}
		}
		return append(evs, "If "+coqList(thenEvs)+" "+coqList(elseEvs))
	case *ast.ForStmt:
		if v.Init != nil {
			evs = append(evs, g.stmtEvents(v.Init)...)
		}
		body := g.exprEvents(v.Cond)
		body = append(body, g.stmtsEvents(v.Body.List)...)
		if v.Post != nil {
			body = append(body, g.stmtEvents(v.Post)...)
		}
		return append(evs, "Loop "+coqList(body))
	case *ast.RangeStmt:
		evs = append(evs, g.exprEvents(v.X)...)
		return append(evs, "Loop "+coqList(g.stmtsEvents(v.Body.List)))
	case *ast.BlockStmt:
		return g.stmtsEvents(v.List)
	case *ast.SwitchStmt:
		if v.Init != nil {
			evs = append(evs, g.stmtEvents(v.Init)...)
		}
		evs = append(evs, g.exprEvents(v.Tag)...)
		// a switch is a chain of alternatives: nested Ifs
		var build func(i int) []string
		clauses := v.Body.List
		build = func(i int) []string {
			if i >= len(clauses) {
				return nil
			}
			cc := clauses[i].(*ast.CaseClause)
			var cond []string
			for _, e := range cc.List {
				cond = append(cond, g.exprEvents(e)...)
			}
			return append(cond, "If "+coqList(g.stmtsEvents(cc.Body))+" "+coqList(build(i+1)))
		}
		return append(evs, build(0)...)
	case *ast.TypeSwitchStmt:
		if v.Init != nil {
			evs = append(evs, g.stmtEvents(v.Init)...)
		}
		evs = append(evs, g.stmtEvents(v.Assign)...)
		var build func(i int) []string
		clauses := v.Body.List
		build = func(i int) []string {
			if i >= len(clauses) {
				return nil
			}
			cc := clauses[i].(*ast.CaseClause)
			return []string{"If " + coqList(g.stmtsEvents(cc.Body)) + " " + coqList(build(i+1))}
		}
		return append(evs, build(0)...)
	case *ast.SelectStmt:
		// a select is a choice between its communication clauses; with a default clause the
		// communications do not block: they are reported as calls "select.trysend" / "select.tryrecv"
		hasDefault := false
		for _, cl := range v.Body.List {
			if cc, ok := cl.(*ast.CommClause); ok && cc.Comm == nil {
				hasDefault = true
			}
		}
		var build func(i int) []string
		clauses := v.Body.List
		build = func(i int) []string {
			if i >= len(clauses) {
				return nil
			}
			cc := clauses[i].(*ast.CommClause)
			var comm []string
			if cc.Comm != nil {
				comm = g.stmtEvents(cc.Comm)
				if hasDefault {
					for k, e := range comm {
						switch e {
						case "Send":
							comm[k] = "Call " + q("select.trysend")
						case "Recv":
							comm[k] = "Call " + q("select.tryrecv")
						}
					}
				}
			}
			body := append(comm, g.stmtsEvents(cc.Body)...)
			return []string{"If " + coqList(body) + " " + coqList(build(i+1))}
		}
		return append(evs, build(0)...)
	case *ast.LabeledStmt:
		return g.stmtEvents(v.Stmt)
	case *ast.BranchStmt, *ast.EmptyStmt:
		return nil
	}
	return evs
}

func genSkeleton(repo string, b *strings.Builder) {
	b.WriteString("\nFrom Coq Require Import String.\nFrom Pike Require Import Proofs.Lockset.\n")
	files := map[string]*ast.File{}
	var names []string
	for _, sf := range skFuncs {
		f, ok := files[sf.file]
		if !ok {
			f = parse(repo, sf.file)
			files[sf.file] = f
		}
		fd := findFunc(f, sf.recv, sf.name)
		cname := "sk_" + sf.recv + "_" + sf.name
		if fd == nil || fd.Body == nil {
			problem("skeleton: %s.%s not found in %s", sf.recv, sf.name, sf.file)
			fmt.Fprintf(b, "Definition %s : list event := [].\n", cname)
			names = append(names, cname)
			continue
		}
		g := &skGen{}
		if fd.Recv != nil && len(fd.Recv.List) == 1 && len(fd.Recv.List[0].Names) == 1 {
			g.recvVar = fd.Recv.List[0].Names[0].Name
		}
		evs := g.stmtsEvents(fd.Body.List)
		recvTxt := "func"
		if sf.recv != "" {
			recvTxt = fmt.Sprintf("method of %s (receiver %s)", sf.recv, g.recvVar)
		}
		fmt.Fprintf(b, "(* %s: %s, %s *)\nDefinition %s : list event :=\n  %s.\n", sf.file, sf.name, recvTxt, cname, coqList(evs))
		names = append(names, cname)
	}
	_ = names
}
