package main

import (
	"fmt"
	"go/ast"
	"strings"
)

func init() { extraGens = append(extraGens, genMaxAge) }

// regexLiteral finds `var name = regexp.MustCompile(<string literal>)`.
func regexLiteral(f *ast.File, name string) (string, bool) {
	e := topValue(f, name)
	call, ok := e.(*ast.CallExpr)
	if !ok || len(call.Args) != 1 {
		return "", false
	}
	sel, ok := call.Fun.(*ast.SelectorExpr)
	if !ok || sel.Sel.Name != "MustCompile" {
		return "", false
	}
	return strLit(call.Args[0])
}

func genMaxAge(repo string, b *strings.Builder) {
	f := parse(repo, "server/proxy.go")
	for _, it := range [][2]string{{"noCacheReg", "re_no_cache"}, {"sMaxAgeReg", "re_s_maxage"}, {"maxAgeReg", "re_max_age"}} {
		s, ok := regexLiteral(f, it[0])
		if !ok {
			problem("server/proxy.go: %s is not regexp.MustCompile(<literal>)", it[0])
		}
		fmt.Fprintf(b, "(* %s = %q *)\nDefinition %s : list N := %s.\n", it[0], s, it[1], coqBytes(s))
	}
}
