package main

import (
	"fmt"
	"go/ast"
	"go/token"
	"strings"
)

func init() { extraGens = append(extraGens, genLocation) }

// getPriority: priority = B; if len(l.Prefixes) != 0 { priority -= P }; if len(l.Hosts) != 0 { priority -= H }
func genLocation(repo string, b *strings.Builder) {
	f := parse(repo, "location/location.go")
	fd := findFunc(f, "Location", "getPriority")
	var base, dp, dh int64 = -1, -1, -1
	if fd == nil {
		problem("location.getPriority not found")
	} else {
		ast.Inspect(fd.Body, func(n ast.Node) bool {
			switch s := n.(type) {
			case *ast.AssignStmt:
				if len(s.Lhs) == 1 && isIdent(s.Lhs[0], "priority") && s.Tok == token.ASSIGN {
					if v, ok := intLit(s.Rhs[0]); ok {
						base = v
					}
				}
			case *ast.IfStmt:
				field := ""
				if be, ok := s.Cond.(*ast.BinaryExpr); ok && be.Op == token.NEQ {
					if call, ok := be.X.(*ast.CallExpr); ok && isIdent(call.Fun, "len") && len(call.Args) == 1 {
						if sel, ok := call.Args[0].(*ast.SelectorExpr); ok {
							field = sel.Sel.Name
						}
					}
				}
				if field != "" && len(s.Body.List) == 1 {
					if as, ok := s.Body.List[0].(*ast.AssignStmt); ok && as.Tok == token.SUB_ASSIGN && isIdent(as.Lhs[0], "priority") {
						if v, ok := intLit(as.Rhs[0]); ok {
							if field == "Prefixes" {
								dp = v
							} else if field == "Hosts" {
								dh = v
							}
						}
					}
				}
			}
			return true
		})
	}
	if base < 0 || dp < 0 || dh < 0 {
		problem("location.getPriority: base/prefix/host weights not found (%d,%d,%d)", base, dp, dh)
		base, dp, dh = 8, 4, 2
	}
	b.WriteString("From Pike Require Import Model.Location.\n")
	fmt.Fprintf(b, "Definition loc_pconsts : pconsts := {| p_base := %s; p_prefix := %s; p_host := %s |}.\n", z(base), z(dp), z(dh))
}
