package main

import (
	"fmt"
	"go/ast"
	"strings"
)

func init() { extraGens = append(extraGens, genLiterals) }

// selector constants of third-party packages that appear inside the literals below
var knownSelectors = map[string]string{
	"elton.HeaderIfModifiedSince": "If-Modified-Since",
	"elton.HeaderIfNoneMatch":     "If-None-Match",
	"elton.HeaderAcceptEncoding":  "Accept-Encoding",
	"elton.HeaderContentEncoding": "Content-Encoding",
	"elton.HeaderContentLength":   "Content-Length",
}

func stringList(e ast.Expr, what string) []string {
	cl, ok := e.(*ast.CompositeLit)
	if !ok {
		problem("%s is not a composite literal", what)
		return nil
	}
	var out []string
	for _, el := range cl.Elts {
		if s, ok := strLit(el); ok {
			out = append(out, s)
			continue
		}
		if sel, ok := el.(*ast.SelectorExpr); ok {
			if id, ok := sel.X.(*ast.Ident); ok {
				if v, ok := knownSelectors[id.Name+"."+sel.Sel.Name]; ok {
					out = append(out, v)
					continue
				}
			}
		}
		problem("%s: element that is neither a string literal nor a known constant", what)
	}
	return out
}

// genLiterals: named literals of the sources that the models restate (pinned per run).
func genLiterals(repo string, b *strings.Builder) {
	b.WriteString("\n(* named literals *)\n")
	hc := parse(repo, "cache/http_cache.go")
	fmt.Fprintf(b, "Definition lit_default_hit_for_pass_seconds : Z := %s.\n", z(topInt(hc, "defaultHitForPassSeconds", -1)))
	emit := func(name string, xs []string) {
		items := make([]string, len(xs))
		for i, x := range xs {
			items[i] = coqBytes(x)
		}
		fmt.Fprintf(b, "Definition %s : list (list N) := [%s].\n", name, strings.Join(items, "; "))
	}
	px := parse(repo, "server/proxy.go")
	if e := topValue(px, "fetchingIgnoreHeaders"); e != nil {
		emit("lit_fetching_ignore_headers", stringList(e, "fetchingIgnoreHeaders"))
	} else {
		problem("fetchingIgnoreHeaders not found")
		emit("lit_fetching_ignore_headers", nil)
	}
	hr := parse(repo, "cache/http_response.go")
	if e := topValue(hr, "ignoreHeaders"); e != nil {
		emit("lit_response_ignore_headers", stringList(e, "ignoreHeaders"))
	} else {
		problem("ignoreHeaders not found")
		emit("lit_response_ignore_headers", nil)
	}
}
