#!/bin/bash
# usage: seedverify.sh <seed-id> <agent-out-dir> <PROP> <demo-rel-path> <demo go test args...>
# Confirms a seeded change in a scratch worktree of /repo HEAD:
#  demo passes without the patch, fails with it, existing suite still passes with it.
# On success archives it under /verif/seeded/<seed-id>/ (patch rebased on HEAD).
id=$1; out=$2; prop=$3; demorel=$4; shift 4
export GOFLAGS=-mod=mod GOPROXY=off GOSUMDB=off
wt=/tmp/seedv-$id
git -C /repo worktree remove --force $wt 2>/dev/null
git -C /repo worktree add -q --detach $wt HEAD || exit 2
cleanup() { git -C /repo worktree remove --force $wt; }
trap cleanup EXIT
cd $wt
demofile=$(ls $out/*_test.go | head -1)
cp $demofile $wt/$demorel
r_without=$(go test -vet=off -count=1 "$@" 2>&1 | tail -1)
if ! git apply --3way $out/patch.diff 2>/tmp/seedv-$id.err; then echo "patch does not apply"; cat /tmp/seedv-$id.err; exit 3; fi
git reset -q
go build ./... || { echo "does not build"; exit 4; }
r_with=$(go test -vet=off -count=1 "$@" 2>&1 | tail -1)
rm $wt/$demorel
suite=$(go test -vet=off -count=1 ./app/ ./cache/ ./compress/ ./config/ ./location/ ./server/ ./store/ ./upstream/ ./util/ 2>&1 | grep -E "^(--- FAIL|FAIL|ok)" | tr '\n' ';')
echo "without: $r_without"; echo "with: $r_with"; echo "suite: $suite"
fails=$(echo "$suite" | tr ';' '\n' | grep -- "--- FAIL" | grep -v -E "TestEtcdClient|TestNewMongoStore|TestUpstreamServer" | wc -l)
case "$r_without" in ok*) ;; *) echo "REJECT: demo does not pass without patch"; exit 5;; esac
case "$r_with" in ok*) echo "REJECT: demo passes with patch"; exit 6;; esac
[ "$fails" = 0 ] || { echo "REJECT: suite fails with patch"; exit 7; }
mkdir -p /verif/seeded/$id
git add -N . 2>/dev/null; git diff > /verif/seeded/$id/patch.diff
cp $demofile /verif/seeded/$id/
python3 - <<PY
import json
m=json.load(open("$out/meta.json"))
m.update({"property":"$prop","demo_file":"$demorel","demo_args":"$*","confirmed":{"demo_without_patch":"$r_without","demo_with_patch":"$r_with","suite_with_patch":"$suite","worktree":"scratch worktree of /repo HEAD $(git -C /repo rev-parse --short HEAD), removed afterwards"}})
json.dump(m,open("/verif/seeded/$id/meta.json","w"),indent=1)
PY
echo "ARCHIVED /verif/seeded/$id"
